#!/usr/bin/env python3
"""Regenerate seeded/SUMMARY.md from seeded/*/meta.json."""
import glob, json, os
ROOT = os.path.dirname(os.path.dirname(os.path.abspath(__file__)))
rows = []
for d in sorted(glob.glob(os.path.join(ROOT, "seeded", "*", "meta.json"))):
    m = json.load(open(d))
    name = os.path.basename(os.path.dirname(d))
    by = []
    for c, v in m.get("checks", {}).items():
        if v["exit"] != 0 and v["violation_lines"]:
            nfi = any("no-failing-input-found" in l for l in v["violation_lines"])
            how = "; ".join(x.strip()[2:140] for x in v.get("detail", [])[:2])
            by.append("%s (%s%s)" % (c, "obligation only, no failing input" if nfi else "with replay", ": " + how if how else ""))
        else:
            by.append("%s: not reported" % c)
    rows.append((name, m.get("breaks"), "yes" if m["confirmation"].get("confirmed") else "NO", "caught" if m.get("caught") else "MISSED",
                 (m.get("summary") or "").replace("\n", " ")[:160], (m.get("needs_to_manifest") or "").replace("\n", " ")[:140], " / ".join(by), m.get("history", "")))
with open(os.path.join(ROOT, "seeded", "SUMMARY.md"), "w") as f:
    f.write("# Seeded changes (written by sub-agents from the property text alone) and what the checks say\n\n")
    f.write("Each row: a change that compiles and passes the 159 tests, confirmed in a scratch worktree (its demonstration fails with it and passes without), "
            "then applied to /repo and checked with the registered quick check. `history` records earlier verdicts before a check was strengthened.\n\n")
    f.write("| change | breaks | confirmed | verdict | what it does | needs | reported by | history |\n|---|---|---|---|---|---|---|---|\n")
    for r in rows:
        f.write("| " + " | ".join(str(x).replace("|", "/") for x in r) + " |\n")
    caught = sum(1 for r in rows if r[3] == "caught")
    f.write("\n%d changes, %d caught by the quick check of the property they break.\n" % (len(rows), caught))
print(open(os.path.join(ROOT, "seeded", "SUMMARY.md")).read()[-300:])
