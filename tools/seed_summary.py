#!/usr/bin/env python3
"""Regenerate seeded/SUMMARY.md from seeded/*/meta.json."""
import glob, json, os
ROOT = os.path.dirname(os.path.dirname(os.path.abspath(__file__)))
rows = []
for d in sorted(glob.glob(os.path.join(ROOT, "seeded", "*", "meta.json"))):
    m = json.load(open(d))
    name = os.path.basename(os.path.dirname(d))
    by = []
    for c, v in m.get("checks", {}).items():
        if v["exit"] != 0 and v["violation_lines"]:
            nfi = any("no-failing-input-found" in l for l in v["violation_lines"])
            how = "; ".join(x.strip()[2:140] for x in v.get("detail", [])[:2])
            by.append("%s (%s%s)" % (c, "obligation only, no failing input" if nfi else "with replay", ": " + how if how else ""))
        else:
            by.append("%s: not reported" % c)
    rc = os.path.join(os.path.dirname(d), "recheck.json")
    re_ = ""
    if os.path.exists(rc):
        r = json.load(open(rc))
        if not r.get("applies"):
            re_ = "patch no longer applies (code repaired since)"
        else:
            re_ = ("caught" if r.get("caught") else "NOT REPORTED by %s alone" % name.split("-")[0]) + (
                " (obligation only)" if any("no-failing-input" in l for l in r.get("lines", [])) else "") + " " + r.get("time", "")[:10]
    m["_recheck"] = re_
    rows.append((name, m.get("breaks"), "yes" if m["confirmation"].get("confirmed") else "NO", "caught" if m.get("caught") else "MISSED",
                 (m.get("summary") or "").replace("\n", " ")[:160], (m.get("needs_to_manifest") or "").replace("\n", " ")[:140], " / ".join(by), m.get("history", ""), m["_recheck"]))
with open(os.path.join(ROOT, "seeded", "SUMMARY.md"), "w") as f:
    f.write("# Seeded changes (written by sub-agents from the property text alone) and what the checks say\n\n")
    f.write("Each row: a change that compiles and passes the 159 tests, confirmed in a scratch worktree (its demonstration fails with it and passes without), "
            "then applied to /repo and checked with the registered quick check. `history` records earlier verdicts before a check was strengthened.\n\n")
    f.write("| change | breaks | confirmed | verdict | what it does | needs | reported by | history | re-run of the property's own quick check after the last change of the generators |\n|---|---|---|---|---|---|---|---|---|\n")
    for r in rows:
        f.write("| " + " | ".join(str(x).replace("|", "/") for x in r) + " |\n")
    caught = sum(1 for r in rows if r[3] == "caught")
    f.write("\n%d changes, %d caught by the quick check of the property they break.\n" % (len(rows), caught))
print(open(os.path.join(ROOT, "seeded", "SUMMARY.md")).read()[-300:])

# ---- harmless rewrites
rows = []
for d in sorted(glob.glob(os.path.join(ROOT, "benign", "*", "meta.json"))):
    m = json.load(open(d))
    alarms = []
    for c, v in m.get("checks", {}).items():
        if v["exit"] != 0:
            alarms.append(c + ": " + "; ".join(x.strip()[:110] for x in v.get("lines", [])[1:3]))
    if not m.get("lake_build_ok", True):
        alarms.append("lake build: " + ",".join(m.get("lake_errors", [])))
    desc = ""
    dp = os.path.join(os.path.dirname(d), "description.md")
    if os.path.exists(dp):
        desc = open(dp).read().replace("\n", " ")[:200]
    rows.append((m["id"], ",".join(m.get("files", [])), "quiet" if m.get("quiet") else "REPORTED", ",".join(sorted(m.get("checks", {}))), desc, " / ".join(alarms), m.get("time", "")))
if rows:
    with open(os.path.join(ROOT, "benign", "SUMMARY.md"), "w") as f:
        f.write("# Behaviour-preserving rewrites (written by sub-agents) and what the checks say\n\n"
                "Each is applied to a private clone; the Gen files are regenerated, the whole Lean project is built and the quick checks of every property "
                "anchored in a touched file are run (tools/benign_eval.py). `quiet` = nothing reported.\n\n")
        f.write("| rewrite | files | verdict | checks run | what it does | what was reported | run |\n|---|---|---|---|---|---|---|\n")
        for r in rows:
            f.write("| " + " | ".join(str(x).replace("|", "/") for x in r) + " |\n")
        f.write("\n%d rewrites, %d quiet.\n" % (len(rows), sum(1 for r in rows if r[2] == "quiet")))
    print(open(os.path.join(ROOT, "benign", "SUMMARY.md")).read()[-120:])
