#!/usr/bin/env python3
"""Evaluate one seeded change delivered by a sub-agent (see DESIGN.md, "Seeded changes").

  tools/seed_eval.py <Cxx> <n> [--checks Cxx,Cyy] [--tier quick|thorough]

1. confirm, in a scratch worktree under /tmp/confirm, that the change applies, builds, passes the
   pinned test suite, and that its demonstration fails with the change and passes without it;
2. apply the change to /repo, run the registered check(s), undo it (git checkout -- .);
3. store patch, demonstration, meta.json (with what was run and observed) under seeded/<Cxx>-<n>/.
Never run while another check is running: the checks rebuild from /repo's working tree."""
import json, os, re, shutil, subprocess, sys, time

ROOT = os.path.dirname(os.path.dirname(os.path.abspath(__file__)))
# a lane = a private copy of /verif and a private clone of /repo (several evaluations in parallel)
REPO = os.environ.get("VERIF_REPO", "/repo")
ENV = dict(os.environ, GOFLAGS="-mod=mod", GOPROXY="off", GOSUMDB="off", GOTOOLCHAIN="local")
TESTS = ["./p9/...", "./fsimpl/composefs/...", "./fsimpl/localfs/...", "./fsimpl/qids/...", "./fsimpl/staticfs/...", "./vecnet/..."]


def sh(cmd, cwd=None, timeout=1800):
    p = subprocess.run(cmd, cwd=cwd, env=ENV, capture_output=True, text=True, timeout=timeout)
    return p.returncode, (p.stdout + p.stderr)


def main():
    pid, n = sys.argv[1], sys.argv[2]
    checks = [pid]
    tier = "quick"
    if "--checks" in sys.argv:
        checks = sys.argv[sys.argv.index("--checks") + 1].split(",")
    if "--tier" in sys.argv:
        tier = sys.argv[sys.argv.index("--tier") + 1]
    src = "/tmp/seed"
    label = ""
    if "--src" in sys.argv:
        src = sys.argv[sys.argv.index("--src") + 1]
    if "--label" in sys.argv:
        label = sys.argv[sys.argv.index("--label") + 1] + "-"
    out = "%s/%s/_out" % (src, pid)
    diff = os.path.join(out, "change%s.diff" % n)
    demo = os.path.join(out, "demo%s_test.go.txt" % n)
    meta_all = json.load(open(os.path.join(out, "meta.json")))
    meta = [m for m in meta_all if str(m.get("change")) == str(n)][0]
    rc, o = sh(["git", "-C", REPO, "status", "--porcelain"])
    if o.strip():
        print("refusing: /repo has uncommitted changes:\n" + o)
        return 2
    # ---- 1. confirm in a scratch worktree
    wt = "/tmp/confirm/%s-%s%s" % (pid, label, n)
    if REPO != "/repo":
        wt = REPO + "-confirm-%s-%s%s" % (pid, label, n)
    os.makedirs("/tmp/confirm", exist_ok=True)
    sh(["git", "-C", REPO, "worktree", "remove", "--force", wt])
    rc, o = sh(["git", "-C", REPO, "worktree", "add", wt, "HEAD"])
    res = {"applies": False}
    try:
        first = open(demo).read().split("\n", 3)
        demo_src = open(demo).read()
        m = re.search(r"(p9|fsimpl/\w+|vecnet)\b", first[0] + " " + first[1])
        ddir = m.group(1) if m else "p9"
        race = "-race" in (first[0] + first[1] + first[2])
        dpath = os.path.join(wt, ddir, "zz_demo_%s_test.go" % n)
        run = re.search(r"-run\s+'?\"?([\w^$|]+)", first[0] + " " + first[1] + " " + first[2])
        runarg = ["-run", run.group(1)] if run else []
        def run_demo():
            cmd = ["go", "test", "-vet=off", "-count=1", "-timeout", "120s"] + (["-race"] if race else []) + runarg + ["./" + ddir + "/"]
            env = dict(ENV, CGO_ENABLED="1") if race else ENV
            p = subprocess.run(cmd, cwd=wt, env=env, capture_output=True, text=True, timeout=900)
            return p.returncode, (p.stdout + p.stderr)[-1500:]
        open(dpath, "w").write(demo_src)
        rc0, o0 = run_demo()
        res["demo_on_unchanged"] = {"exit": rc0, "tail": o0[-400:]}
        rc, o = sh(["git", "apply", diff], cwd=wt)
        res["applies"] = rc == 0
        if rc != 0:
            res["apply_error"] = o[-500:]
        else:
            rcb, ob = sh(["go", "build", "./..."], cwd=wt)
            res["builds"] = rcb == 0
            os.remove(dpath)
            rct, ot = sh(["go", "test", "-vet=off", "-count=1"] + TESTS, cwd=wt)
            res["suite_passes"] = rct == 0
            if rct != 0:
                res["suite_tail"] = ot[-600:]
            open(dpath, "w").write(demo_src)
            rc1, o1 = run_demo()
            res["demo_on_changed"] = {"exit": rc1, "tail": o1[-600:]}
        res["confirmed"] = bool(res.get("applies") and res.get("builds") and res.get("suite_passes") and
                                res["demo_on_unchanged"]["exit"] == 0 and res.get("demo_on_changed", {}).get("exit", 0) != 0)
    finally:
        sh(["git", "-C", REPO, "worktree", "remove", "--force", wt])
        shutil.rmtree(wt, ignore_errors=True)
    print(json.dumps(res, indent=1)[:3000])
    # ---- 2. run the checks against it
    verdicts = {}
    if res.get("applies") and res.get("builds"):
        rc, o = sh(["git", "-C", REPO, "apply", diff])
        try:
            for c in checks:
                t0 = time.time()
                p = subprocess.run([os.path.join(ROOT, "check"), c, "--tier", tier], cwd=ROOT, capture_output=True, text=True, timeout=7200,
                                   env=dict(os.environ, VERIF_NO_EVIDENCE="1", VERIF_REPO=REPO))
                lines = [l for l in (p.stdout + p.stderr).split("\n") if l.strip()]
                verdicts[c] = {"exit": p.returncode, "violation_lines": [l for l in lines if l.startswith("VIOLATION")],
                               "detail": [l for l in lines if l.strip().startswith("- [")][:6], "wall_s": round(time.time() - t0, 1)}
        finally:
            sh(["git", "-C", REPO, "checkout", "--", "."])
    print(json.dumps(verdicts, indent=1)[:3000])
    # ---- 3. keep it
    dst = os.path.join(ROOT, "seeded", "%s-%s%s" % (pid, label, n))
    os.makedirs(dst, exist_ok=True)
    history = ""
    try:
        prev = json.load(open(os.path.join(dst, "meta.json")))
        history = (prev.get("history", "") + " " if prev.get("history") else "") + "earlier run: %s by %s." % (
            "caught" if prev.get("caught") else "MISSED", ",".join(prev.get("checks", {}).keys()))
    except (OSError, ValueError):
        pass
    shutil.copy(diff, os.path.join(dst, "patch.diff"))
    shutil.copy(demo, os.path.join(dst, "demo_test.go.txt"))
    json.dump({"breaks": pid, "summary": meta.get("summary"), "needs_to_manifest": meta.get("needs_to_manifest"),
               "author_ran": meta.get("ran"), "confirmation": res, "checks": verdicts,
               "caught": any(v["exit"] != 0 and v["violation_lines"] for v in verdicts.values()), "history": history.strip()},
              open(os.path.join(dst, "meta.json"), "w"), indent=1)
    return 0


if __name__ == "__main__":
    sys.exit(main())
