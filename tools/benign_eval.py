#!/usr/bin/env python3
"""benign_eval.py <id> <patch.diff> [<desc.md>] [--checks Cxx,Cyy | --all]

Self-validation step (c) of DESIGN.md section 10: a behaviour-preserving rewrite of p9 must not be
reported.  Applies the patch to $VERIF_REPO (a private clone, see tools/make_lane.sh), then
  1. regenerates the Gen/*.lean files and builds the whole Lean project (every obligation of every
     property, in one go),
  2. runs the quick check of every property whose anchor files the patch touches (or --checks/--all),
and stores patch, description and outcome under benign/<id>/.  The tree is reverted afterwards.
Nothing here is registered in MANIFEST.json; it is tooling for evaluating the checks themselves.
"""
import json, os, re, subprocess, sys, time

ROOT = os.path.dirname(os.path.dirname(os.path.abspath(__file__)))
REPO = os.environ.get("VERIF_REPO", "/repo")
GOENV = dict(os.environ, GOFLAGS="-mod=mod", GOPROXY="off", GOSUMDB="off", GOTOOLCHAIN="local")


def sh(cmd, **kw):
    p = subprocess.run(cmd, stdout=subprocess.PIPE, stderr=subprocess.STDOUT, text=True, **kw)
    return p.returncode, p.stdout


def anchors():
    res = {}
    for l in open(os.path.join(ROOT, "properties.jsonl")):
        d = json.loads(l)
        res[d["id"]] = set(d["anchors"]["files"])
    return res


def main():
    if REPO == "/repo":
        sys.exit("refusing to run against /repo itself: use a lane (tools/make_lane.sh) and VERIF_REPO")
    ident, patch = sys.argv[1], sys.argv[2]
    desc = sys.argv[3] if len(sys.argv) > 3 and not sys.argv[3].startswith("--") else None
    checks = None
    if "--checks" in sys.argv:
        checks = sys.argv[sys.argv.index("--checks") + 1].split(",")
    rc, st = sh(["git", "-C", REPO, "status", "--porcelain"])
    if st.strip():
        sys.exit("lane repo not clean")
    rc, out = sh(["git", "-C", REPO, "apply", patch])
    if rc != 0:
        sys.exit("patch does not apply: " + out)
    meta = {"id": ident, "kind": "behaviour-preserving rewrite", "files": [], "checks": {}, "time": time.strftime("%F %T")}
    try:
        rc, names = sh(["git", "-C", REPO, "status", "--porcelain"])
        files = [l[3:].strip() for l in names.splitlines()]
        meta["files"] = files
        rc, out = sh(["go", "build", "./..."], cwd=REPO, env=GOENV)
        meta["builds"] = rc == 0
        if checks is None:
            if "--all" in sys.argv:
                checks = sorted(anchors())
            else:
                checks = sorted(p for p, fs in anchors().items() if fs & set(files))
        # stage 1: all obligations of all properties at once
        env = dict(GOENV, VERIF_REPO=REPO, VERIF_NO_EVIDENCE="1")
        rc, out = sh(["go", "build", "-o", os.path.join(ROOT, "build", "extract"), "."], cwd=os.path.join(ROOT, "extract"), env=env)
        rc, out = sh([os.path.join(ROOT, "build", "extract"), REPO, os.path.join(ROOT, "lean", "P9Model", "Gen")])
        meta["extract_ok"] = rc == 0
        if rc != 0:
            meta["extract_out"] = out[-1500:]
        rc, out = sh(["lake", "build"], cwd=os.path.join(ROOT, "lean"))
        meta["lake_build_ok"] = rc == 0
        if rc != 0:
            meta["lake_errors"] = sorted(set(re.findall(r"error: (P9Model/[\w/]+\.lean):\d+", out)))
            meta["lake_tail"] = out[-1500:]
        # stage 2: the quick checks
        for c in checks:
            t0 = time.time()
            rc, out = sh([os.path.join(ROOT, "check"), c], cwd=ROOT, env=env)
            lines = [l for l in out.splitlines() if "VIOLATION" in l or l.startswith("  - ") or "KNOWN-FINDING" in l]
            meta["checks"][c] = {"exit": rc, "seconds": round(time.time() - t0, 1), "lines": lines[:8]}
        meta["quiet"] = meta["lake_build_ok"] and meta["extract_ok"] and all(v["exit"] == 0 for v in meta["checks"].values())
    finally:
        sh(["git", "-C", REPO, "checkout", "--", "."])
        sh(["git", "-C", REPO, "clean", "-fdq"])
    d = os.path.join(ROOT, "benign", ident)
    os.makedirs(d, exist_ok=True)
    with open(patch) as f, open(os.path.join(d, "patch.diff"), "w") as g:
        g.write(f.read())
    if desc and os.path.exists(desc):
        with open(desc) as f, open(os.path.join(d, "description.md"), "w") as g:
            g.write(f.read())
    with open(os.path.join(d, "meta.json"), "w") as g:
        json.dump(meta, g, indent=1)
    print(json.dumps({k: meta[k] for k in ("id", "files", "extract_ok", "lake_build_ok", "quiet")}))
    for c, v in meta["checks"].items():
        if v["exit"] != 0:
            print(" ", c, v["lines"][:4])
    if not meta.get("lake_build_ok"):
        print("  lake:", meta.get("lake_errors"))


if __name__ == "__main__":
    main()
