#!/usr/bin/env python3
"""seed_recheck.py <id>...   (in a lane: VERIF_REPO must point at a private clone)

Re-runs the quick check of the property a stored seeded change breaks (seeded/<id>/patch.diff)
against the *current* checks, without repeating the confirmation of its demonstration, and writes
seeded/<id>/recheck.json.  Used after the generators of the checks were changed: a change that was
caught by luck before must still be caught."""
import json, os, subprocess, sys, time

ROOT = os.path.dirname(os.path.dirname(os.path.abspath(__file__)))
REPO = os.environ.get("VERIF_REPO", "/repo")
ENV = dict(os.environ, GOFLAGS="-mod=mod", GOPROXY="off", GOSUMDB="off", GOTOOLCHAIN="local", VERIF_NO_EVIDENCE="1", VERIF_REPO=REPO)


def sh(cmd, **kw):
    p = subprocess.run(cmd, stdout=subprocess.PIPE, stderr=subprocess.STDOUT, text=True, **kw)
    return p.returncode, p.stdout


def main():
    if REPO == "/repo":
        sys.exit("refusing to run against /repo itself")
    for ident in sys.argv[1:]:
        d = os.path.join(ROOT, "seeded", ident)
        prop = ident.split("-")[0]
        res = {"id": ident, "time": time.strftime("%F %T")}
        rc, out = sh(["git", "-C", REPO, "status", "--porcelain"])
        if out.strip():
            sys.exit("lane repo not clean")
        rc, out = sh(["git", "-C", REPO, "apply", os.path.join(d, "patch.diff")])
        if rc != 0:
            rc, out = sh(["git", "-C", REPO, "apply", "-3", os.path.join(d, "patch.diff")])
        if rc == 0:
            # a three-way application onto repaired code can leave nothing of the change
            rcq, outq = sh(["git", "-C", REPO, "diff", "--stat"])
            if not outq.strip():
                rc = 1
        if rc != 0:
            res["applies"] = False
            sh(["git", "-C", REPO, "reset", "-q", "--hard", "HEAD"])
            sh(["git", "-C", REPO, "clean", "-fdq"])
        else:
            res["applies"] = True
            try:
                rc, out = sh(["go", "build", "./..."], cwd=REPO, env=ENV)
                res["builds"] = rc == 0
                t0 = time.time()
                rc, out = sh([os.path.join(ROOT, "check"), prop], cwd=ROOT, env=ENV)
                res["exit"] = rc
                res["seconds"] = round(time.time() - t0, 1)
                res["lines"] = [l for l in out.splitlines() if "VIOLATION" in l or l.startswith("  - ")][:6]
                res["caught"] = rc != 0 and any("VIOLATION" in l for l in res["lines"])
            finally:
                sh(["git", "-C", REPO, "reset", "-q", "--hard", "HEAD"])
                sh(["git", "-C", REPO, "clean", "-fdq"])
        json.dump(res, open(os.path.join(d, "recheck.json"), "w"), indent=1)
        print(ident, "applies" if res.get("applies") else "DOES-NOT-APPLY", "caught" if res.get("caught") else ("MISSED" if res.get("applies") else "-"),
              "nfi" if any("no-failing-input" in l for l in res.get("lines", [])) else "", flush=True)


if __name__ == "__main__":
    main()
