#!/bin/bash
# make_lane.sh <n>: a private copy of /verif and a private clone of /repo under /tmp/lane<n>, so that
# seeded changes can be evaluated in parallel without touching /repo or /verif.
set -e
n=$1
L=/tmp/lane$n
rm -rf $L; mkdir -p $L
git clone -q /repo $L/repo
rsync -a --exclude seeded --exclude replays --exclude evidence /verif/ $L/verif/
mkdir -p $L/verif/seeded $L/verif/replays $L/verif/evidence
sed -i "s#=> /repo#=> $L/repo#" $L/verif/harness/go.mod
echo "$L ready"
