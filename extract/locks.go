package main

import (
	"fmt"
	"go/ast"
	"go/types"
	"path/filepath"
	"sort"
	"strings"
)

// genLocks regenerates Gen/Locks.lean: for every function of server.go, path_tree.go, handlers.go,
// pool.go, client.go and fsimpl/qids/qids.go an *event script* in execution order:
//   lock / rlock / unlock / runlock of a mutex (named by its field), calls of other scripted
//   functions (with the closure they are given, inlined), invocation of the function's own
//   closure parameter, backend File calls, accesses to the tracked shared fields.
// `defer` is honoured: deferred events are emitted at the function's end in LIFO order.
// The Lean side interprets the scripts (held-lock sets at every backend call / field access /
// acquisition) and checks predicates on them.

type lev struct {
	kind string // lock rlock unlock runlock backend access call param go
	a, b string
	sub  []lev
}

var trackedFields = map[string]string{
	"fids": "fidMu", "tags": "tagMu", "childNodes": "childMu", "childRefs": "childMu", "childRefNames": "childMu",
	"cache": "mu", "pending": "pendingMu", "paths": "mu",
}

func leanEv(e lev) string {
	var subs []string
	for _, s := range e.sub {
		subs = append(subs, leanEv(s))
	}
	return fmt.Sprintf("⟨%s, %s, %s, [%s]⟩", leanStr(e.kind), leanStr(e.a), leanStr(e.b), strings.Join(subs, ", "))
}

type lockCtx struct {
	p        *pkgInfo
	fileMeth map[string]bool
	known    map[string]bool // scripted function names (bare)
	param    string          // name of the func-typed parameter of the current function
	fileParm map[string]bool // parameters of the current function whose type is File
}

// fileRecv classifies the receiver of a File method call by its *type* (names are free to change):
// an expression of interface type File is a backend File; a field selection keeps its text
// ("ref.file": the reference it belongs to is what the guards are matched against), a File-typed
// parameter is "from" (its guard is established by the caller), any other local is "sf" – a File
// that no fid is bound to yet.
func (c *lockCtx) fileRecv(x ast.Expr) (string, bool) {
	tv, ok := c.p.info.Types[x]
	if !ok || tv.Type == nil {
		return "", false
	}
	nt, ok := tv.Type.(*types.Named)
	if !ok || nt.Obj().Name() != "File" {
		return "", false
	}
	if _, ok := nt.Underlying().(*types.Interface); !ok {
		return "", false
	}
	switch y := x.(type) {
	case *ast.Ident:
		if c.fileParm[y.Name] {
			return "from", true
		}
		return "sf", true
	case *ast.SelectorExpr:
		return norm(src(x)), true
	}
	return "sf", true
}

func mutexName(x ast.Expr) string {
	s := norm(src(x))
	if i := strings.LastIndex(s, "."); i >= 0 {
		return s[i+1:]
	}
	return s
}

func (c *lockCtx) exprEvents(n ast.Node, out *[]lev) {
	if n == nil {
		return
	}
	ast.Inspect(n, func(m ast.Node) bool {
		switch x := m.(type) {
		case *ast.FuncLit:
			return false // closures are handled where they are passed / deferred / spawned
		case *ast.SelectorExpr:
			if mu, ok := trackedFields[x.Sel.Name]; ok {
				recv := norm(src(x.X))
				// only fields of the tracked structs (receiver is a plain identifier or cs./p./c./m. chain)
				if !strings.Contains(recv, "(") {
					*out = append(*out, lev{kind: "access", a: x.Sel.Name, b: mu})
				}
			}
		case *ast.CallExpr:
			c.callEvents(x, out)
			return false
		}
		return true
	})
}

func (c *lockCtx) callEvents(x *ast.CallExpr, out *[]lev) {
	// arguments first (they are evaluated before the call), except closures
	var closure *ast.FuncLit
	for _, a := range x.Args {
		if fl, ok := a.(*ast.FuncLit); ok {
			closure = fl
			continue
		}
		c.exprEvents(a, out)
	}
	switch f := x.Fun.(type) {
	case *ast.SelectorExpr:
		name := f.Sel.Name
		switch name {
		case "Lock", "RLock", "Unlock", "RUnlock":
			if strings.HasSuffix(mutexName(f.X), "Mu") || mutexName(f.X) == "mu" {
				*out = append(*out, lev{kind: strings.ToLower(name), a: mutexName(f.X)})
				return
			}
		}
		c.exprEvents(f.X, out)
		recv := norm(src(f.X))
		if c.fileMeth[name] {
			if label, ok := c.fileRecv(f.X); ok {
				*out = append(*out, lev{kind: "backend", a: name, b: label})
				return
			}
		}
		if c.known[name] {
			e := lev{kind: "call", a: name, b: recv}
			if closure != nil {
				c.blockEvents(closure.Body, &e.sub)
			}
			*out = append(*out, e)
			return
		}
		if closure != nil { // closure given to an unknown function: assume it runs there
			c.blockEvents(closure.Body, out)
		}
	case *ast.Ident:
		if f.Name == c.param && c.param != "" {
			*out = append(*out, lev{kind: "param"})
			return
		}
		if f.Name == "send" || f.Name == "recv" || f.Name == "recvLimit" { // a frame written to / read from the connection
			nm := strings.TrimSuffix(f.Name, "Limit")
			*out = append(*out, lev{kind: "access", a: "wire." + nm, b: nm + "Mu"})
			return
		}
		if c.known[f.Name] {
			e := lev{kind: "call", a: f.Name}
			if closure != nil {
				c.blockEvents(closure.Body, &e.sub)
			}
			*out = append(*out, e)
			return
		}
		if closure != nil {
			c.blockEvents(closure.Body, out)
		}
	case *ast.FuncLit: // immediately invoked closure
		c.blockEvents(f.Body, out)
	}
}

// blockEvents scripts a block; defers are collected and replayed LIFO at its function's end.
func (c *lockCtx) blockEvents(b *ast.BlockStmt, out *[]lev) {
	var defers [][]lev
	c.stmts(b.List, out, &defers)
	for i := len(defers) - 1; i >= 0; i-- {
		*out = append(*out, defers[i]...)
	}
}

// lockCall returns (mutex source text, method) if the statement is a bare X.Lock() / X.RLock() /
// X.Unlock() / X.RUnlock() call (possibly deferred).
func lockCall(call *ast.CallExpr) (string, string) {
	if sel, ok := call.Fun.(*ast.SelectorExpr); ok {
		switch sel.Sel.Name {
		case "Lock", "RLock", "Unlock", "RUnlock":
			return norm(src(sel.X)), sel.Sel.Name
		}
	}
	return "", ""
}

func (c *lockCtx) stmts(list []ast.Stmt, out *[]lev, defers *[][]lev) {
	for i, st := range list {
		// the Go idiom `X.Lock(); defer X.Unlock()`: the release also happens while a panic unwinds
		if es, ok := st.(*ast.ExprStmt); ok && i+1 < len(list) {
			if call, ok := es.X.(*ast.CallExpr); ok {
				if mu, meth := lockCall(call); meth == "Lock" || meth == "RLock" {
					if ds, ok := list[i+1].(*ast.DeferStmt); ok {
						if mu2, meth2 := lockCall(ds.Call); mu2 == mu && (meth2 == "Unlock" || meth2 == "RUnlock") {
							n := len(*out)
							c.exprEvents(es.X, out)
							for k := n; k < len(*out); k++ {
								if (*out)[k].kind == "lock" || (*out)[k].kind == "rlock" {
									(*out)[k].b = "defer"
								}
							}
							continue
						}
					}
				}
			}
		}
		switch s := st.(type) {
		case *ast.DeferStmt:
			var d []lev
			if fl, ok := s.Call.Fun.(*ast.FuncLit); ok {
				c.blockEvents(fl.Body, &d)
			} else {
				c.callEvents(s.Call, &d)
			}
			*defers = append(*defers, d)
		case *ast.GoStmt:
			var g []lev
			if fl, ok := s.Call.Fun.(*ast.FuncLit); ok {
				c.blockEvents(fl.Body, &g)
			} else {
				c.callEvents(s.Call, &g)
			}
			*out = append(*out, lev{kind: "go", sub: g})
		case *ast.BlockStmt:
			c.stmts(s.List, out, defers)
		case *ast.IfStmt:
			if s.Init != nil {
				c.stmts([]ast.Stmt{s.Init}, out, defers)
			}
			c.exprEvents(s.Cond, out)
			// a branch is scripted as a nested block; one that ends in `return` / panic does not
			// influence the lock state of what follows the if statement
			br := lev{kind: "branch", a: terminates(s.Body.List)}
			c.stmts(s.Body.List, &br.sub, defers)
			*out = append(*out, br)
			if s.Else != nil {
				eb := lev{kind: "branch"}
				if blk, ok := s.Else.(*ast.BlockStmt); ok {
					eb.a = terminates(blk.List)
					c.stmts(blk.List, &eb.sub, defers)
				} else {
					c.stmts([]ast.Stmt{s.Else}, &eb.sub, defers)
				}
				*out = append(*out, eb)
			}
		case *ast.ForStmt:
			if s.Init != nil {
				c.stmts([]ast.Stmt{s.Init}, out, defers)
			}
			c.exprEvents(s.Cond, out)
			c.stmts(s.Body.List, out, defers)
		case *ast.RangeStmt:
			c.exprEvents(s.X, out)
			c.stmts(s.Body.List, out, defers)
		case *ast.SwitchStmt:
			if s.Init != nil {
				c.stmts([]ast.Stmt{s.Init}, out, defers)
			}
			c.exprEvents(s.Tag, out)
			for _, cc := range s.Body.List {
				c.stmts(cc.(*ast.CaseClause).Body, out, defers)
			}
		case *ast.SelectStmt:
			for _, cc := range s.Body.List {
				c.stmts(cc.(*ast.CommClause).Body, out, defers)
			}
		case *ast.ReturnStmt:
			for _, r := range s.Results {
				c.exprEvents(r, out)
			}
		default:
			c.exprEvents(st, out)
		}
	}
}

func terminates(list []ast.Stmt) string {
	if len(list) == 0 {
		return ""
	}
	switch l := list[len(list)-1].(type) {
	case *ast.ReturnStmt:
		return "ret"
	case *ast.ExprStmt:
		if c, ok := l.X.(*ast.CallExpr); ok && norm(src(c.Fun)) == "panic" {
			return "ret"
		}
	}
	return ""
}

func genLocks(p *pkgInfo, repo, out string) {
	qp := load(filepath.Join(repo, "fsimpl", "qids"), []string{"qids.go"})
	fileMeth := map[string]bool{}
	for _, f := range p.files {
		ast.Inspect(f, func(n ast.Node) bool {
			if ts, ok := n.(*ast.TypeSpec); ok && ts.Name.Name == "File" {
				if it, ok := ts.Type.(*ast.InterfaceType); ok {
					for _, m := range it.Methods.List {
						for _, nm := range m.Names {
							fileMeth[nm.Name] = true
						}
					}
				}
			}
			return true
		})
	}
	type fn struct {
		name string
		fd   *ast.FuncDecl
	}
	var fns []fn
	known := map[string]bool{}
	collect := func(pk *pkgInfo, files map[string]bool) {
		add := func(name string, fd *ast.FuncDecl) {
			if fd.Body == nil || !files[filepath.Base(fset.Position(fd.Pos()).Filename)] {
				return
			}
			bare := name
			if i := strings.LastIndex(name, "."); i >= 0 {
				bare = name[i+1:]
			}
			if bare == "String" || bare == "Error" || bare == "encode" || bare == "decode" || bare == "typ" {
				return
			}
			known[bare] = true
			fns = append(fns, fn{name, fd})
		}
		for k, fd := range pk.methods {
			add(k, fd)
		}
		for k, fd := range pk.funcs {
			add(k, fd)
		}
	}
	collect(p, map[string]bool{"server.go": true, "path_tree.go": true, "handlers.go": true, "pool.go": true, "client.go": true})
	collect(qp, map[string]bool{"qids.go": true})
	// File methods are backend calls, never scripted functions (Walk, Open ... also exist on clientFile)
	for m := range fileMeth {
		delete(known, m)
	}
	sort.Slice(fns, func(i, j int) bool { return fns[i].name < fns[j].name })
	var sb strings.Builder
	sb.WriteString("-- GENERATED by /verif/extract (lock / access / backend-call scripts). Do not edit.\nnamespace P9.Gen\n\n")
	sb.WriteString("structure LEv where\n  kind : String\n  a : String\n  b : String\n  sub : List LEv\nderiving Repr\n\n")
	var items []string
	for _, f := range fns {
		c := &lockCtx{p: p, fileMeth: fileMeth, known: known, fileParm: map[string]bool{}}
		if f.fd.Type.Params != nil {
			for _, prm := range f.fd.Type.Params.List {
				if id, ok := prm.Type.(*ast.Ident); ok && id.Name == "File" {
					for _, nm := range prm.Names {
						c.fileParm[nm.Name] = true
					}
				}
				if _, ok := prm.Type.(*ast.FuncType); ok && len(prm.Names) > 0 {
					c.param = prm.Names[0].Name
				}
			}
		}
		var evs []lev
		c.blockEvents(f.fd.Body, &evs)
		var es []string
		for _, e := range evs {
			es = append(es, leanEv(e))
		}
		bare := f.name
		if i := strings.LastIndex(bare, "."); i >= 0 {
			bare = bare[i+1:]
		}
		items = append(items, fmt.Sprintf("  (%s, %s, [%s])", leanStr(f.name), leanStr(bare), strings.Join(es, ", ")))
	}
	fmt.Fprintf(&sb, "def lockScripts : List (String × String × List LEv) := [\n%s\n]\n\nend P9.Gen\n", strings.Join(items, ",\n"))
	writeIfChanged(filepath.Join(out, "Locks.lean"), sb.String())
}
