package main

import (
	"go/ast"
	"go/constant"
	"go/importer"
	"go/parser"
	"go/types"
	"strings"
)

// evalExprs type-checks a tiny synthetic file `package x; <imports>; var _ = []uint64{uint64(e1), ...}`
// and returns the constant value of each expression.
func evalExprs(exprs []string, imports string) map[string]string {
	var sb strings.Builder
	sb.WriteString("package x\n" + imports + "\nvar V = []uint64{\n")
	for _, e := range exprs {
		sb.WriteString("uint64(" + e + "),\n")
	}
	sb.WriteString("}\n")
	f, err := parser.ParseFile(fset, "eval.go", sb.String(), 0)
	out := map[string]string{}
	if err != nil {
		return out
	}
	info := &types.Info{Types: map[ast.Expr]types.TypeAndValue{}}
	conf := types.Config{Importer: importer.ForCompiler(fset, "source", nil), Error: func(error) {}}
	conf.Check("x", fset, []*ast.File{f}, info)
	ast.Inspect(f, func(n ast.Node) bool {
		if cl, ok := n.(*ast.CompositeLit); ok {
			for i, el := range cl.Elts {
				if tv, ok := info.Types[el]; ok && tv.Value != nil && i < len(exprs) {
					out[exprs[i]] = constant.ToInt(tv.Value).ExactString()
				}
			}
		}
		return true
	})
	for _, e := range exprs {
		if _, ok := out[e]; !ok {
			out[e] = "0"
		}
	}
	return out
}
