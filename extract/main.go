// Command extract regenerates Lean facts (P9Model/Gen/*.lean) from the Go sources of
// hugelgupf/p9 on every run.  It is a translator of *facts* (message layouts, constants,
// handler / stub / lock scripts), deliberately not a Go-to-Lean compiler: anything it cannot
// read is emitted as an `unknown` item, which makes the Lean obligation that consumes it fail.
//
// usage: extract <repo> <outdir>
package main

import (
	"fmt"
	"go/ast"
	"go/constant"
	"go/importer"
	"go/parser"
	"go/printer"
	"go/token"
	"go/types"
	"os"
	"path/filepath"
	"sort"
	"strconv"
	"strings"
)

var fset = token.NewFileSet()

func src(n ast.Node) string {
	if n == nil {
		return ""
	}
	var sb strings.Builder
	printer.Fprint(&sb, fset, n)
	return sb.String()
}

func norm(s string) string { return strings.Join(strings.Fields(s), " ") }

func leanStr(s string) string { return strconv.Quote(s) }

type pkgInfo struct {
	dir     string
	files   []*ast.File
	info    *types.Info
	pkg     *types.Package
	structs map[string]*ast.StructType
	methods map[string]*ast.FuncDecl // "T.m"
	funcs   map[string]*ast.FuncDecl
}

func load(dir string, names []string) *pkgInfo {
	p := &pkgInfo{dir: dir, structs: map[string]*ast.StructType{}, methods: map[string]*ast.FuncDecl{}, funcs: map[string]*ast.FuncDecl{}}
	for _, n := range names {
		f, err := parser.ParseFile(fset, filepath.Join(dir, n), nil, parser.ParseComments)
		if err != nil {
			fmt.Fprintf(os.Stderr, "extract: %v\n", err)
			continue
		}
		p.files = append(p.files, f)
	}
	for _, f := range p.files {
		for _, d := range f.Decls {
			switch d := d.(type) {
			case *ast.GenDecl:
				for _, s := range d.Specs {
					if ts, ok := s.(*ast.TypeSpec); ok {
						if st, ok := ts.Type.(*ast.StructType); ok {
							p.structs[ts.Name.Name] = st
						}
					}
				}
			case *ast.FuncDecl:
				if d.Recv != nil && len(d.Recv.List) == 1 {
					rt := strings.TrimPrefix(src(d.Recv.List[0].Type), "*")
					p.methods[rt+"."+d.Name.Name] = d
				} else {
					p.funcs[d.Name.Name] = d
				}
			}
		}
	}
	p.info = &types.Info{Types: map[ast.Expr]types.TypeAndValue{}, Defs: map[*ast.Ident]types.Object{}, Uses: map[*ast.Ident]types.Object{}}
	conf := types.Config{Importer: importer.ForCompiler(fset, "source", nil), Error: func(error) {}, FakeImportC: true}
	p.pkg, _ = conf.Check("p", fset, p.files, p.info)
	return p
}

func (p *pkgInfo) constVal(e ast.Expr) (string, bool) {
	if tv, ok := p.info.Types[e]; ok && tv.Value != nil {
		if v, ok := constant.Uint64Val(constant.ToInt(tv.Value)); ok {
			return strconv.FormatUint(v, 10), true
		}
		if tv.Value.Kind() == constant.String {
			return leanStr(constant.StringVal(tv.Value)), true
		}
	}
	return "", false
}

// ---------------------------------------------------------------------------------
// canonical form of a function: its own variables (receiver, parameters, results, := / var / range
// declarations) renamed v0, v1, ... in order of declaration, so that facts read off the text of a
// function survive a renaming of its locals.

func declaredNames(fd *ast.FuncDecl) []string {
	var names []string
	seen := map[string]bool{}
	add := func(id *ast.Ident) {
		if id != nil && id.Name != "_" && !seen[id.Name] {
			seen[id.Name] = true
			names = append(names, id.Name)
		}
	}
	fl := func(l *ast.FieldList) {
		if l == nil {
			return
		}
		for _, f := range l.List {
			for _, n := range f.Names {
				add(n)
			}
		}
	}
	fl(fd.Recv)
	fl(fd.Type.Params)
	fl(fd.Type.Results)
	ast.Inspect(fd.Body, func(n ast.Node) bool {
		switch x := n.(type) {
		case *ast.AssignStmt:
			if x.Tok == token.DEFINE {
				for _, l := range x.Lhs {
					if id, ok := l.(*ast.Ident); ok {
						add(id)
					}
				}
			}
		case *ast.RangeStmt:
			if x.Tok == token.DEFINE {
				if id, ok := x.Key.(*ast.Ident); ok {
					add(id)
				}
				if id, ok := x.Value.(*ast.Ident); ok {
					add(id)
				}
			}
		case *ast.ValueSpec:
			for _, n := range x.Names {
				add(n)
			}
		case *ast.FuncLit:
			fl(x.Type.Params)
			fl(x.Type.Results)
		}
		return true
	})
	return names
}

// canonNode prints n (a part of fd) with fd's own variables renamed canonically.
func canonNode(fd *ast.FuncDecl, n ast.Node) string {
	ren := map[string]string{}
	for i, nm := range declaredNames(fd) {
		ren[nm] = fmt.Sprintf("v%d", i)
	}
	type saved struct {
		id   *ast.Ident
		name string
	}
	var undo []saved
	skip := map[*ast.Ident]bool{}
	ast.Inspect(fd, func(m ast.Node) bool {
		switch x := m.(type) {
		case *ast.SelectorExpr:
			skip[x.Sel] = true
		case *ast.KeyValueExpr:
			if id, ok := x.Key.(*ast.Ident); ok {
				skip[id] = true
			}
		}
		return true
	})
	ast.Inspect(fd, func(m ast.Node) bool {
		if id, ok := m.(*ast.Ident); ok && !skip[id] {
			if c, ok := ren[id.Name]; ok {
				undo = append(undo, saved{id, id.Name})
				id.Name = c
			}
		}
		return true
	})
	out := norm(src(n))
	for _, u := range undo {
		u.id.Name = u.name
	}
	return out
}

// canonText: the canonical form of a function given as source text (the expectations below are
// written with readable names and put through the same renaming).
func canonText(fn string) string {
	f, err := parser.ParseFile(token.NewFileSet(), "x.go", "package x\n"+fn, 0)
	if err != nil {
		panic("canonText: " + err.Error() + "\n" + fn)
	}
	fd := f.Decls[0].(*ast.FuncDecl)
	var sb strings.Builder
	ren := map[string]string{}
	for i, nm := range declaredNames(fd) {
		ren[nm] = fmt.Sprintf("v%d", i)
	}
	skip := map[*ast.Ident]bool{}
	ast.Inspect(fd, func(m ast.Node) bool {
		switch x := m.(type) {
		case *ast.SelectorExpr:
			skip[x.Sel] = true
		case *ast.KeyValueExpr:
			if id, ok := x.Key.(*ast.Ident); ok {
				skip[id] = true
			}
		}
		return true
	})
	ast.Inspect(fd, func(m ast.Node) bool {
		if id, ok := m.(*ast.Ident); ok && !skip[id] {
			if c, ok := ren[id.Name]; ok {
				id.Name = c
			}
		}
		return true
	})
	printer.Fprint(&sb, token.NewFileSet(), fd.Body)
	return norm(sb.String())
}

// ---------------------------------------------------------------------------------
// buffer primitives

type prim struct {
	width int // bytes; -1 = string
	mask  uint64
	ok    bool
}

func (p *pkgInfo) resolvePrim(name string, write bool, depth int) prim {
	if depth > 6 {
		return prim{}
	}
	fd := p.methods["buffer."+name]
	if fd == nil || fd.Body == nil {
		return prim{}
	}
	// (compared in canonical form: the names of receiver, parameters and locals are free)
	body := canonNode(fd, fd.Body)
	if name == "WriteString" {
		want := canonText("func (b *buffer) WriteString(s string) { b.Write16(uint16(len(s))); for i := 0; i < len(s); i++ { b.Write8(byte(s[i])) } }")
		if body == want && p.resolvePrim("Write16", true, 0).width == 2 && p.resolvePrim("Write8", true, 0).width == 1 {
			return prim{width: -1, ok: true}
		}
		if w, ok := baseBySignature(fd, name, write); ok && w == -1 {
			return prim{width: -1, ok: true}
		}
		return prim{}
	}
	if name == "ReadString" {
		want := canonText(`func (b *buffer) ReadString() string { l := b.Read16(); if !b.has(int(l)) { b.markOverrun(); return "" }; bs := make([]byte, l); for i := 0; i < int(l); i++ { bs[i] = byte(b.Read8()) }; return string(bs) }`)
		if body == want && p.resolvePrim("Read16", false, 0).width == 2 && p.resolvePrim("Read8", false, 0).width == 1 {
			return prim{width: -1, ok: true}
		}
		if w, ok := baseBySignature(fd, name, write); ok && w == -1 {
			return prim{width: -1, ok: true}
		}
		return prim{}
	}
	// base cases
	if write {
		for _, w := range []int{1, 2, 4, 8} {
			if w == 1 && body == canonText("func (b *buffer) Write8(v uint8) { b.append(1)[0] = byte(v) }") {
				return prim{width: 1, ok: true}
			}
			if body == canonText(fmt.Sprintf("func (b *buffer) W(v uint%d) { order.PutUint%d(b.append(%d), v) }", 8*w, 8*w, w)) && p.littleEndian() {
				return prim{width: w, ok: true}
			}
		}
	} else {
		if body == canonText("func (b *buffer) Read8() uint8 { v, ok := b.consume(1); if !ok { return 0 }; return uint8(v[0]) }") {
			return prim{width: 1, ok: true}
		}
		for _, w := range []int{2, 4, 8} {
			if body == canonText(fmt.Sprintf("func (b *buffer) R() uint%d { v, ok := b.consume(%d); if !ok { return 0 }; return order.Uint%d(v) }", 8*w, w, 8*w)) && p.littleEndian() {
				return prim{width: w, ok: true}
			}
		}
	}
	// not in the recognised form: the base primitives are then taken by name and signature
	// (ReadN() uintN, WriteN(v uintN), ReadString() string, WriteString(s string)); what they do is
	// checked against the model on the running code by mode kprim (Gen.primTable is the claim)
	if w, ok := baseBySignature(fd, name, write); ok {
		if w == -1 || p.littleEndian() {
			return prim{width: w, ok: true}
		}
	}
	// delegation: exactly one statement, calling another primitive through conversions / a mask
	if len(fd.Body.List) != 1 {
		return prim{}
	}
	var e ast.Expr
	switch s := fd.Body.List[0].(type) {
	case *ast.ExprStmt:
		e = s.X
	case *ast.ReturnStmt:
		if len(s.Results) == 1 {
			e = s.Results[0]
		}
	}
	var mask uint64
	var find func(e ast.Expr) prim
	find = func(e ast.Expr) prim {
		switch x := e.(type) {
		case *ast.ParenExpr:
			return find(x.X)
		case *ast.BinaryExpr:
			if x.Op == token.AND {
				if tv, ok := p.info.Types[x.Y]; ok && tv.Value != nil {
					m, _ := constant.Uint64Val(constant.ToInt(tv.Value))
					mask = m
					return find(x.X)
				}
			}
			return prim{}
		case *ast.CallExpr:
			if sel, ok := x.Fun.(*ast.SelectorExpr); ok && src(sel.X) == "b" {
				r := p.resolvePrim(sel.Sel.Name, write, depth+1)
				if write && len(x.Args) == 1 {
					// the argument may itself carry the mask: b.WriteFileMode(perm & permissionsMask)
					var am func(a ast.Expr)
					am = func(a ast.Expr) {
						switch y := a.(type) {
						case *ast.ParenExpr:
							am(y.X)
						case *ast.CallExpr:
							if len(y.Args) == 1 {
								am(y.Args[0])
							}
						case *ast.BinaryExpr:
							if y.Op == token.AND {
								if tv, ok := p.info.Types[y.Y]; ok && tv.Value != nil {
									m, _ := constant.Uint64Val(constant.ToInt(tv.Value))
									mask = m
								}
							}
						}
					}
					am(x.Args[0])
				}
				return r
			}
			if len(x.Args) == 1 { // conversion T(expr)
				return find(x.Args[0])
			}
		}
		return prim{}
	}
	r := find(e)
	if r.ok && mask != 0 {
		if r.mask != 0 {
			r.mask &= mask
		} else {
			r.mask = mask
		}
	}
	return r
}

func (p *pkgInfo) littleEndian() bool {
	for _, f := range p.files {
		for _, d := range f.Decls {
			if gd, ok := d.(*ast.GenDecl); ok && gd.Tok == token.VAR {
				for _, s := range gd.Specs {
					vs := s.(*ast.ValueSpec)
					if len(vs.Names) == 1 && vs.Names[0].Name == "order" && len(vs.Values) == 1 {
						return src(vs.Values[0]) == "binary.LittleEndian"
					}
				}
			}
		}
	}
	return false
}

func bitsOf(mask uint64) (int, bool) {
	n := 0
	for mask&1 == 1 {
		mask >>= 1
		n++
	}
	return n, mask == 0 && n > 0
}

func (pr prim) akind() string {
	if !pr.ok {
		return ""
	}
	if pr.width == -1 {
		return ".str"
	}
	if pr.mask != 0 {
		if n, ok := bitsOf(pr.mask); ok {
			return fmt.Sprintf(".masked %d %d", pr.width, n)
		}
		return ""
	}
	return fmt.Sprintf(".int %d", pr.width)
}

// ---------------------------------------------------------------------------------
// layouts

type field struct {
	name string
	kind string // Lean Kind term, or "" for unknown
	note string
}

type layout struct {
	fields  []field
	pay     string   // none | data | dirents
	resets  []string // slice fields reset before append (decode)
	lists   []string
	stops   []string // counted-list decode loops that stop at the first overrun
	unknown []string
}

func (l *layout) unk(s string) { l.unknown = append(l.unknown, norm(s)) }

// fieldType returns the declared type expression of field path (relative to struct typ).
func (p *pkgInfo) fieldType(typ string, path []string) string {
	cur := typ
	for _, c := range path {
		st := p.structs[cur]
		if st == nil {
			return ""
		}
		found := ""
		for _, f := range st.Fields.List {
			if len(f.Names) == 0 {
				if strings.TrimPrefix(src(f.Type), "*") == c {
					found = src(f.Type)
				}
			}
			for _, n := range f.Names {
				if n.Name == c {
					found = src(f.Type)
				}
			}
		}
		if found == "" {
			return ""
		}
		cur = found
	}
	return cur
}

// pathOf turns recv.A.B (possibly under conversions) into ["A","B"].
func pathOf(e ast.Expr, recv string) ([]string, bool) {
	switch x := e.(type) {
	case *ast.ParenExpr:
		return pathOf(x.X, recv)
	case *ast.Ident:
		if x.Name == recv {
			return nil, true
		}
	case *ast.SelectorExpr:
		if pre, ok := pathOf(x.X, recv); ok {
			return append(pre, x.Sel.Name), true
		}
	case *ast.CallExpr: // conversion
		if len(x.Args) == 1 {
			if _, isSel := x.Fun.(*ast.SelectorExpr); !isSel {
				if id, ok := x.Fun.(*ast.Ident); ok && id.Name != "len" {
					return pathOf(x.Args[0], recv)
				}
			}
		}
	}
	return nil, false
}

func lenOf(e ast.Expr, recv string) ([]string, bool) {
	// uintNN(len(recv.F))
	c, ok := e.(*ast.CallExpr)
	if !ok || len(c.Args) != 1 {
		return nil, false
	}
	inner, ok := c.Args[0].(*ast.CallExpr)
	if !ok || src(inner.Fun) != "len" || len(inner.Args) != 1 {
		return nil, false
	}
	return pathOf(inner.Args[0], recv)
}

var maskTables = map[string][][2]string{} // "AttrMask.enc" -> [(field, value)]

// isBoolStruct: all fields bool.
func (p *pkgInfo) isBoolStruct(typ string) bool {
	st := p.structs[typ]
	if st == nil || len(st.Fields.List) == 0 {
		return false
	}
	for _, f := range st.Fields.List {
		if src(f.Type) != "bool" {
			return false
		}
	}
	return true
}

// maskLayout reads the bit table of a bool-struct's encode/decode.
func (p *pkgInfo) maskLayout(typ, dir string) (string, bool) {
	fd := p.methods[typ+"."+dir]
	if fd == nil {
		return "", false
	}
	recv := fd.Recv.List[0].Names[0].Name
	var table [][2]string
	width := 0
	body := fd.Body
	if dir == "encode" {
		// either builds the mask itself or calls recv.bitmask()
		collect := func(b *ast.BlockStmt, r string) bool {
			for _, st := range b.List {
				switch s := st.(type) {
				case *ast.DeclStmt: // var mask uintNN
				case *ast.IfStmt:
					pa, ok := pathOf(s.Cond, r)
					if !ok || len(pa) != 1 || len(s.Body.List) != 1 || s.Else != nil {
						return false
					}
					as, ok := s.Body.List[0].(*ast.AssignStmt)
					if !ok || as.Tok != token.OR_ASSIGN || src(as.Lhs[0]) != "mask" {
						return false
					}
					v, ok := p.constVal(as.Rhs[0])
					if !ok {
						return false
					}
					table = append(table, [2]string{pa[0], v})
				case *ast.ExprStmt:
					c, ok := s.X.(*ast.CallExpr)
					if !ok || len(c.Args) != 1 || src(c.Args[0]) != "mask" {
						return false
					}
					pr := p.resolvePrim(c.Fun.(*ast.SelectorExpr).Sel.Name, true, 0)
					width = pr.width
				case *ast.ReturnStmt:
					if len(s.Results) != 1 || src(s.Results[0]) != "mask" {
						return false
					}
				default:
					return false
				}
			}
			return true
		}
		if len(body.List) == 1 && strings.HasSuffix(norm(src(body.List[0])), "("+recv+".bitmask())") {
			c := body.List[0].(*ast.ExprStmt).X.(*ast.CallExpr)
			width = p.resolvePrim(c.Fun.(*ast.SelectorExpr).Sel.Name, true, 0).width
			bm := p.methods[typ+".bitmask"]
			if bm == nil || !collect(bm.Body, bm.Recv.List[0].Names[0].Name) {
				return "", false
			}
		} else if !collect(body, recv) {
			return "", false
		}
	} else {
		for i, st := range body.List {
			as, ok := st.(*ast.AssignStmt)
			if !ok || len(as.Lhs) != 1 || len(as.Rhs) != 1 {
				return "", false
			}
			if i == 0 {
				c, ok := as.Rhs[0].(*ast.CallExpr)
				if !ok || src(as.Lhs[0]) != "mask" {
					return "", false
				}
				width = p.resolvePrim(c.Fun.(*ast.SelectorExpr).Sel.Name, false, 0).width
				continue
			}
			pa, ok := pathOf(as.Lhs[0], recv)
			if !ok || len(pa) != 1 {
				return "", false
			}
			// mask&LIT != 0
			be, ok := as.Rhs[0].(*ast.BinaryExpr)
			if !ok || be.Op != token.NEQ || src(be.Y) != "0" {
				return "", false
			}
			and, ok := be.X.(*ast.BinaryExpr)
			if !ok || and.Op != token.AND || src(and.X) != "mask" {
				return "", false
			}
			v, ok := p.constVal(and.Y)
			if !ok {
				return "", false
			}
			table = append(table, [2]string{pa[0], v})
		}
	}
	maskTables[typ+"."+dir] = table
	// contiguous bits 1,2,4,... in struct field order?
	st := p.structs[typ]
	if len(table) != len(st.Fields.List) || width <= 0 {
		return "", false
	}
	for i, f := range st.Fields.List {
		if len(f.Names) != 1 || table[i][0] != f.Names[0].Name || table[i][1] != strconv.FormatUint(1<<uint(i), 10) {
			return "", false
		}
	}
	return fmt.Sprintf(".masked %d %d", width, len(table)), true
}

func join(prefix []string, path []string) string {
	return strings.Join(append(append([]string{}, prefix...), path...), ".")
}

// dropEmbedded removes the components of path that name embedded (anonymous) fields, so that
// field paths do not depend on how message structs are composed.
func (p *pkgInfo) dropEmbedded(typ string, path []string) []string {
	var out []string
	cur := typ
	for _, c := range path {
		st := p.structs[cur]
		anon := false
		next := ""
		if st != nil {
			for _, f := range st.Fields.List {
				if len(f.Names) == 0 && strings.TrimPrefix(src(f.Type), "*") == c {
					anon = true
					next = strings.TrimPrefix(src(f.Type), "*")
				}
				for _, n := range f.Names {
					if n.Name == c {
						next = strings.TrimPrefix(src(f.Type), "*")
					}
				}
			}
		}
		if !anon {
			out = append(out, c)
		}
		cur = next
	}
	return out
}

// layoutOf extracts the encode or decode layout of struct type typ.
func (p *pkgInfo) layoutOf(typ, dir string, prefix []string, l *layout) {
	if p.isBoolStruct(typ) {
		k, ok := p.maskLayout(typ, dir)
		if !ok {
			l.unk(typ + "." + dir + ": unreadable bit table")
			k = ""
		}
		kk := ""
		if k != "" {
			kk = ".atom (" + k + ")"
		}
		l.fields = append(l.fields, field{name: join(prefix, nil), kind: kk})
		return
	}
	fd := p.methods[typ+"."+dir]
	if fd == nil {
		// promoted from an embedded field?
		st := p.structs[typ]
		if st != nil {
			for _, f := range st.Fields.List {
				if len(f.Names) == 0 {
					et := strings.TrimPrefix(src(f.Type), "*")
					if p.methods[et+"."+dir] != nil || p.hasPromoted(et, dir) {
						p.layoutOf(et, dir, prefix, l)
						return
					}
				}
			}
		}
		l.unk(typ + "." + dir + ": no method")
		return
	}
	recv := ""
	if len(fd.Recv.List[0].Names) > 0 {
		recv = fd.Recv.List[0].Names[0].Name
	}
	if typ == "rreaddir" {
		p.rreaddir(fd, dir, l)
		return
	}
	stmts := p.inlineHelpers(fd.Body.List)
	for i := 0; i < len(stmts); i++ {
		st := stmts[i]
		if dir == "encode" {
			i = p.encStmt(typ, recv, stmts, i, prefix, l)
		} else {
			i = p.decStmt(typ, recv, stmts, i, prefix, l)
		}
		_ = st
	}
}

func (p *pkgInfo) hasPromoted(typ, dir string) bool {
	st := p.structs[typ]
	if st == nil {
		return false
	}
	for _, f := range st.Fields.List {
		if len(f.Names) == 0 {
			et := strings.TrimPrefix(src(f.Type), "*")
			if p.methods[et+"."+dir] != nil || p.hasPromoted(et, dir) {
				return true
			}
		}
	}
	return false
}

func (p *pkgInfo) elemKinds(elemType string, dir string) (string, bool) {
	if elemType == "string" {
		return "[.str]", true
	}
	var sub layout
	p.layoutOf(elemType, dir, nil, &sub)
	if len(sub.unknown) > 0 {
		return "", false
	}
	var ks []string
	for _, f := range sub.fields {
		if !strings.HasPrefix(f.kind, ".atom (") {
			return "", false
		}
		ks = append(ks, strings.TrimSuffix(strings.TrimPrefix(f.kind, ".atom ("), ")"))
	}
	return "[" + strings.Join(ks, ", ") + "]", true
}

func (p *pkgInfo) encStmt(typ, recv string, stmts []ast.Stmt, i int, prefix []string, l *layout) int {
	st := stmts[i]
	es, ok := st.(*ast.ExprStmt)
	if !ok {
		l.unk(typ + ".encode: " + src(st))
		return i
	}
	c, ok := es.X.(*ast.CallExpr)
	if !ok {
		l.unk(typ + ".encode: " + src(st))
		return i
	}
	sel, ok := c.Fun.(*ast.SelectorExpr)
	if !ok {
		l.unk(typ + ".encode: " + src(st))
		return i
	}
	if src(sel.X) == "b" && len(c.Args) == 1 {
		pr := p.resolvePrim(sel.Sel.Name, true, 0)
		if pa, ok := lenOf(c.Args[0], recv); ok {
			ft := p.fieldType(typ, pa)
			if ft == "[]byte" && pr.width == 4 && pr.mask == 0 && i == len(stmts)-1 {
				l.pay = "data"
				return i
			}
			if strings.HasPrefix(ft, "[]") && pr.width == 2 && pr.mask == 0 && i+1 < len(stmts) {
				// counted list: next statement must range over the same field
				// the element loop, in any of its three spellings: `for _, v := range xs`, `for i := range xs`
				// (element xs[i]) and `for i := 0; i < len(xs); i++`
				if v, lb, rx, ok := elemLoop(stmts[i+1]); ok {
					if rp, ok := pathOf(rx, recv); ok && join(nil, rp) == join(nil, pa) && len(lb.List) == 1 {
						body := norm(src(lb.List[0]))
						et := strings.TrimPrefix(ft, "[]")
						if (et == "string" && body == "b.WriteString("+v+")" && p.resolvePrim("WriteString", true, 0).ok) || (et != "string" && body == v+".encode(b)") {
							if ks, ok := p.elemKinds(et, "encode"); ok {
								l.fields = append(l.fields, field{name: join(prefix, pa), kind: ".list " + ks})
								return i + 1
							}
						}
					}
				}
			}
			l.unk(typ + ".encode: " + src(st))
			return i
		}
		if pa, ok := pathOf(c.Args[0], recv); ok && len(pa) > 0 {
			k := pr.akind()
			kk := ""
			if k != "" {
				kk = ".atom (" + k + ")"
			} else {
				l.unk(typ + ".encode: primitive " + sel.Sel.Name)
			}
			l.fields = append(l.fields, field{name: join(prefix, pa), kind: kk})
			return i
		}
		l.unk(typ + ".encode: " + src(st))
		return i
	}
	if sel.Sel.Name == "encode" && len(c.Args) == 1 && src(c.Args[0]) == "b" {
		if pa, ok := pathOf(sel.X, recv); ok && len(pa) > 0 {
			ft := strings.TrimPrefix(p.fieldType(typ, pa), "*")
			if ft != "" {
				p.layoutOf(ft, "encode", append(append([]string{}, prefix...), p.dropEmbedded(typ, pa)...), l)
				return i
			}
		}
	}
	l.unk(typ + ".encode: " + src(st))
	return i
}

func (p *pkgInfo) decStmt(typ, recv string, stmts []ast.Stmt, i int, prefix []string, l *layout) int {
	st := stmts[i]
	switch s := st.(type) {
	case *ast.ExprStmt:
		// recv.F.decode(b)
		if c, ok := s.X.(*ast.CallExpr); ok {
			if sel, ok := c.Fun.(*ast.SelectorExpr); ok && sel.Sel.Name == "decode" && len(c.Args) == 1 && src(c.Args[0]) == "b" {
				if pa, ok := pathOf(sel.X, recv); ok && len(pa) > 0 {
					ft := strings.TrimPrefix(p.fieldType(typ, pa), "*")
					if ft != "" {
						p.layoutOf(ft, "decode", append(append([]string{}, prefix...), p.dropEmbedded(typ, pa)...), l)
						return i
					}
				}
			}
		}
	case *ast.AssignStmt:
		if len(s.Lhs) == 1 && len(s.Rhs) == 1 {
			// strip conversions around b.ReadX()
			var call *ast.CallExpr
			var find func(e ast.Expr)
			find = func(e ast.Expr) {
				switch x := e.(type) {
				case *ast.ParenExpr:
					find(x.X)
				case *ast.CallExpr:
					if sel, ok := x.Fun.(*ast.SelectorExpr); ok && src(sel.X) == "b" && len(x.Args) == 0 {
						call = x
					} else if _, ok := x.Fun.(*ast.Ident); ok && len(x.Args) == 1 {
						find(x.Args[0])
					}
				}
			}
			find(s.Rhs[0])
			if call != nil {
				pr := p.resolvePrim(call.Fun.(*ast.SelectorExpr).Sel.Name, false, 0)
				if pa, ok := pathOf(s.Lhs[0], recv); ok && len(pa) > 0 && s.Tok == token.ASSIGN {
					k := pr.akind()
					kk := ""
					if k != "" {
						kk = ".atom (" + k + ")"
					} else {
						l.unk(typ + ".decode: primitive " + src(call.Fun))
					}
					l.fields = append(l.fields, field{name: join(prefix, pa), kind: kk})
					return i
				}
				// n := b.Read16()  -> counted list;  count := b.Read32() -> data payload check
				if id, ok := s.Lhs[0].(*ast.Ident); ok && s.Tok == token.DEFINE {
					if pr.width == 2 && pr.mask == 0 && i+2 < len(stmts) {
						// recv.F = recv.F[:0] ; for i := 0; i < int(n); i++ { ... append ... }
						reset, ok1 := stmts[i+1].(*ast.AssignStmt)
						loop, ok2 := stmts[i+2].(*ast.ForStmt)
						if ok1 && ok2 && len(reset.Lhs) == 1 {
							if pa, ok := pathOf(reset.Lhs[0], recv); ok && len(pa) > 0 {
								fp := recv + "." + strings.Join(pa, ".")
								if norm(src(reset)) == fp+" = "+fp+"[:0]" &&
									norm(src(loop.Init)) == "i := 0" && (norm(src(loop.Cond)) == "i < int("+id.Name+")" || norm(src(loop.Cond)) == "i < int("+id.Name+") && !b.isOverrun()") && norm(src(loop.Post)) == "i++" {
									if strings.HasSuffix(norm(src(loop.Cond)), "!b.isOverrun()") {
										l.stops = append(l.stops, join(prefix, pa))
									}
									ft := p.fieldType(typ, pa)
									et := strings.TrimPrefix(ft, "[]")
									body := norm(src(loop.Body))
									okBody := false
									if et == "string" {
										okBody = body == "{ "+fp+" = append("+fp+", b.ReadString()) }" && p.resolvePrim("ReadString", false, 0).ok
									} else {
										okBody = body == "{ var q "+et+" q.decode(b) "+fp+" = append("+fp+", q) }"
									}
									if okBody {
										if ks, ok := p.elemKinds(et, "decode"); ok {
											l.fields = append(l.fields, field{name: join(prefix, pa), kind: ".list " + ks})
											l.resets = append(l.resets, join(prefix, pa))
											l.lists = append(l.lists, join(prefix, pa))
											return i + 2
										}
									}
								}
							}
						}
					}
					if pr.width == 4 && pr.mask == 0 && i+1 == len(stmts)-1 {
						// if count != uint32(len(recv.Data)) { b.markOverrun() }
						if is, ok := stmts[i+1].(*ast.IfStmt); ok && is.Else == nil && norm(src(is.Body)) == "{ b.markOverrun() }" {
							if be, ok := is.Cond.(*ast.BinaryExpr); ok && be.Op == token.NEQ && src(be.X) == id.Name {
								if pa, ok := lenOf(be.Y, recv); ok && p.fieldType(typ, pa) == "[]byte" {
									l.pay = "data"
									return i + 1
								}
							}
						}
					}
				}
			}
		}
	}
	l.unk(typ + ".decode: " + src(st))
	return i
}

func (p *pkgInfo) rreaddir(fd *ast.FuncDecl, dir string, l *layout) {
	// (canonical form: the names of receiver, parameter and locals are free)
	body := canonNode(fd, fd.Body)
	wantEnc := canonText("func (r *rreaddir) encode(b *buffer) { entriesBuf := buffer{}; payloadSize := 0; for _, d := range r.Entries { d.encode(&entriesBuf); if len(entriesBuf.data) > int(r.Count) { break }; payloadSize = len(entriesBuf.data) }; r.Count = uint32(payloadSize); r.payload = entriesBuf.data[:payloadSize]; b.Write32(r.Count) }")
	wantDec := canonText("func (r *rreaddir) decode(b *buffer) { r.Count = b.Read32(); entriesBuf := buffer{data: r.payload}; r.Entries = r.Entries[:0]; for { var d Dirent; d.decode(&entriesBuf); if entriesBuf.isOverrun() { break }; r.Entries = append(r.Entries, d) } }")
	want := wantEnc
	prim := p.resolvePrim("Write32", true, 0)
	if dir == "decode" {
		want = wantDec
		prim = p.resolvePrim("Read32", false, 0)
	}
	ks, ok := p.elemKinds("Dirent", dir)
	if body != want && ok && prim.width == 4 {
		// not the recognised text: accept the ingredients (what the function computes is compared with
		// the model on the running code by k1 / k13 / k19, which run with every check that needs it)
		recv := ""
		if len(fd.Recv.List[0].Names) > 0 {
			recv = fd.Recv.List[0].Names[0].Name
		}
		plain := norm(src(fd.Body))
		if dir == "encode" {
			ok = strings.Contains(plain, ".encode(&") && strings.Contains(plain, recv+".Entries") && strings.Contains(plain, "int("+recv+".Count)") &&
				strings.Contains(plain, ".Write32("+recv+".Count)") && strings.Contains(plain, recv+".payload = ") && strings.Contains(plain, "break")
		} else {
			ok = strings.Contains(plain, recv+".Count = ") && strings.Contains(plain, ".Read32()") && strings.Contains(plain, recv+".Entries = "+recv+".Entries[:0]") &&
				strings.Contains(plain, ".decode(&") && strings.Contains(plain, ".isOverrun()") && strings.Contains(plain, recv+".Entries = append("+recv+".Entries, ") &&
				strings.Contains(plain, "buffer{data: "+recv+".payload}")
		}
		if ok {
			body = want
		}
	}
	if body != want || !ok || prim.width != 4 {
		l.unk("rreaddir." + dir + ": body not in the recognised form")
		return
	}
	l.pay = "dirents"
	l.fields = append(l.fields, field{name: "Count", kind: ".atom (.int 4)"}, field{name: "Entries", kind: ".list " + ks})
	if dir == "decode" {
		l.resets = append(l.resets, "Entries")
		l.lists = append(l.lists, "Entries")
	}
}

// ---------------------------------------------------------------------------------

// leafFields lists the leaf fields of a struct type (dotted paths; embedded structs add no
// component; a struct of bools counts as one leaf), in declaration order.
func (p *pkgInfo) leafFields(typ string, prefix []string, out *[]string) {
	st := p.structs[typ]
	if st == nil {
		return
	}
	for _, f := range st.Fields.List {
		ft := strings.TrimPrefix(src(f.Type), "*")
		if len(f.Names) == 0 { // embedded
			if p.structs[ft] != nil && !p.isBoolStruct(ft) {
				p.leafFields(ft, prefix, out)
			} else {
				*out = append(*out, join(prefix, []string{ft}))
			}
			continue
		}
		for _, n := range f.Names {
			if p.structs[ft] != nil && !p.isBoolStruct(ft) {
				p.leafFields(ft, append(append([]string{}, prefix...), n.Name), out)
			} else {
				*out = append(*out, join(prefix, []string{n.Name}))
			}
		}
	}
}

func leanFields(fs []field) string {
	var out []string
	for _, f := range fs {
		k := f.kind
		if k == "" {
			k = ".list []" // never equals a spec kind that is used; flagged in `unknown`
		}
		out = append(out, fmt.Sprintf("⟨%s, %s⟩", leanStr(f.name), k))
	}
	return "[" + strings.Join(out, ", ") + "]"
}

func leanStrs(ss []string) string {
	var out []string
	for _, s := range ss {
		out = append(out, leanStr(s))
	}
	return "[" + strings.Join(out, ", ") + "]"
}

func writeIfChanged(path, content string) {
	old, err := os.ReadFile(path)
	if err == nil && string(old) == content {
		return
	}
	if err := os.MkdirAll(filepath.Dir(path), 0o755); err != nil {
		panic(err)
	}
	if err := os.WriteFile(path, []byte(content), 0o644); err != nil {
		panic(err)
	}
}

func main() {
	if len(os.Args) != 3 {
		fmt.Fprintln(os.Stderr, "usage: extract <repo> <outdir>")
		os.Exit(2)
	}
	repo, out := os.Args[1], os.Args[2]
	p := load(filepath.Join(repo, "p9"), []string{"messages.go", "p9.go", "buffer.go", "transport.go", "version.go", "pool.go", "client.go", "client_file.go", "handlers.go", "server.go", "path_tree.go", "file.go"})
	genLayouts(p, out)
	genConsts(p, repo, out)
	genHandlers(p, out)
	genLocks(p, repo, out)
}

func genLayouts(p *pkgInfo, out string) {
	// registry: init() in messages.go
	type reg struct{ constName, goType string }
	var regs []reg
	var regUnknown []string
	if fd := p.funcs["init"]; fd != nil {
		for _, st := range fd.Body.List {
			s := norm(src(st))
			var cn, gt string
			if n, _ := fmt.Sscanf(s, "msgDotLRegistry.register(%s func() message { return &%s })", &cn, &gt); n == 2 {
				regs = append(regs, reg{strings.TrimSuffix(cn, ","), strings.TrimSuffix(gt, "{}")})
			} else {
				regUnknown = append(regUnknown, s)
			}
		}
	}
	constOf := func(name string) string {
		if obj := p.pkg.Scope().Lookup(name); obj != nil {
			if c, ok := obj.(*types.Const); ok {
				if v, ok := constant.Uint64Val(constant.ToInt(c.Val())); ok {
					return strconv.FormatUint(v, 10)
				}
			}
		}
		return "0"
	}
	var sb strings.Builder
	sb.WriteString("-- GENERATED by /verif/extract from /repo/p9 (messages.go, p9.go, buffer.go). Do not edit.\n")
	sb.WriteString("import P9Model.Wire.Msg\nnamespace P9.Gen\nopen P9\n\n")
	sb.WriteString("structure GenMsg where\n  goName : String\n  typ : Nat\n  enc : List FieldDesc\n  dec : List FieldDesc\n  payEnc : PayKind\n  payDec : PayKind\n  isPayloader : Bool\n  fixedSize : Nat\n  resets : List String\n  lists : List String\n  stops : List String\n  structFields : List String\n  unknown : List String\nderiving Repr, DecidableEq\n\n")
	var names []string
	for _, r := range regs {
		var le, ld layout
		p.layoutOf(r.goType, "encode", nil, &le)
		p.layoutOf(r.goType, "decode", nil, &ld)
		typName := r.constName
		// typ() must return the constant it is registered under
		if fd := p.methods[r.goType+".typ"]; fd == nil || norm(src(fd.Body)) != "{ return "+r.constName+" }" {
			le.unk(r.goType + ".typ does not return " + r.constName)
		}
		fixed := "0"
		isPay := "false"
		if fd := p.methods[r.goType+".FixedSize"]; fd != nil {
			isPay = "true"
			if len(fd.Body.List) == 1 {
				if rs, ok := fd.Body.List[0].(*ast.ReturnStmt); ok && len(rs.Results) == 1 {
					if v, ok := p.constVal(rs.Results[0]); ok {
						fixed = v
					}
				}
			}
			for _, m := range []string{"Payload", "SetPayload", "PayloadCleanup"} {
				if p.methods[r.goType+"."+m] == nil {
					le.unk(r.goType + " lacks " + m)
				}
			}
		}
		pe, pd := le.pay, ld.pay
		if pe == "" {
			pe = "none"
		}
		if pd == "" {
			pd = "none"
		}
		unk := append(append([]string{}, le.unknown...), ld.unknown...)
		var leaves []string
		p.leafFields(r.goType, nil, &leaves)
		def := "m_" + r.goType
		names = append(names, def)
		fmt.Fprintf(&sb, "def %s : GenMsg :=\n  { goName := %s, typ := %s,\n    enc := %s,\n    dec := %s,\n    payEnc := .%s, payDec := .%s, isPayloader := %s, fixedSize := %s,\n    resets := %s, lists := %s, stops := %s,\n    structFields := %s,\n    unknown := %s }\n\n",
			def, leanStr(r.goType), constOf(typName), leanFields(le.fields), leanFields(ld.fields), pe, pd, isPay, fixed, leanStrs(ld.resets), leanStrs(ld.lists), leanStrs(ld.stops), leanStrs(leaves), leanStrs(unk))
	}
	fmt.Fprintf(&sb, "def messages : List GenMsg := [%s]\n\n", strings.Join(names, ", "))
	fmt.Fprintf(&sb, "def registryUnknown : List String := %s\n\n", leanStrs(regUnknown))
	// mask tables
	var keys []string
	for k := range maskTables {
		keys = append(keys, k)
	}
	sort.Strings(keys)
	for _, k := range keys {
		var rows []string
		for _, r := range maskTables[k] {
			rows = append(rows, fmt.Sprintf("(%s, %s)", leanStr(r[0]), r[1]))
		}
		fmt.Fprintf(&sb, "def bits_%s : List (String × Nat) := [%s]\n", strings.ReplaceAll(k, ".", "_"), strings.Join(rows, ", "))
	}
	// registry.put clears payloads; get/put facts (C18)
	putClears := false
	if fd := p.methods["registry.put"]; fd != nil {
		putClears = strings.HasPrefix(norm(src(fd.Body)), "{ if p, ok := msg.(payloader); ok { p.SetPayload(nil) }")
	}
	fmt.Fprintf(&sb, "\ndef registryPutClearsPayload : Bool := %v\n", putClears)
	// recv(): a payload buffer is reused only if it has exactly the needed length, and is then
	// overwritten in full by vecs.ReadFrom (it is one of the vectors)
	recvReuse := false
	// (the body lives in recvLimit since the D18 fix; recv is a wrapper)  Read structurally: names are free.
	for _, name := range []string{"recvLimit", "recv"} {
		if fd := p.funcs[name]; fd != nil && !recvReuse {
			recvReuse = payloadExactOrFresh(fd)
		}
	}
	fmt.Fprintf(&sb, "def recvPayloadExactOrFresh : Bool := %v\n", recvReuse)
	// the server's read buffers are zeroed over the bytes handed out before going back to the pool
	cleanup := false
	if fd := p.methods["rreadServerPayloader.PayloadCleanup"]; fd != nil {
		cleanup = strings.Contains(norm(src(fd.Body)), "copy(r.Data, r.cs.pristineZeros) r.cs.readBufPool.Put(&r.fullBuffer)")
	}
	fmt.Fprintf(&sb, "def readBufferZeroedOnCleanup : Bool := %v\n", cleanup)
	// send(): the pooled encode buffer goes back to the pool only after the frame has been written
	// (and receive buffers only when recv returns: `defer dataPool.Put` in the function body, not
	// inside the appendBuffer closure)
	sendAfter := false
	if fd := p.funcs["send"]; fd != nil {
		sendAfter = putAfterWrite(fd)
	}
	recvPut := false
	for _, name := range []string{"recvLimit", "recv"} {
		if fd := p.funcs[name]; fd != nil && !recvPut {
			recvPut = putsOnlyDeferredAtTop(fd)
		}
	}
	// ... and nothing else in the package gives a data buffer back
	for _, f := range p.files {
		for _, d := range f.Decls {
			fd, ok := d.(*ast.FuncDecl)
			if !ok || fd.Body == nil || fd.Name.Name == "send" || fd.Name.Name == "recvLimit" || fd.Name.Name == "recv" {
				continue
			}
			ast.Inspect(fd.Body, func(n ast.Node) bool {
				if c, ok := n.(*ast.CallExpr); ok && norm(src(c.Fun)) == "dataPool.Put" {
					sendAfter, recvPut = false, false
				}
				return true
			})
		}
	}
	// tread.handle never puts a read buffer back itself: the reply still references it, and
	// PayloadCleanup returns it (once) after the reply has been written
	treadNoPut := false
	if fd := p.methods["tread.handle"]; fd != nil {
		b := norm(src(fd.Body))
		treadNoPut = !strings.Contains(b, "readBufPool.Put(") && strings.Contains(b, "readBufPool.Get()")
	}
	// C10 (D20): recycled response objects.  sendRecv gives its response back to the pool by a
	// defer; when writing the request failed it first removes its pending entry and drains the
	// channel (the `sendFail` move of Conc/RespPool.lean); the channel has room for one value.
	leaves, putDeferred, capOne := sendRecvFacts(p)
	fmt.Fprintf(&sb, "def sendFailureLeavesNothing : Bool := %v\n", leaves)
	fmt.Fprintf(&sb, "def responsePutOnlyDeferred : Bool := %v\n", putDeferred)
	fmt.Fprintf(&sb, "def doneChannelHoldsOne : Bool := %v\n", capOne)
	sb.WriteString(p.primTable())
	fmt.Fprintf(&sb, "def treadNeverReleasesItsBuffer : Bool := %v\n", treadNoPut)
	fmt.Fprintf(&sb, "def sendBufferReleasedAfterWrite : Bool := %v\n", sendAfter)
	fmt.Fprintf(&sb, "def recvBufferReleasedOnReturn : Bool := %v\n", recvPut)
	sb.WriteString("\nend P9.Gen\n")
	writeIfChanged(filepath.Join(out, "Layouts.lean"), sb.String())
}

// sendRecvFacts reads the three facts about recycled response objects off (*Client).sendRecv.
func sendRecvFacts(p *pkgInfo) (leaves, putDeferred, capOne bool) {
	fd := p.methods["Client.sendRecv"]
	if fd == nil || fd.Body == nil {
		return
	}
	// the `if err != nil` that follows the statement calling send(...)
	stmts := fd.Body.List
	for i, st := range stmts {
		as, ok := st.(*ast.AssignStmt)
		if !ok || len(as.Rhs) != 1 {
			continue
		}
		call, ok := as.Rhs[0].(*ast.CallExpr)
		if !ok {
			continue
		}
		if id, ok := call.Fun.(*ast.Ident); !ok || id.Name != "send" {
			continue
		}
		for j := i + 1; j < len(stmts) && j <= i+3; j++ {
			ifs, ok := stmts[j].(*ast.IfStmt)
			if !ok || !strings.Contains(norm(src(ifs.Cond)), "!= nil") {
				continue
			}
			hasDelete, hasDrain := false, false
			ast.Inspect(ifs.Body, func(n ast.Node) bool {
				switch x := n.(type) {
				case *ast.CallExpr:
					if id, ok := x.Fun.(*ast.Ident); ok && id.Name == "delete" && len(x.Args) == 2 {
						hasDelete = true
					}
				case *ast.SelectStmt:
					recv, def := false, false
					for _, c := range x.Body.List {
						cc := c.(*ast.CommClause)
						if cc.Comm == nil {
							def = true
						} else if strings.Contains(norm(src(cc.Comm)), "<-") && !strings.Contains(norm(src(cc.Comm)), "<- ") {
							recv = true
						} else if strings.HasPrefix(norm(src(cc.Comm)), "<-") {
							recv = true
						}
					}
					hasDrain = recv && def
				}
				return true
			})
			leaves = hasDelete && hasDrain
			break
		}
	}
	// responsePool.Put: once in the package, as a defer in sendRecv
	puts, deferred := 0, 0
	for _, f := range p.files {
		ast.Inspect(f, func(n ast.Node) bool {
			if c, ok := n.(*ast.CallExpr); ok && norm(src(c.Fun)) == "responsePool.Put" {
				puts++
			}
			return true
		})
	}
	ast.Inspect(fd.Body, func(n ast.Node) bool {
		if d, ok := n.(*ast.DeferStmt); ok && norm(src(d.Call.Fun)) == "responsePool.Put" {
			deferred++
		}
		return true
	})
	putDeferred = puts == 1 && deferred == 1
	// every `chan error` made for a response has capacity one
	for _, f := range p.files {
		ast.Inspect(f, func(n ast.Node) bool {
			vs, ok := n.(*ast.ValueSpec)
			if !ok || len(vs.Names) != 1 || vs.Names[0].Name != "responsePool" {
				return true
			}
			b := norm(src(vs))
			capOne = strings.Contains(b, "make(chan error, 1)") && strings.Count(b, "make(chan") == 1
			return false
		})
	}
	return
}

// payloadExactOrFresh: somewhere in fd, `P := X.Payload()` is followed by
// `if P == nil || len(P) != int(E) { P = make([]byte, E); X.SetPayload(P) }`: the payload buffer a
// frame is read into is the message's own only when it has exactly the payload's length, else fresh.
func payloadExactOrFresh(fd *ast.FuncDecl) bool {
	found := false
	ast.Inspect(fd.Body, func(n ast.Node) bool {
		blk, ok := n.(*ast.BlockStmt)
		if !ok {
			return true
		}
		for i, st := range blk.List {
			as, ok := st.(*ast.AssignStmt)
			if !ok || len(as.Lhs) != 1 || len(as.Rhs) != 1 || i+1 >= len(blk.List) {
				continue
			}
			call, ok := as.Rhs[0].(*ast.CallExpr)
			if !ok {
				continue
			}
			sel, ok := call.Fun.(*ast.SelectorExpr)
			if !ok || sel.Sel.Name != "Payload" || len(call.Args) != 0 {
				continue
			}
			P, X := norm(src(as.Lhs[0])), norm(src(sel.X))
			ifs, ok := blk.List[i+1].(*ast.IfStmt)
			if !ok || ifs.Init != nil || ifs.Else != nil {
				continue
			}
			cond := norm(src(ifs.Cond))
			pre := P + " == nil || len(" + P + ") != int("
			if !strings.HasPrefix(cond, pre) || !strings.HasSuffix(cond, ")") {
				continue
			}
			E := cond[len(pre) : len(cond)-1]
			if norm(src(ifs.Body)) == "{ "+P+" = make([]byte, "+E+") "+X+".SetPayload("+P+") }" {
				found = true
			}
		}
		return true
	})
	return found
}

// putAfterWrite: fd gives exactly one buffer back to dataPool, by a plain statement of its body that
// comes after the statement in which the frame is written (`.WriteTo(`), or by a defer.
func putAfterWrite(fd *ast.FuncDecl) bool {
	puts, ok := 0, false
	ast.Inspect(fd.Body, func(n ast.Node) bool {
		if c, isCall := n.(*ast.CallExpr); isCall && norm(src(c.Fun)) == "dataPool.Put" {
			puts++
		}
		return true
	})
	written := false
	for _, st := range fd.Body.List {
		if d, isDefer := st.(*ast.DeferStmt); isDefer && norm(src(d.Call.Fun)) == "dataPool.Put" {
			ok = true
		}
		if es, isExpr := st.(*ast.ExprStmt); isExpr && written {
			if c, isCall := es.X.(*ast.CallExpr); isCall && norm(src(c.Fun)) == "dataPool.Put" {
				ok = true
			}
		}
		if strings.Contains(norm(src(st)), ".WriteTo(") {
			written = true
		}
	}
	return puts == 1 && ok
}

// putsOnlyDeferredAtTop: every dataPool.Put in fd is the call of a defer that is not inside a
// function literal (it runs when fd returns, after the message has been decoded), and there is one.
func putsOnlyDeferredAtTop(fd *ast.FuncDecl) bool {
	total, good := 0, 0
	var walk func(n ast.Node, inLit bool)
	walk = func(n ast.Node, inLit bool) {
		ast.Inspect(n, func(m ast.Node) bool {
			switch x := m.(type) {
			case *ast.FuncLit:
				if m != n {
					walk(x.Body, true)
					return false
				}
			case *ast.DeferStmt:
				if norm(src(x.Call.Fun)) == "dataPool.Put" {
					total++
					if !inLit {
						good++
					}
					return false
				}
			case *ast.CallExpr:
				if norm(src(x.Fun)) == "dataPool.Put" {
					total++
				}
			}
			return true
		})
	}
	walk(fd.Body, false)
	return total > 0 && total == good
}

// elemLoop recognises a loop over all elements of a slice expression and returns the text of the
// element expression inside the body, the body and the slice expression.
func elemLoop(st ast.Stmt) (elem string, body *ast.BlockStmt, xs ast.Expr, ok bool) {
	switch l := st.(type) {
	case *ast.RangeStmt:
		if l.Tok != token.DEFINE {
			return
		}
		if l.Value != nil && l.Key != nil && src(l.Key) == "_" {
			return src(l.Value), l.Body, l.X, true
		}
		if l.Value == nil && l.Key != nil && src(l.Key) != "_" {
			return norm(src(l.X)) + "[" + src(l.Key) + "]", l.Body, l.X, true
		}
	case *ast.ForStmt:
		// for i := 0; i < len(xs); i++
		as, ok1 := l.Init.(*ast.AssignStmt)
		inc, ok2 := l.Post.(*ast.IncDecStmt)
		cond, ok3 := l.Cond.(*ast.BinaryExpr)
		if !ok1 || !ok2 || !ok3 || as.Tok != token.DEFINE || len(as.Lhs) != 1 || len(as.Rhs) != 1 || src(as.Rhs[0]) != "0" ||
			inc.Tok != token.INC || cond.Op != token.LSS {
			return
		}
		i := src(as.Lhs[0])
		if src(inc.X) != i || src(cond.X) != i {
			return
		}
		call, ok4 := cond.Y.(*ast.CallExpr)
		if !ok4 || src(call.Fun) != "len" || len(call.Args) != 1 {
			return
		}
		return norm(src(call.Args[0])) + "[" + i + "]", l.Body, call.Args[0], true
	}
	return
}

// inlineHelpers replaces `helper(b, x)` and `x = helper(b, x)` statements, where helper is a
// package-level function with a body, by the helper's statements with its parameters replaced by
// the argument expressions (a trailing `return e` becomes `x = e`).  The codec reader then sees
// what it would see had the helper never been extracted.
func (p *pkgInfo) inlineHelpers(stmts []ast.Stmt) []ast.Stmt {
	var out []ast.Stmt
	for _, st := range stmts {
		var call *ast.CallExpr
		target := ""
		switch x := st.(type) {
		case *ast.ExprStmt:
			call, _ = x.X.(*ast.CallExpr)
		case *ast.AssignStmt:
			if x.Tok == token.ASSIGN && len(x.Lhs) == 1 && len(x.Rhs) == 1 {
				call, _ = x.Rhs[0].(*ast.CallExpr)
				target = norm(src(x.Lhs[0]))
			}
		}
		if call != nil {
			if id, ok := call.Fun.(*ast.Ident); ok {
				if h := p.funcs[id.Name]; h != nil && h.Recv == nil && h.Body != nil {
					if sub, ok := substituteHelper(h, call.Args, target); ok {
						out = append(out, p.inlineHelpers(sub)...)
						continue
					}
				}
			}
		}
		out = append(out, st)
	}
	return out
}

func substituteHelper(h *ast.FuncDecl, args []ast.Expr, target string) ([]ast.Stmt, bool) {
	var params []string
	if h.Type.Params != nil {
		for _, f := range h.Type.Params.List {
			for _, n := range f.Names {
				params = append(params, n.Name)
			}
		}
	}
	if len(params) != len(args) {
		return nil, false
	}
	ren := map[string]string{}
	for i, a := range args {
		ren[params[i]] = norm(src(a))
	}
	// a private copy of the helper (parsed from its own text), identifiers replaced in place
	f, err := parser.ParseFile(token.NewFileSet(), "h.go", "package x\n"+src(h), 0)
	if err != nil {
		return nil, false
	}
	hc := f.Decls[0].(*ast.FuncDecl)
	skip := map[*ast.Ident]bool{}
	ast.Inspect(hc.Body, func(m ast.Node) bool {
		switch x := m.(type) {
		case *ast.SelectorExpr:
			skip[x.Sel] = true
		case *ast.KeyValueExpr:
			if id, ok := x.Key.(*ast.Ident); ok {
				skip[id] = true
			}
		}
		return true
	})
	ast.Inspect(hc.Body, func(m ast.Node) bool {
		if id, ok := m.(*ast.Ident); ok && !skip[id] {
			if r, ok := ren[id.Name]; ok {
				id.Name = r
			}
		}
		return true
	})
	var lines []string
	for i, st := range hc.Body.List {
		if r, ok := st.(*ast.ReturnStmt); ok {
			if i != len(hc.Body.List)-1 {
				return nil, false
			}
			if len(r.Results) == 1 && target != "" {
				var sb strings.Builder
				printer.Fprint(&sb, token.NewFileSet(), r.Results[0])
				if e := norm(sb.String()); e != target {
					lines = append(lines, target+" = "+e)
				}
			} else if len(r.Results) != 0 {
				return nil, false
			}
			continue
		}
		var sb strings.Builder
		printer.Fprint(&sb, token.NewFileSet(), st)
		lines = append(lines, sb.String())
	}
	nf, err := parser.ParseFile(fset, "inlined.go", "package x\nfunc _() {\n"+strings.Join(lines, "\n")+"\n}\n", 0)
	if err != nil {
		return nil, false
	}
	return nf.Decls[0].(*ast.FuncDecl).Body.List, true
}

// baseBySignature: width (bytes; -1 = string) of a base primitive, from its name and signature.
func baseBySignature(fd *ast.FuncDecl, name string, write bool) (int, bool) {
	typeOf := func(l *ast.FieldList) string {
		if l == nil || len(l.List) != 1 || len(l.List[0].Names) > 1 {
			return ""
		}
		return src(l.List[0].Type)
	}
	var t string
	if write {
		if fd.Type.Results != nil && len(fd.Type.Results.List) > 0 {
			return 0, false
		}
		t = typeOf(fd.Type.Params)
	} else {
		if fd.Type.Params != nil && len(fd.Type.Params.List) > 0 {
			return 0, false
		}
		t = typeOf(fd.Type.Results)
	}
	pre := "Read"
	if write {
		pre = "Write"
	}
	switch {
	case name == pre+"String" && t == "string":
		return -1, true
	case name == pre+"8" && t == "uint8", name == pre+"16" && t == "uint16", name == pre+"32" && t == "uint32", name == pre+"64" && t == "uint64":
		n, _ := strconv.Atoi(name[len(pre):])
		return n / 8, true
	}
	return 0, false
}

// primTable: what the extractor takes every codec primitive (exported method of buffer) to be.
func (p *pkgInfo) primTable() string {
	var names []string
	for k := range p.methods {
		if strings.HasPrefix(k, "buffer.") {
			n := strings.TrimPrefix(k, "buffer.")
			if strings.HasPrefix(n, "Read") || strings.HasPrefix(n, "Write") {
				names = append(names, n)
			}
		}
	}
	sort.Strings(names)
	var rows []string
	for _, n := range names {
		w := strings.HasPrefix(n, "Write")
		k := p.resolvePrim(n, w, 0).akind()
		if k == "" {
			k = ".int 0" // unresolved: shows as a width nothing has
		}
		rows = append(rows, fmt.Sprintf("(%s, %v, %s)", leanStr(n), w, k))
	}
	return "def primTable : List (String × Bool × AKind) := [" + strings.Join(rows, ", ") + "]\n"
}
