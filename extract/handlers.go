package main

func genHandlers(p *pkgInfo, out string) {}
