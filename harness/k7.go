package main

import (
	"bytes"
	"encoding/binary"
	"fmt"
	"io"
	"os"
	"runtime"
	"runtime/pprof"
	"strings"
	"sync"
	"sync/atomic"
	"time"

	"github.com/hugelgupf/p9/p9"
)

// ---- gates: hold a backend call inside the backend until released -----------------------

type gate struct {
	meth    string
	skip    int // let this many matching calls pass first
	h       int // 0 = any handle
	entered chan struct{}
	release chan struct{}
	taken   bool
}

type gater struct {
	mu    sync.Mutex
	gates []*gate
	// barrier: calls of barrierMeth spin until barrierN of them have arrived, then return together
	barrierMeth string
	barrierN    int32
	barrierCnt  int32
}

func (g *gater) arm(meth string, h int) *gate {
	gt := &gate{meth: meth, h: h, entered: make(chan struct{}), release: make(chan struct{})}
	g.mu.Lock()
	g.gates = append(g.gates, gt)
	g.mu.Unlock()
	return gt
}

func (g *gater) hook(h int, meth string) {
	g.mu.Lock()
	if g.barrierMeth == meth && g.barrierN > 0 {
		n := g.barrierN
		g.mu.Unlock()
		atomic.AddInt32(&g.barrierCnt, 1)
		for t0 := time.Now(); atomic.LoadInt32(&g.barrierCnt) < n && time.Since(t0) < 200*time.Millisecond; {
		}
		return
	}
	var hit *gate
	for _, gt := range g.gates {
		if !gt.taken && gt.meth == meth && (gt.h == 0 || gt.h == h) {
			if gt.skip > 0 {
				gt.skip--
				continue
			}
			gt.taken = true
			hit = gt
			break
		}
	}
	g.mu.Unlock()
	if hit != nil {
		close(hit.entered)
		<-hit.release
	}
}

func (gt *gate) waitEntered(d time.Duration) bool {
	select {
	case <-gt.entered:
		return true
	case <-time.After(d):
		return false
	}
}

// ---- a small session helper over raw peers ---------------------------------------------------

type k7Sess struct {
	be    *backend
	g     *gater
	srv   *p9.Server
	conns []*rawPeer
	tag   uint16
}

func newK7(r *rng, nconn int) *k7Sess { return newK7w(r, nconn, false) }

// newK7w: with chunked, the server writes its replies through a writer that splits every write
// and yields in between.
func newK7w(r *rng, nconn int, chunked bool) *k7Sess {
	be := newBackend(&rng{s: r.next()}, 0, 0, false)
	g := &gater{}
	be.gate = g.hook
	be.dirRoot = true
	s := &k7Sess{be: be, g: g, srv: p9.NewServer(be)}
	for i := 0; i < nconn; i++ {
		if chunked {
			pt := &pert{r: &rng{s: r.next()}, on: true}
			s.conns = append(s.conns, newServerPeerW(s.srv, func(w io.WriteCloser) io.WriteCloser { return &chunkWriter{WriteCloser: w, p: pt} }))
		} else {
			s.conns = append(s.conns, newServerPeer(s.srv))
		}
		s.call(i, 100, map[string]interface{}{"MSize": uint64(8192), "Version": "9P2000.L.Google.7"})
		s.call(i, 104, map[string]interface{}{"fid": uint64(0), "Auth.Authenticationfid": uint64(0xffffffff)})
	}
	return s
}

func (s *k7Sess) frame(t uint8, tag uint16, vals map[string]interface{}) []byte {
	var w sliceWriter
	if err := p9.VerifSend(&w, tag, mk(t, vals)); err != nil {
		panic(err)
	}
	return w.b
}

func (s *k7Sess) nextTag() uint16 { s.tag++; return s.tag }

// send writes a request and returns its tag (no waiting).
func (s *k7Sess) send(conn int, t uint8, vals map[string]interface{}) uint16 {
	tag := s.nextTag()
	s.conns[conn].write(s.frame(t, tag, vals))
	return tag
}

// recvReply reads one reply frame: (tag, type, errno).
func (s *k7Sess) recvReply(conn int, d time.Duration) (uint16, uint8, uint32, bool) {
	f, err := s.conns[conn].readFrame(d)
	if err != nil || len(f) < 7 {
		return 0, 0, 0, false
	}
	var e uint32
	if f[4] == 7 && len(f) >= 11 {
		e = binary.LittleEndian.Uint32(f[7:])
	}
	return binary.LittleEndian.Uint16(f[5:]), f[4], e, true
}

// call = send + wait for the reply; returns reply type.
func (s *k7Sess) call(conn int, t uint8, vals map[string]interface{}) uint8 {
	s.send(conn, t, vals)
	_, rt, e, ok := s.recvReply(conn, 10*time.Second)
	if !ok {
		return 0
	}
	if rt == 7 && os.Getenv("K7DEBUG") != "" {
		fmt.Fprintf(os.Stderr, "call t=%d vals=%v errno=%d\n", t, vals, e)
	}
	return rt
}

func (s *k7Sess) close() {
	for _, c := range s.conns {
		c.close()
	}
}

// walk binds newfid by walking names from fid, forcing the kind of the last component.
func (s *k7Sess) walk(conn int, fid, newfid uint64, kind p9.FileMode, names ...string) int {
	s.be.mu.Lock()
	s.be.forceKind = kind
	s.be.mu.Unlock()
	rt := s.call(conn, 110, map[string]interface{}{"fid": fid, "newFID": newfid, "Names": names})
	s.be.mu.Lock()
	s.be.forceKind = 0
	h := s.be.lastNew
	s.be.mu.Unlock()
	if rt != 111 {
		return -1
	}
	return h
}

// ---- K7 pairs: which backend calls can sit in the backend at the same time ----------------

// k7op describes one backend-reaching operation on a prepared fid.
type k7op struct {
	name  string
	meth  string // backend method that is gated
	class string // read | write | unlink | global | none | cloneP (read on the parent)
	on    string // which prepared object: D (dir) F (file in D) G (sibling of D)
	build func(fid map[string]uint64) (uint8, map[string]interface{})
	skip  int // gate the (skip+1)-th call of meth (multi-step walks)
}

var k7ops = []k7op{
	{"getattrF", "GetAttr", "read", "F", func(f map[string]uint64) (uint8, map[string]interface{}) {
		return 24, map[string]interface{}{"fid": f["F"]}
	}, 0},
	{"getattrD", "GetAttr", "read", "D", func(f map[string]uint64) (uint8, map[string]interface{}) {
		return 24, map[string]interface{}{"fid": f["D"]}
	}, 0},
	{"getattrG", "GetAttr", "read", "G", func(f map[string]uint64) (uint8, map[string]interface{}) {
		return 24, map[string]interface{}{"fid": f["G"]}
	}, 0},
	{"readF", "ReadAt", "read", "F", func(f map[string]uint64) (uint8, map[string]interface{}) {
		return 116, map[string]interface{}{"fid": f["Fo"], "Count": uint64(8)}
	}, 0},
	{"walkDf", "WalkGetAttr", "read", "D", func(f map[string]uint64) (uint8, map[string]interface{}) {
		return 110, map[string]interface{}{"fid": f["D"], "newFID": uint64(40), "Names": []string{"w"}}
	}, 0},
	{"cloneF", "Walk", "cloneP", "F", func(f map[string]uint64) (uint8, map[string]interface{}) {
		return 110, map[string]interface{}{"fid": f["F"], "newFID": uint64(41), "Names": []string{}}
	}, 0},
	{"mkdirD", "Mkdir", "write", "D", func(f map[string]uint64) (uint8, map[string]interface{}) {
		return 72, map[string]interface{}{"Directory": f["D"], "Name": "m"}
	}, 0},
	{"symlinkD", "Symlink", "write", "D", func(f map[string]uint64) (uint8, map[string]interface{}) {
		return 16, map[string]interface{}{"Directory": f["D"], "Name": "s", "Target": "t"}
	}, 0},
	{"mkdirG", "Mkdir", "write", "G", func(f map[string]uint64) (uint8, map[string]interface{}) {
		return 72, map[string]interface{}{"Directory": f["G"], "Name": "m"}
	}, 0},
	{"setattrF", "SetAttr", "write", "F", func(f map[string]uint64) (uint8, map[string]interface{}) {
		return 26, map[string]interface{}{"fid": f["F"]}
	}, 0},
	{"unlinkDf", "UnlinkAt", "unlink", "D", func(f map[string]uint64) (uint8, map[string]interface{}) {
		return 76, map[string]interface{}{"Directory": f["D"], "Name": "f"}
	}, 0},
	{"renameatD", "RenameAt", "global", "D", func(f map[string]uint64) (uint8, map[string]interface{}) {
		return 74, map[string]interface{}{"OldDirectory": f["D"], "OldName": "zz", "NewDirectory": f["D"], "NewName": "yy"}
	}, 0},
	{"statfsF", "StatFS", "none", "F", func(f map[string]uint64) (uint8, map[string]interface{}) {
		return 8, map[string]interface{}{"fid": f["F"]}
	}, 0},
	{"openF", "Open", "open", "F", func(f map[string]uint64) (uint8, map[string]interface{}) {
		return 12, map[string]interface{}{"fid": f["F"], "Flags": uint64(0)}
	}, 0},
	{"writeF", "WriteAt", "read", "F", func(f map[string]uint64) (uint8, map[string]interface{}) {
		return 118, map[string]interface{}{"fid": f["Fo"], "Data": []byte("xy")}
	}, 0},
	{"fsyncF", "FSync", "read", "F", func(f map[string]uint64) (uint8, map[string]interface{}) {
		return 50, map[string]interface{}{"fid": f["Fo"]}
	}, 0},
	{"readdirD", "Readdir", "read", "D", func(f map[string]uint64) (uint8, map[string]interface{}) {
		return 40, map[string]interface{}{"Directory": f["Do"], "Count": uint64(512)}
	}, 0},
	{"createD", "Create", "write", "D", func(f map[string]uint64) (uint8, map[string]interface{}) {
		return 14, map[string]interface{}{"fid": f["Dc"], "Name": "n", "OpenFlags": uint64(2), "Permissions": uint64(0644)}
	}, 0},
	{"mknodD", "Mknod", "write", "D", func(f map[string]uint64) (uint8, map[string]interface{}) {
		return 18, map[string]interface{}{"Directory": f["D"], "Name": "k", "Mode": uint64(0644)}
	}, 0},
	{"linkD", "Link", "write", "D", func(f map[string]uint64) (uint8, map[string]interface{}) {
		return 70, map[string]interface{}{"Directory": f["D"], "Target": f["F"], "Name": "l"}
	}, 0},
	{"removeF", "UnlinkAt", "remove", "F", func(f map[string]uint64) (uint8, map[string]interface{}) {
		return 122, map[string]interface{}{"fid": f["F"]}
	}, 0},
	{"renameF", "RenameAt", "global", "F", func(f map[string]uint64) (uint8, map[string]interface{}) {
		return 20, map[string]interface{}{"fid": f["F"], "Directory": f["G"], "Name": "x"}
	}, 0},
	// a two-name walk from the root, held in its second step: a read-class call on D made through
	// a fid that is not on D
	{"walkRootDf", "WalkGetAttr", "read", "D", func(f map[string]uint64) (uint8, map[string]interface{}) {
		return 110, map[string]interface{}{"fid": f["R"], "newFID": uint64(42), "Names": []string{"d", "f"}}
	}, 1},
}

// operations on F that the server refuses once F's path is gone (I4), and the per-fid exclusive
// section an operation takes (Tlopen: the fid's openedMu)
var k7fenced = map[string]bool{"setattrF": true, "openF": true, "removeF": true, "renameF": true}

func k7excl(op k7op, conn int) string {
	if op.class == "open" {
		return fmt.Sprintf("open-c%d", conn)
	}
	return "-"
}

// runK7pair: for pairs of operations, hold the first inside the backend and see whether the
// second can get inside as well.
func runK7pair(r *rng, n int) {
	// every ordered pair x {same connection, across connections}, starting at a random point
	total := len(k7ops) * len(k7ops) * 2
	start := r.intn(total)
	type out struct {
		line string
		cls  string
	}
	outs := make([]out, n)
	seeds := make([]uint64, n)
	for i := range seeds {
		seeds[i] = r.next()
	}
	var wg sync.WaitGroup
	sem := make(chan struct{}, 12)
	for i := 0; i < n; i++ {
		wg.Add(1)
		sem <- struct{}{}
		go func(i int) {
			defer wg.Done()
			defer func() { <-sem }()
			if tooManyHangs() {
				return
			}
			cr := &rng{s: seeds[i]}
			idx := (start + i) % total
			a := k7ops[idx/2/len(k7ops)]
			b := k7ops[idx/2%len(k7ops)]
			cross := idx%2 == 1
			// "can overlap" is a possibility: a pair seen blocked is tried once more with a longer wait
			res, ok := k7pairOnce(cr, a, b, cross, 40*time.Millisecond)
			if ok && res[0] == 0 {
				if res2, ok2 := k7pairOnce(cr, a, b, cross, 300*time.Millisecond); ok2 && res2[0] == 1 {
					res = res2
				}
			}
			if !ok {
				return
			}
			c := 0
			if cross {
				c = 1
			}
			fb := 0
			if k7fenced[b.name] {
				fb = 1
			}
			outs[i] = out{fmt.Sprintf("k7pair a=%s ca=%s oa=%s xa=%s b=%s cb=%s ob=%s xb=%s fb=%d cross=%d => overlap=%d entered=%d answered=%d bdone=%d", a.name, a.class, a.on, k7excl(a, 0), b.name, b.class, b.on, k7excl(b, c), fb, c, res[0], res[1], res[2], res[3]), a.class + "/" + b.class}
		}(i)
	}
	wg.Wait()
	for _, o := range outs {
		if o.line != "" {
			count("pair:" + o.cls)
			emit("%s", o.line)
		}
	}
}

func k7pairOnce(r *rng, a, b k7op, cross bool, wait time.Duration) ([4]int, bool) {
	s := newK7(r, 2)
	defer s.close()
	// tree: root / d (D) / f (F);  root / g (G). Both connections bind the same paths.
	fids := []map[string]uint64{{}, {}}
	for c := 0; c < 2; c++ {
		fids[c]["D"], fids[c]["F"], fids[c]["Fo"], fids[c]["G"], fids[c]["Do"], fids[c]["Dc"], fids[c]["R"] = 1, 2, 3, 4, 5, 6, 0
		if s.walk(c, 0, 1, p9.ModeDirectory|0755, "d") < 0 || s.walk(c, 1, 2, p9.ModeRegular|0644, "f") < 0 ||
			s.walk(c, 1, 3, p9.ModeRegular|0644, "f") < 0 || s.walk(c, 0, 4, p9.ModeDirectory|0755, "g") < 0 ||
			s.walk(c, 0, 5, p9.ModeDirectory|0755, "d") < 0 || s.walk(c, 0, 6, p9.ModeDirectory|0755, "d") < 0 {
			return [4]int{}, false
		}
		if s.call(c, 12, map[string]interface{}{"fid": uint64(3), "Flags": uint64(2)}) != 13 ||
			s.call(c, 12, map[string]interface{}{"fid": uint64(5), "Flags": uint64(0)}) != 13 {
			return [4]int{}, false
		}
	}
	cb := 0
	if cross {
		cb = 1
	}
	// every entry created by a walk from here on is a directory (multi-step walks go through it)
	s.be.mu.Lock()
	s.be.forceKind = p9.ModeDirectory | 0755
	s.be.mu.Unlock()
	ga := s.g.arm(a.meth, 0)
	ga.skip = a.skip
	ta, va := a.build(fids[0])
	s.send(0, ta, va)
	if !ga.waitEntered(3 * time.Second) {
		close(ga.release)
		return [4]int{}, false
	}
	gb := s.g.arm(b.meth, 0)
	gb.skip = b.skip
	tb, vb := b.build(fids[cb])
	s.send(cb, tb, vb)
	overlap := 0
	if gb.waitEntered(wait) {
		overlap = 1
	} else if os.Getenv("K7DEBUG") == a.name+","+b.name {
		pprof.Lookup("goroutine").WriteTo(os.Stderr, 2)
	}
	// a request that could enter the backend while the first is held is also *answered* while the first
	// is still held (C06: a blocked request delays only what the contract orders after it)
	bdone, early := 0, 0
	if overlap == 1 {
		close(gb.release)
		if _, _, _, ok := s.recvReply(cb, 1500*time.Millisecond); ok {
			bdone, early = 1, 1
		}
	}
	close(ga.release)
	entered := 1
	if overlap == 0 && !gb.waitEntered(3*time.Second) {
		entered = 0 // the second never reached the backend (refused or hung)
	}
	if overlap == 0 {
		close(gb.release)
	}
	// both must be answered
	answered := early
	if cb == 0 {
		for k := early; k < 2; k++ {
			if _, _, _, ok := s.recvReply(0, 5*time.Second); ok {
				answered++
			}
		}
	} else {
		if _, _, _, ok := s.recvReply(0, 5*time.Second); ok {
			answered++
		}
		if early == 0 {
			if _, _, _, ok := s.recvReply(1, 5*time.Second); ok {
				answered++
			}
		}
	}
	if answered < 2 {
		noteHang()
	}
	return [4]int{overlap, entered, answered, bdone}, true
}

// ---- K7 flush -----------------------------------------------------------------------------------

func runK7flush(r *rng, n int) {
	for i := 0; i < n && !tooManyHangs(); i++ {
		// half of the runs over a transport that takes several Write calls per frame (and yields in
		// between): a reply written outside the send lock lands inside another reply
		s := newK7w(r, 1, r.chance(1, 2))
		if s.walk(0, 0, 1, p9.ModeRegular|0644, "f") < 0 || s.call(0, 12, map[string]interface{}{"fid": uint64(1), "Flags": uint64(2)}) != 13 ||
			s.walk(0, 0, 2, p9.ModeRegular|0644, "o") < 0 {
			s.close()
			continue
		}
		// the flushed request: read / write / getattr / walk, held in the backend
		kinds := []struct {
			meth string
			t    uint8
			v    map[string]interface{}
		}{
			{"ReadAt", 116, map[string]interface{}{"fid": uint64(1), "Count": uint64(16)}},
			{"WriteAt", 118, map[string]interface{}{"fid": uint64(1), "Data": []byte("abc")}},
			{"GetAttr", 24, map[string]interface{}{"fid": uint64(1)}},
			{"Walk", 110, map[string]interface{}{"fid": uint64(1), "newFID": uint64(9), "Names": []string{}}},
			// a clone onto a fid that is already bound: the replaced File's Close is the call held
			{"Close", 110, map[string]interface{}{"fid": uint64(2), "newFID": uint64(1), "Names": []string{}}},
		}
		k := kinds[r.intn(len(kinds))]
		g := s.g.arm(k.meth, 0)
		// the victim's tag is adversarial: NOTAG and its neighbours are tags like any other
		victim := []uint16{0xffff, 0xfffe, 0x8000, 0, 40000 + uint16(r.intn(1000))}[r.intn(5)]
		s.conns[0].write(s.frame(k.t, victim, k.v))
		if !g.waitEntered(2 * time.Second) {
			close(g.release)
			s.close()
			continue
		}
		chained := r.chance(1, 2)
		f1 := s.send(0, 108, map[string]interface{}{"OldTag": uint64(victim)})
		var f2 uint16
		if chained {
			f2 = s.send(0, 108, map[string]interface{}{"OldTag": uint64(f1)})
		}
		// a second flush of the same running request: both wait, both are answered
		twice := r.chance(1, 2)
		var f3 uint16
		if twice {
			f3 = s.send(0, 108, map[string]interface{}{"OldTag": uint64(victim)})
		}
		// flush of an idle tag and of its own tag are answered at once; so is unrelated traffic
		idleTag := s.send(0, 108, map[string]interface{}{"OldTag": uint64(60000)})
		ownTag := s.nextTag()
		s.conns[0].write(s.frame(108, ownTag, map[string]interface{}{"OldTag": uint64(ownTag)}))
		other := s.send(0, 24, map[string]interface{}{"fid": uint64(2)})
		got := map[uint16]uint8{}
		early := 0
		// the three requests that must be answered at once, then a further window in which nothing
		// concerning the gated request may arrive
		deadline := time.Now().Add(5 * time.Second)
		for time.Now().Before(deadline) {
			tag, rt, _, ok := s.recvReply(0, 80*time.Millisecond)
			if !ok {
				if got[idleTag] != 0 && got[ownTag] != 0 && got[other] != 0 {
					break
				}
				continue
			}
			got[tag] = rt
			// the flush of the running request and the request itself must not be answered yet; the
			// chained flush names a Tflush, which runs no backend call: whether it waits depends on
			// whether that Tflush has registered its tag yet – both orders are legitimate
			if tag == f1 || tag == victim || (twice && tag == f3) {
				early++
			}
		}
		idle, own, oth := 0, 0, 0
		if got[idleTag] == 109 {
			idle = 1
		}
		if got[ownTag] == 109 {
			own = 1
		}
		if got[other] == 25 {
			oth = 1
		}
		close(g.release)
		dup := 0
		// still to come: the victim's reply, its Rflush, and the chained Rflush unless it came already
		missingNow := func() int {
			k := 0
			for _, tg := range []uint16{victim, f1} {
				if _, ok := got[tg]; !ok {
					k++
				}
			}
			if _, ok := got[f2]; chained && !ok {
				k++
			}
			if _, ok := got[f3]; twice && !ok {
				k++
			}
			return k
		}
		for missingNow() > 0 {
			tag, rt, _, ok := s.recvReply(0, 5*time.Second)
			if !ok {
				break
			}
			if _, seen := got[tag]; seen {
				dup++
			}
			got[tag] = rt
		}
		rflush, rvictim := 0, 0
		if got[f1] == 109 && (!chained || got[f2] == 109) && (!twice || got[f3] == 109) {
			rflush = 1
		}
		if rt, ok := got[victim]; ok && rt != 109 {
			rvictim = 1
		}
		s.close()
		ch := 0
		if chained {
			ch = 1
		}
		if rflush == 0 || rvictim == 0 {
			noteHang()
		}
		count("flushed:" + k.meth)
		tw := 0
		if twice {
			tw = 1
		}
		emit("k7flush victim=%s vtag=%d chained=%d twice=%d => early=%d idle=%d own=%d other=%d rflush=%d rvictim=%d dup=%d", k.meth, victim, ch, tw, early, idle, own, oth, rflush, rvictim, dup)
	}
}

// ---- K7 tags: bursts with adversarial tags, reply accounting, frame contiguity --------------

func runK7tags(r *rng, n int) {
	for i := 0; i < n && !tooManyHangs(); i++ {
		// a third of the bursts on a single P: goroutines then interleave exactly at the yields of the
		// chunking writer, which is where buffers shared through a sync.Pool would be seen half-written
		oneP := r.chance(1, 3)
		prevP := 0
		if oneP {
			prevP = runtime.GOMAXPROCS(1)
		}
		s := newK7w(r, 1, oneP || r.chance(1, 2))
		s.be.mu.Lock()
		s.be.attrByH = true
		s.be.mu.Unlock()
		handleOf := map[uint64]int{}
		for f := uint64(1); f <= 4; f++ {
			handleOf[f] = s.walk(0, 0, f, p9.ModeRegular|0644, fmt.Sprintf("f%d", f))
		}
		fidOfTag := map[uint16]uint64{}
		burst := 4 + r.intn(60)
		// gate a few of them for a while so that replies overtake each other
		var gates []*gate
		for k := 0; k < r.intn(4); k++ {
			gates = append(gates, s.g.arm("GetAttr", 0))
		}
		tags := map[uint16]int{}
		var stream []byte
		base := uint16(r.bits(16))
		for k := 0; k < burst; k++ {
			tag := base + uint16(k)*uint16(1+r.intn(3))
			if tag == 0xffff {
				tag = 0xfffe
			}
			if _, dupe := tags[tag]; dupe {
				continue
			}
			tags[tag] = 0
			gf := uint64(1 + r.intn(4))
			t, v := uint8(24), map[string]interface{}{"fid": gf}
			if r.chance(1, 4) {
				t, v = 8, map[string]interface{}{"fid": uint64(1 + r.intn(5))} // StatFS, sometimes on an unbound fid
			}
			if r.chance(1, 6) {
				// a well-delimited frame of an unknown type: answered with Rlerror straight from the
				// receive path, while other replies are being written
				stream = append(stream, rawFrame(250, tag, []byte{1, 2, 3})...)
				continue
			}
			if t == 24 {
				fidOfTag[tag] = gf
			}
			stream = append(stream, s.frame(t, tag, v)...)
		}
		go s.conns[0].write(stream)
		delay := time.Duration(r.intn(20)) * time.Millisecond
		go func() {
			time.Sleep(delay)
			for _, g := range gates {
				close(g.release)
			}
		}()
		// read the reply stream as raw bytes and parse it: frames must be contiguous
		want := len(tags)
		var raw bytes.Buffer
		badframe, unasked, dup, n := 0, 0, 0, 0
		wrongbody := 0
		for n < want {
			f, err := s.conns[0].readFrame(5 * time.Second)
			if err != nil {
				break
			}
			raw.Write(f)
			if len(f) < 7 || (f[4] != 25 && f[4] != 9 && f[4] != 7) {
				badframe++
				break
			}
			tag := binary.LittleEndian.Uint16(f[5:])
			// an Rgetattr carries the attributes of the file its request named, nothing else's:
			// size @56, blocks @72, atime @80, mtime @96 (after header 7, valid 8, qid 13, mode/uid/gid 12, nlink 8, rdev 8)
			if gf, isGet := fidOfTag[tag]; isGet && f[4] == 25 && len(f) >= 104 {
				h := handleOf[gf]
				if binary.LittleEndian.Uint64(f[7:]) != 0x3fff { // the valid mask this backend always returns
					wrongbody++
				}
				for k, off := range []int{56, 72, 80, 96} {
					if binary.LittleEndian.Uint64(f[off:]) != attrWord(h, k+1) {
						wrongbody++
						break
					}
				}
			}
			c, ok := tags[tag]
			if !ok {
				unasked++
			} else if c > 0 {
				dup++
			}
			tags[tag] = c + 1
			n++
		}
		// nothing more may arrive
		extra := 0
		if _, err := s.conns[0].readFrame(60 * time.Millisecond); err == nil {
			extra = 1
		}
		missing := 0
		for _, c := range tags {
			if c == 0 {
				missing++
			}
		}
		s.close()
		if oneP {
			runtime.GOMAXPROCS(prevP)
		}
		if missing > 0 {
			noteHang()
		}
		count(fmt.Sprintf("burst<=%d", (burst+15)/16*16))
		emit("k7tags burst=%d gated=%d => missing=%d dup=%d unasked=%d badframe=%d extra=%d wrongbody=%d", len(tags), len(gates), missing, dup, unasked, badframe, extra, wrongbody)
	}
}

// runK7reuse: a request whose tag is still in flight is not served; the tag is free after its reply.
func runK7reuse(r *rng, n int) {
	for i := 0; i < n && !tooManyHangs(); i++ {
		s := newK7(r, 1)
		s.walk(0, 0, 1, p9.ModeRegular|0644, "a")
		g := s.g.arm("GetAttr", 0)
		fr := s.frame(24, 7, map[string]interface{}{"fid": uint64(1)})
		s.conns[0].write(fr)
		g.waitEntered(2 * time.Second)
		s.conns[0].write(fr) // same tag while in flight
		during := 0
		if _, _, _, ok := s.recvReply(0, 80*time.Millisecond); ok {
			during++
		}
		close(g.release)
		total := during
		first := 0
		if tag, rt, _, ok := s.recvReply(0, 3*time.Second); ok && tag == 7 && rt == 25 {
			first = 1
			total++
		}
		second := 0
		if _, _, _, ok := s.recvReply(0, 80*time.Millisecond); ok {
			second = 1
			total++
		}
		s.conns[0].write(fr) // immediate re-use after the reply
		third := 0
		if tag, rt, _, ok := s.recvReply(0, 3*time.Second); ok && tag == 7 && rt == 25 {
			third = 1
			total++
		}
		s.close()
		emit("k7reuse => during=%d first=%d second=%d third=%d total=%d", during, first, second, third, total)
	}
}

// ---- deterministic replays of the concurrency defects (regression scenarios) ----------------

// runK7scen: D9 (rename in one directory while the last other reference goes away), D13 (a Close
// blocked in the backend must not stall the connection), D8 (two Tlopen on one fid).
func runK7scen(r *rng, n int) {
	for i := 0; i < n && !tooManyHangs(); i++ {
		// D13: clunk fid 1 blocks in Close; a getattr on another fid of the same connection proceeds
		{
			s := newK7(r, 1)
			s.walk(0, 0, 1, p9.ModeRegular|0644, "a")
			s.walk(0, 0, 2, p9.ModeRegular|0644, "b")
			g := s.g.arm("Close", 0)
			s.send(0, 120, map[string]interface{}{"fid": uint64(1)})
			okE := g.waitEntered(2 * time.Second)
			tg := s.send(0, 24, map[string]interface{}{"fid": uint64(2)})
			tag, rt, _, ok := s.recvReply(0, 4*time.Second)
			prog := 0
			if okE && ok && tag == tg && rt == 25 {
				prog = 1
			} else if os.Getenv("K7DEBUG") == "close" {
				fmt.Fprintf(os.Stderr, "okE=%v ok=%v tag=%d tg=%d rt=%d\n", okE, ok, tag, tg, rt)
				pprof.Lookup("goroutine").WriteTo(os.Stderr, 2)
			}
			close(g.release)
			s.recvReply(0, 3*time.Second)
			s.close()
			emit("k7scen name=close-blocked-other-fid-proceeds => progressed=%d", prog)
		}
		// D8: two Tlopen on the same fid, the first held inside Open
		{
			s := newK7(r, 1)
			s.walk(0, 0, 1, p9.ModeRegular|0644, "a")
			g := s.g.arm("Open", 0)
			s.send(0, 12, map[string]interface{}{"fid": uint64(1), "Flags": uint64(0)})
			g.waitEntered(2 * time.Second)
			g2 := s.g.arm("Open", 0)
			s.send(0, 12, map[string]interface{}{"fid": uint64(1), "Flags": uint64(0)})
			second := 0
			if g2.waitEntered(100 * time.Millisecond) {
				second = 1
			}
			close(g.release)
			if second == 0 && g2.waitEntered(300*time.Millisecond) {
				second = 1
			}
			close(g2.release)
			s.recvReply(0, 3*time.Second)
			s.recvReply(0, 3*time.Second)
			s.close()
			emit("k7scen name=two-tlopen-one-fid => opens=%d", 1+second)
		}
		// D9: conn B renames a -> b inside the root while Renamed is held; conn A, the only other
		// holder of a fid on "a", goes away; then Renamed is released
		{
			s := newK7(r, 2)
			s.walk(0, 0, 1, p9.ModeRegular|0644, "a") // conn A holds a fid on "a"
			g := s.g.arm("Renamed", 0)
			tr := s.send(1, 74, map[string]interface{}{"OldDirectory": uint64(0), "OldName": "a", "NewDirectory": uint64(0), "NewName": "b"})
			entered := g.waitEntered(2 * time.Second)
			s.conns[0].c.Close() // conn A disappears: its stop() drops the last reference
			time.Sleep(30 * time.Millisecond)
			close(g.release)
			tag, rt, _, ok := s.recvReply(1, 3*time.Second)
			done := 0
			if ok && tag == tr && rt == 75 {
				done = 1
			}
			// the server must still answer a further request
			alive := 0
			if s.call(1, 24, map[string]interface{}{"fid": uint64(0)}) == 25 {
				alive = 1
			}
			if !entered {
				done, alive = 1, 1 // scenario did not form (no reference to notify): not a failure
			}
			s.conns[1].c.Close()
			emit("k7scen name=rename-samedir-while-last-ref-dropped => renamed=%d alive=%d", done, alive)
		}
		// a directory is renamed while the last reference to a file below it is being dropped
		// (its Close is held inside the backend): the closing File must not be notified
		{
			s := newK7(r, 2)
			s.walk(0, 0, 1, p9.ModeDirectory|0755, "d")
			s.walk(0, 1, 2, p9.ModeRegular|0644, "f")
			g := s.g.arm("Close", 0)
			s.send(0, 120, map[string]interface{}{"fid": uint64(2)})
			entered := g.waitEntered(2 * time.Second)
			rt := s.call(1, 74, map[string]interface{}{"OldDirectory": uint64(0), "OldName": "d", "NewDirectory": uint64(0), "NewName": "e"})
			close(g.release)
			s.recvReply(0, 3*time.Second)
			s.be.mu.Lock()
			uac := len(s.be.uac)
			s.be.mu.Unlock()
			ren := 0
			if rt == 75 || !entered {
				ren = 1
			}
			s.close()
			emit("k7scen name=rename-dir-while-child-closing => renamed=%d uac=%d", ren, uac)
		}
		// a panic inside a read-class backend call: answered EFAULT, and the read locks it ran under are
		// released – a write-class request on the same file and a rename are still answered
		{
			s := newK7(r, 1)
			s.walk(0, 0, 1, p9.ModeRegular|0644, "f")
			s.call(0, 12, map[string]interface{}{"fid": uint64(1), "Flags": uint64(2)})
			s.be.mu.Lock()
			s.be.panicOn = []string{"ReadAt", "GetAttr", "WriteAt"}[r.intn(3)]
			meth := s.be.panicOn
			s.be.mu.Unlock()
			var rt uint8
			switch meth {
			case "ReadAt":
				rt = s.call(0, 116, map[string]interface{}{"fid": uint64(1), "Count": uint64(8)})
			case "GetAttr":
				rt = s.call(0, 24, map[string]interface{}{"fid": uint64(1)})
			default:
				rt = s.call(0, 118, map[string]interface{}{"fid": uint64(1), "Data": []byte("x")})
			}
			efault := 0
			if rt == 7 {
				efault = 1
			}
			setattr, renamed := 0, 0
			if s.call(0, 26, map[string]interface{}{"fid": uint64(1)}) == 27 {
				setattr = 1
			}
			if s.call(0, 74, map[string]interface{}{"OldDirectory": uint64(0), "OldName": "f", "NewDirectory": uint64(0), "NewName": "g"}) == 75 {
				renamed = 1
			}
			if setattr == 0 || renamed == 0 {
				noteHang()
			}
			s.close()
			emit("k7scen name=panic-in-a-read-class-call-keeps-serving => efault=%d setattr=%d renamed=%d", efault, setattr, renamed)
		}
		// the entry itself is renamed while the last reference to it is being dropped (its Close is held
		// inside the backend): the dying reference is still registered under its name, and must be
		// skipped, not revived – no Renamed on the closing File, no second Close
		{
			s := newK7(r, 2)
			s.walk(0, 0, 1, p9.ModeRegular|0644, "a")
			g := s.g.arm("Close", 0)
			s.send(0, 120, map[string]interface{}{"fid": uint64(1)})
			entered := g.waitEntered(2 * time.Second)
			rt := s.call(1, 74, map[string]interface{}{"OldDirectory": uint64(0), "OldName": "a", "NewDirectory": uint64(0), "NewName": "b"})
			close(g.release)
			s.recvReply(0, 3*time.Second)
			ren := 0
			if rt == 75 || !entered {
				ren = 1
			}
			s.close()
			life := s.be.lifecycle()
			emit("k7scen name=rename-of-an-entry-whose-last-fid-is-closing => renamed=%d %s", ren, life)
		}
		// a clunk racing with an in-flight operation on the same fid: the File is closed only when
		// the operation has returned, once, and not used afterwards
		{
			s := newK7(r, 1)
			h := s.walk(0, 0, 1, p9.ModeRegular|0644, "f")
			s.call(0, 12, map[string]interface{}{"fid": uint64(1), "Flags": uint64(0)})
			g := s.g.arm("ReadAt", 0)
			s.send(0, 116, map[string]interface{}{"fid": uint64(1), "Count": uint64(8)})
			g.waitEntered(2 * time.Second)
			clunked := 0
			tc := s.send(0, 120, map[string]interface{}{"fid": uint64(1)})
			if tag, rt, _, ok := s.recvReply(0, 3*time.Second); ok && tag == tc && rt == 121 {
				clunked = 1
			}
			time.Sleep(20 * time.Millisecond)
			s.be.mu.Lock()
			early := s.be.closed[h]
			s.be.mu.Unlock()
			close(g.release)
			s.recvReply(0, 3*time.Second)
			after := 0
			for k := 0; k < 200; k++ {
				s.be.mu.Lock()
				after = s.be.closed[h]
				s.be.mu.Unlock()
				if after > 0 {
					break
				}
				time.Sleep(10 * time.Millisecond)
			}
			time.Sleep(10 * time.Millisecond)
			s.be.mu.Lock()
			after = s.be.closed[h]
			uac := len(s.be.uac)
			s.be.mu.Unlock()
			s.close()
			emit("k7scen name=clunk-races-inflight-read => clunked=%d closed_early=%d closed_after=%d uac=%d", clunked, early, after, uac)
		}
		// the connection is cut while a request is inside the backend: Handle returns only after
		// the handler has finished, and every File is closed exactly once
		{
			s := newK7(r, 1)
			h := s.walk(0, 0, 1, p9.ModeRegular|0644, "f")
			s.call(0, 12, map[string]interface{}{"fid": uint64(1), "Flags": uint64(0)})
			g := s.g.arm("ReadAt", 0)
			s.send(0, 116, map[string]interface{}{"fid": uint64(1), "Count": uint64(8)})
			g.waitEntered(2 * time.Second)
			s.conns[0].c.Close()
			retEarly := 0
			select {
			case <-s.conns[0].done:
				retEarly = 1
			case <-time.After(80 * time.Millisecond):
			}
			s.be.mu.Lock()
			early := s.be.closed[h]
			s.be.mu.Unlock()
			close(g.release)
			ret := 0
			select {
			case <-s.conns[0].done:
				ret = 1
			case <-time.After(5 * time.Second):
			}
			emit("k7scen name=cut-with-request-in-backend => returned_early=%d closed_early=%d returned=%d %s", retEarly, early, ret, s.be.lifecycle())
		}
		// ... and when the request inside the backend is one that *produces* a File (a walk): the File it
		// brings back after the cut is closed as well
		{
			s := newK7(r, 1)
			s.walk(0, 0, 1, p9.ModeDirectory|0755, "d")
			s.call(0, 24, map[string]interface{}{"fid": uint64(1)})
			g := s.g.arm("WalkGetAttr", 0)
			s.be.mu.Lock()
			s.be.forceKind = p9.ModeRegular | 0644
			s.be.mu.Unlock()
			s.send(0, 110, map[string]interface{}{"fid": uint64(1), "newFID": uint64(2), "Names": []string{"g"}})
			entered := g.waitEntered(2 * time.Second)
			s.conns[0].c.Close()
			time.Sleep(60 * time.Millisecond)
			close(g.release)
			ret := 0
			select {
			case <-s.conns[0].done:
				ret = 1
			case <-time.After(5 * time.Second):
			}
			life := s.be.lifecycle()
			if !entered {
				ret, life = 1, "leaks= dbl= uac="
			}
			emit("k7scen name=cut-with-a-walk-in-the-backend => returned=%d %s", ret, life)
		}
		// two Tclunk of one fid in flight together (the first held inside the xattr commit): looking the
		// fid up and unbinding it are one step – exactly one of them is answered Rclunk, the other EBADF
		{
			s := newK7(r, 1)
			s.walk(0, 0, 1, p9.ModeRegular|0644, "f")
			s.call(0, 32, map[string]interface{}{"fid": uint64(1), "Name": "user.x", "AttrSize": uint64(1), "Flags": uint64(0)})
			s.call(0, 118, map[string]interface{}{"fid": uint64(1), "Offset": uint64(0), "Data": []byte("z")})
			g := s.g.arm("SetXattr", 0)
			s.send(0, 120, map[string]interface{}{"fid": uint64(1)})
			entered := g.waitEntered(2 * time.Second)
			s.send(0, 120, map[string]interface{}{"fid": uint64(1)})
			rclunk, ebadf := 0, 0
			tally := func() {
				if _, rt, errno, ok := s.recvReply(0, 3*time.Second); ok {
					if rt == 121 {
						rclunk++
					} else if rt == 7 && errno == 9 {
						ebadf++
					}
				}
			}
			tally()
			close(g.release)
			tally()
			s.close()
			if !entered {
				rclunk, ebadf = 1, 1
			}
			emit("k7scen name=two-tclunk-one-fid => rclunk=%d ebadf=%d", rclunk, ebadf)
		}
		// an unlink that the backend refuses changes nothing: the entry keeps its path node, so a fid walked
		// to it afterwards shares the lock of a fid walked before (SetAttr through one excludes GetAttr
		// through the other)
		{
			s := newK7(r, 2)
			s.walk(0, 0, 1, p9.ModeDirectory|0755, "x")
			s.be.mu.Lock()
			s.be.errOn = "UnlinkAt"
			s.be.mu.Unlock()
			refused := s.call(0, 76, map[string]interface{}{"Directory": uint64(0), "Name": "x", "Flags": uint64(0x200)})
			s.walk(1, 0, 2, p9.ModeDirectory|0755, "x")
			g := s.g.arm("SetAttr", 0)
			s.send(0, 26, map[string]interface{}{"fid": uint64(1)})
			entered := g.waitEntered(2 * time.Second)
			g2 := s.g.arm("GetAttr", 0)
			s.send(1, 24, map[string]interface{}{"fid": uint64(2)})
			overlapped := 0
			if g2.waitEntered(150 * time.Millisecond) {
				overlapped = 1
			}
			close(g.release)
			g2.waitEntered(2 * time.Second)
			close(g2.release)
			s.recvReply(0, 3*time.Second)
			s.recvReply(1, 3*time.Second)
			s.close()
			if !entered || refused != 7 {
				overlapped = 0
			}
			emit("k7scen name=refused-unlink-keeps-the-path-node => overlapped=%d", overlapped)
		}
		// a backend panic inside UnlinkAt is answered EFAULT and leaves no lock behind: the entry's
		// other fid, and a second unlink of the name, are still served
		{
			s := newK7(r, 1)
			s.walk(0, 0, 1, p9.ModeDirectory|0755, "d")
			s.walk(0, 1, 2, p9.ModeRegular|0644, "f")
			s.be.mu.Lock()
			s.be.panicOn = "UnlinkAt"
			s.be.mu.Unlock()
			efault, child, again := 0, 0, 0
			s.send(0, 76, map[string]interface{}{"Directory": uint64(1), "Name": "f", "Flags": uint64(0)})
			if _, rt, e, ok := s.recvReply(0, 4*time.Second); ok && rt == 7 && e == 14 {
				efault = 1
			}
			s.send(0, 24, map[string]interface{}{"fid": uint64(2)})
			if _, rt, _, ok := s.recvReply(0, 4*time.Second); ok && rt == 25 {
				child = 1
			}
			s.send(0, 76, map[string]interface{}{"Directory": uint64(1), "Name": "f", "Flags": uint64(0)})
			if _, rt, _, ok := s.recvReply(0, 4*time.Second); ok && rt == 77 {
				again = 1
			}
			s.close()
			emit("k7scen name=panic-in-unlinkat-keeps-serving => efault=%d child=%d again=%d", efault, child, again)
		}
		// a panic in the Renamed notification of a file *below* a renamed directory is answered EFAULT
		// and leaves no lock behind: the directory can still be walked from and renamed again
		{
			s := newK7(r, 1)
			s.walk(0, 0, 1, p9.ModeDirectory|0755, "d")
			s.walk(0, 1, 2, p9.ModeDirectory|0755, "s")
			h3 := s.walk(0, 2, 3, p9.ModeRegular|0644, "f")
			s.be.mu.Lock()
			s.be.panicRenH = h3
			s.be.mu.Unlock()
			efault, walked, again := 0, 0, 0
			s.send(0, 74, map[string]interface{}{"OldDirectory": uint64(0), "OldName": "d", "NewDirectory": uint64(0), "NewName": "e"})
			if _, rt, e, ok := s.recvReply(0, 4*time.Second); ok && rt == 7 && e == 14 {
				efault = 1
			}
			s.be.mu.Lock()
			s.be.forceKind = p9.ModeRegular | 0644
			s.be.mu.Unlock()
			s.send(0, 110, map[string]interface{}{"fid": uint64(2), "newFID": uint64(5), "Names": []string{"new"}})
			if _, rt, _, ok := s.recvReply(0, 4*time.Second); ok && rt == 111 {
				walked = 1
			}
			s.send(0, 74, map[string]interface{}{"OldDirectory": uint64(0), "OldName": "e", "NewDirectory": uint64(0), "NewName": "g"})
			if _, rt, _, ok := s.recvReply(0, 4*time.Second); ok && rt == 75 {
				again = 1
			}
			s.close()
			emit("k7scen name=panic-in-renamed-of-a-descendant-keeps-serving => efault=%d walked=%d again=%d %s", efault, walked, again, s.be.lifecycle())
		}
		// … and likewise a panic in the Renamed notification of the renamed entry itself
		{
			s := newK7(r, 1)
			s.walk(0, 0, 1, p9.ModeDirectory|0755, "d")
			h2 := s.walk(0, 1, 2, p9.ModeRegular|0644, "x")
			s.be.mu.Lock()
			s.be.panicRenH = h2
			s.be.mu.Unlock()
			efault, walked := 0, 0
			s.send(0, 74, map[string]interface{}{"OldDirectory": uint64(1), "OldName": "x", "NewDirectory": uint64(1), "NewName": "y"})
			if _, rt, e, ok := s.recvReply(0, 4*time.Second); ok && rt == 7 && e == 14 {
				efault = 1
			}
			s.be.mu.Lock()
			s.be.forceKind = p9.ModeRegular | 0644
			s.be.mu.Unlock()
			s.send(0, 110, map[string]interface{}{"fid": uint64(1), "newFID": uint64(5), "Names": []string{"z"}})
			if _, rt, _, ok := s.recvReply(0, 4*time.Second); ok && rt == 111 {
				walked = 1
			}
			s.close()
			emit("k7scen name=panic-in-renamed-of-the-moved-entry-keeps-serving => efault=%d walked=%d", efault, walked)
		}
		// after a cross-directory rename the fid that travelled with the file and a fid walked to
		// the new path afterwards are on one path: SetAttr through one excludes GetAttr through the other
		{
			s := newK7(r, 1)
			s.walk(0, 0, 1, p9.ModeDirectory|0755, "d")
			s.walk(0, 0, 2, p9.ModeDirectory|0755, "g")
			s.walk(0, 1, 3, p9.ModeRegular|0644, "f")
			moved := s.call(0, 74, map[string]interface{}{"OldDirectory": uint64(1), "OldName": "f", "NewDirectory": uint64(2), "NewName": "y"})
			s.walk(0, 2, 4, p9.ModeRegular|0644, "y")
			g := s.g.arm("GetAttr", 0)
			s.send(0, 24, map[string]interface{}{"fid": uint64(3)})
			entered := g.waitEntered(2 * time.Second)
			g2 := s.g.arm("SetAttr", 0)
			s.send(0, 26, map[string]interface{}{"fid": uint64(4)})
			overlap := 0
			if g2.waitEntered(120 * time.Millisecond) {
				overlap = 1
			}
			close(g.release)
			g2.waitEntered(3 * time.Second)
			close(g2.release)
			s.recvReply(0, 3*time.Second)
			s.recvReply(0, 3*time.Second)
			s.close()
			if moved == 75 && entered { // judged only when the scenario formed
				emit("k7scen name=moved-fid-and-fresh-fid-share-the-path-lock => formed=1 overlap=%d", overlap)
			}
		}
		// two first walks to one never-walked name, released from the backend at the same instant:
		// both fids must end up on one path node (a SetAttr through one excludes a GetAttr through
		// the other)
		for round := 0; round < 8; round++ {
			s := newK7(r, 2)
			s.walk(0, 0, 1, p9.ModeDirectory|0755, "d")
			s.walk(1, 0, 1, p9.ModeDirectory|0755, "d")
			s.be.mu.Lock()
			s.be.forceKind = p9.ModeRegular | 0644
			s.be.noENOSYS = true
			s.be.mu.Unlock()
			s.g.mu.Lock()
			s.g.barrierMeth, s.g.barrierN, s.g.barrierCnt = "WalkGetAttr:return", 2, 0
			s.g.mu.Unlock()
			nm := fmt.Sprintf("n%d", round)
			s.send(0, 110, map[string]interface{}{"fid": uint64(1), "newFID": uint64(2), "Names": []string{nm}})
			s.send(1, 110, map[string]interface{}{"fid": uint64(1), "newFID": uint64(2), "Names": []string{nm}})
			_, ra, _, oka := s.recvReply(0, 4*time.Second)
			_, rb, _, okb := s.recvReply(1, 4*time.Second)
			s.g.mu.Lock()
			s.g.barrierN = 0
			s.g.mu.Unlock()
			if !oka || !okb || ra != 111 || rb != 111 {
				s.close()
				continue
			}
			s.be.mu.Lock()
			s.be.forceKind = 0
			s.be.mu.Unlock()
			g := s.g.arm("GetAttr", 0)
			s.send(0, 24, map[string]interface{}{"fid": uint64(2)})
			if !g.waitEntered(2 * time.Second) {
				close(g.release)
				s.close()
				continue
			}
			g2 := s.g.arm("SetAttr", 0)
			s.send(1, 26, map[string]interface{}{"fid": uint64(2)})
			overlap := 0
			if g2.waitEntered(100 * time.Millisecond) {
				overlap = 1
			}
			close(g.release)
			g2.waitEntered(3 * time.Second)
			close(g2.release)
			s.recvReply(0, 3*time.Second)
			s.recvReply(1, 3*time.Second)
			s.close()
			emit("k7scen name=simultaneous-first-walks-share-one-path-node => overlap=%d", overlap)
		}
		// a Tflush naming its own tag leaves no tag behind either
		{
			s := newK7(r, 1)
			s.conns[0].write(s.frame(108, 55, map[string]interface{}{"OldTag": uint64(55)}))
			self := 0
			if tag, rt, _, ok := s.recvReply(0, 3*time.Second); ok && tag == 55 && rt == 109 {
				self = 1
			}
			s.conns[0].write(s.frame(108, 56, map[string]interface{}{"OldTag": uint64(55)}))
			fl := 0
			if tag, rt, _, ok := s.recvReply(0, 2*time.Second); ok && tag == 56 && rt == 109 {
				fl = 1
			}
			s.conns[0].write(s.frame(24, 55, map[string]interface{}{"fid": uint64(0)}))
			again := 0
			if tag, rt, _, ok := s.recvReply(0, 2*time.Second); ok && tag == 55 && rt == 25 {
				again = 1
			}
			s.conns[0].c.Close()
			stopped := 0
			if s.conns[0].waitDone(5 * time.Second) {
				stopped = 1
			}
			emit("k7scen name=self-flush-leaves-no-tag-behind => self=%d flush=%d reuse=%d stopped=%d", self, fl, again, stopped)
		}
		// a rename inside one directory that names the directory through two different fids (the fid
		// and its clone) while a third fid is on the entry: answered, and the server stays alive
		{
			s := newK7(r, 1)
			s.call(0, 110, map[string]interface{}{"fid": uint64(0), "newFID": uint64(1), "Names": []string{}})
			s.walk(0, 0, 2, p9.ModeRegular|0644, "a")
			ren := 0
			s.send(0, 74, map[string]interface{}{"OldDirectory": uint64(0), "OldName": "a", "NewDirectory": uint64(1), "NewName": "b"})
			if _, rt, _, ok := s.recvReply(0, 3*time.Second); ok && rt == 75 {
				ren = 1
			}
			alive := 0
			s.send(0, 24, map[string]interface{}{"fid": uint64(2)})
			if _, rt, _, ok := s.recvReply(0, 3*time.Second); ok && rt == 25 {
				alive = 1
			}
			s.conns[0].c.Close()
			s.conns[0].waitDone(3 * time.Second)
			emit("k7scen name=rename-in-one-directory-through-two-fids => renamed=%d alive=%d", ren, alive)
		}
		// a frame that cannot be decoded leaves no tag behind: a Tflush naming its tag is answered at
		// once, and the tag can be used again
		{
			s := newK7(r, 1)
			s.conns[0].write(rawFrame(250, 77, []byte{1, 2, 3}))
			rl := 0
			if tag, rt, _, ok := s.recvReply(0, 3*time.Second); ok && tag == 77 && rt == 7 {
				rl = 1
			}
			s.conns[0].write(s.frame(108, 78, map[string]interface{}{"OldTag": uint64(77)}))
			fl := 0
			if tag, rt, _, ok := s.recvReply(0, 2*time.Second); ok && tag == 78 && rt == 109 {
				fl = 1
			}
			s.conns[0].write(s.frame(24, 77, map[string]interface{}{"fid": uint64(0)}))
			again := 0
			if tag, rt, _, ok := s.recvReply(0, 2*time.Second); ok && tag == 77 && rt == 25 {
				again = 1
			}
			s.conns[0].c.Close()
			stopped := 0
			if s.conns[0].waitDone(5 * time.Second) {
				stopped = 1
			}
			emit("k7scen name=undecodable-frame-leaves-no-tag-behind => rlerror=%d flush=%d reuse=%d stopped=%d", rl, fl, again, stopped)
		}
		// an Rread whose frame is waiting to be written keeps its data: another Tread served
		// meanwhile (same connection, pooled read buffers) must not show up in it
		{
			be := newBackend(&rng{s: r.next()}, 0, 0, false)
			be.dirRoot, be.fullReads, be.fillByOff = true, true, true
			srv := p9.NewServer(be)
			hold := make(chan struct{})
			var once sync.Once
			first := make(chan struct{})
			p := newServerPeerW(srv, func(w io.WriteCloser) io.WriteCloser {
				return &holdWriter{WriteCloser: w, hold: hold, first: first, once: &once}
			})
			s := &k7Sess{be: be, g: &gater{}, srv: srv, conns: []*rawPeer{p}}
			s.call(0, 100, map[string]interface{}{"MSize": uint64(8192), "Version": "9P2000.L.Google.7"})
			s.call(0, 104, map[string]interface{}{"fid": uint64(0), "Auth.Authenticationfid": uint64(0xffffffff)})
			s.walk(0, 0, 1, p9.ModeRegular|0644, "f")
			s.call(0, 12, map[string]interface{}{"fid": uint64(1), "Flags": uint64(0)})
			p.armed = true
			ta := s.send(0, 116, map[string]interface{}{"fid": uint64(1), "Offset": uint64(65), "Count": uint64(4000)})
			select {
			case <-first:
			case <-time.After(2 * time.Second):
			}
			s.send(0, 116, map[string]interface{}{"fid": uint64(1), "Offset": uint64(66), "Count": uint64(4000)})
			// wait until the backend has served the second read
			for k := 0; k < 200; k++ {
				be.mu.Lock()
				nreads := 0
				for _, c := range be.calls {
					if strings.Contains(c, ".ReadAt(") {
						nreads++
					}
				}
				be.mu.Unlock()
				if nreads >= 2 {
					break
				}
				time.Sleep(5 * time.Millisecond)
			}
			time.Sleep(10 * time.Millisecond)
			close(hold)
			clean, got := 1, 0
			for k := 0; k < 2; k++ {
				f, err := p.readFrame(10 * time.Second)
				if err != nil || len(f) < 11 || f[4] != 117 {
					continue
				}
				got++
				want := byte(66)
				if binary.LittleEndian.Uint16(f[5:]) == ta {
					want = 65
				}
				for _, x := range f[11:] {
					if x != want {
						clean = 0
						break
					}
				}
			}
			s.close()
			if got == 2 { // judged only when both replies arrived (a slow machine is not a dirty buffer)
				emit("k7scen name=rread-keeps-its-data-while-waiting-to-be-written => clean=%d", clean)
			}
		}
	}
	_ = strings.Join
}

// holdWriter blocks the first write of the first Rread frame until released.
type holdWriter struct {
	io.WriteCloser
	hold  chan struct{}
	first chan struct{}
	once  *sync.Once
}

func (w *holdWriter) Write(b []byte) (int, error) {
	if len(b) >= 5 && b[4] == 117 {
		held := false
		w.once.Do(func() { held = true })
		if held {
			close(w.first)
			<-w.hold
		}
	}
	return w.WriteCloser.Write(b)
}
