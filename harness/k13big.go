package main

import (
	"encoding/binary"
	"time"

	"github.com/hugelgupf/p9/p9"
)

// runK13big: clients that ask for more than the 4 MiB the server grants. The Rread frame must
// fit in the msize the server *announced* (C13), whatever was requested. Only lengths are
// compared (the payload is not sent through the model).
func runK13big(r *rng, n int) {
	reqs := []uint64{4<<20 + 1, 5 << 20, 8 << 20, 0xffffffff, 4 << 20, 1 << 20}
	for i := 0; i < n; i++ {
		req := reqs[r.intn(len(reqs))]
		be := newBackend(&rng{s: r.next()}, 0, 0, false)
		be.dirRoot = true
		be.fullReads = true
		srv := p9.NewServer(be)
		p := newServerPeer(srv)
		frame := func(t uint8, tag uint16, v map[string]interface{}) []byte {
			var w sliceWriter
			p9.VerifSend(&w, tag, mk(t, v))
			return w.b
		}
		call := func(t uint8, v map[string]interface{}) []byte {
			p.write(frame(t, 1, v))
			f, err := p.readFrame(20 * time.Second)
			if err != nil {
				return nil
			}
			return f
		}
		rv := call(100, map[string]interface{}{"MSize": req, "Version": "9P2000.L"})
		if rv == nil || rv[4] != 101 {
			p.close()
			continue
		}
		ann := uint64(binary.LittleEndian.Uint32(rv[7:]))
		call(104, map[string]interface{}{"fid": uint64(0), "Auth.Authenticationfid": uint64(0xffffffff)})
		be.mu.Lock()
		be.forceKind = p9.ModeRegular | 0644
		be.mu.Unlock()
		call(110, map[string]interface{}{"fid": uint64(0), "newFID": uint64(1), "Names": []string{"f"}})
		call(12, map[string]interface{}{"fid": uint64(1), "Flags": uint64(0)})
		counts := []uint64{ann - 12, ann - 11, ann - 10, ann - 1, ann, ann + 1, 0xffffffff, 1000}
		cnt := counts[r.intn(len(counts))]
		rr := call(116, map[string]interface{}{"fid": uint64(1), "Offset": uint64(0), "Count": cnt})
		rlen, rt := 0, 0
		if rr != nil {
			rlen, rt = len(rr), int(rr[4])
		}
		p.close()
		emit("k13big req=%d count=%d => ann=%d rtyp=%d rlen=%d", req, cnt, ann, rt, rlen)
	}
}
