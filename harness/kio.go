package main

import (
	"encoding/binary"
	"errors"
	"fmt"
	"io"
	"net"
	"strings"
	"time"

	"github.com/hugelgupf/p9/linux"
	"github.com/hugelgupf/p9/p9"
)

// behaviour of the scripted fn of kchunk, a pure function of the offset (so that the model can
// evaluate the same function): full, short by k, error with partial count, EOF.
func chunkBehaviour(table string, req int, off int64) (int, int) {
	if len(table) == 0 {
		return req, 0
	}
	c := table[int(uint64(off)/5)%len(table)]
	switch c {
	case 'f':
		return req, 0
	case 's': // short by one (if possible)
		if req > 0 {
			return req - 1, 0
		}
		return 0, 0
	case 'h': // half
		return req / 2, 0
	case 'z':
		return 0, 0
	case 'e': // error after half
		return req / 2, 5
	case 'E': // error, nothing done
		return 0, 5
	case 'o': // EOF with partial data
		return req / 2, 1
	}
	return req, 0
}

var errTable = map[int]error{0: nil, 1: io.EOF, 5: linux.EIO}

func errCode(err error) int {
	switch {
	case err == nil:
		return 0
	case errors.Is(err, io.EOF):
		return 1
	default:
		var e linux.Errno
		if errors.As(err, &e) {
			return int(e)
		}
		return 999
	}
}

func runKchunk(r *rng, n int) {
	alphabet := "ffffffshzeEo"
	for i := 0; i < n; i++ {
		cs := []int{1, 2, 3, 4, 7, 8, 16, 512, 4096}[r.intn(9)]
		var ln int
		switch r.intn(6) {
		case 0:
			ln = 0
		case 1:
			ln = cs * (1 + r.intn(4))
		case 2:
			ln = cs*(1+r.intn(4)) + 1
		case 3:
			ln = cs*(1+r.intn(4)) - 1
		default:
			ln = r.intn(5*cs + 2)
		}
		off := int64(r.bits(40))
		if r.chance(1, 3) {
			off = int64(r.intn(100))
		}
		tl := r.intn(8)
		var tb strings.Builder
		for j := 0; j < tl; j++ {
			tb.WriteByte(alphabet[r.intn(len(alphabet))])
		}
		table := tb.String()
		var calls []string
		p := make([]byte, ln)
		var total int
		var err error
		var pan interface{}
		func() {
			defer func() { pan = recover() }()
			total, err = p9.VerifChunk(uint32(cs), func(b []byte, o int64) (int, error) {
				if len(calls) > ln+16 {
					// more calls than bytes: the loop under test does not terminate – stop it
					panic("runaway chunk loop")
				}
				calls = append(calls, fmt.Sprintf("%d@%d", len(b), o))
				nn, ec := chunkBehaviour(table, len(b), o)
				return nn, errTable[ec]
			}, p, off)
		}()
		if pan != nil {
			emit("kchunk cs=%d len=%d off=%d table=%s => panic", cs, ln, off, table)
			continue
		}
		count(fmt.Sprintf("calls=%d", len(calls)))
		emit("kchunk cs=%d len=%d off=%d table=%s => calls=%s total=%d err=%d", cs, ln, off, table, strings.Join(calls, ","), total, errCode(err))
	}
}

// ---- client against a scripted fake server ---------------------------------------------

type fakeServer struct {
	c       net.Conn
	file    []byte
	frames  []string // "type:size" of every request after Tversion
	tvMsize uint32
	tvVer   []byte
	rm      uint32
	rv      []byte
	maxSize int
	rcounts []string
	iounit  uint32 // what Rlopen recommends (a hint: the negotiated payload size stays the limit)
	done    chan struct{}
}

func readFrameFrom(c net.Conn) ([]byte, error) {
	c.SetReadDeadline(time.Now().Add(20 * time.Second))
	var hdr [4]byte
	if _, err := io.ReadFull(c, hdr[:]); err != nil {
		return nil, err
	}
	n := binary.LittleEndian.Uint32(hdr[:])
	if n < 7 || n > 64<<20 {
		return nil, fmt.Errorf("bad size %d", n)
	}
	buf := make([]byte, n)
	copy(buf, hdr[:])
	_, err := io.ReadFull(c, buf[4:])
	return buf, err
}

func (s *fakeServer) run() {
	defer close(s.done)
	first := true
	for {
		f, err := readFrameFrom(s.c)
		if err != nil {
			return
		}
		t := f[4]
		tag := binary.LittleEndian.Uint16(f[5:])
		body := f[7:]
		if first {
			first = false
			if t == 100 && len(body) >= 6 {
				s.tvMsize = binary.LittleEndian.Uint32(body)
				l := int(binary.LittleEndian.Uint16(body[4:]))
				s.tvVer = append([]byte{}, body[6:6+l]...)
			}
			s.c.Write(rawFrame(101, tag, cat(le32(s.rm), str9(s.rv))))
			continue
		}
		s.frames = append(s.frames, fmt.Sprintf("%d:%d", t, len(f)))
		if len(f) > s.maxSize {
			s.maxSize = len(f)
		}
		var rep []byte
		switch t {
		case 104: // Tattach -> Rattach
			rep = rawFrame(105, tag, cat([]byte{0x80}, le32(0), le64(1)))
		case 110: // Twalk (clone) -> Rwalk with 0 qids
			rep = rawFrame(111, tag, le16(0))
		case 12: // Tlopen -> Rlopen
			rep = rawFrame(13, tag, cat([]byte{0}, le32(0), le64(2), le32(s.iounit)))
		case 118: // Twrite fid[4] offset[8] count[4] data
			off := binary.LittleEndian.Uint64(body[4:])
			cnt := binary.LittleEndian.Uint32(body[12:])
			data := body[16:]
			if off < 1<<26 {
				for uint64(len(s.file)) < off+uint64(len(data)) {
					s.file = append(s.file, 0)
				}
				copy(s.file[off:], data)
			}
			rep = rawFrame(119, tag, le32(cnt))
		case 116: // Tread fid[4] offset[8] count[4]
			off := binary.LittleEndian.Uint64(body[4:])
			cnt := binary.LittleEndian.Uint32(body[12:])
			s.rcounts = append(s.rcounts, fmt.Sprint(cnt))
			var data []byte
			if off < uint64(len(s.file)) {
				end := off + uint64(cnt)
				if end > uint64(len(s.file)) {
					end = uint64(len(s.file))
				}
				data = s.file[off:end]
			}
			rep = rawFrame(117, tag, cat(le32(uint32(len(data))), data))
			if len(rep) > s.maxSize {
				s.maxSize = len(rep)
			}
		case 120: // Tclunk
			rep = rawFrame(121, tag, nil)
		default:
			rep = rawFrame(7, tag, le32(95)) // Rlerror ENOTSUP
		}
		if _, err := s.c.Write(rep); err != nil {
			return
		}
	}
}

func fileByte(i int) byte { return byte((i*7 + 3) % 251) }

func runKneg(r *rng, n int) {
	emit("klfs => lfs=%d", p9.VerifLargestFixedSize())
	for i := 0; i < n && !tooManyHangs(); i++ {
		req := []uint32{154, 155, 665, 666, 1024, 4096, 8192, 65536, 1 << 20, 8 << 20}[r.intn(10)]
		reqv := uint32(r.intn(8))
		var rm uint32
		switch r.intn(8) {
		case 0:
			rm = req
		case 1:
			rm = req / 2
		case 2:
			rm = 154 + uint32(r.intn(1000))
		case 3:
			rm = []uint32{0, 1, 23, 153, 154}[r.intn(5)]
		case 4:
			rm = req + 4096
		case 5:
			rm = 4 << 20
		default:
			rm = 4096
		}
		var rv []byte
		switch r.intn(8) {
		case 0:
			rv = []byte("unknown")
		case 1:
			rv = []byte("9P2000.u")
		case 2:
			rv = randVersion(r)
		default:
			k := uint32(r.intn(int(reqv) + 1))
			rv = []byte(p9.VerifVersionString("9P2000.L", k))
		}
		flen := r.intn(20000)
		a, b := connPair()
		fs := &fakeServer{c: b, rm: rm, rv: rv, done: make(chan struct{})}
		fs.iounit = []uint32{0, 0, 512, 4096, 128 << 10, req * 2, 1 << 30}[r.intn(7)]
		fs.file = make([]byte, flen)
		for j := range fs.file {
			fs.file[j] = fileByte(j)
		}
		go fs.run()
		lhs := fmt.Sprintf("kneg req=%d reqv=%d rm=%d rv=%s flen=%d iounit=%d", req, reqv, rm, hx(rv), flen, fs.iounit)
		c, err := p9.NewClient(a, p9.WithMessageSize(req), p9.VerifWithRequestedVersion(reqv))
		if err != nil {
			a.Close()
			<-fs.done
			emit("%s wlen=0 woff=0 rlen=0 roff=0 => tvm=%d tvv=%s ok=0", lhs, fs.tvMsize, hx(fs.tvVer))
			count("negotiate=refused")
			continue
		}
		count("negotiate=ok")
		ms, pl := p9.VerifClientSizes(c)
		rhs := []string{fmt.Sprintf("tvm=%d", fs.tvMsize), "tvv=" + hx(fs.tvVer), "ok=1", fmt.Sprintf("ver=%d", c.Version()), fmt.Sprintf("ms=%d", ms), fmt.Sprintf("pl=%d", pl)}
		root, err := c.Attach("")
		wlen, woff, rlen, roff := 0, 0, 0, 0
		if err == nil {
			limit := int(3*pl + 5)
			if limit > 300000 {
				limit = 300000
			}
			pick := func() int {
				switch r.intn(5) {
				case 0:
					return 0
				case 1:
					return int(pl) * (1 + r.intn(2))
				case 2:
					return int(pl)*(1+r.intn(2)) + 1
				case 3:
					return int(pl)*(1+r.intn(2)) - 1
				default:
					return r.intn(limit)
				}
			}
			// opened first: the I/O unit of Rlopen is a recommendation, no licence to exceed the payload size
			root.Open(p9.ReadWrite)
			// ReadAt first (file untouched), then WriteAt
			rlen, roff = pick(), r.intn(flen+10)
			if rlen > 300000 {
				rlen = 300000
			}
			p := make([]byte, rlen)
			fs.frames = nil
			var nr int
			var rerr error
			if !finishes(func() { nr, rerr = root.ReadAt(p, int64(roff)) }) {
				a.Close()
				emit("%s wlen=0 woff=0 rlen=%d roff=%d => readat-hung", lhs, rlen, roff)
				continue
			}
			ok := "ok"
			for j := 0; j < nr; j++ {
				if roff+j >= flen || p[j] != fileByte(roff+j) {
					ok = "bad"
				}
			}
			rhs = append(rhs, "rcounts="+strings.Join(fs.rcounts, ","), fmt.Sprintf("rn=%d", nr), fmt.Sprintf("rerr=%d", errCode(rerr)), "rcontent="+ok)
			wlen, woff = pick(), r.intn(flen+10)
			if wlen > 300000 {
				wlen = 300000
			}
			w := r.bytesN(wlen)
			fs.frames = nil
			var nw int
			var werr error
			if !finishes(func() { nw, werr = root.WriteAt(w, int64(woff)) }) {
				a.Close()
				emit("%s wlen=%d woff=%d rlen=%d roff=%d => writeat-hung", lhs, wlen, woff, rlen, roff)
				continue
			}
			var wsizes []string
			for _, f := range fs.frames {
				if strings.HasPrefix(f, "118:") {
					wsizes = append(wsizes, strings.TrimPrefix(f, "118:"))
				}
			}
			ok = "ok"
			for j := 0; j < wlen; j++ {
				if woff+j >= len(fs.file) || fs.file[woff+j] != w[j] {
					ok = "bad"
				}
			}
			rhs = append(rhs, "wframes="+strings.Join(wsizes, ","), fmt.Sprintf("wn=%d", nw), fmt.Sprintf("werr=%d", errCode(werr)), "wcontent="+ok)
			over := 0
			if uint32(fs.maxSize) > rm || uint32(fs.maxSize) > req {
				over = fs.maxSize
			}
			rhs = append(rhs, fmt.Sprintf("oversize=%d", over))
			// the version-gated requests follow the version of the *reply*: first request type of each call
			stuck := false
			first := func(call func()) string {
				if stuck {
					return "skipped"
				}
				fs.frames = nil
				if !finishes(call) {
					stuck = true
					a.Close()
					return "hung"
				}
				if len(fs.frames) == 0 {
					return "-"
				}
				return strings.SplitN(fs.frames[0], ":", 2)[0]
			}
			rhs = append(rhs, "mkdir="+first(func() { root.Mkdir("m", 0755, 0, 0) }),
				"create="+first(func() { root.Create("c", p9.ReadWrite, 0644, 0, 0) }),
				"symlink="+first(func() { root.Symlink("t", "s", 0, 0) }),
				"mknod="+first(func() { root.Mknod("n", p9.ModeRegular|0644, 0, 0, 0, 0) }),
				"wga="+first(func() { root.WalkGetAttr([]string{"x"}) }))
		} else {
			rhs = append(rhs, "attach-failed")
		}
		c.Close()
		<-fs.done
		emit("%s wlen=%d woff=%d rlen=%d roff=%d => %s", lhs, wlen, woff, rlen, roff, strings.Join(rhs, " "))
	}
}

// finishes runs f and reports whether it came back within 20 s (a client call that never returns
// is an observation, not a reason for the harness to hang).
func finishes(f func()) bool {
	done := make(chan struct{})
	go func() { f(); close(done) }()
	select {
	case <-done:
		return true
	case <-time.After(20 * time.Second):
		noteHang()
		return false
	}
}
