package main

import (
	"errors"
	"net"
	"sync/atomic"
	"time"

	"github.com/hugelgupf/p9/p9"
)

// flakyConn: Write fails while fail is set; reads pass through.
type flakyConn struct {
	net.Conn
	fail atomic.Bool
}

func (f *flakyConn) Write(b []byte) (int, error) {
	if f.fail.Load() {
		return 0, errors.New("injected write failure")
	}
	return f.Conn.Write(b)
}

// staleClient: a client on a connection to a lock-step fake server, attached.
func staleClient(conn net.Conn, peer net.Conn) (*p9.Client, p9.File, *muxServer, bool) {
	srv := &muxServer{c: peer, bound: map[uint32]bool{}}
	done := make(chan struct{})
	go func() {
		defer close(done)
		for k := 0; k < 2; k++ {
			t, tag, body, err := srv.read()
			if err != nil {
				return
			}
			srv.c.Write(srv.reply(t, tag, body))
		}
	}()
	c, err := p9.NewClient(conn)
	if err != nil {
		return nil, nil, nil, false
	}
	root, err := c.Attach("")
	if err != nil {
		return nil, nil, nil, false
	}
	<-done
	return c, root, srv, true
}

// runKstale: a call whose request could not be written must leave nothing behind (C10: every call
// returns the reply to its own request; a failing connection fails its own calls only).
//
// Client X has a call A waiting for its reply. Further calls B.. on X fail while writing their
// request. Then a call C is made on a healthy client Y (another connection of the same process)
// and stays unanswered; X's connection dies. C must keep waiting for its own reply, and get it.
func runKstale(r *rng, n int) {
	for i := 0; i < n; i++ {
		ax, bx := connPair()
		ay, by := connPair()
		fx := &flakyConn{Conn: ax}
		_, rootX, srvX, okX := staleClient(fx, bx)
		_, rootY, srvY, okY := staleClient(ay, by)
		if !okX || !okY {
			ax.Close()
			bx.Close()
			ay.Close()
			by.Close()
			continue
		}
		fails := 1 + r.intn(3)
		formed, early, own, hung := 0, 0, 0, 0
		// A: in flight on X, unanswered
		aDone := make(chan error, 1)
		go func() { _, _, _, e := rootX.GetAttr(p9.AttrMask{Mode: true}); aDone <- e }()
		if _, _, _, err := srvX.read(); err == nil {
			// on one goroutine: the failing calls on X, then C on Y
			cDone := make(chan error, 1)
			var cPath uint64
			go func() {
				fx.fail.Store(true)
				for k := 0; k < fails; k++ {
					rootX.GetAttr(p9.AttrMask{Mode: true})
				}
				fx.fail.Store(false)
				q, _, _, e := rootY.GetAttr(p9.AttrMask{Mode: true})
				cPath = q.Path
				cDone <- e
			}()
			ct, ctag, cbody, err := srvY.read()
			if err == nil && ct == 24 {
				formed = 1
				bx.Close() // X's connection dies; A fails
				select {
				case <-aDone:
				case <-time.After(8 * time.Second):
					hung = 1
				}
				select {
				case <-cDone: // C returned although nobody answered it
					early = 1
				case <-time.After(50 * time.Millisecond):
					srvY.c.Write(srvY.reply(ct, ctag, cbody))
					select {
					case e := <-cDone:
						fid, _ := p9.VerifFileFID(rootY)
						if e == nil && cPath == fid {
							own = 1
						}
					case <-time.After(8 * time.Second):
						hung = 1
					}
				}
			}
		}
		ax.Close()
		bx.Close()
		ay.Close()
		by.Close()
		emit("kstale fails=%d => formed=%d early=%d own=%d hung=%d", fails, formed, early, own, hung)
	}
}
