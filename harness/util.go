package main

import (
	"bufio"
	"encoding/hex"
	"fmt"
	"os"
	"reflect"
	"sort"
	"strings"
	"sync/atomic"
)

// rng is a splitmix64 PRNG: every random choice of a run derives from one seed.
type rng struct {
	s     uint64
	small bool // keep strings, lists and payloads short (streams of many frames)
}

func (r *rng) next() uint64 {
	r.s += 0x9e3779b97f4a7c15
	z := r.s
	z = (z ^ (z >> 30)) * 0xbf58476d1ce4e5b9
	z = (z ^ (z >> 27)) * 0x94d049bb133111eb
	return z ^ (z >> 31)
}
func (r *rng) intn(n int) int {
	if n <= 0 {
		return 0
	}
	return int(r.next() % uint64(n))
}
func (r *rng) chance(num, den int) bool { return r.intn(den) < num }
func (r *rng) pick(xs []uint64) uint64  { return xs[r.intn(len(xs))] }

// boundary-biased integer of the given bit width.
func (r *rng) bits(w uint) uint64 {
	max := uint64(1)<<w - 1
	if w == 64 {
		max = ^uint64(0)
	}
	switch r.intn(10) {
	case 0:
		return 0
	case 1:
		return 1
	case 2:
		return max
	case 3:
		return max - 1
	case 4:
		k := uint(r.intn(int(w)))
		return (uint64(1) << k) & max
	case 5:
		k := uint(r.intn(int(w)))
		return ((uint64(1) << k) - 1) & max
	case 6:
		k := uint(r.intn(int(w)))
		return ((uint64(1) << k) + 1) & max
	case 7:
		return uint64(r.intn(300))
	default:
		return r.next() & max
	}
}

var nastyBytes = []byte{0, '/', '.', 'a', 0xff, 0x80, ' ', '\n', 0xc3, 0x28}

func (r *rng) bytesN(n int) []byte {
	b := make([]byte, n)
	mode := r.intn(3)
	for i := range b {
		switch mode {
		case 0:
			b[i] = byte(r.next())
		case 1:
			b[i] = nastyBytes[r.intn(len(nastyBytes))]
		default:
			b[i] = byte('a' + r.intn(26))
		}
	}
	return b
}

// string length, boundary-biased; big lengths are rare (cost).
func (r *rng) strLen() int {
	if r.small {
		if r.chance(1, 3) {
			return 0
		}
		return r.intn(12)
	}
	switch r.intn(40) {
	case 0:
		return 65535
	case 1:
		return 32768
	case 2:
		return 32767
	case 3, 4:
		return 255 + r.intn(3)
	case 5, 6, 7, 8, 9, 10:
		return 0
	case 11, 12, 13:
		return 1
	default:
		return r.intn(24)
	}
}

func hx(b []byte) string { return "x" + hex.EncodeToString(b) }

func unhx(s string) []byte {
	b, err := hex.DecodeString(strings.TrimPrefix(s, "x"))
	if err != nil {
		panic(err)
	}
	return b
}

var out = bufio.NewWriterSize(os.Stdout, 1<<20)

func emit(format string, a ...interface{}) {
	fmt.Fprintf(out, format, a...)
	out.WriteByte('\n')
}

// stats collects the input distribution printed into the evidence.
var stats = map[string]int{}

func count(k string) { stats[k]++ }

func dumpStats() {
	var ks []string
	for k := range stats {
		ks = append(ks, k)
	}
	sort.Strings(ks)
	var sb strings.Builder
	for _, k := range ks {
		fmt.Fprintf(&sb, " %s=%d", k, stats[k])
	}
	fmt.Fprintf(os.Stderr, "STATS%s\n", sb.String())
}

// ---- reflection helpers over p9.VerifFields -------------------------------------

// spec bit tables (P9_GETATTR_*, P9_SETATTR_*), written from the protocol headers, *not*
// taken from the code under test.
var getattrBits = map[string]uint64{"Mode": 0x1, "NLink": 0x2, "UID": 0x4, "GID": 0x8, "RDev": 0x10, "ATime": 0x20, "MTime": 0x40, "CTime": 0x80, "INo": 0x100, "Size": 0x200, "Blocks": 0x400, "BTime": 0x800, "Gen": 0x1000, "DataVersion": 0x2000}
var setattrBits = map[string]uint64{"Permissions": 0x1, "UID": 0x2, "GID": 0x4, "Size": 0x8, "ATime": 0x10, "MTime": 0x20, "CTime": 0x40, "ATimeNotSystemTime": 0x80, "MTimeNotSystemTime": 0x100}

func bitTable(n int) map[string]uint64 {
	if n == len(getattrBits) {
		return getattrBits
	}
	return setattrBits
}

// wire width in bits of an integer-kinded Go field (fid is a uint64 carried in 32 bits).
func wireBits(v reflect.Value) uint {
	if v.Type().Name() == "fid" {
		return 32
	}
	return uint(v.Type().Bits())
}

func atomOf(v reflect.Value) string {
	switch v.Kind() {
	case reflect.Uint8, reflect.Uint16, reflect.Uint32, reflect.Uint64:
		return fmt.Sprint(v.Uint())
	case reflect.Int32:
		return fmt.Sprint(uint32(v.Int()))
	case reflect.Int64, reflect.Int:
		return fmt.Sprint(uint64(v.Int()))
	case reflect.String:
		return hx([]byte(v.String()))
	}
	return "?" + v.Kind().String()
}

func flattenRow(v reflect.Value, out *[]string) {
	if v.Kind() == reflect.Struct {
		for i := 0; i < v.NumField(); i++ {
			flattenRow(v.Field(i), out)
		}
		return
	}
	*out = append(*out, atomOf(v))
}

func listOf(v reflect.Value) string {
	var rows []string
	for i := 0; i < v.Len(); i++ {
		var atoms []string
		flattenRow(v.Index(i), &atoms)
		rows = append(rows, strings.Join(atoms, ","))
	}
	return "[" + strings.Join(rows, ";") + "]"
}

// hangs counts cases in which the implementation did not answer in time. Once a run has seen a
// few of them it stops: every further case would wait for its timeouts as well, and the cases
// already emitted are the failing inputs.
var hangs int32

func noteHang() { atomic.AddInt32(&hangs, 1) }
func tooManyHangs() bool {
	return atomic.LoadInt32(&hangs) >= 3
}
