package main

import (
	"encoding/binary"
	"fmt"
	"io"
	"net"
	"os"
	"syscall"
	"time"

	"github.com/hugelgupf/p9/p9"
)

// connPair returns two connected stream sockets (unix socketpair: the path real servers use,
// so the vectorised recvmsg reader is exercised); net.Pipe if that fails.
func connPair() (net.Conn, net.Conn) {
	fds, err := syscall.Socketpair(syscall.AF_UNIX, syscall.SOCK_STREAM, 0)
	if err == nil {
		fa := os.NewFile(uintptr(fds[0]), "a")
		fb := os.NewFile(uintptr(fds[1]), "b")
		a, e1 := net.FileConn(fa)
		b, e2 := net.FileConn(fb)
		fa.Close()
		fb.Close()
		if e1 == nil && e2 == nil {
			return a, b
		}
	}
	return net.Pipe()
}

// rawPeer is the client end of a connection to a real p9.Server.
type rawPeer struct {
	armed bool
	c     net.Conn
	done  chan struct{} // closed when Server.Handle returns
}

func newServerPeer(srv *p9.Server) *rawPeer {
	a, b := connPair()
	p := &rawPeer{c: a, done: make(chan struct{})}
	go func() {
		srv.Handle(b, b)
		close(p.done)
	}()
	return p
}

// newServerPeerW is newServerPeer with the server's reply writer wrapped.
func newServerPeerW(srv *p9.Server, wrap func(io.WriteCloser) io.WriteCloser) *rawPeer {
	a, b := connPair()
	p := &rawPeer{c: a, done: make(chan struct{})}
	go func() {
		srv.Handle(b, wrap(b))
		close(p.done)
	}()
	return p
}

func (p *rawPeer) write(b []byte) error {
	p.c.SetWriteDeadline(time.Now().Add(10 * time.Second))
	_, err := p.c.Write(b)
	return err
}

// readFrame reads one whole frame (size[4] ...), with a deadline.
func (p *rawPeer) readFrame(d time.Duration) ([]byte, error) {
	p.c.SetReadDeadline(time.Now().Add(d))
	var hdr [4]byte
	if _, err := io.ReadFull(p.c, hdr[:]); err != nil {
		return nil, err
	}
	n := binary.LittleEndian.Uint32(hdr[:])
	if n < 4 || n > 64<<20 {
		return hdr[:], fmt.Errorf("bad reply size %d", n)
	}
	buf := make([]byte, n)
	copy(buf, hdr[:])
	if _, err := io.ReadFull(p.c, buf[4:]); err != nil {
		return buf, err
	}
	return buf, nil
}

func (p *rawPeer) close() {
	p.c.Close()
	select {
	case <-p.done:
	case <-time.After(3 * time.Second):
		noteHang()
	}
}

// waitDone reports whether Server.Handle returned within d.
func (p *rawPeer) waitDone(d time.Duration) bool {
	select {
	case <-p.done:
		return true
	case <-time.After(d):
		return false
	}
}

// buildFrame encodes a message of type t with the given field setter through the real send().
func buildFrame(t uint8, tag uint16, set func(path string, f p9.VerifField)) []byte {
	m, ok := p9.VerifNewMsg(t)
	if !ok {
		panic(fmt.Sprintf("no message type %d", t))
	}
	for _, f := range p9.VerifFields(m) {
		set(f.Path, f)
	}
	var w sliceWriter
	if err := p9.VerifSend(&w, tag, m); err != nil {
		panic(err)
	}
	return w.b
}

type sliceWriter struct{ b []byte }

func (w *sliceWriter) Write(p []byte) (int, error) { w.b = append(w.b, p...); return len(p), nil }

// rawFrame builds a frame by hand (independent of the code under test).
func rawFrame(t uint8, tag uint16, body []byte) []byte {
	f := make([]byte, 7+len(body))
	binary.LittleEndian.PutUint32(f, uint32(len(f)))
	f[4] = t
	binary.LittleEndian.PutUint16(f[5:], tag)
	copy(f[7:], body)
	return f
}

func le16(v uint16) []byte { b := make([]byte, 2); binary.LittleEndian.PutUint16(b, v); return b }
func le32(v uint32) []byte { b := make([]byte, 4); binary.LittleEndian.PutUint32(b, v); return b }
func le64(v uint64) []byte { b := make([]byte, 8); binary.LittleEndian.PutUint64(b, v); return b }
func str9(s []byte) []byte { return append(le16(uint16(len(s))), s...) }
func cat(bs ...[]byte) []byte {
	var out []byte
	for _, b := range bs {
		out = append(out, b...)
	}
	return out
}
