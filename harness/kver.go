package main

import (
	"encoding/binary"
	"fmt"
	"strings"
	"time"

	"github.com/hugelgupf/p9/p9"
)

// version strings of every shape the property quantifies over.
func randVersion(r *rng) []byte {
	nums := []string{"0", "1", "2", "3", "5", "6", "7", "8", "9", "10", "007", "00", "4294967295", "4294967296", "99999999999999999999", "-1", "+1", "1_0", " 1", "1 ", "0x7", "", "７"}
	switch r.intn(14) {
	case 0:
		return []byte("9P2000.L")
	case 1:
		return []byte("9P2000.u")
	case 2:
		return []byte("9P2000")
	case 3:
		return []byte("9P2000.L.Google." + nums[r.intn(len(nums))])
	case 4:
		return []byte(fmt.Sprintf("9P2000.L.Google.%d", r.bits(34)))
	case 5:
		return []byte(fmt.Sprintf("9P2000.L.Google.%d", r.intn(12)))
	case 6: // near misses
		alts := []string{"9p2000.L", "9P2000.l", "9P2000.L.google.1", "9P2000.L.Google", "9P2000.L.Google.1.2", "9P2000.L.Google..1", "9P2000.L.", ".9P2000.L", "9P2000.L.Google.1.", "9P2000.U", "9P2000.L ", " 9P2000.L", "9P2000.L\x00", "unknown", "", "9P2000.L.Googlf.1", "9P2001.L.Google.1", "9P2000.M.Google.1", "9P2000.u.Google.1"}
		return []byte(alts[r.intn(len(alts))])
	case 7: // mutate a good one
		b := []byte(fmt.Sprintf("9P2000.L.Google.%d", r.intn(10)))
		b[r.intn(len(b))] = nastyBytes[r.intn(len(nastyBytes))]
		return b
	case 8:
		return r.bytesN(r.intn(24))
	case 9: // a piece of a good one: every suffix ("5", "Google.5", ".L.Google.5") and prefix
		b := []byte(fmt.Sprintf("9P2000.L.Google.%d", r.intn(12)))
		if r.chance(2, 3) {
			return b[r.intn(len(b)):]
		}
		return b[:r.intn(len(b)+1)]
	case 11: // long strings (a version string may be 65535 bytes): answered, not dropped
		if r.chance(1, 3) {
			l := []int{8000, 8179, 8180, 8200, 20000, 65535}[r.intn(6)]
			b := r.bytesN(l)
			if r.chance(1, 2) {
				copy(b, "9P2000.L.Google.7")
			}
			return b
		}
		return []byte("9P2000.L.Google.7")
	case 10: // a bare number, or a number with another lead-in
		leads := []string{"", "", "", ".", "Google.", "L.Google.", "9P2000.L.Google", "9P2000.L.Google.9P2000.L.Google.", "9P2000.u.Google.", "9P2000.Google."}
		return []byte(leads[r.intn(len(leads))] + nums[r.intn(len(nums))])
	default:
		return []byte(fmt.Sprintf("9P2000.L.Google.%s%d", strings.Repeat("0", r.intn(4)), r.intn(9)))
	}
}

func randMsize(r *rng) uint32 {
	vals := []uint32{0, 1, 6, 7, 22, 23, 24, 153, 154, 4096, 8192, 65536, 1 << 20, 4<<20 - 1, 4 << 20, 4<<20 + 1, 8 << 20, 0x7fffffff, 0x80000000, 0xffffffff}
	if r.chance(1, 4) {
		return uint32(r.bits(32))
	}
	return vals[r.intn(len(vals))]
}

type nullAttacher struct{}

func (nullAttacher) Attach() (p9.File, error) { return nil, fmt.Errorf("no attach in this mode") }

// runKver: (a) parseVersion / versionString on all shapes, (b) Tversion at a real server.
func runKver(r *rng, n int) {
	for i := 0; i < n; i++ {
		v := randVersion(r)
		base, num, ok := p9.VerifParseVersion(string(v))
		b := "-"
		switch base {
		case "9P2000.L":
			b = "L"
		case "9P2000.u":
			b = "u"
		case "9P2000":
			b = "b"
		}
		if ok {
			emit("kparse v=%s => ok=1 base=%s n=%d", hx(v), b, num)
		} else {
			emit("kparse v=%s => ok=0", hx(v))
		}
		k := uint32(r.bits(32))
		if r.chance(1, 2) {
			k = uint32(r.intn(12))
		}
		emit("kvstr n=%d => s=%s", k, hx([]byte(p9.VerifVersionString("9P2000.L", k))))

		// Tversion on the wire, hand-built (independent of the code's encoder)
		msize := randMsize(r)
		peer := newServerPeer(p9.NewServer(nullAttacher{}))
		peer.write(rawFrame(100, 0xffff, cat(le32(msize), str9(v))))
		rep, err := peer.readFrame(5 * time.Second)
		if err != nil || len(rep) < 13 {
			emit("ktv msize=%d v=%s => noreply err=%v", msize, hx(v), err != nil)
		} else {
			l := int(binary.LittleEndian.Uint16(rep[11:]))
			emit("ktv msize=%d v=%s => rtype=%d rtag=%d rmsize=%d rv=%s framelen=%d", msize, hx(v), rep[4],
				binary.LittleEndian.Uint16(rep[5:]), binary.LittleEndian.Uint32(rep[7:]), hx(rep[13:13+l]), len(rep))
		}
		peer.close()
		count("parse-ok=" + fmt.Sprint(ok))
	}
}
