package main

import (
	"bytes"
	"fmt"
	"reflect"
	"strings"

	"github.com/hugelgupf/p9/p9"
)

// dumpMsg renders the field values of a message as canonical tokens `<pfx><path>=<value>`.
// Bool structs (AttrMask, SetAttrMask) are folded into one integer with the *spec's* bit table.
func dumpMsg(pfx string, m interface{}) []string {
	var toks []string
	fields := p9.VerifFields(m)
	type mask struct {
		n    int
		bits []string
	}
	masks := map[string]*mask{}
	var order []string
	for _, f := range fields {
		if f.Val.Kind() == reflect.Bool {
			i := strings.LastIndex(f.Path, ".")
			grp := f.Path[:i]
			if masks[grp] == nil {
				masks[grp] = &mask{}
				order = append(order, grp)
			}
			masks[grp].n++
			if f.Val.Bool() {
				masks[grp].bits = append(masks[grp].bits, f.Path[i+1:])
			}
		}
	}
	for _, grp := range order {
		tab := bitTable(masks[grp].n)
		var v uint64
		bad := false
		for _, b := range masks[grp].bits {
			x, ok := tab[b]
			if !ok {
				bad = true
			}
			v |= x
		}
		if bad {
			toks = append(toks, fmt.Sprintf("%s%s=?", pfx, grp))
		} else {
			toks = append(toks, fmt.Sprintf("%s%s=%d", pfx, grp, v))
		}
	}
	for _, f := range fields {
		switch f.Val.Kind() {
		case reflect.Bool:
		case reflect.Slice:
			if f.Val.Type().Elem().Kind() == reflect.Uint8 {
				if f.Path == "Data" {
					toks = append(toks, pfx+"payload="+hx(f.Val.Bytes()))
				}
				continue
			}
			toks = append(toks, pfx+f.Path+"="+listOf(f.Val))
		default:
			toks = append(toks, pfx+f.Path+"="+atomOf(f.Val))
		}
	}
	return toks
}

func randString(r *rng) string { return string(r.bytesN(r.strLen())) }

func listLen(r *rng) int {
	if r.small {
		return r.intn(4)
	}
	switch r.intn(12) {
	case 0, 1, 2:
		return 0
	case 3, 4:
		return 1
	case 5:
		return 16
	case 6:
		return 17 + r.intn(300)
	default:
		return 2 + r.intn(6)
	}
}

func fillValue(r *rng, v reflect.Value) {
	switch v.Kind() {
	case reflect.Bool:
		v.SetBool(r.chance(1, 2))
	case reflect.Uint8, reflect.Uint16, reflect.Uint32, reflect.Uint64:
		v.SetUint(r.bits(wireBits(v)))
	case reflect.Int32:
		v.SetInt(int64(int32(uint32(r.bits(32)))))
	case reflect.String:
		v.SetString(randString(r))
	case reflect.Struct:
		for i := 0; i < v.NumField(); i++ {
			fillValue(r, v.Field(i))
		}
	}
}

// fillMsg sets every field of m to boundary-biased random values and returns the size class.
func fillMsg(r *rng, m interface{}) {
	for _, f := range p9.VerifFields(m) {
		if f.Val.Kind() == reflect.Slice {
			et := f.Val.Type().Elem()
			if et.Kind() == reflect.Uint8 {
				if f.Path != "Data" {
					continue
				}
				n := 0
				k := r.intn(8)
				if r.small {
					k = 4 + r.intn(4)
				}
				switch k {
				case 0:
					n = 0
				case 1:
					n = 1
				case 2:
					n = 4096 + r.intn(3) - 1
				case 3:
					n = r.intn(70000)
				default:
					n = r.intn(200)
					if r.small {
						n = r.intn(40)
					}
				}
				f.Val.SetBytes(r.bytesN(n))
				continue
			}
			n := listLen(r)
			s := reflect.MakeSlice(f.Val.Type(), n, n)
			for i := 0; i < n; i++ {
				fillValue(r, s.Index(i))
			}
			f.Val.Set(s)
			continue
		}
		fillValue(r, f.Val)
	}
	// an Rreaddir's Count is meaningful relative to the packed size of its entries
	if p9.VerifTypeOf(m) == 41 {
		var cnt, ents reflect.Value
		for _, f := range p9.VerifFields(m) {
			if f.Path == "Count" {
				cnt = f.Val
			}
			if f.Path == "Entries" {
				ents = f.Val
			}
		}
		total := 0
		var cuts []int
		for i := 0; i < ents.Len(); i++ {
			total += 24 + len(ents.Index(i).FieldByName("Name").String())
			cuts = append(cuts, total)
		}
		switch r.intn(6) {
		case 0:
			cnt.SetUint(uint64(total))
		case 1:
			cnt.SetUint(uint64(total + r.intn(100)))
		case 2:
			if len(cuts) > 0 {
				c := cuts[r.intn(len(cuts))]
				cnt.SetUint(uint64(c + r.intn(3) - 1))
			}
		case 3:
			cnt.SetUint(0)
		case 4:
			cnt.SetUint(0xffffffff)
		default:
			cnt.SetUint(uint64(r.intn(total + 1)))
		}
	}
}

// runK1 is the codec correspondence: for random messages of every registered type,
//
//	LHS: type, tag, field values handed to send()
//	RHS: the frame the real send() wrote, and the field values the real recv() rebuilt from it.
func runK1(r *rng, n int) {
	types := p9.VerifMsgTypes()
	for i := 0; i < n; i++ {
		t := types[i%len(types)]
		m, _ := p9.VerifNewMsg(t)
		fillMsg(r, m)
		tag := uint16(r.bits(16))
		lhs := append([]string{"k1", fmt.Sprintf("typ=%d", t), fmt.Sprintf("tag=%d", tag)}, dumpMsg("f:", m)...)
		var buf bytes.Buffer
		var rhs []string
		func() {
			defer func() {
				if e := recover(); e != nil {
					rhs = append(rhs, fmt.Sprintf("panic=%q", fmt.Sprint(e)))
				}
			}()
			if err := p9.VerifSend(&buf, tag, m); err != nil {
				rhs = append(rhs, "senderr")
				return
			}
			frame := append([]byte{}, buf.Bytes()...)
			rhs = append(rhs, "frame="+hx(frame))
			rt, rm, err := p9.VerifRecv(bytes.NewReader(frame), 4<<20)
			if err != nil {
				if p9.VerifIsConnError(err) {
					rhs = append(rhs, "recv=conn")
				} else {
					rhs = append(rhs, fmt.Sprintf("recv=proto:%d", rt))
				}
				return
			}
			rhs = append(rhs, fmt.Sprintf("recv=msg:%d:%d", rt, p9.VerifTypeOf(rm)))
			rhs = append(rhs, dumpMsg("d:", rm)...)
			p9.VerifPut(rm) // recycle: later messages decode into used objects (C18)
		}()
		count(fmt.Sprintf("typ%d", t))
		count(fmt.Sprintf("framelen<2^%d", bitlen(buf.Len())))
		emit("%s => %s", strings.Join(lhs, " "), strings.Join(rhs, " "))
	}
}

func bitlen(n int) int {
	k := 0
	for n > 0 {
		n >>= 1
		k++
	}
	return k
}
