package main

import (
	"bytes"
	"encoding/binary"
	"errors"
	"fmt"
	"io"
	"net"
	"strings"
	"sync"

	"github.com/hugelgupf/p9/linux"
	"github.com/hugelgupf/p9/p9"
)

// tap relays client <-> server and records the frames the client sends.
type tap struct {
	mu     sync.Mutex
	frames [][]byte
}

func (t *tap) relay(dst, src net.Conn, record bool) {
	defer dst.Close()
	for {
		var hdr [4]byte
		if _, err := io.ReadFull(src, hdr[:]); err != nil {
			return
		}
		n := binary.LittleEndian.Uint32(hdr[:])
		if n < 4 || n > 64<<20 {
			return
		}
		buf := make([]byte, n)
		copy(buf, hdr[:])
		if _, err := io.ReadFull(src, buf[4:]); err != nil {
			return
		}
		if record {
			t.mu.Lock()
			t.frames = append(t.frames, buf)
			t.mu.Unlock()
		}
		if _, err := dst.Write(buf); err != nil {
			return
		}
	}
}

func (t *tap) take() [][]byte {
	t.mu.Lock()
	defer t.mu.Unlock()
	f := t.frames
	t.frames = nil
	return f
}

// wireToks renders the recorded T-messages: w<i>:typ and w<i>:<field>.
func wireToks(frames [][]byte) []string {
	var out []string
	for i, f := range frames {
		_, m, err := p9.VerifRecv(bytes.NewReader(f), 8<<20)
		if err != nil {
			out = append(out, fmt.Sprintf("w%d=undecodable", i))
			continue
		}
		out = append(out, fmt.Sprintf("w%d=%d", i, p9.VerifTypeOf(m)))
		out = append(out, dumpMsg(fmt.Sprintf("w%d:", i), m)...)
	}
	return out
}

type cfile struct {
	f      p9.File
	h      int    // backend handle the server-side fid holds
	fid    uint64 // client fid
	kind   p9.FileMode
	opened bool
	flags  p9.OpenFlags
	parent *cfile
	name   string
}

type kcsEnv struct {
	r    *rng
	be   *backend
	tp   *tap
	c    *p9.Client
	v    uint32
	root *cfile
	lhs  []string
	nh   int // id the backend will give to the next File it hands out
	// prepared: client Files of the current case; closed explicitly afterwards so that no
	// finalizer clunks them in the middle of a later case
	prepared []*cfile
}

func clientErrTok(err error) string {
	if err == nil {
		return "err=0"
	}
	if errors.Is(err, io.EOF) {
		return "err=eof"
	}
	var e linux.Errno
	if errors.As(err, &e) {
		return fmt.Sprintf("err=%d", uint32(e))
	}
	return "err=other:" + strings.ReplaceAll(err.Error(), " ", "_")
}

// prep creates a fresh client File below the root with the wanted kind (quietly: faults off).
func (e *kcsEnv) prep(kind p9.FileMode, open bool, flags p9.OpenFlags) *cfile {
	be := e.be
	be.mu.Lock()
	savedE, savedP := be.errPm, be.panicPm
	be.errPm, be.panicPm = 0, 0
	be.forceKind = kind
	be.mu.Unlock()
	defer func() {
		be.mu.Lock()
		be.errPm, be.panicPm = savedE, savedP
		be.forceKind = 0
		be.mu.Unlock()
		be.takeLog()
		e.tp.take()
	}()
	name := string('a' + rune(e.r.intn(6)))
	_, f, err := e.root.f.Walk([]string{name})
	if err != nil {
		return nil
	}
	be.mu.Lock()
	h := be.lastNew
	k := p9.FileMode(be.kind[h])
	be.mu.Unlock()
	fid, _ := p9.VerifFileFID(f)
	cf := &cfile{f: f, h: h, fid: fid, kind: k, parent: e.root, name: name}
	e.prepared = append(e.prepared, cf)
	if open {
		if _, _, err := f.Open(flags); err != nil {
			f.Close()
			return nil
		}
		cf.opened, cf.flags = true, flags
	}
	return cf
}

var fidFields = map[string]bool{"fid": true, "newFID": true, "Directory": true, "OldDirectory": true, "NewDirectory": true, "Target": true}

func (e *kcsEnv) emit(method string, cf *cfile, args []string, ret []string) {
	tape, calls := e.be.takeLog()
	frames := e.tp.take()
	lhs := []string{"kcs", fmt.Sprintf("v=%d", e.v), "m=" + method, fmt.Sprintf("h=%d", cf.h), fmt.Sprintf("fid=%d", cf.fid), fmt.Sprintf("kind=%d", uint32(cf.kind)), fmt.Sprintf("nh=%d", e.nh)}
	known := map[string]bool{fmt.Sprint(cf.fid): true}
	for _, a := range args {
		if strings.HasPrefix(a, "tfid=") || strings.HasPrefix(a, "dfid=") {
			known[strings.SplitN(a, "=", 2)[1]] = true
		}
	}
	if cf.parent != nil {
		lhs = append(lhs, fmt.Sprintf("ph=%d", cf.parent.h), "pname="+hx([]byte(cf.name)))
	}
	lhs = append(lhs, args...)
	lhs = append(lhs, fmt.Sprintf("tape=%d", len(tape)))
	lhs = append(lhs, tape...)
	var rhs []string
	for _, c := range calls {
		if strings.HasPrefix(c, "renamed=") {
			continue // notifications depend on what else the server tracks; C08's business
		}
		rhs = append(rhs, c)
	}
	rhs = append(rhs, ret...)
	for _, t := range wireToks(frames) {
		// fids the client allocated during this call are not predictable here: show them as N
		if i := strings.Index(t, ":"); i > 0 && strings.HasPrefix(t, "w") {
			kv := strings.SplitN(t[i+1:], "=", 2)
			if len(kv) == 2 && fidFields[kv[0]] && !strings.HasPrefix(kv[1], "x") && !known[kv[1]] {
				t = t[:i+1] + kv[0] + "=N"
			}
		}
		rhs = append(rhs, t)
	}
	emit("%s => %s", strings.Join(lhs, " "), strings.Join(rhs, " "))
	count("method:" + method)
}

func qidTok(pfx string, q p9.QID) string {
	return fmt.Sprintf("%s=%d,%d,%d", pfx, uint8(q.Type), q.Version, q.Path)
}

func attrTok(valid p9.AttrMask, a p9.Attr) string {
	return fmt.Sprintf("attr=%d,%d,%d,%d,%d,%d,%d,%d,%d,%d,%d,%d,%d,%d,%d,%d,%d,%d,%d", maskToInt(valid), uint32(a.Mode), uint32(a.UID), uint32(a.GID), uint64(a.NLink), uint64(a.RDev), a.Size, a.BlockSize, a.Blocks,
		a.ATimeSeconds, a.ATimeNanoSeconds, a.MTimeSeconds, a.MTimeNanoSeconds, a.CTimeSeconds, a.CTimeNanoSeconds, a.BTimeSeconds, a.BTimeNanoSeconds, a.Gen, a.DataVersion)
}

// runKcs: every client File method against a real server and the recording backend, at every
// version 0..7; observed: frames on the wire, backend call log, values returned to the caller.
func runKcs(r *rng, n int) {
	for done := 0; done < n; {
		v := uint32(r.intn(8))
		be := newBackend(&rng{s: r.next()}, 0, 0, false)
		be.errKinds = true
		srv := p9.NewServer(be)
		ca, ta := connPair()
		tb, sb := connPair()
		tp := &tap{}
		go tp.relay(tb, ta, true)
		go tp.relay(ta, tb, false)
		srvDone := make(chan struct{})
		go func() { srv.Handle(sb, sb); close(srvDone) }()
		c, err := p9.NewClient(ca, p9.WithMessageSize(8192), p9.VerifWithRequestedVersion(v))
		if err != nil {
			panic(err)
		}
		rf, err := c.Attach("")
		if err != nil { // the backend now and then reports a root without a valid mode
			c.Close()
			<-srvDone
			continue
		}
		rfid, _ := p9.VerifFileFID(rf)
		env := &kcsEnv{r: r, be: be, tp: tp, c: c, v: c.Version(), root: &cfile{f: rf, h: 1, fid: rfid, kind: p9.ModeDirectory}}
		be.takeLog()
		tp.take()
		for k := 0; k < 12 && done < n; k++ {
			if env.one() {
				done++
			}
			env.quiet()
			for _, cf := range env.prepared {
				cf.f.Close()
			}
			env.prepared = nil
			be.takeLog()
			tp.take()
		}
		c.Close()
		<-srvDone
	}
}

func (e *kcsEnv) fault() {
	e.be.mu.Lock()
	e.nh = e.be.nextID
	e.be.errPm = 0
	if e.r.chance(1, 4) {
		e.be.errPm = 1000 // this call fails
	}
	e.be.mu.Unlock()
}

func (e *kcsEnv) quiet() {
	e.be.mu.Lock()
	e.be.errPm = 0
	e.be.mu.Unlock()
}

// one performs one client method call and emits its line; false if preparation failed.
func (e *kcsEnv) one() bool {
	r := e.r
	dir := p9.ModeDirectory | 0755
	reg := p9.ModeRegular | 0644
	name := string(r.bytesN(1 + r.intn(8)))
	name = strings.Map(func(c rune) rune {
		if c == '/' || c == 0 {
			return 'x'
		}
		return c
	}, name)
	if name == "." || name == ".." {
		name = "dots"
	}
	uid, gid := p9.UID(r.bits(32)), p9.GID(r.bits(32))
	perm := p9.FileMode(r.bits(32))
	defer e.quiet()
	switch r.intn(24) {
	case 0: // StatFS
		cf := e.prep(reg, false, 0)
		if cf == nil {
			return false
		}
		e.fault()
		st, err := cf.f.StatFS()
		e.emit("StatFS", cf, nil, []string{clientErrTok(err), fmt.Sprintf("ret=%d,%d,%d,%d,%d,%d,%d,%d,%d", st.Type, st.BlockSize, st.Blocks, st.BlocksFree, st.BlocksAvailable, st.Files, st.FilesFree, st.FSID, st.NameLength)})
	case 1: // GetAttr
		cf := e.prep(reg, false, 0)
		if cf == nil {
			return false
		}
		mask := r.bits(14)
		e.fault()
		q, valid, a, err := cf.f.GetAttr(maskFromInt(mask))
		e.emit("GetAttr", cf, []string{fmt.Sprintf("mask=%d", mask)}, []string{clientErrTok(err), qidTok("qid", q), attrTok(valid, a)})
	case 2: // SetAttr
		cf := e.prep(reg, false, 0)
		if cf == nil {
			return false
		}
		vm := r.bits(9)
		sa := p9.SetAttr{Permissions: perm, UID: uid, GID: gid, Size: r.bits(64), ATimeSeconds: r.bits(64), ATimeNanoSeconds: r.bits(64), MTimeSeconds: r.bits(64), MTimeNanoSeconds: r.bits(64)}
		valid := p9.SetAttrMask{Permissions: vm&1 != 0, UID: vm&2 != 0, GID: vm&4 != 0, Size: vm&8 != 0, ATime: vm&16 != 0, MTime: vm&32 != 0, CTime: vm&64 != 0, ATimeNotSystemTime: vm&128 != 0, MTimeNotSystemTime: vm&256 != 0}
		e.fault()
		err := cf.f.SetAttr(valid, sa)
		e.emit("SetAttr", cf, []string{fmt.Sprintf("a=%d,%d,%d,%d,%d,%d,%d,%d,%d", vm, uint32(perm), uint32(uid), uint32(gid), sa.Size, sa.ATimeSeconds, sa.ATimeNanoSeconds, sa.MTimeSeconds, sa.MTimeNanoSeconds)}, []string{clientErrTok(err)})
	case 3: // Lock
		cf := e.prep(reg, false, 0)
		if cf == nil {
			return false
		}
		pid := int(int32(r.bits(32)))
		lt, lf, st, ln := p9.LockType(r.bits(8)), p9.LockFlags(r.bits(32)), r.bits(64), r.bits(64)
		cl := string(r.bytesN(r.intn(10)))
		e.fault()
		status, err := cf.f.Lock(pid, lt, lf, st, ln, cl)
		e.emit("Lock", cf, []string{fmt.Sprintf("a=%d,%d,%d,%d,%d", uint32(int32(pid)), uint8(lt), uint32(lf), st, ln), "client=" + hx([]byte(cl))}, []string{clientErrTok(err), fmt.Sprintf("ret=%d", uint8(status))})
	case 4: // Open
		k := []p9.FileMode{reg, dir, p9.ModeNamedPipe | 0600}[r.intn(3)]
		cf := e.prep(k, false, 0)
		if cf == nil {
			return false
		}
		flags := p9.OpenFlags([]uint64{0, 1, 2, 0x200, 0x8000 | 2}[r.intn(5)])
		if cf.kind.IsDir() {
			flags &^= 3
		}
		e.fault()
		q, iou, err := cf.f.Open(flags)
		e.emit("Open", cf, []string{fmt.Sprintf("flags=%d", uint32(flags))}, []string{clientErrTok(err), qidTok("qid", q), fmt.Sprintf("iounit=%d", iou)})
	case 5: // FSync
		cf := e.prep(reg, true, p9.ReadWrite)
		if cf == nil {
			return false
		}
		e.fault()
		err := cf.f.FSync()
		e.emit("FSync", cf, nil, []string{clientErrTok(err)})
	case 6: // ReadAt, one chunk
		cf := e.prep(reg, true, []p9.OpenFlags{p9.ReadOnly, p9.ReadWrite}[r.intn(2)])
		if cf == nil {
			return false
		}
		p := make([]byte, r.intn(300))
		off := int64(r.bits(40))
		e.fault()
		nr, err := cf.f.ReadAt(p, off)
		e.emit("ReadAt", cf, []string{fmt.Sprintf("len=%d", len(p)), fmt.Sprintf("off=%d", off)}, []string{clientErrTok(err), fmt.Sprintf("n=%d", nr), "data=" + hx(p[:nr])})
	case 7: // WriteAt, one chunk
		cf := e.prep(reg, true, []p9.OpenFlags{p9.WriteOnly, p9.ReadWrite}[r.intn(2)])
		if cf == nil {
			return false
		}
		p := r.bytesN(r.intn(300))
		off := int64(r.bits(40))
		e.fault()
		nw, err := cf.f.WriteAt(p, off)
		e.emit("WriteAt", cf, []string{"data=" + hx(p), fmt.Sprintf("off=%d", off)}, []string{clientErrTok(err), fmt.Sprintf("n=%d", nw)})
	case 8, 9, 10, 11: // Create / Mkdir / Symlink / Mknod on a directory
		cf := e.prep(dir, false, 0)
		if cf == nil {
			return false
		}
		e.fault()
		switch r.intn(4) {
		case 0:
			flags := p9.OpenFlags([]uint64{0, 1, 2, 0x242}[r.intn(4)])
			nf, q, iou, err := cf.f.Create(name, flags, perm, uid, gid)
			_ = nf
			e.emit("Create", cf, []string{"name=" + hx([]byte(name)), fmt.Sprintf("a=%d,%d,%d,%d", uint32(flags), uint32(perm), uint32(uid), uint32(gid))}, []string{clientErrTok(err), qidTok("qid", q), fmt.Sprintf("iounit=%d", iou)})
		case 1:
			q, err := cf.f.Mkdir(name, perm, uid, gid)
			e.emit("Mkdir", cf, []string{"name=" + hx([]byte(name)), fmt.Sprintf("a=%d,%d,%d", uint32(perm), uint32(uid), uint32(gid))}, []string{clientErrTok(err), qidTok("qid", q)})
		case 2:
			target := string(r.bytesN(r.intn(20)))
			q, err := cf.f.Symlink(target, name, uid, gid)
			e.emit("Symlink", cf, []string{"name=" + hx([]byte(name)), "target=" + hx([]byte(target)), fmt.Sprintf("a=%d,%d", uint32(uid), uint32(gid))}, []string{clientErrTok(err), qidTok("qid", q)})
		default:
			mode := p9.FileMode(r.bits(32))
			maj, min := uint32(r.bits(32)), uint32(r.bits(32))
			q, err := cf.f.Mknod(name, mode, maj, min, uid, gid)
			e.emit("Mknod", cf, []string{"name=" + hx([]byte(name)), fmt.Sprintf("a=%d,%d,%d,%d,%d", uint32(mode), maj, min, uint32(uid), uint32(gid))}, []string{clientErrTok(err), qidTok("qid", q)})
		}
	case 12: // Link
		cf := e.prep(dir, false, 0)
		tg := e.prep(reg, false, 0)
		if cf == nil || tg == nil {
			return false
		}
		e.fault()
		err := cf.f.Link(tg.f, name)
		e.emit("Link", cf, []string{"name=" + hx([]byte(name)), fmt.Sprintf("th=%d", tg.h), fmt.Sprintf("tfid=%d", tg.fid)}, []string{clientErrTok(err)})
	case 13: // UnlinkAt
		cf := e.prep(dir, false, 0)
		if cf == nil {
			return false
		}
		flags := uint32(r.bits(32))
		e.fault()
		err := cf.f.UnlinkAt(name, flags)
		e.emit("UnlinkAt", cf, []string{"name=" + hx([]byte(name)), fmt.Sprintf("flags=%d", flags)}, []string{clientErrTok(err)})
	case 14: // RenameAt
		cf := e.prep(dir, false, 0)
		nd := e.prep(dir, false, 0)
		if cf == nil || nd == nil {
			return false
		}
		nn := name + "2"
		e.fault()
		err := cf.f.RenameAt(name, nd.f, nn)
		e.emit("RenameAt", cf, []string{"name=" + hx([]byte(name)), "newname=" + hx([]byte(nn)), fmt.Sprintf("dh=%d", nd.h), fmt.Sprintf("dfid=%d", nd.fid)}, []string{clientErrTok(err)})
	case 15: // Rename (arrives as RenameAt on the parent under the current name)
		cf := e.prep(reg, false, 0)
		nd := e.prep(dir, false, 0)
		if cf == nil || nd == nil {
			return false
		}
		e.fault()
		err := cf.f.Rename(nd.f, name)
		e.emit("Rename", cf, []string{"newname=" + hx([]byte(name)), fmt.Sprintf("dh=%d", nd.h), fmt.Sprintf("dfid=%d", nd.fid)}, []string{clientErrTok(err)})
	case 16: // Readdir
		cf := e.prep(dir, true, p9.ReadOnly)
		if cf == nil {
			return false
		}
		off, cnt := r.bits(64), uint32([]uint64{0, 30, 100, 1000, 8181, 8192, 1 << 20}[r.intn(7)])
		e.fault()
		ents, err := cf.f.Readdir(off, cnt)
		var rows []string
		for _, d := range ents {
			rows = append(rows, fmt.Sprintf("%d,%d,%d,%d,%d,%s", uint8(d.QID.Type), d.QID.Version, d.QID.Path, d.Offset, uint8(d.Type), hx([]byte(d.Name))))
		}
		e.emit("Readdir", cf, []string{fmt.Sprintf("off=%d", off), fmt.Sprintf("count=%d", cnt)}, []string{clientErrTok(err), "ents=[" + strings.Join(rows, ";") + "]"})
	case 17: // Readlink
		cf := e.prep(p9.ModeSymlink|0777, false, 0)
		if cf == nil {
			return false
		}
		e.fault()
		t, err := cf.f.Readlink()
		e.emit("Readlink", cf, nil, []string{clientErrTok(err), "target=" + hx([]byte(t))})
	case 18: // Walk one name / clone
		cf := e.prep(dir, false, 0)
		if cf == nil {
			return false
		}
		var names []string
		if r.chance(2, 3) {
			names = []string{name}
		}
		e.fault()
		qs, nf, err := cf.f.Walk(names)
		var qt []string
		for _, q := range qs {
			qt = append(qt, fmt.Sprintf("%d,%d,%d", uint8(q.Type), q.Version, q.Path))
		}
		if nf != nil {
			defer func() { e.quiet(); nf.Close(); e.be.takeLog(); e.tp.take() }()
		}
		e.emit("Walk", cf, []string{"names=" + listHex(names)}, []string{clientErrTok(err), "qids=[" + strings.Join(qt, ";") + "]"})
	case 19: // WalkGetAttr
		cf := e.prep(dir, false, 0)
		if cf == nil {
			return false
		}
		var names []string
		if r.chance(2, 3) {
			names = []string{name}
		}
		e.fault()
		qs, nf, valid, a, err := cf.f.WalkGetAttr(names)
		var qt []string
		for _, q := range qs {
			qt = append(qt, fmt.Sprintf("%d,%d,%d", uint8(q.Type), q.Version, q.Path))
		}
		if nf != nil {
			defer func() { e.quiet(); nf.Close(); e.be.takeLog(); e.tp.take() }()
		}
		e.emit("WalkGetAttr", cf, []string{"names=" + listHex(names)}, []string{clientErrTok(err), "qids=[" + strings.Join(qt, ";") + "]", attrTok(valid, a)})
	case 20: // Remove (arrives as UnlinkAt on the parent under the current name; clunks the fid)
		cf := e.prep(reg, false, 0)
		if cf == nil {
			return false
		}
		e.fault()
		type remover interface{ Remove() error }
		err := cf.f.(remover).Remove()
		e.emit("Remove", cf, nil, []string{clientErrTok(err)})
		return true
	case 21: // SetXattr / RemoveXattr: not offered by the client
		cf := e.prep(reg, false, 0)
		if cf == nil {
			return false
		}
		if r.chance(1, 2) {
			err := cf.f.SetXattr("user.x", []byte("v"), 0)
			e.emit("SetXattr", cf, nil, []string{clientErrTok(err)})
		} else {
			err := cf.f.RemoveXattr("user.x")
			e.emit("RemoveXattr", cf, nil, []string{clientErrTok(err)})
		}
	case 22: // GetXattr
		cf := e.prep(reg, false, 0)
		if cf == nil {
			return false
		}
		an := "user." + name
		e.fault()
		buf, err := cf.f.GetXattr(an)
		e.emit("GetXattr", cf, []string{"name=" + hx([]byte(an))}, []string{clientErrTok(err), "data=" + hx(buf)})
	default: // ListXattrs
		cf := e.prep(reg, false, 0)
		if cf == nil {
			return false
		}
		e.fault()
		names, err := cf.f.ListXattrs()
		e.emit("ListXattrs", cf, nil, []string{clientErrTok(err), "names=" + listHex(names)})
	}
	return true
}

func listHex(names []string) string {
	var s []string
	for _, n := range names {
		s = append(s, hx([]byte(n)))
	}
	return "[" + strings.Join(s, ";") + "]"
}
