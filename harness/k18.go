package main

import (
	"bytes"
	"reflect"

	"github.com/hugelgupf/p9/p9"
)

// sizedMsg builds a message of type t whose strings, lists and payload have about the given
// size class (0 = empty, 1 = short, 2 = long).
func sizedMsg(r *rng, t uint8, class int) []byte {
	m, _ := p9.VerifNewMsg(t)
	fillMsg(r, m)
	n := []int{0, 1 + r.intn(2), 6 + r.intn(20)}[class]
	for _, f := range p9.VerifFields(m) {
		v := f.Val
		switch {
		case v.Kind() == reflect.String:
			v.SetString(string(r.bytesN(n)))
		case v.Kind() == reflect.Slice && v.Type().Elem().Kind() == reflect.Uint8:
			if f.Path == "Data" {
				v.SetBytes(r.bytesN(n * 7))
			}
		case v.Kind() == reflect.Slice:
			s := reflect.MakeSlice(v.Type(), n, n)
			for i := 0; i < n; i++ {
				fillValue(r, s.Index(i))
			}
			v.Set(s)
		}
	}
	if t == 41 { // Rreaddir: let everything fit
		for _, f := range p9.VerifFields(m) {
			if f.Path == "Count" {
				f.Val.SetUint(1 << 20)
			}
		}
	}
	var buf bytes.Buffer
	if err := p9.VerifSend(&buf, uint16(r.bits(16)), m); err != nil {
		panic(err)
	}
	return buf.Bytes()
}

// runK18: runs of same-type messages with shrinking and growing list / string / payload sizes
// through recv() with object recycling (the process-wide message cache is shared by every
// receiver, so one stream stands for interleaved connections). Emitted as k2 lines.
func runK18(r *rng, n int) {
	types := p9.VerifMsgTypes()
	patterns := [][]int{{2, 1, 0, 2}, {2, 2, 1, 1, 0, 0}, {1, 0, 2, 0, 1}, {2, 0}, {0, 2, 0}, {2, 1, 2, 1, 0}}
	for i := 0; i < n; i++ {
		t := types[i%len(types)]
		if r.chance(1, 2) { // the messages with slices and payloads more often
			t = []uint8{110, 111, 126, 127, 41, 118, 117, 104, 100, 16}[r.intn(10)]
		}
		pat := patterns[r.intn(len(patterns))]
		r.small = true
		var stream []byte
		for _, class := range pat {
			stream = append(stream, sizedMsg(r, t, class)...)
			if r.chance(1, 3) { // another "connection" interleaves a message of another type
				stream = append(stream, validFrame(r)...)
			}
		}
		r.small = false
		emitK2(stream, 1<<20)
		count("k18:typ" + string(rune('0'+t/100)) + "xx")
	}
}
