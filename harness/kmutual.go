package main

import (
	"time"

	"github.com/hugelgupf/p9/p9"
)

// runKmutual: two Tflush frames naming each other's tags, written in one segment. Each must be
// answered (each names a tag that is idle or a Tflush, which runs no backend call).
func runKmutual(r *rng, n int) {
	stuck := 0
	for i := 0; i < n; i++ {
		be := newBackend(&rng{s: r.next()}, 0, 0, false)
		be.dirRoot = true
		srv := p9.NewServer(be)
		p := newServerPeer(srv)
		frame := func(t uint8, tag uint16, v map[string]interface{}) []byte {
			var w sliceWriter
			p9.VerifSend(&w, tag, mk(t, v))
			return w.b
		}
		p.write(frame(100, 0xffff, map[string]interface{}{"MSize": uint64(8192), "Version": "9P2000.L"}))
		p.readFrame(3 * time.Second)
		both := append(frame(108, 1, map[string]interface{}{"OldTag": uint64(2)}), frame(108, 2, map[string]interface{}{"OldTag": uint64(1)})...)
		p.write(both)
		got := 0
		for k := 0; k < 2; k++ {
			if _, err := p.readFrame(400 * time.Millisecond); err == nil {
				got++
			}
		}
		if got < 2 {
			// not just slow? wait much longer, then see whether Handle can still return
			for k := got; k < 2; k++ {
				if _, err := p.readFrame(5 * time.Second); err == nil {
					got++
				}
			}
			p.c.Close()
			ret := 0
			if p.waitDone(5 * time.Second) {
				ret = 1
			}
			if got < 2 {
				stuck++
				emit("kmutual trial=%d => answered=%d handle_returned=%d", i, got, ret)
			}
			continue
		}
		p.c.Close()
	}
	emit("kmutual trials=%d => stuck=%d", n, stuck)
}
