package main

import (
	"encoding/binary"
	"io"
	"sync"
	"time"

	"github.com/hugelgupf/p9/p9"
)

// eagerConn is a connection to a fake server that answers *while the request is still being
// written*: Write returns only after the reply has been consumed by a reader (or after a short
// while if nobody reads).  Replies to requests on held fids are withheld until release().
type eagerConn struct {
	mu      sync.Mutex
	cond    *sync.Cond
	srv     *muxServer
	in      []byte // bytes written by the client, not yet a whole frame
	out     []byte // reply bytes not yet read by the client
	held    map[uint32]bool
	pending [][]byte // withheld replies
	closed  bool
}

func newEagerConn() *eagerConn {
	c := &eagerConn{srv: &muxServer{bound: map[uint32]bool{}}, held: map[uint32]bool{}}
	c.cond = sync.NewCond(&c.mu)
	return c
}

func (c *eagerConn) Write(b []byte) (int, error) {
	c.mu.Lock()
	defer c.mu.Unlock()
	if c.closed {
		return 0, io.ErrClosedPipe
	}
	c.in = append(c.in, b...)
	for len(c.in) >= 7 {
		sz := int(binary.LittleEndian.Uint32(c.in))
		if sz < 7 || sz > len(c.in) {
			break
		}
		f := c.in[:sz]
		c.in = append([]byte(nil), c.in[sz:]...)
		t, tag, body := f[4], binary.LittleEndian.Uint16(f[5:]), f[7:]
		rep := c.srv.reply(t, tag, body)
		if t == 24 && c.held[binary.LittleEndian.Uint32(body)] {
			c.pending = append(c.pending, rep)
			continue
		}
		c.out = append(c.out, rep...)
		c.cond.Broadcast()
		// the reply is on its way before this Write has returned: wait until a reader took it
		deadline := time.Now().Add(30 * time.Millisecond)
		for len(c.out) > 0 && !c.closed && time.Now().Before(deadline) {
			c.mu.Unlock()
			time.Sleep(200 * time.Microsecond)
			c.mu.Lock()
		}
	}
	return len(b), nil
}

func (c *eagerConn) Read(p []byte) (int, error) {
	c.mu.Lock()
	defer c.mu.Unlock()
	for len(c.out) == 0 && !c.closed {
		c.cond.Wait()
	}
	if len(c.out) == 0 {
		return 0, io.EOF
	}
	n := copy(p, c.out)
	c.out = c.out[n:]
	return n, nil
}

func (c *eagerConn) release() {
	c.mu.Lock()
	for _, r := range c.pending {
		c.out = append(c.out, r...)
	}
	c.pending = nil
	c.cond.Broadcast()
	c.mu.Unlock()
}

func (c *eagerConn) Close() error {
	c.mu.Lock()
	c.closed = true
	c.cond.Broadcast()
	c.mu.Unlock()
	return nil
}

// runKearly: the reply to a request may reach the goroutine that holds the receive token before
// the sender has come back from writing the request (C10: every call returns the reply to its own
// request in whatever order – and however fast – the server answers).  Call A waits for a withheld
// reply (it is the receiver); calls B.. are answered while they are still inside Write.
func runKearly(r *rng, n int) {
	for i := 0; i < n; i++ {
		ec := newEagerConn()
		c, err := p9.NewClient(ec)
		if err != nil {
			emit("kearly quick=0 => prepfailed=1")
			continue
		}
		root, err := c.Attach("")
		if err != nil {
			emit("kearly quick=0 => prepfailed=1")
			continue
		}
		quick := 1 + r.intn(3)
		var files []p9.File
		for k := 0; k <= quick; k++ {
			_, f, err := root.Walk(nil)
			if err != nil {
				break
			}
			files = append(files, f)
		}
		if len(files) != quick+1 {
			emit("kearly quick=%d => prepfailed=1", quick)
			ec.Close()
			continue
		}
		afid, _ := p9.VerifFileFID(files[0])
		ec.mu.Lock()
		ec.held[uint32(afid)] = true
		ec.mu.Unlock()
		type res struct {
			ok  bool
			err error
		}
		get := func(f p9.File) res {
			fid, _ := p9.VerifFileFID(f)
			q, _, _, err := f.GetAttr(p9.AttrMask{Mode: true})
			return res{err == nil && q.Path == fid, err}
		}
		aDone := make(chan res, 1)
		go func() { aDone <- get(files[0]) }()
		time.Sleep(2 * time.Millisecond) // A is in recv, holding the token
		bok, bhung := 0, 0
		for k := 1; k <= quick; k++ {
			bDone := make(chan res, 1)
			go func(k int) { bDone <- get(files[k]) }(k)
			select {
			case x := <-bDone:
				if x.ok {
					bok++
				}
			case <-time.After(8 * time.Second):
				bhung++
			}
		}
		ec.release()
		aok, ahung := 0, 0
		select {
		case x := <-aDone:
			if x.ok {
				aok = 1
			}
		case <-time.After(8 * time.Second):
			ahung = 1
		}
		ec.Close()
		emit("kearly quick=%d => aok=%d bok=%d hung=%d", quick, aok, bok, ahung+bhung)
	}
}
