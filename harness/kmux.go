package main

import (
	"encoding/binary"
	"errors"
	"fmt"
	"net"
	"strings"
	"sync"
	"time"

	"github.com/hugelgupf/p9/linux"
	"github.com/hugelgupf/p9/p9"
)

// runKpool: allocator sequences through the exported pool, values compared with the model.
func runKpool(r *rng, n int) {
	for i := 0; i < n; i++ {
		start := uint64(r.intn(3))
		limit := start + uint64(r.intn(6))
		p := p9.VerifNewPool(start, limit)
		var out []uint64
		var ops, res []string
		for k := 0; k < 30; k++ {
			if len(out) > 0 && r.chance(2, 5) {
				j := r.intn(len(out))
				v := out[j]
				out = append(out[:j], out[j+1:]...)
				p.Put(v)
				ops = append(ops, fmt.Sprintf("p%d", v))
				res = append(res, "-")
			} else {
				v, ok := p.Get()
				ops = append(ops, "g")
				if ok {
					out = append(out, v)
					res = append(res, fmt.Sprint(v))
				} else {
					res = append(res, "x")
				}
			}
		}
		emit("kpool start=%d limit=%d ops=%s => res=%s", start, limit, strings.Join(ops, ","), strings.Join(res, ","))
	}
}

// muxServer is a scripted fake server for the multiplexing runs: it collects a batch of
// requests and answers them in a chosen order, optionally injecting a fault.
func muxErrno(fid uint32) uint32 { return 200 + fid%97 }

type muxServer struct {
	refuse bool // a third of the Tgetattr are refused (errnos must reach their own callers)
	// refuseAll: every Tgetattr is refused: many Rlerror back to back, each with its own errno
	refuseAll bool
	c      net.Conn
	bound  map[uint32]bool
	reuse  []string
	mu     sync.Mutex
}

func (s *muxServer) read() (byte, uint16, []byte, error) {
	f, err := readFrameFrom(s.c)
	if err != nil {
		return 0, 0, nil, err
	}
	return f[4], binary.LittleEndian.Uint16(f[5:]), f[7:], nil
}

// reply builds the answer to one request; Rgetattr carries the request's fid in QID.Path and
// its tag in QID.Version so that the caller can tell whose reply it got.
func (s *muxServer) reply(t byte, tag uint16, body []byte) []byte {
	s.mu.Lock()
	defer s.mu.Unlock()
	switch t {
	case 100:
		return rawFrame(101, tag, cat(le32(8192), str9([]byte("9P2000.L.Google.7"))))
	case 104:
		s.bound[binary.LittleEndian.Uint32(body)] = true
		return rawFrame(105, tag, cat([]byte{0x80}, le32(0), le64(1)))
	case 110:
		nf := binary.LittleEndian.Uint32(body[4:])
		if s.bound[nf] {
			s.reuse = append(s.reuse, fmt.Sprint(nf))
		}
		s.bound[nf] = true
		return rawFrame(111, tag, le16(0))
	case 120:
		delete(s.bound, binary.LittleEndian.Uint32(body))
		return rawFrame(121, tag, nil)
	case 24:
		fid := binary.LittleEndian.Uint32(body)
		if s.refuse && (s.refuseAll || fid%3 == 1) {
			// refused with an errno that identifies the request
			return rawFrame(7, tag, le32(muxErrno(fid)))
		}
		attr := make([]byte, 4+4+4+15*8)
		return rawFrame(25, tag, cat(le64(0x3fff), []byte{0}, le32(uint32(tag)), le64(uint64(fid)), attr))
	}
	return rawFrame(7, tag, le32(95))
}

// runKmux: concurrent client calls, replies in every order / random order, faults.
func runKmux(r *rng, n int) {
	for i := 0; i < n && !tooManyHangs(); i++ {
		batch := 2 + r.intn(3)
		if r.chance(1, 5) {
			batch = 8 + r.intn(24)
		}
		fault := []string{"none", "none", "close", "badtag", "wrongtype", "garbage", "shortread"}[r.intn(7)]
		faultAt := r.intn(batch)
		a, b := connPair()
		srv := &muxServer{c: b, bound: map[uint32]bool{}, refuse: r.chance(1, 2)}
		srv.refuseAll = srv.refuse && r.chance(1, 2)
		// handshake + attach + one clone per worker, answered in lock-step
		done := make(chan struct{})
		var files []p9.File
		go func() {
			defer close(done)
			for k := 0; k < 2+batch; k++ {
				t, tag, body, err := srv.read()
				if err != nil {
					return
				}
				srv.c.Write(srv.reply(t, tag, body))
			}
		}()
		// preparation (handshake, attach, clones) against the lock-step fake server: it must succeed
		// (a failure here was how D20 first showed: an error of an earlier, dead connection delivered
		// into a recycled response of this fresh client)
		prepOK := true
		c, err := p9.NewClient(a)
		var root p9.File
		if err != nil {
			prepOK = false
		} else if root, err = c.Attach(""); err != nil {
			prepOK = false
		} else {
			for k := 0; k < batch; k++ {
				_, f, err := root.Walk(nil)
				if err != nil {
					prepOK = false
					break
				}
				files = append(files, f)
			}
		}
		if !prepOK {
			a.Close()
			b.Close()
			emit("kmux batch=%d fault=%s at=%d => prepfailed=1 err=%q", batch, fault, faultAt, fmt.Sprint(err))
			continue
		}
		<-done
		// the batch: every worker issues GetAttr on its own file concurrently
		type result struct {
			fid  uint64
			path uint64
			err  error
		}
		results := make([]result, batch)
		var wg sync.WaitGroup
		for k := 0; k < batch; k++ {
			wg.Add(1)
			go func(k int) {
				defer wg.Done()
				fid, _ := p9.VerifFileFID(files[k])
				q, _, _, err := files[k].GetAttr(p9.AttrMask{Mode: true})
				results[k] = result{fid: fid, path: q.Path, err: err}
			}(k)
		}
		// the server side: collect the batch, answer in a permutation, maybe inject the fault
		type req struct {
			t    byte
			tag  uint16
			body []byte
		}
		var reqs []req
		tags := map[uint16]bool{}
		dupTag := false
		for k := 0; k < batch; k++ {
			t, tag, body, err := srv.read()
			if err != nil {
				break
			}
			if tags[tag] || tag == 0xffff {
				dupTag = true
			}
			tags[tag] = true
			reqs = append(reqs, req{t, tag, body})
		}
		perm := make([]int, len(reqs))
		for k := range perm {
			perm[k] = k
		}
		for k := len(perm) - 1; k > 0; k-- {
			j := r.intn(k + 1)
			perm[k], perm[j] = perm[j], perm[k]
		}
		answered := 0
		for pos, k := range perm {
			if fault != "none" && pos == faultAt {
				switch fault {
				case "close":
					srv.c.Close()
				case "badtag":
					srv.c.Write(rawFrame(25, 0xfffe, make([]byte, 153)))
				case "wrongtype":
					srv.c.Write(rawFrame(121, reqs[k].tag, nil))
				case "garbage":
					srv.c.Write([]byte{3, 0, 0, 0, 9, 9, 9})
				case "shortread":
					f := srv.reply(reqs[k].t, reqs[k].tag, reqs[k].body)
					srv.c.Write(f[:len(f)/2])
					srv.c.Close()
				}
				break
			}
			srv.c.Write(srv.reply(reqs[k].t, reqs[k].tag, reqs[k].body))
			answered++
		}
		// watchdog: no call may hang once the fault hit / all replies were sent
		hung := 0
		wdone := make(chan struct{})
		go func() { wg.Wait(); close(wdone) }()
		select {
		case <-wdone:
		case <-time.After(5 * time.Second):
			hung = 1
			noteHang()
			srv.c.Close()
			<-wdone
		}
		foreign, errs, oks, wrongerr := 0, 0, 0, 0
		for _, res := range results {
			switch {
			case res.err != nil && srv.refuse && (srv.refuseAll || res.fid%3 == 1) && fault == "none":
				// refused by the server: the caller must see the errno sent for *its* request
				var e linux.Errno
				if !errors.As(res.err, &e) || uint32(e) != muxErrno(uint32(res.fid)) {
					wrongerr++
				}
				oks++
			case res.err != nil:
				errs++
			case res.path != res.fid:
				foreign++
			default:
				oks++
			}
		}
		// after a fault every call that had not been answered must have failed
		unanswered := len(reqs) - answered
		errsOK := 1
		if fault != "none" && errs < unanswered {
			errsOK = 0
		}
		if fault == "none" && errs != 0 {
			errsOK = 0
		}
		// a later call on the failed connection must fail as well (and not hang)
		later := "skip"
		if fault == "close" || fault == "shortread" {
			lch := make(chan error, 1)
			go func() { _, _, _, e := root.GetAttr(p9.AttrMask{}); lch <- e }()
			go func() { // a server that is still readable answers nothing more
				for {
					if _, _, _, err := srv.read(); err != nil {
						return
					}
				}
			}()
			select {
			case e := <-lch:
				if e != nil {
					later = "error"
				} else {
					later = "ok"
				}
			case <-time.After(3 * time.Second):
				later = "hang"
			}
		}
		srv.c.Close()
		c.Close()
		dt := 0
		if dupTag {
			dt = 1
		}
		count("fault:" + fault)
		count(fmt.Sprintf("batch<=%d", (batch+3)/4*4))
		laterOK := 1
		if later == "hang" || (later == "ok" && (fault == "close" || fault == "shortread")) {
			laterOK = 0
		}
		emit("kmux batch=%d fault=%s at=%d => foreign=%d hung=%d duptag=%d reuse=%s errsok=%d laterok=%d wrongerr=%d", batch, fault, faultAt, foreign, hung, dt, strings.Join(srv.reuse, ","), errsOK, laterOK, wrongerr)
	}
}

// runKmuxfid: a fid whose Tclunk is on the wire but not yet answered is still bound on the server;
// a concurrent allocation (a clone walk) must not be given that number (C10: "no fid handed out
// while still bound").
func runKmuxfid(r *rng, n int) {
	for i := 0; i < n; i++ {
		a, b := connPair()
		srv := &muxServer{c: b, bound: map[uint32]bool{}}
		clones := 1 + r.intn(4)
		step := func() (byte, uint16, []byte, bool) {
			t, tag, body, err := srv.read()
			if err != nil {
				return 0, 0, nil, false
			}
			return t, tag, body, true
		}
		done := make(chan struct{})
		go func() {
			defer close(done)
			for k := 0; k < 2+clones; k++ {
				if t, tag, body, ok := step(); ok {
					srv.c.Write(srv.reply(t, tag, body))
				}
			}
		}()
		var files []p9.File
		var root p9.File
		prepOK := true
		c, err := p9.NewClient(a)
		if err != nil {
			prepOK = false
		} else if root, err = c.Attach(""); err != nil {
			prepOK = false
		} else {
			for k := 0; k < clones; k++ {
				_, f, err := root.Walk(nil)
				if err != nil {
					prepOK = false
					break
				}
				files = append(files, f)
			}
		}
		if !prepOK { // the lock-step preparation must succeed (see runKmux)
			a.Close()
			b.Close()
			emit("kmuxfid clones=%d => formed=0 prepfailed=1", clones)
			continue
		}
		<-done
		victim := files[r.intn(len(files))]
		vfid, _ := p9.VerifFileFID(victim)
		closed := make(chan error, 1)
		go func() { closed <- victim.Close() }()
		// the Tclunk arrives; its answer is withheld
		t1, tag1, body1, ok1 := step()
		reuse, formed := 0, 0
		if ok1 && t1 == 120 && uint64(binary.LittleEndian.Uint32(body1)) == vfid {
			formed = 1
			walked := make(chan p9.File, 1)
			go func() {
				_, f, err := root.Walk(nil)
				if err != nil {
					walked <- nil
					return
				}
				walked <- f
			}()
			if t2, tag2, body2, ok2 := step(); ok2 && t2 == 110 {
				if uint64(binary.LittleEndian.Uint32(body2[4:])) == vfid {
					reuse = 1
				}
				srv.c.Write(srv.reply(t2, tag2, body2))
			}
			srv.c.Write(srv.reply(t1, tag1, body1))
			select {
			case f := <-walked:
				if f != nil {
					files = append(files, f)
				}
			case <-time.After(3 * time.Second):
			}
			select {
			case <-closed:
			case <-time.After(3 * time.Second):
			}
		}
		a.Close()
		b.Close()
		emit("kmuxfid clones=%d => formed=%d inflight_reuse=%d", clones, formed, reuse)
	}
}
