package main

import (
	"errors"
	"fmt"
	"io"
	"os"
	"sort"
	"strings"
	"sync"
	"syscall"

	"github.com/hugelgupf/p9/linux"
	"github.com/hugelgupf/p9/p9"
)

// backend is the scripted, recording, fault-injecting File implementation behind K4/K5.
// Every call is logged with receiver handle and arguments; its outcome is drawn from the PRNG
// and written to the per-request oracle tape so that the Lean model can replay it.
type backend struct {
	mu          sync.Mutex
	r           *rng
	nextID      int
	errPm       int // per-mille probability of an error outcome
	panicPm     int
	closeFaults bool
	panics      int         // panics injected so far
	errKinds    bool        // draw error *values* of many kinds (linux / syscall errno, os.Err*, wrapped, opaque)
	dirRoot     bool        // the root is always a directory
	panicRenH   int         // Renamed panics when called on this handle (once)
	noENOSYS    bool        // WalkGetAttr is always implemented
	bigXattr    int         // GetXattr returns this many bytes (reads on xattr fids near msize)
	attrByH     bool        // GetAttr answers a fixed function of the handle (content checks under concurrency)
	fillByOff   bool        // ReadAt fills the buffer with byte(offset)
	panicOn     string      // the next call of this method panics (once)
	errOn       string      // the next call of this method fails with ENOTEMPTY (once)
	fs          *memfs      // if set: outcomes of the tree operations come from this file system (K5)
	presetQIDs  []p9.QID    // fs mode: the QIDs the next call hands out
	forceKind   p9.FileMode // if non-zero: mode of the next file created by a named walk
	lastNew     int         // id of the handle created last
	fullReads   bool        // ReadAt always fills the buffer (C13 boundary runs)
	manyDirents int         // Readdir returns about this many entries (C13 boundary runs)
	direntsByH  bool        // Readdir names every entry after the handle it was asked on (content checks under concurrency)

	calls  []string // indexed call tokens of the current request
	multis []string // unindexed tokens (Close, Renamed) of the current request
	tape   []string // outcome tokens of the current request

	kind   map[int]uint32 // mode (type bits | perm) of every handle
	closed map[int]int
	uac    []string                 // use-after-close events
	gate   func(h int, meth string) // optional hook (concurrency harnesses)
}

func newBackend(r *rng, errPm, panicPm int, closeFaults bool) *backend {
	return &backend{r: r, nextID: 1, errPm: errPm, panicPm: panicPm, closeFaults: closeFaults, kind: map[int]uint32{}, closed: map[int]int{}}
}

type sfile struct {
	p9.DefaultWalkGetAttr
	b  *backend
	id int
	// obj: fs mode, set by Open / Create: an opened File keeps its object
	obj *mnode
	// path is the absolute path of the file as this handle knows it: set when the handle is
	// created, rewritten by Renamed (the way localfs does). Used only to refuse what every
	// POSIX file system refuses (rename into the own subtree / onto an ancestor).
	path []string
}

func hasPrefix(p, pre []string) bool {
	if len(pre) > len(p) {
		return false
	}
	for i := range pre {
		if p[i] != pre[i] {
			return false
		}
	}
	return true
}

func (b *backend) Attach() (p9.File, error) {
	o := b.record(0, "Attach", nil, nil)
	if o.err != nil {
		return nil, o.err
	}
	b.mu.Lock()
	f := b.newFileLocked(p9.ModeDirectory | 0755)
	if !b.dirRoot && b.r.chance(1, 30) {
		b.kind[f.id] = uint32(b.randKind()) // a root that is not a directory now and then
	}
	b.mu.Unlock()
	b.okTape(nil, nil, nil)
	return f, nil
}

func (b *backend) newFileLocked(mode p9.FileMode, path ...string) *sfile {
	f := &sfile{b: b, id: b.nextID, path: append([]string{}, path...)}
	b.nextID++
	b.kind[f.id] = uint32(mode)
	b.lastNew = f.id
	return f
}

type outcome struct {
	err error
}

func intsTok(xs []uint64) string {
	var s []string
	for _, x := range xs {
		s = append(s, fmt.Sprint(x))
	}
	return strings.Join(s, ",")
}
func strsTok(xs [][]byte) string {
	var s []string
	for _, x := range xs {
		s = append(s, hx(x))
	}
	return strings.Join(s, "|")
}

// record logs the call and draws error / panic / ok. The ok payload is appended by okTape.
func (b *backend) record(h int, meth string, ints []uint64, strs [][]byte, forced ...linux.Errno) outcome {
	b.mu.Lock()
	if h != 0 && b.closed[h] > 0 {
		b.uac = append(b.uac, fmt.Sprintf("%s(h%d)", meth, h))
	}
	b.calls = append(b.calls, fmt.Sprintf("%d.%s(%s;%s)", h, meth, intsTok(ints), strsTok(strs)))
	gate := b.gate
	roll := b.r.intn(1000)
	if meth == "WriteAt" || meth == "ReadAt" {
		roll /= 3 // failing I/O (and what a failing call reports next to its error) is otherwise rare
	}
	var o outcome
	doPanic := false
	switch {
	case len(forced) > 0:
		b.tape = append(b.tape, fmt.Sprintf("err:%d", uint32(forced[0])))
		o.err = forced[0]
	case b.errOn != "" && b.errOn == meth:
		b.errOn = ""
		b.tape = append(b.tape, fmt.Sprintf("err:%d", uint32(linux.ENOTEMPTY)))
		o.err = linux.ENOTEMPTY
	case roll < b.panicPm || (b.panicOn != "" && b.panicOn == meth):
		b.panicOn = ""
		b.tape = append(b.tape, "panic")
		b.panics++
		doPanic = true
	case roll < b.panicPm+b.errPm && b.errKinds:
		kind, code, err := b.randErr()
		b.tape = append(b.tape, fmt.Sprintf("err:%d:%s", code, kind))
		o.err = err
	case roll < b.panicPm+b.errPm:
		errnos := []linux.Errno{linux.EIO, linux.ENOENT, linux.EACCES, linux.EEXIST, linux.ENOTDIR, linux.ENOSPC, linux.EROFS, linux.EAGAIN, linux.ENOTEMPTY, linux.ENODATA}
		e := errnos[b.r.intn(len(errnos))]
		b.tape = append(b.tape, fmt.Sprintf("err:%d", uint32(e)))
		o.err = e
	}
	b.mu.Unlock()
	if gate != nil {
		gate(h, meth)
	}
	if doPanic {
		panic(fmt.Sprintf("injected panic in %s(h%d)", meth, h))
	}
	return o
}

// intact: the string and payload arguments of a call must read at its end as they did at its
// beginning (a decoded message is a function of its own frame alone: later frames, on this or
// another connection, must not show through – C01/C02/C18).  Violations are reported with the
// use-after-close events, which every lifecycle line prints.
func (b *backend) intact(h int, meth string, now [][]byte, then [][]byte) {
	for i := range now {
		if i < len(then) && string(now[i]) != string(then[i]) {
			b.mu.Lock()
			b.uac = append(b.uac, fmt.Sprintf("argchanged:%s(h%d):%x->%x", meth, h, then[i], now[i]))
			b.mu.Unlock()
			return
		}
	}
}

// partial: how many bytes a failing ReadAt / WriteAt reports next to its error (half of the time none).
func (b *backend) partial(p []byte, fill bool) int {
	b.mu.Lock()
	defer b.mu.Unlock()
	if len(p) == 0 || b.r.chance(1, 2) {
		return 0
	}
	n := 1 + b.r.intn(len(p))
	if fill {
		copy(p, b.r.bytesN(n))
	}
	return n
}

// randErr draws an error value: (kind tag, errno code if any, the error).
func (b *backend) randErr() (string, uint32, error) {
	codes := []uint32{1, 2, 5, 13, 17, 20, 21, 22, 28, 30, 39, 61, 95, 11}
	code := codes[b.r.intn(len(codes))]
	switch b.r.intn(13) {
	case 11: // an errno inside an error *tree* (errors.Join, several %w): found all the same
		return "JL", code, errors.Join(errors.New("first failure"), fmt.Errorf("second: %w", linux.Errno(code)))
	case 12:
		return "MS", code, fmt.Errorf("%w; then %w", errors.New("cleanup failed"), syscall.Errno(code))
	case 0, 1:
		return "L", code, linux.Errno(code)
	case 2, 3:
		return "S", code, syscall.Errno(code)
	case 4:
		return "WL", code, fmt.Errorf("backend: %w", fmt.Errorf("deeper: %w", linux.Errno(code)))
	case 5:
		return "PE", code, &os.PathError{Op: "open", Path: "/x", Err: syscall.Errno(code)}
	case 6:
		return "N", 0, fmt.Errorf("wrapped: %w", os.ErrNotExist)
	case 7:
		return "X", 0, os.ErrExist
	case 8:
		return "P", 0, os.ErrPermission
	case 9:
		return "I", 0, os.ErrInvalid
	default:
		return "O", 0, errors.New("opaque backend failure")
	}
}

func rowsTok(rows [][]string) string {
	var s []string
	for _, r := range rows {
		s = append(s, strings.Join(r, ","))
	}
	return "[" + strings.Join(s, ";") + "]"
}

func (b *backend) okTape(ints []uint64, strs [][]byte, rows [][]string) {
	b.mu.Lock()
	b.tape = append(b.tape, fmt.Sprintf("ok:%s:%s:%s", intsTok(ints), strsTok(strs), rowsTok(rows)))
	b.mu.Unlock()
}

// ---- value generators ----------------------------------------------------------------

func (b *backend) randQID() p9.QID {
	if len(b.presetQIDs) > 0 {
		q := b.presetQIDs[0]
		b.presetQIDs = b.presetQIDs[1:]
		return q
	}
	return p9.QID{Type: p9.QIDType(b.r.bits(8)), Version: uint32(b.r.bits(32)), Path: b.r.bits(64)}
}
func qidInts(q p9.QID) []uint64 { return []uint64{uint64(q.Type), uint64(q.Version), q.Path} }

func (b *backend) randKind() p9.FileMode {
	switch b.r.intn(20) {
	case 0, 1, 2, 3, 4, 5, 6, 7, 8:
		return p9.ModeDirectory | 0755
	case 9, 10, 11, 12, 13, 14:
		return p9.ModeRegular | 0644
	case 15, 16:
		return p9.ModeSymlink | 0777
	case 17:
		return p9.ModeNamedPipe | 0600
	case 18:
		return p9.ModeSocket | 0600
	default:
		return p9.FileMode(b.r.bits(16)) // arbitrary, possibly invalid type bits
	}
}

func maskFromInt(v uint64) p9.AttrMask {
	return p9.AttrMask{Mode: v&1 != 0, NLink: v&2 != 0, UID: v&4 != 0, GID: v&8 != 0, RDev: v&0x10 != 0, ATime: v&0x20 != 0, MTime: v&0x40 != 0, CTime: v&0x80 != 0, INo: v&0x100 != 0, Size: v&0x200 != 0, Blocks: v&0x400 != 0, BTime: v&0x800 != 0, Gen: v&0x1000 != 0, DataVersion: v&0x2000 != 0}
}

func maskToInt(a p9.AttrMask) uint64 {
	var v uint64
	for i, s := range []bool{a.Mode, a.NLink, a.UID, a.GID, a.RDev, a.ATime, a.MTime, a.CTime, a.INo, a.Size, a.Blocks, a.BTime, a.Gen, a.DataVersion} {
		if s {
			v |= 1 << uint(i)
		}
	}
	return v
}

func (b *backend) attrFor(h int) (p9.AttrMask, uint64, p9.Attr, []uint64) {
	valid := uint64(0x3fff)
	if !b.dirRoot && b.r.chance(1, 25) {
		valid = b.r.bits(14)
	}
	a := p9.Attr{Mode: p9.FileMode(b.kind[h]), UID: p9.UID(b.r.bits(32)), GID: p9.GID(b.r.bits(32)), NLink: p9.NLink(b.r.bits(8)), RDev: p9.Dev(b.r.bits(16)),
		Size: b.r.bits(40), BlockSize: 4096, Blocks: b.r.bits(20), ATimeSeconds: b.r.bits(32), ATimeNanoSeconds: b.r.bits(30), MTimeSeconds: b.r.bits(32),
		MTimeNanoSeconds: b.r.bits(30), CTimeSeconds: b.r.bits(32), CTimeNanoSeconds: b.r.bits(30), BTimeSeconds: 0, BTimeNanoSeconds: 0, Gen: b.r.bits(8), DataVersion: b.r.bits(8)}
	if b.attrByH {
		a.Size, a.Blocks, a.ATimeSeconds, a.MTimeSeconds = attrWord(h, 1), attrWord(h, 2), attrWord(h, 3), attrWord(h, 4)
	}
	ints := []uint64{uint64(a.Mode), uint64(a.UID), uint64(a.GID), uint64(a.NLink), uint64(a.RDev), a.Size, a.BlockSize, a.Blocks, a.ATimeSeconds, a.ATimeNanoSeconds,
		a.MTimeSeconds, a.MTimeNanoSeconds, a.CTimeSeconds, a.CTimeNanoSeconds, a.BTimeSeconds, a.BTimeNanoSeconds, a.Gen, a.DataVersion}
	return maskFromInt(valid), valid, a, ints
}

// attrWord: the k-th check word of handle h.
func attrWord(h int, k int) uint64 { return uint64(h)*1000003*uint64(k) + uint64(k)*7919 + 11 }

// ---- File methods --------------------------------------------------------------------------

func namesBytes(names []string) [][]byte {
	var out [][]byte
	for _, n := range names {
		out = append(out, []byte(n))
	}
	return out
}

func (f *sfile) walkCommon(meth string, names []string, withAttr bool) ([]p9.QID, p9.File, p9.AttrMask, p9.Attr, error) {
	b := f.b
	var forced []linux.Errno
	if b.fs != nil {
		b.mu.Lock()
		cur := append([]string{}, f.path...)
		var qs []p9.QID
		var last *mnode
		for _, nm := range names {
			cur = append(cur, nm)
			last = b.fs.resolve(cur)
			if last == nil {
				break
			}
			qs = append(qs, last.qid())
		}
		switch {
		case len(names) > 0 && last == nil:
			forced = []linux.Errno{linux.ENOENT}
		case len(names) > 0:
			b.presetQIDs = qs
			b.forceKind = last.mode
		}
		b.mu.Unlock()
	}
	then := namesBytes(names)
	o := b.record(f.id, meth, nil, then, forced...)
	b.intact(f.id, meth, namesBytes(names), then)
	if o.err != nil {
		return nil, nil, p9.AttrMask{}, p9.Attr{}, o.err
	}
	b.mu.Lock()
	if meth == "WalkGetAttr" && !b.noENOSYS && b.r.chance(1, 2) {
		// like DefaultWalkGetAttr: not implemented, the server falls back to Walk + GetAttr
		b.tape = append(b.tape, fmt.Sprintf("err:%d", uint32(linux.ENOSYS)))
		b.presetQIDs = nil
		if b.fs != nil {
			b.forceKind = 0
		}
		b.mu.Unlock()
		return nil, nil, p9.AttrMask{}, p9.Attr{}, linux.ENOSYS
	}
	nq := len(names)
	if !b.dirRoot && len(names) == 1 && b.r.chance(1, 40) {
		nq = b.r.intn(3) // wrong number of QIDs now and then
	}
	var qids []p9.QID
	var ints []uint64
	for i := 0; i < nq; i++ {
		q := b.randQID()
		qids = append(qids, q)
		ints = append(ints, qidInts(q)...)
	}
	mode := p9.FileMode(b.kind[f.id])
	if len(names) > 0 {
		mode = b.randKind()
		if b.forceKind != 0 {
			mode = b.forceKind
			if b.fs != nil {
				b.forceKind = 0
			}
		}
	}
	nf := b.newFileLocked(mode, append(append([]string{}, f.path...), names...)...)
	var (
		valid p9.AttrMask
		attr  p9.Attr
	)
	if withAttr {
		var vi uint64
		var ai []uint64
		valid, vi, attr, ai = b.attrFor(nf.id)
		ints = append(append(ints, vi), ai...)
	}
	b.mu.Unlock()
	b.okTape(ints, nil, nil)
	if b.gate != nil {
		b.gate(f.id, meth+":return") // the very last thing the call does
	}
	return qids, nf, valid, attr, nil
}

func (f *sfile) Walk(names []string) ([]p9.QID, p9.File, error) {
	q, nf, _, _, err := f.walkCommon("Walk", names, false)
	if err != nil {
		return nil, nil, err
	}
	return q, nf, nil
}

func (f *sfile) WalkGetAttr(names []string) ([]p9.QID, p9.File, p9.AttrMask, p9.Attr, error) {
	q, nf, v, a, err := f.walkCommon("WalkGetAttr", names, true)
	if err != nil {
		return nil, nil, p9.AttrMask{}, p9.Attr{}, err
	}
	return q, nf, v, a, nil
}

func (f *sfile) GetAttr(req p9.AttrMask) (p9.QID, p9.AttrMask, p9.Attr, error) {
	b := f.b
	var forced []linux.Errno
	if b.fs != nil {
		b.mu.Lock()
		n := f.obj
		if n == nil {
			n = b.fs.resolve(f.path)
		}
		if n == nil {
			forced = []linux.Errno{linux.ENOENT}
		} else {
			b.presetQIDs = []p9.QID{n.qid()}
		}
		b.mu.Unlock()
	}
	o := b.record(f.id, "GetAttr", []uint64{maskToInt(req)}, nil, forced...)
	if o.err != nil {
		return p9.QID{}, p9.AttrMask{}, p9.Attr{}, o.err
	}
	b.mu.Lock()
	q := b.randQID()
	valid, vi, attr, ai := b.attrFor(f.id)
	b.mu.Unlock()
	b.okTape(append(append(qidInts(q), vi), ai...), nil, nil)
	return q, valid, attr, nil
}

func (f *sfile) StatFS() (p9.FSStat, error) {
	b := f.b
	o := b.record(f.id, "StatFS", nil, nil)
	if o.err != nil {
		return p9.FSStat{}, o.err
	}
	b.mu.Lock()
	s := p9.FSStat{Type: uint32(b.r.bits(32)), BlockSize: 4096, Blocks: b.r.bits(40), BlocksFree: b.r.bits(40), BlocksAvailable: b.r.bits(40), Files: b.r.bits(30), FilesFree: b.r.bits(30), FSID: b.r.bits(64), NameLength: 255}
	b.mu.Unlock()
	b.okTape([]uint64{uint64(s.Type), uint64(s.BlockSize), s.Blocks, s.BlocksFree, s.BlocksAvailable, s.Files, s.FilesFree, s.FSID, uint64(s.NameLength)}, nil, nil)
	return s, nil
}

func setAttrInts(valid p9.SetAttrMask, a p9.SetAttr) []uint64 {
	var v uint64
	for i, s := range []bool{valid.Permissions, valid.UID, valid.GID, valid.Size, valid.ATime, valid.MTime, valid.CTime, valid.ATimeNotSystemTime, valid.MTimeNotSystemTime} {
		if s {
			v |= 1 << uint(i)
		}
	}
	return []uint64{v, uint64(a.Permissions), uint64(a.UID), uint64(a.GID), a.Size, a.ATimeSeconds, a.ATimeNanoSeconds, a.MTimeSeconds, a.MTimeNanoSeconds}
}

func (f *sfile) simple(meth string, ints []uint64, strs [][]byte, forced ...linux.Errno) error {
	o := f.b.record(f.id, meth, ints, strs, forced...)
	if o.err != nil {
		return o.err
	}
	f.b.okTape(nil, nil, nil)
	return nil
}

func (f *sfile) SetAttr(valid p9.SetAttrMask, attr p9.SetAttr) error {
	return f.simple("SetAttr", setAttrInts(valid, attr), nil)
}

func (f *sfile) Close() error {
	b := f.b
	b.mu.Lock()
	b.closed[f.id]++
	k := b.closed[f.id]
	b.multis = append(b.multis, fmt.Sprintf("close=%d#%d", f.id, k))
	fail := b.closeFaults && f.id%11 == 7
	gate := b.gate
	b.mu.Unlock()
	if gate != nil {
		gate(f.id, "Close")
	}
	if fail {
		return linux.EIO
	}
	return nil
}

func (f *sfile) Renamed(newDir p9.File, newName string) {
	b := f.b
	b.mu.Lock()
	if b.closed[f.id] > 0 {
		b.uac = append(b.uac, fmt.Sprintf("Renamed(h%d)", f.id))
	}
	b.multis = append(b.multis, fmt.Sprintf("renamed=%d:%d:%s", f.id, newDir.(*sfile).id, hx([]byte(newName))))
	f.path = append(append([]string{}, newDir.(*sfile).path...), newName)
	gate := b.gate
	boom := b.panicRenH != 0 && b.panicRenH == f.id
	if boom {
		b.panicRenH = 0
		b.panics++
	}
	b.mu.Unlock()
	if boom {
		panic(fmt.Sprintf("injected panic in Renamed(h%d)", f.id))
	}
	if gate != nil {
		gate(f.id, "Renamed")
	}
}

func (f *sfile) Open(mode p9.OpenFlags) (p9.QID, uint32, error) {
	b := f.b
	var forced []linux.Errno
	if b.fs != nil {
		b.mu.Lock()
		if n := b.fs.resolve(f.path); n == nil {
			forced = []linux.Errno{linux.ENOENT}
		} else {
			f.obj = n
			b.presetQIDs = []p9.QID{n.qid()}
		}
		b.mu.Unlock()
	}
	o := b.record(f.id, "Open", []uint64{uint64(mode)}, nil, forced...)
	if o.err != nil {
		return p9.QID{}, 0, o.err
	}
	b.mu.Lock()
	q := b.randQID()
	io := uint32(b.r.bits(32))
	b.mu.Unlock()
	b.okTape(append(qidInts(q), uint64(io)), nil, nil)
	return q, io, nil
}

func (f *sfile) ReadAt(p []byte, offset int64) (int, error) {
	b := f.b
	o := b.record(f.id, "ReadAt", []uint64{uint64(len(p)), uint64(offset)}, nil)
	if o.err != nil {
		// like os.File: a failing read may have delivered some bytes first; the request still fails
		return b.partial(p, true), o.err
	}
	b.mu.Lock()
	n := len(p)
	if !b.fullReads {
		switch b.r.intn(4) {
		case 0:
			n = b.r.intn(len(p) + 1)
		case 1:
			n = 0
		}
	}
	if b.fillByOff && b.fullReads && b.fs == nil {
		// the fast path of the content checks under concurrency: the caller's buffer is filled at once,
		// as a real file system does, with nothing slow in between
		b.mu.Unlock()
		for i := range p {
			p[i] = byte(offset)
		}
		b.okTape(nil, [][]byte{nil}, nil)
		return len(p), nil
	}
	data := b.r.bytesN(n)
	eof := b.r.chance(1, 6)
	if b.fillByOff {
		for i := range data {
			data[i] = byte(offset)
		}
		eof = false
	}
	if b.fs != nil && f.obj != nil && !f.obj.isDir() {
		data = f.obj.content()
		if offset < int64(len(data)) {
			data = data[offset:]
		} else {
			data = nil
		}
		if len(data) > len(p) {
			data = data[:len(p)]
		}
		n, eof = len(data), false
	}
	b.mu.Unlock()
	copy(p, data)
	b.okTape(nil, [][]byte{data}, nil)
	if eof {
		return n, io.EOF
	}
	return n, nil
}

func (f *sfile) WriteAt(p []byte, offset int64) (int, error) {
	b := f.b
	then := append([]byte(nil), p...)
	o := b.record(f.id, "WriteAt", []uint64{uint64(offset)}, [][]byte{p})
	b.intact(f.id, "WriteAt", [][]byte{p}, [][]byte{then})
	if o.err != nil {
		// like os.File: a failing write (ENOSPC) may have stored some bytes first; the request still fails
		return b.partial(p, false), o.err
	}
	b.mu.Lock()
	n := len(p)
	if b.r.chance(1, 4) {
		n = b.r.intn(len(p) + 1)
	}
	b.mu.Unlock()
	b.okTape([]uint64{uint64(n)}, nil, nil)
	return n, nil
}

func (f *sfile) SetXattr(attr string, data []byte, flags p9.XattrFlags) error {
	return f.simple("SetXattr", []uint64{uint64(flags)}, [][]byte{[]byte(attr), data})
}

func (f *sfile) GetXattr(attr string) ([]byte, error) {
	b := f.b
	o := b.record(f.id, "GetXattr", nil, [][]byte{[]byte(attr)})
	if o.err != nil {
		return nil, o.err
	}
	b.mu.Lock()
	data := b.r.bytesN(b.r.intn(40))
	if b.bigXattr > 0 {
		data = b.r.bytesN(b.bigXattr)
	} else if b.bigXattr < 0 {
		data = nil
	}
	b.mu.Unlock()
	b.okTape(nil, [][]byte{data}, nil)
	return data, nil
}

func (f *sfile) ListXattrs() ([]string, error) {
	b := f.b
	o := b.record(f.id, "ListXattrs", nil, nil)
	if o.err != nil {
		return nil, o.err
	}
	b.mu.Lock()
	var names []string
	var bs [][]byte
	for i := b.r.intn(4); i > 0; i-- {
		n := fmt.Sprintf("user.x%d", b.r.intn(100))
		names = append(names, n)
		bs = append(bs, []byte(n))
	}
	b.mu.Unlock()
	b.okTape(nil, bs, nil)
	return names, nil
}

func (f *sfile) RemoveXattr(attr string) error {
	return f.simple("RemoveXattr", nil, [][]byte{[]byte(attr)})
}

func (f *sfile) FSync() error { return f.simple("FSync", nil, nil) }

func (f *sfile) Lock(pid int, locktype p9.LockType, flags p9.LockFlags, start, length uint64, client string) (p9.LockStatus, error) {
	b := f.b
	o := b.record(f.id, "Lock", []uint64{uint64(uint32(int32(pid))), uint64(locktype), uint64(flags), start, length}, [][]byte{[]byte(client)})
	if o.err != nil {
		return p9.LockStatusError, o.err
	}
	b.mu.Lock()
	st := p9.LockStatus(b.r.bits(8))
	b.mu.Unlock()
	b.okTape([]uint64{uint64(st)}, nil, nil)
	return st, nil
}

func (f *sfile) Create(name string, flags p9.OpenFlags, permissions p9.FileMode, uid p9.UID, gid p9.GID) (p9.File, p9.QID, uint32, error) {
	b := f.b
	var forced []linux.Errno
	var obj *mnode
	if b.fs != nil {
		b.mu.Lock()
		n, e := b.fs.create(f.path, name, p9.ModeRegular|0644)
		if e != 0 {
			forced = []linux.Errno{e}
		} else {
			obj = n
			b.presetQIDs = []p9.QID{n.qid()}
		}
		b.mu.Unlock()
	}
	o := b.record(f.id, "Create", []uint64{uint64(flags), uint64(permissions), uint64(uid), uint64(gid)}, [][]byte{[]byte(name)}, forced...)
	if o.err != nil {
		return nil, p9.QID{}, 0, o.err
	}
	b.mu.Lock()
	nf := b.newFileLocked(p9.ModeRegular|0644, append(append([]string{}, f.path...), name)...)
	nf.obj = obj
	q := b.randQID()
	io := uint32(b.r.bits(32))
	b.mu.Unlock()
	b.okTape(append(qidInts(q), uint64(io)), nil, nil)
	return nf, q, io, nil
}

func (f *sfile) qidOp(meth string, ints []uint64, strs [][]byte, name string, mode p9.FileMode) (p9.QID, error) {
	b := f.b
	var forced []linux.Errno
	if b.fs != nil {
		b.mu.Lock()
		n, e := b.fs.create(f.path, name, mode)
		if e != 0 {
			forced = []linux.Errno{e}
		} else {
			b.presetQIDs = []p9.QID{n.qid()}
		}
		b.mu.Unlock()
	}
	o := b.record(f.id, meth, ints, strs, forced...)
	if len(strs) > 0 {
		b.intact(f.id, meth, [][]byte{[]byte(name)}, strs[len(strs)-1:])
	}
	if o.err != nil {
		return p9.QID{}, o.err
	}
	b.mu.Lock()
	q := b.randQID()
	b.mu.Unlock()
	b.okTape(qidInts(q), nil, nil)
	return q, nil
}

func (f *sfile) Mkdir(name string, permissions p9.FileMode, uid p9.UID, gid p9.GID) (p9.QID, error) {
	return f.qidOp("Mkdir", []uint64{uint64(permissions), uint64(uid), uint64(gid)}, [][]byte{[]byte(name)}, name, p9.ModeDirectory|0755)
}

func (f *sfile) Symlink(oldName string, newName string, uid p9.UID, gid p9.GID) (p9.QID, error) {
	return f.qidOp("Symlink", []uint64{uint64(uid), uint64(gid)}, [][]byte{[]byte(oldName), []byte(newName)}, newName, p9.ModeSymlink|0777)
}

func (f *sfile) Link(target p9.File, newName string) error {
	var forced []linux.Errno
	if f.b.fs != nil {
		forced = []linux.Errno{linux.EPERM} // no hard links in the K5 file system
	}
	return f.simple("Link", []uint64{uint64(target.(*sfile).id)}, [][]byte{[]byte(newName)}, forced...)
}

func (f *sfile) Mknod(name string, mode p9.FileMode, major uint32, minor uint32, uid p9.UID, gid p9.GID) (p9.QID, error) {
	return f.qidOp("Mknod", []uint64{uint64(mode), uint64(major), uint64(minor), uint64(uid), uint64(gid)}, [][]byte{[]byte(name)}, name, p9.ModeRegular|0644)
}

func (f *sfile) Rename(newDir p9.File, newName string) error {
	return f.simple("Rename", []uint64{uint64(newDir.(*sfile).id)}, [][]byte{[]byte(newName)})
}

func (f *sfile) RenameAt(oldName string, newDir p9.File, newName string) error {
	// What POSIX refuses, this backend refuses too (the server relies on it: DESIGN.md, M4).
	src := append(append([]string{}, f.path...), oldName)
	dst := append(append([]string{}, newDir.(*sfile).path...), newName)
	var forced []linux.Errno
	if f.b.fs != nil {
		f.b.mu.Lock()
		e := f.b.fs.rename(f.path, oldName, newDir.(*sfile).path, newName)
		f.b.mu.Unlock()
		if e != 0 {
			forced = []linux.Errno{e}
		}
		then := [][]byte{[]byte(oldName), []byte(newName)}
		err := f.simple("RenameAt", []uint64{uint64(newDir.(*sfile).id)}, then, forced...)
		f.b.intact(f.id, "RenameAt", [][]byte{[]byte(oldName), []byte(newName)}, then)
		return err
	}
	switch {
	case hasPrefix(newDir.(*sfile).path, src): // into its own subtree
		forced = []linux.Errno{linux.EINVAL}
	case len(dst) < len(src) && hasPrefix(src, dst): // onto an ancestor: a non-empty directory
		forced = []linux.Errno{linux.ENOTEMPTY}
	}
	then := [][]byte{[]byte(oldName), []byte(newName)}
	err := f.simple("RenameAt", []uint64{uint64(newDir.(*sfile).id)}, then, forced...)
	f.b.intact(f.id, "RenameAt", [][]byte{[]byte(oldName), []byte(newName)}, then)
	return err
}

func (f *sfile) UnlinkAt(name string, flags uint32) error {
	var forced []linux.Errno
	if f.b.fs != nil {
		f.b.mu.Lock()
		e := f.b.fs.unlink(f.path, name)
		f.b.mu.Unlock()
		if e != 0 {
			forced = []linux.Errno{e}
		}
	}
	then := [][]byte{[]byte(name)}
	err := f.simple("UnlinkAt", []uint64{uint64(flags)}, then, forced...)
	f.b.intact(f.id, "UnlinkAt", [][]byte{[]byte(name)}, then)
	return err
}

func (f *sfile) Readdir(offset uint64, count uint32) (p9.Dirents, error) {
	b := f.b
	o := b.record(f.id, "Readdir", []uint64{offset, uint64(count)}, nil)
	if o.err != nil {
		return nil, o.err
	}
	b.mu.Lock()
	var ents p9.Dirents
	var rows [][]string
	nd := b.r.intn(7)
	if b.manyDirents > 0 {
		nd = b.manyDirents/2 + b.r.intn(b.manyDirents)
	}
	for i := nd; i > 0; i-- {
		d := p9.Dirent{QID: b.randQID(), Offset: b.r.bits(64), Type: p9.QIDType(b.r.bits(8)), Name: string(b.r.bytesN(1 + b.r.intn(30)))}
		if b.direntsByH {
			d.Name = fmt.Sprintf("h%d-%04d-padpadpadpad", f.id, i)
		}
		ents = append(ents, d)
		rows = append(rows, []string{fmt.Sprint(uint8(d.QID.Type)), fmt.Sprint(d.QID.Version), fmt.Sprint(d.QID.Path), fmt.Sprint(d.Offset), fmt.Sprint(uint8(d.Type)), hx([]byte(d.Name))})
	}
	eof := b.r.chance(1, 5)
	b.mu.Unlock()
	b.okTape(nil, nil, rows)
	if eof {
		return ents, io.EOF
	}
	return ents, nil
}

func (f *sfile) Readlink() (string, error) {
	b := f.b
	o := b.record(f.id, "Readlink", nil, nil)
	if o.err != nil {
		return "", o.err
	}
	b.mu.Lock()
	t := b.r.bytesN(b.r.intn(30))
	b.mu.Unlock()
	b.okTape(nil, [][]byte{t}, nil)
	return string(t), nil
}

// takeLog returns and clears the per-request logs as tokens.
func (b *backend) takeLog() (tape []string, calls []string) {
	b.mu.Lock()
	defer b.mu.Unlock()
	for i, t := range b.tape {
		tape = append(tape, fmt.Sprintf("t%d=%s", i, t))
	}
	for i, c := range b.calls {
		calls = append(calls, fmt.Sprintf("c%d=%s", i, c))
	}
	sort.Strings(b.multis)
	calls = append(calls, b.multis...)
	b.tape, b.calls, b.multis = nil, nil, nil
	return
}

// lifecycle summarises handles never closed, closed more than once, and used after close.
func (b *backend) lifecycle() string {
	b.mu.Lock()
	defer b.mu.Unlock()
	var leaks, dbl []string
	for id := 1; id < b.nextID; id++ {
		switch {
		case b.closed[id] == 0:
			leaks = append(leaks, fmt.Sprint(id))
		case b.closed[id] > 1:
			dbl = append(dbl, fmt.Sprint(id))
		}
	}
	return fmt.Sprintf("leaks=%s dbl=%s uac=%s", strings.Join(leaks, ","), strings.Join(dbl, ","), strings.Join(b.uac, ","))
}
