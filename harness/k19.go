package main

import (
	"fmt"
	"os"
	"path/filepath"
	"sort"
	"strings"

	"github.com/hugelgupf/p9/fsimpl/composefs"
	"github.com/hugelgupf/p9/fsimpl/localfs"
	"github.com/hugelgupf/p9/fsimpl/staticfs"
	"github.com/hugelgupf/p9/p9"
)

func randFileName(r *rng, used map[string]bool) string {
	for {
		n := 1 + r.intn(12)
		switch r.intn(10) {
		case 0:
			n = 255
		case 1:
			n = 100 + r.intn(100)
		}
		b := make([]byte, n)
		for i := range b {
			b[i] = "abcdefghijklmnopqrstuvwxyz0123456789-_.,"[r.intn(40)]
		}
		s := string(b)
		if s == "." || s == ".." || used[s] {
			continue
		}
		used[s] = true
		return s
	}
}

// listPaged lists dir by repeated Readdir(offset-of-last-entry, count) and checks each entry's
// QID against Walk + GetAttr. dir must be open for reading.
func listPaged(dir p9.File, walkFrom p9.File, count uint32, maxPages int) (names []string, pages int, qidBad []string, err error) {
	var off uint64
	for pages = 0; pages < maxPages; {
		ents, e := dir.Readdir(off, count)
		pages++
		if e != nil {
			return names, pages, qidBad, e
		}
		if len(ents) == 0 {
			return names, pages, qidBad, nil
		}
		for _, d := range ents {
			names = append(names, d.Name)
			if d.Type != d.QID.Type {
				qidBad = append(qidBad, "type!=qid.type:"+d.Name)
			}
			qs, f, werr := walkFrom.Walk([]string{d.Name})
			if werr != nil || len(qs) != 1 {
				qidBad = append(qidBad, "walk:"+d.Name)
				continue
			}
			gq, _, _, gerr := f.GetAttr(p9.AttrMask{Mode: true})
			f.Close()
			if qs[0] != d.QID {
				qidBad = append(qidBad, fmt.Sprintf("walk-qid:%s:%v!=%v", d.Name, qs[0], d.QID))
			}
			if gerr != nil || gq != d.QID {
				qidBad = append(qidBad, fmt.Sprintf("getattr-qid:%s:%v!=%v", d.Name, gq, d.QID))
			}
		}
		off = ents[len(ents)-1].Offset
	}
	return names, pages, qidBad, fmt.Errorf("too many pages")
}

func judgeListing(got, want []string) (missing, dup int) {
	seen := map[string]int{}
	for _, n := range got {
		seen[n]++
	}
	for _, n := range want {
		if seen[n] == 0 {
			missing++
		}
	}
	for _, c := range seen {
		if c > 1 {
			dup += c - 1
		}
	}
	return
}

// runK19: directory listings of localfs (real temp dirs), staticfs and composefs, directly and
// through client + server.
func runK19(r *rng, n int) {
	tmp, err := os.MkdirTemp("", "verif-k19-")
	if err != nil {
		panic(err)
	}
	defer os.RemoveAll(tmp)
	sizes := []int{0, 1, 2, 3, 7, 8, 20, 50, 120}
	if n > 400 {
		sizes = append(sizes, 400, 1500)
	}
	for i := 0; i < n; i++ {
		fsKind := []string{"local", "local", "static", "compose"}[r.intn(4)]
		nent := sizes[r.intn(len(sizes))]
		if fsKind != "local" && nent > 120 {
			nent = 120
		}
		used := map[string]bool{}
		var want []string
		for j := 0; j < nent; j++ {
			want = append(want, randFileName(r, used))
		}
		var att p9.Attacher
		var order []string // listing order of the file system
		switch fsKind {
		case "local":
			d := filepath.Join(tmp, fmt.Sprintf("d%d", i))
			os.Mkdir(d, 0755)
			for j, nm := range want {
				p := filepath.Join(d, nm)
				switch j % 5 {
				case 0:
					os.Mkdir(p, 0755)
				case 1:
					os.Symlink("target", p)
				default:
					os.WriteFile(p, []byte("x"), 0644)
				}
			}
			att = localfs.Attacher(d)
			f, _ := os.Open(d)
			order, _ = f.Readdirnames(-1)
			f.Close()
		case "static":
			var opts []staticfs.Option
			for _, nm := range want {
				opts = append(opts, staticfs.WithFile(nm, "content of "+nm))
			}
			att, err = staticfs.New(opts...)
			if err != nil {
				panic(err)
			}
			order = append([]string{}, want...)
			sort.Strings(order)
		case "compose":
			var opts []composefs.Opt
			for j, nm := range want {
				switch j % 3 {
				case 0:
					opts = append(opts, composefs.WithFile(nm, staticfs.ReadOnlyFile("c")))
				case 1:
					sub, _ := staticfs.New(staticfs.WithFile("inner", "i"))
					opts = append(opts, composefs.WithMount(nm, sub))
				default:
					opts = append(opts, composefs.WithDir(nm, composefs.WithFile("deep", staticfs.ReadOnlyFile("d"))))
				}
			}
			att, err = composefs.New(opts...)
			if err != nil {
				panic(err)
			}
			order = append([]string{}, want...)
			sort.Strings(order)
		}
		maxEntry := 24
		var lens []string
		for _, nm := range order {
			if 24+len(nm) > maxEntry {
				maxEntry = 24 + len(nm)
			}
			lens = append(lens, fmt.Sprint(len(nm)))
		}
		via := []string{"direct", "server"}[r.intn(2)]
		msize := []uint32{4096, 8192, 65536}[r.intn(3)]
		var cnt uint32
		if via == "direct" {
			cnt = []uint32{1, 2, 3, 7, 50, 1000}[r.intn(6)]
		} else {
			cnt = []uint32{uint32(maxEntry), uint32(maxEntry + 1), uint32(2 * maxEntry), 600, 4000, msize - 11, msize, msize + 100, 1 << 20}[r.intn(9)]
			if cnt < uint32(maxEntry) {
				cnt = uint32(maxEntry)
			}
		}
		var got, got2 []string
		var pages int
		var qidBad []string
		var lerr error
		if via == "direct" {
			root, aerr := att.Attach()
			if aerr != nil {
				panic(aerr)
			}
			_, dir, _ := root.Walk(nil)
			if _, _, oerr := dir.Open(p9.ReadOnly); oerr != nil {
				lerr = oerr
			} else {
				got, pages, qidBad, lerr = listPaged(dir, root, cnt, nent+5)
				// a second pass from the start through the same open fid (rewinddir)
				got2, _, _, _ = listPaged(dir, root, cnt, nent+5)
			}
			dir.Close()
			root.Close()
		} else {
			a, b := connPair()
			srv := p9.NewServer(att)
			done := make(chan struct{})
			go func() { srv.Handle(b, b); close(done) }()
			c, cerr := p9.NewClient(a, p9.WithMessageSize(msize))
			if cerr != nil {
				panic(cerr)
			}
			root, aerr := c.Attach("")
			if aerr != nil {
				panic(aerr)
			}
			_, dir, _ := root.Walk(nil)
			if _, _, oerr := dir.Open(p9.ReadOnly); oerr != nil {
				lerr = oerr
			} else {
				got, pages, qidBad, lerr = listPaged(dir, root, cnt, nent+5)
				got2, _, _, _ = listPaged(dir, root, cnt, nent+5)
			}
			dir.Close()
			root.Close()
			c.Close()
			<-done
		}
		missing, dup := judgeListing(got, want)
		complete := 0
		if missing == 0 && dup == 0 && len(got) == len(want) {
			complete = 1
		}
		qidok := 1
		if len(qidBad) > 0 {
			qidok = 0
		}
		again := 0
		if m2, d2 := judgeListing(got2, want); lerr == nil && m2 == 0 && d2 == 0 && len(got2) == len(want) {
			again = 1
		} else if lerr != nil {
			again = complete // not judged when the first pass failed
		}
		extra := ""
		if lerr != nil {
			extra = fmt.Sprintf(" err=%q", lerr.Error())
		}
		if len(qidBad) > 0 {
			extra += " qidbad=" + strings.ReplaceAll(qidBad[0], " ", "_")
		}
		count("fs:" + fsKind + ":" + via)
		emit("k19 fs=%s via=%s n=%d count=%d msize=%d namelens=%s => complete=%d missing=%d dup=%d qidok=%d pages=%d again=%d%s",
			fsKind, via, nent, cnt, msize, strings.Join(lens, ","), complete, missing, dup, qidok, pages, again, extra)
	}
}
