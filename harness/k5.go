package main

import (
	"fmt"
	"strings"
	"time"

	"github.com/hugelgupf/p9/p9"
)

// K5: histories of create/mkdir/walk/clone/rename/renameat/unlinkat/remove/clunk/open/read/getattr
// over a path-based backend with object identities (memfs), two connections, many fids on the
// same and on nested paths. Per request two lines: the K4 line (session model vs. server) and a
// k5obs line: what the client observed, judged by the path-coherence monitor (Lean, Spec side).

var k5Names = []string{"a", "b", "c"}

func k5tok(rhs []string, key string) string {
	for _, t := range rhs {
		if strings.HasPrefix(t, key+"=") {
			return strings.TrimPrefix(t, key+"=")
		}
	}
	return ""
}

// qidPaths extracts the QID.Path column of an "r:QIDs=[t,v,p;...]" token.
func qidPaths(tok string) string {
	tok = strings.TrimSuffix(strings.TrimPrefix(tok, "["), "]")
	if tok == "" {
		return ""
	}
	var ps []string
	for _, row := range strings.Split(tok, ";") {
		cols := strings.Split(row, ",")
		ps = append(ps, cols[len(cols)-1])
	}
	return strings.Join(ps, ",")
}

func runK5(r *rng, n int) {
	defer func() {
		if n >= 500 {
			emit("k5stats => nonvacuous=1")
		}
	}()
	for done := 0; done < n; {
		be := newBackend(&rng{s: r.next()}, 0, 0, false)
		be.dirRoot = true
		be.fs = newMemfs()
		srv := p9.NewServer(be)
		conns := []*k4Conn{
			{peer: newServerPeer(srv), id: 0, bound: map[uint64]bool{}, faultFid: -1},
			{peer: newServerPeer(srv), id: 1, bound: map[uint64]bool{}, faultFid: -1},
		}
		emit("k4new cf=0 => ok")
		emit("k5new => ok")
		steps := 60 + r.intn(160)
		deep := r.chance(1, 2)
		// a scripted prelude in a quarter of the histories: a chain of directories four levels deep
		// with a fid on every level and an open file at the bottom, then the top is renamed
		var prelude []struct {
			t uint8
			v map[string]interface{}
		}
		if r.chance(1, 4) {
			add := func(t uint8, v map[string]interface{}) {
				prelude = append(prelude, struct {
					t uint8
					v map[string]interface{}
				}{t, v})
			}
			add(72, map[string]interface{}{"Directory": uint64(0), "Name": "a", "Permissions": uint64(0755)})
			add(110, map[string]interface{}{"fid": uint64(0), "newFID": uint64(1), "Names": []string{"a"}})
			add(72, map[string]interface{}{"Directory": uint64(1), "Name": "b", "Permissions": uint64(0755)})
			add(110, map[string]interface{}{"fid": uint64(1), "newFID": uint64(2), "Names": []string{"b"}})
			add(72, map[string]interface{}{"Directory": uint64(2), "Name": "c", "Permissions": uint64(0755)})
			add(110, map[string]interface{}{"fid": uint64(2), "newFID": uint64(3), "Names": []string{"c"}})
			add(110, map[string]interface{}{"fid": uint64(3), "newFID": uint64(4), "Names": []string{}})
			add(14, map[string]interface{}{"fid": uint64(4), "Name": "a", "OpenFlags": uint64(2), "Permissions": uint64(0644)})
			add(110, map[string]interface{}{"fid": uint64(3), "newFID": uint64(5), "Names": []string{"a"}})
			add(74, map[string]interface{}{"OldDirectory": uint64(0), "OldName": "a", "NewDirectory": uint64(0), "NewName": []string{"b", "c"}[r.intn(2)]})
			for _, f := range []uint64{5, 3, 2, 1, 4} {
				add(24, map[string]interface{}{"fid": f})
			}
			add(110, map[string]interface{}{"fid": uint64(2), "newFID": uint64(6), "Names": []string{"c", "a"}})
			add(116, map[string]interface{}{"fid": uint64(4), "Offset": uint64(0), "Count": uint64(64)})
			add(26, map[string]interface{}{"fid": uint64(5)})
		} else if r.chance(1, 3) {
			// a file open for writing is unlinked and its name taken by a new file; then the old fid is
			// truncated / touched / chmod-ed: fenced, whatever the mask (the path names another object now)
			add := func(t uint8, v map[string]interface{}) {
				prelude = append(prelude, struct {
					t uint8
					v map[string]interface{}
				}{t, v})
			}
			fl := uint64(1 + r.intn(2))
			add(110, map[string]interface{}{"fid": uint64(0), "newFID": uint64(1), "Names": []string{}})
			add(14, map[string]interface{}{"fid": uint64(1), "Name": "a", "OpenFlags": fl, "Permissions": uint64(0644)})
			add(76, map[string]interface{}{"Directory": uint64(0), "Name": "a", "Flags": uint64(0)})
			add(110, map[string]interface{}{"fid": uint64(0), "newFID": uint64(2), "Names": []string{}})
			add(14, map[string]interface{}{"fid": uint64(2), "Name": "a", "OpenFlags": uint64(2), "Permissions": uint64(0644)})
			for k := 0; k < 3; k++ {
				add(26, setattrVals(r, 1))
			}
			add(26, map[string]interface{}{"fid": uint64(1), "Valid.Size": true})
			add(24, map[string]interface{}{"fid": uint64(2)})
			add(24, map[string]interface{}{"fid": uint64(1)})
		}
		paths := []map[uint64][]string{{}, {}} // per connection: a guess of each fid's path (stale after renames)
		for i := 0; i < steps && done < n; i++ {
			c := conns[r.intn(2)]
			var t uint8
			var v map[string]interface{}
			fid := func() uint64 {
				if len(c.bound) > 0 && r.chance(24, 25) {
					var ks []uint64
					for k := uint64(0); k < 8; k++ {
						if c.bound[k] {
							ks = append(ks, k)
						}
					}
					if len(ks) > 0 {
						return ks[r.intn(len(ks))]
					}
				}
				return uint64(r.intn(8))
			}
			name := func() string { return k5Names[r.intn(len(k5Names))] }
			// existing: mostly a name that exists below the (guessed) path of the fid
			existing := func(f uint64) string {
				if p, ok := paths[c.id][f]; ok && r.chance(4, 5) {
					be.mu.Lock()
					nd := be.fs.resolve(p)
					var ks []string
					if nd != nil {
						for _, k := range k5Names {
							if _, ok := nd.children[k]; ok {
								ks = append(ks, k)
							}
						}
					}
					be.mu.Unlock()
					if len(ks) > 0 {
						return ks[r.intn(len(ks))]
					}
				}
				return name()
			}
			switch {
			case i < 2:
				c = conns[i]
				t, v = 100, map[string]interface{}{"MSize": uint64(8192), "Version": "9P2000.L.Google.7"}
			case i < 4:
				c = conns[i-2]
				t, v = 104, map[string]interface{}{"fid": uint64(0), "Auth.Authenticationfid": uint64(0xffffffff)}
			case i-4 < len(prelude):
				c = conns[0]
				t, v = prelude[i-4].t, prelude[i-4].v
			case len(c.bound) == 0:
				t, v = 104, map[string]interface{}{"fid": uint64(r.intn(3)), "Auth.Authenticationfid": uint64(0xffffffff)}
			default:
				k := r.intn(24)
				if i < 16 { // build a tree first
					k = []int{0, 5, 7, 7, 8, 10, 0, 7}[r.intn(8)]
				}
				switch {
				case k < 5: // walk 1..3 names (deep trees: longer)
					nn := 1 + r.intn(2)
					if deep {
						nn = 1 + r.intn(3)
					}
					var names []string
					f := fid()
					cur := append([]string{}, paths[c.id][f]...)
					for j := 0; j < nn; j++ {
						nm := name()
						if r.chance(4, 5) {
							be.mu.Lock()
							if nd := be.fs.resolve(cur); nd != nil {
								for _, k := range k5Names {
									if _, ok := nd.children[k]; ok && r.chance(1, 2) {
										nm = k
									}
								}
							}
							be.mu.Unlock()
						}
						names = append(names, nm)
						cur = append(cur, nm)
					}
					t, v = 110, map[string]interface{}{"fid": f, "newFID": uint64(r.intn(8)), "Names": names}
				case k < 7: // clone
					t, v = 110, map[string]interface{}{"fid": fid(), "newFID": uint64(r.intn(8)), "Names": []string{}}
				case k < 10:
					t, v = 72, map[string]interface{}{"Directory": fid(), "Name": name(), "Permissions": uint64(0755)}
				case k < 12:
					t, v = 14, map[string]interface{}{"fid": fid(), "Name": name(), "OpenFlags": uint64(2), "Permissions": uint64(0644)}
				case k < 14:
					f := fid()
					t, v = 76, map[string]interface{}{"Directory": f, "Name": existing(f), "Flags": uint64(0)}
				case k < 17:
					f := fid()
					t, v = 74, map[string]interface{}{"OldDirectory": f, "OldName": existing(f), "NewDirectory": fid(), "NewName": name()}
				case k < 19:
					t, v = 20, map[string]interface{}{"fid": fid(), "Directory": fid(), "Name": name()}
				case k < 20:
					t, v = 122, map[string]interface{}{"fid": fid()}
				case k < 21:
					t, v = 120, map[string]interface{}{"fid": fid()}
				case k < 22:
					t, v = 12, map[string]interface{}{"fid": fid(), "Flags": uint64(0)}
				case k < 23:
					t, v = 116, map[string]interface{}{"fid": fid(), "Offset": uint64(0), "Count": uint64(64)}
				default:
					switch r.intn(6) {
					case 0:
						t, v = 26, setattrVals(r, fid())
					case 1:
						t, v = 16, map[string]interface{}{"Directory": fid(), "Name": name(), "Target": "t"}
					case 2:
						t, v = 18, map[string]interface{}{"Directory": fid(), "Name": name(), "Mode": uint64(0644)}
					case 3:
						t, v = 22, map[string]interface{}{"fid": fid()}
					case 4:
						t, v = 126, map[string]interface{}{"fid": fid(), "newFID": uint64(r.intn(8)), "Names": []string{name()}}
					default:
						t, v = 24, map[string]interface{}{"fid": fid()}
					}
				}
				if r.chance(1, 5) {
					t, v = 24, map[string]interface{}{"fid": fid()}
				}
				// aim at fids whose (guessed) path no longer resolves: fenced, or moved by a rename
				if r.chance(1, 5) {
					var gone []uint64
					be.mu.Lock()
					for f := uint64(0); f < 8; f++ {
						if p, ok := paths[c.id][f]; ok && c.bound[f] && be.fs.resolve(p) == nil {
							gone = append(gone, f)
						}
					}
					be.mu.Unlock()
					if len(gone) > 0 {
						f := gone[r.intn(len(gone))]
						switch r.intn(17) {
						case 0:
							t, v = 26, setattrVals(r, f)
						case 1:
							t, v = 22, map[string]interface{}{"fid": f}
						case 2:
							t, v = 12, map[string]interface{}{"fid": f, "Flags": uint64(0)}
						case 3:
							t, v = 14, map[string]interface{}{"fid": f, "Name": name(), "OpenFlags": uint64(2), "Permissions": uint64(0644)}
						case 4:
							t, v = 16, map[string]interface{}{"Directory": f, "Name": name(), "Target": "t"}
						case 5:
							t, v = 18, map[string]interface{}{"Directory": f, "Name": name(), "Mode": uint64(0644)}
						case 6:
							t, v = 72, map[string]interface{}{"Directory": f, "Name": name(), "Permissions": uint64(0755)}
						case 7:
							t, v = 76, map[string]interface{}{"Directory": f, "Name": name(), "Flags": uint64(0)}
						case 8:
							t, v = 74, map[string]interface{}{"OldDirectory": f, "OldName": name(), "NewDirectory": fid(), "NewName": name()}
						case 9:
							t, v = 74, map[string]interface{}{"OldDirectory": fid(), "OldName": name(), "NewDirectory": f, "NewName": name()}
						case 10:
							t, v = 20, map[string]interface{}{"fid": f, "Directory": fid(), "Name": name()}
						case 11:
							t, v = 20, map[string]interface{}{"fid": fid(), "Directory": f, "Name": name()}
						case 12:
							t, v = 30, map[string]interface{}{"fid": f, "newFID": uint64(r.intn(8)), "Name": "user.x"}
						case 13:
							t, v = 32, map[string]interface{}{"fid": f, "Name": "user.x", "AttrSize": uint64(4)}
						case 14:
							t, v = 70, map[string]interface{}{"Directory": f, "Target": fid(), "Name": name()}
						case 15:
							t, v = 110, map[string]interface{}{"fid": f, "newFID": uint64(r.intn(8)), "Names": []string{name()}}
						default:
							t, v = 24, map[string]interface{}{"fid": f}
						}
					}
				}
			}
			m := mk(t, v)
			tag := uint16(r.bits(16))
			lhs := append([]string{"k4", fmt.Sprintf("conn=%d", c.id), fmt.Sprintf("typ=%d", t), fmt.Sprintf("tag=%d", tag)}, dumpMsg("f:", m)...)
			rhs := exchange(c, tag, m)
			if len(rhs) > 0 {
				c.track(t, m, rhs[0])
				switch rhs[0] {
				case "rtyp=105":
					paths[c.id][fieldUint(m, "fid")] = nil
				case "rtyp=111", "rtyp=127":
					var names []string
					for _, f := range p9.VerifFields(m) {
						if f.Path == "Names" {
							names = f.Val.Interface().([]string)
						}
					}
					paths[c.id][fieldUint(m, "newFID")] = append(append([]string{}, paths[c.id][fieldUint(m, "fid")]...), names...)
				case "rtyp=15":
					for _, f := range p9.VerifFields(m) {
						if f.Path == "Name" {
							paths[c.id][fieldUint(m, "fid")] = append(append([]string{}, paths[c.id][fieldUint(m, "fid")]...), f.Val.String())
						}
					}
				}
				if t == 120 || t == 122 {
					delete(paths[c.id], fieldUint(m, "fid"))
				}
			}
			tape, calls := be.takeLog()
			ncalls := 0
			for _, cl := range calls {
				if strings.HasPrefix(cl, "c") && !strings.HasPrefix(cl, "close=") {
					ncalls++
				}
			}
			lhs = append(lhs, fmt.Sprintf("tape=%d", len(tape)))
			lhs = append(lhs, tape...)
			emit("%s => %s", strings.Join(lhs, " "), strings.Join(append(append([]string{}, rhs...), calls...), " "))
			// what the client saw
			obs := append([]string{"k5obs", fmt.Sprintf("conn=%d", c.id), fmt.Sprintf("typ=%d", t)}, dumpMsg("f:", m)...)
			obs = append(obs, "rtyp="+k5tok(rhs, "rtyp"), fmt.Sprintf("ncalls=%d", ncalls))
			if e := k5tok(rhs, "r:Error"); e != "" {
				obs = append(obs, "errno="+e)
			}
			switch k5tok(rhs, "rtyp") {
			case "111", "127":
				obs = append(obs, "ids="+qidPaths(k5tok(rhs, "r:QIDs")))
			case "105", "25":
				obs = append(obs, "id="+k5tok(rhs, "r:Path"))
			case "73", "15", "17", "19":
				obs = append(obs, "id="+k5tok(rhs, "r:QID.Path"))
			case "117":
				obs = append(obs, "data="+k5tok(rhs, "r:payload"))
			}
			count(fmt.Sprintf("k5:typ%d:%s", t, k5tok(rhs, "rtyp")))
			emit("%s => ok=1", strings.Join(obs, " "))
			done++
		}
		for _, c := range conns {
			c.peer.c.Close()
			ok := c.peer.waitDone(10 * time.Second)
			_, calls := be.takeLog()
			st := "returned"
			if !ok {
				st = "HUNG"
			}
			emit("k4stop conn=%d => handle=%s %s", c.id, st, strings.Join(calls, " "))
		}
		emit("k4end panics=0 => %s", be.lifecycle())
	}
}

// setattrVals: Tsetattr in the shapes clients send – nothing, a truncate (size, maybe times), a chmod,
// a chown, a utimes, everything.
func setattrVals(r *rng, f uint64) map[string]interface{} {
	v := map[string]interface{}{"fid": f}
	switch r.intn(7) {
	case 0:
	case 1:
		v["Valid.Size"] = true
		v["SetAttr.Size"] = uint64(r.intn(3))
	case 2:
		v["Valid.Size"], v["Valid.MTime"], v["Valid.CTime"] = true, true, true
	case 3:
		v["Valid.Permissions"] = true
		v["SetAttr.Permissions"] = uint64(0600)
	case 4:
		v["Valid.UID"], v["Valid.GID"] = true, true
	case 5:
		v["Valid.ATime"], v["Valid.MTime"], v["Valid.ATimeNotSystemTime"] = true, true, true
	default:
		for _, k := range []string{"Permissions", "UID", "GID", "Size", "ATime", "MTime", "CTime"} {
			v["Valid."+k] = r.chance(1, 2)
		}
	}
	return v
}
