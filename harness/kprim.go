package main

import (
	"sort"
	"strings"

	"github.com/hugelgupf/p9/p9"
)

// runKprim: every codec primitive (exported method of buffer, called through the reflective
// hook) against what the extractor takes it to be (Gen.primTable, evaluated by the model's encA /
// decA): writes on boundary and random values, reads on exact, short, long and random data.
func runKprim(r *rng, n int) {
	prims := p9.VerifBufferPrims()
	sort.Strings(prims)
	bounds := []uint64{0, 1, 0x7f, 0x80, 0xff, 0x100, 0x1ff, 0xfff, 0x1000, 0x7fff, 0x8000, 0xffff, 0x10000, 0x7fffffff, 0x80000000, 0xffffffff,
		0x100000000, 0x0123456789abcdef, 0x7fffffffffffffff, 0x8000000000000000, 0xffffffffffffffff}
	for _, name := range prims {
		switch {
		case strings.HasPrefix(name, "Write"):
			for i := 0; i < n+len(bounds); i++ {
				v := r.bits(64)
				if i < len(bounds) {
					v = bounds[i]
				}
				s := r.bytesN(r.intn(40))
				switch r.intn(6) {
				case 0:
					s = nil
				case 1:
					s = r.bytesN(250 + r.intn(20))
				case 2:
					s = r.bytesN(1 + r.intn(2000))
				}
				out, _, _, _, ok := p9.VerifBufferCall(name, nil, v, string(s))
				if !ok {
					emit("kprim name=%s w=1 v=%d s=%s => nosuchprimitive", name, v, hx(s))
					continue
				}
				emit("kprim name=%s w=1 v=%d s=%s => out=%s", name, v, hx(s), hx(out))
			}
		case strings.HasPrefix(name, "Read"):
			for i := 0; i < 2*n+12; i++ {
				var data []byte
				switch {
				case i < 12:
					data = r.bytesN(i) // every length 0..11: short, exact and long for every width
				case r.chance(1, 2): // a well-formed string (also read as integers), sometimes cut or extended
					s := r.bytesN(r.intn(30))
					data = cat(le16(uint16(len(s))), s)
					switch r.intn(4) {
					case 0:
						data = data[:r.intn(len(data)+1)]
					case 1:
						data = append(data, r.bytesN(1+r.intn(5))...)
					}
				default:
					data = r.bytesN(r.intn(16))
				}
				out, rv, rs, overrun, ok := p9.VerifBufferCall(name, data, 0, "")
				if !ok {
					emit("kprim name=%s w=0 data=%s => nosuchprimitive", name, hx(data))
					continue
				}
				if overrun {
					emit("kprim name=%s w=0 data=%s => overrun=1 v=%d s=%s", name, hx(data), rv, hx([]byte(rs)))
				} else {
					emit("kprim name=%s w=0 data=%s => overrun=0 v=%d s=%s left=%d", name, hx(data), rv, hx([]byte(rs)), len(out))
				}
			}
		}
		count("prim:" + name)
	}
}
