package main

import (
	"bytes"
	"encoding/binary"
	"fmt"
	"runtime"
	"strings"

	"github.com/hugelgupf/p9/p9"
)

func validFrame(r *rng) []byte {
	types := p9.VerifMsgTypes()
	t := types[r.intn(len(types))]
	m, _ := p9.VerifNewMsg(t)
	fillMsg(r, m)
	var buf bytes.Buffer
	if err := p9.VerifSend(&buf, uint16(r.bits(16)), m); err != nil {
		panic(err)
	}
	return buf.Bytes()
}

// mutate returns a damaged variant of a valid frame; the kind is counted in the statistics.
func mutate(r *rng, f []byte, msize uint32) []byte {
	f = append([]byte{}, f...)
	switch r.intn(9) {
	case 0: // unknown type, well delimited
		count("mut:unknown-type")
		bad := []byte{0, 1, 6, 10, 11, 28, 29, 54, 55, 99, 106, 107, 124, 125, 136, 200, 255}
		f[4] = bad[r.intn(len(bad))]
	case 1: // body cut short, size field adjusted (well delimited, body too short)
		count("mut:short-body")
		if len(f) > 7 {
			n := 7 + r.intn(len(f)-7)
			f = f[:n]
			binary.LittleEndian.PutUint32(f, uint32(n))
		}
	case 2: // extra bytes after the body, size adjusted
		count("mut:long-body")
		f = append(f, r.bytesN(1+r.intn(9))...)
		binary.LittleEndian.PutUint32(f, uint32(len(f)))
	case 3: // single bit flip in the body
		count("mut:bitflip-body")
		if len(f) > 7 {
			i := 7 + r.intn(len(f)-7)
			f[i] ^= 1 << uint(r.intn(8))
		}
	case 4: // bit flip in the header
		count("mut:bitflip-header")
		i := r.intn(7)
		f[i] ^= 1 << uint(r.intn(8))
	case 5: // size field around the interesting values
		count("mut:size-field")
		sizes := []uint32{0, 1, 6, 7, 8, msize - 1, msize, msize + 1, 4<<20 - 1, 4 << 20, 4<<20 + 1, 0x7fffffff, 0x80000000, 0xffffffff, uint32(len(f)) - 1, uint32(len(f)) + 1}
		binary.LittleEndian.PutUint32(f, sizes[r.intn(len(sizes))])
	case 6: // a 16-bit count or string length blown up
		count("mut:count-blowup")
		if len(f) > 9 {
			i := 7 + r.intn(len(f)-8)
			f[i], f[i+1] = 0xff, byte(r.next())
		}
	case 7: // truncated (stream ends mid frame if last)
		count("mut:truncated")
		f = f[:r.intn(len(f))]
	default: // body replaced by random bytes of the same length
		count("mut:random-body")
		copy(f[7:], r.bytesN(len(f)-7))
	}
	return f
}

// recvLoop feeds stream to the real recv() until a connection error and renders each call.
func recvLoop(stream []byte, msize uint32) []string {
	var rhs []string
	rd := bytes.NewReader(stream)
	var ms runtime.MemStats
	for i := 0; ; i++ {
		before := rd.Len()
		var declared uint32
		if before >= 4 {
			declared = binary.LittleEndian.Uint32(stream[len(stream)-before:])
		}
		runtime.ReadMemStats(&ms)
		a0 := ms.TotalAlloc
		var (
			tag uint16
			m   interface{}
			err error
			pan interface{}
		)
		func() {
			defer func() { pan = recover() }()
			tag, m, err = p9.VerifRecv(rd, msize)
		}()
		runtime.ReadMemStats(&ms)
		delta := ms.TotalAlloc - a0
		if pan != nil {
			rhs = append(rhs, fmt.Sprintf("recv%d=panic:%q", i, fmt.Sprint(pan)))
			return rhs
		}
		// buffering monitor: at most the declared frame size if it is within the limit, plus slack
		limit := uint64(64 << 10)
		if declared <= msize && declared <= 4<<20 {
			limit += 3 * uint64(declared)
		}
		if delta > limit {
			rhs = append(rhs, fmt.Sprintf("allocbad%d=%d(declared=%d)", i, delta, declared))
		}
		consumed := before - rd.Len()
		if err != nil {
			if p9.VerifIsConnError(err) {
				rhs = append(rhs, fmt.Sprintf("recv%d=conn", i), fmt.Sprintf("c%d=%d", i, consumed))
				return rhs
			}
			rhs = append(rhs, fmt.Sprintf("recv%d=proto:%d", i, tag), fmt.Sprintf("c%d=%d", i, consumed))
			continue
		}
		rhs = append(rhs, fmt.Sprintf("recv%d=msg:%d:%d", i, tag, p9.VerifTypeOf(m)), fmt.Sprintf("c%d=%d", i, consumed))
		rhs = append(rhs, dumpMsg(fmt.Sprintf("d%d:", i), m)...)
		p9.VerifPut(m)
	}
}

// runK2 is the framing correspondence: arbitrary byte streams through the receive loop.
func runK2(r *rng, n int) {
	msizes := []uint32{7, 8, 64, 4096, 8192, 65536, 1 << 20, 4 << 20, 8 << 20, 0xffffffff}
	for i := 0; i < n; i++ {
		r.small = true
		msize := msizes[r.intn(len(msizes))]
		if r.chance(1, 2) {
			msize = 8192
		}
		var stream []byte
		switch r.intn(10) {
		case 0: // pure random bytes
			count("stream:random")
			stream = r.bytesN(r.intn(64))
		case 1: // every truncation offset of a two-frame stream: emitted as separate cases
			count("stream:all-truncations")
			s := append(validFrame(r), validFrame(r)...)
			if len(s) > 400 {
				s = s[:400]
			}
			for cut := 0; cut <= len(s); cut++ {
				emitK2(s[:cut], 8192)
			}
			continue
		default:
			count("stream:mixed")
			k := 1 + r.intn(5)
			for j := 0; j < k; j++ {
				f := validFrame(r)
				if r.chance(1, 2) {
					f = mutate(r, f, msize)
				} else {
					count("mut:none")
				}
				stream = append(stream, f...)
			}
		}
		emitK2(stream, msize)
	}
	r.small = false
}

func emitK2(stream []byte, msize uint32) {
	rhs := recvLoop(stream, msize)
	for _, t := range rhs {
		if strings.HasPrefix(t, "recv") {
			count("outcome:" + strings.SplitN(strings.SplitN(t, "=", 2)[1], ":", 2)[0])
		}
	}
	emit("k2 msize=%d stream=%s => %s", msize, hx(stream), strings.Join(rhs, " "))
}
