package main

import (
	"errors"
	"fmt"
	"io"
	"os"
	"path/filepath"
	"runtime"
	"runtime/pprof"
	"sort"
	"strings"
	"sync"
	"time"

	"github.com/hugelgupf/p9/fsimpl/localfs"
	"github.com/hugelgupf/p9/linux"
	"github.com/hugelgupf/p9/p9"
)

// ---- perturbing wrappers ---------------------------------------------------------------------

// pert yields / sleeps at random: scheduling perturbation inside backend calls.
type pert struct {
	mu sync.Mutex
	r  *rng
	on bool
}

func (p *pert) hit() {
	if !p.on {
		return
	}
	p.mu.Lock()
	k := p.r.intn(8)
	p.mu.Unlock()
	switch {
	case k < 3:
		runtime.Gosched()
	case k == 3:
		time.Sleep(time.Duration(20+k*10) * time.Microsecond)
	}
}

// pertAttacher wraps an Attacher so that every File it hands out perturbs the schedule.
type pertAttacher struct {
	a p9.Attacher
	p *pert
}

func (a *pertAttacher) Attach() (p9.File, error) {
	f, err := a.a.Attach()
	if err != nil {
		return nil, err
	}
	return &pertFile{File: f, p: a.p}, nil
}

type pertFile struct {
	p9.File
	p *pert
}

func unwrapFile(f p9.File) p9.File {
	if pf, ok := f.(*pertFile); ok {
		return pf.File
	}
	return f
}

func (f *pertFile) Walk(names []string) ([]p9.QID, p9.File, error) {
	f.p.hit()
	q, nf, err := f.File.Walk(names)
	f.p.hit()
	if err != nil {
		return nil, nil, err
	}
	return q, &pertFile{File: nf, p: f.p}, nil
}
func (f *pertFile) WalkGetAttr(names []string) ([]p9.QID, p9.File, p9.AttrMask, p9.Attr, error) {
	f.p.hit()
	q, nf, m, a, err := f.File.WalkGetAttr(names)
	if err != nil {
		return nil, nil, p9.AttrMask{}, p9.Attr{}, err
	}
	return q, &pertFile{File: nf, p: f.p}, m, a, nil
}
func (f *pertFile) Create(name string, flags p9.OpenFlags, perm p9.FileMode, uid p9.UID, gid p9.GID) (p9.File, p9.QID, uint32, error) {
	f.p.hit()
	nf, q, io, err := f.File.Create(name, flags, perm, uid, gid)
	f.p.hit()
	if err != nil {
		return nil, p9.QID{}, 0, err
	}
	return &pertFile{File: nf, p: f.p}, q, io, nil
}
func (f *pertFile) Open(mode p9.OpenFlags) (p9.QID, uint32, error) {
	f.p.hit()
	defer f.p.hit()
	return f.File.Open(mode)
}
func (f *pertFile) GetAttr(req p9.AttrMask) (p9.QID, p9.AttrMask, p9.Attr, error) {
	f.p.hit()
	return f.File.GetAttr(req)
}
func (f *pertFile) ReadAt(p []byte, off int64) (int, error) { f.p.hit(); return f.File.ReadAt(p, off) }
func (f *pertFile) WriteAt(p []byte, off int64) (int, error) {
	f.p.hit()
	return f.File.WriteAt(p, off)
}
func (f *pertFile) Mkdir(name string, perm p9.FileMode, uid p9.UID, gid p9.GID) (p9.QID, error) {
	f.p.hit()
	defer f.p.hit()
	return f.File.Mkdir(name, perm, uid, gid)
}
func (f *pertFile) UnlinkAt(name string, flags uint32) error {
	f.p.hit()
	defer f.p.hit()
	return f.File.UnlinkAt(name, flags)
}
func (f *pertFile) Readdir(off uint64, count uint32) (p9.Dirents, error) {
	f.p.hit()
	return f.File.Readdir(off, count)
}
func (f *pertFile) Close() error { f.p.hit(); return f.File.Close() }
func (f *pertFile) Rename(newDir p9.File, newName string) error {
	f.p.hit()
	defer f.p.hit()
	return f.File.Rename(unwrapFile(newDir), newName)
}
func (f *pertFile) RenameAt(oldName string, newDir p9.File, newName string) error {
	f.p.hit()
	defer f.p.hit()
	return f.File.RenameAt(oldName, unwrapFile(newDir), newName)
}
func (f *pertFile) Renamed(parent p9.File, newName string) {
	f.p.hit()
	f.File.Renamed(unwrapFile(parent), newName)
}
func (f *pertFile) Link(target p9.File, newName string) error {
	f.p.hit()
	return f.File.Link(unwrapFile(target), newName)
}

// chunkWriter splits every write and yields in between: transport perturbation. Replies
// written without mutual exclusion interleave on such a writer.
type chunkWriter struct {
	io.WriteCloser
	p *pert
}

func (w *chunkWriter) Write(b []byte) (int, error) {
	if len(b) < 2 || !w.p.on {
		return w.WriteCloser.Write(b)
	}
	h := len(b) / 2
	n, err := w.WriteCloser.Write(b[:h])
	if err != nil {
		return n, err
	}
	w.p.hit()
	runtime.Gosched()
	m, err := w.WriteCloser.Write(b[h:])
	return n + m, err
}

// ---- random concurrent workloads on localfs ------------------------------------------------

func errTok(err error) string {
	if err == nil {
		return "ok"
	}
	var e linux.Errno
	if errors.As(err, &e) {
		return fmt.Sprintf("E%d", uint32(e))
	}
	if err == io.EOF {
		return "EOF"
	}
	return "ERR(" + strings.ReplaceAll(err.Error(), " ", "_") + ")"
}

// held is a client File a worker holds, with what the worker knows about it.
type held struct {
	f      p9.File
	isDir  bool
	opened bool
}

// k7worker runs a scripted sequence of operations inside its own directory and logs what it
// observes. Everything it observes depends only on its own subtree.
func k7worker(root p9.File, dir string, seed uint64, nops int, crossRename bool) []string {
	r := &rng{s: seed, small: true}
	var log []string
	add := func(f string, a ...interface{}) { log = append(log, fmt.Sprintf(f, a...)) }
	_, top, err := root.Walk([]string{dir})
	if err != nil {
		return []string{"walk-top:" + errTok(err)}
	}
	hs := []*held{{f: top, isDir: true}}
	names := []string{"a", "b", "c", "d"}
	pickDir := func() *held {
		var ds []*held
		for _, h := range hs {
			if h.isDir && !h.opened {
				ds = append(ds, h)
			}
		}
		return ds[r.intn(len(ds))]
	}
	for i := 0; i < nops; i++ {
		switch op := r.intn(12); op {
		case 0: // mkdir
			d, nm := pickDir(), names[r.intn(len(names))]
			_, err := d.f.Mkdir(nm, 0755, 0, 0)
			add("mkdir %s %s", nm, errTok(err))
		case 1: // create + write
			d, nm := pickDir(), names[r.intn(len(names))]
			_, cl, err := d.f.Walk(nil)
			if err != nil {
				add("clone %s", errTok(err))
				break
			}
			nf, _, _, err := cl.Create(nm, p9.ReadWrite, 0644, 0, 0)
			add("create %s %s", nm, errTok(err))
			if err != nil {
				cl.Close()
				break
			}
			_ = nf
			data := []byte(fmt.Sprintf("%s-%d-%d", dir, i, r.intn(1000)))
			n, err := cl.WriteAt(data, 0)
			add("write %d %s", n, errTok(err))
			hs = append(hs, &held{f: cl, opened: true})
		case 2: // walk to a child
			d, nm := pickDir(), names[r.intn(len(names))]
			_, nf, err := d.f.Walk([]string{nm})
			add("walk %s %s", nm, errTok(err))
			if err == nil {
				_, _, a, gerr := nf.GetAttr(p9.AttrMask{Mode: true, Size: true})
				add("attr %s dir=%v", errTok(gerr), a.Mode.IsDir())
				hs = append(hs, &held{f: nf, isDir: gerr == nil && a.Mode.IsDir()})
			}
		case 3: // read an open regular file
			for _, h := range hs {
				if h.opened && !h.isDir {
					buf := make([]byte, 64)
					n, err := h.f.ReadAt(buf, 0)
					add("read %q %s", buf[:n], errTok(err))
					break
				}
			}
		case 4: // getattr: size of regular files, type
			h := hs[r.intn(len(hs))]
			_, _, a, err := h.f.GetAttr(p9.AttrMask{Mode: true, Size: true})
			if err == nil && !a.Mode.IsDir() {
				add("getattr ok type=%o size=%d", uint32(a.Mode.FileType()), a.Size)
			} else {
				add("getattr %s dir=%v", errTok(err), a.Mode.IsDir())
			}
		case 5: // list a directory
			d := pickDir()
			_, cl, err := d.f.Walk(nil)
			if err != nil {
				add("clone %s", errTok(err))
				break
			}
			if _, _, err := cl.Open(p9.ReadOnly); err != nil {
				add("opendir %s", errTok(err))
				cl.Close()
				break
			}
			var got []string
			off := uint64(0)
			var lerr error
			for k := 0; k < 50; k++ {
				ds, err := cl.Readdir(off, 512)
				if err != nil {
					lerr = err
					break
				}
				if len(ds) == 0 {
					break
				}
				for _, e := range ds {
					got = append(got, e.Name)
					off = e.Offset
				}
			}
			sort.Strings(got)
			add("list [%s] %s", strings.Join(got, ","), errTok(lerr))
			cl.Close()
		case 6: // unlink
			d, nm := pickDir(), names[r.intn(len(names))]
			err := d.f.UnlinkAt(nm, 0)
			if err != nil {
				err2 := d.f.UnlinkAt(nm, 0x200) // AT_REMOVEDIR
				add("unlink %s %s/%s", nm, errTok(err), errTok(err2))
			} else {
				add("unlink %s ok", nm)
			}
		case 7: // renameat inside one directory or across two held directories
			d1, d2 := pickDir(), pickDir()
			if !crossRename {
				d2 = d1
			}
			o, n := names[r.intn(len(names))], names[r.intn(len(names))]
			err := d1.f.RenameAt(o, d2.f, n)
			add("renameat %s %s %s", o, n, errTok(err))
		case 8: // clunk something (never the top directory)
			if len(hs) > 1 {
				k := 1 + r.intn(len(hs)-1)
				err := hs[k].f.Close()
				add("close %s", errTok(err))
				hs = append(hs[:k], hs[k+1:]...)
			}
		case 9: // write to an open file
			for _, h := range hs {
				if h.opened && !h.isDir {
					n, err := h.f.WriteAt([]byte(fmt.Sprintf("w%d", i)), int64(r.intn(8)))
					add("pwrite %d %s", n, errTok(err))
					break
				}
			}
		case 10: // rename through the file's own fid
			if len(hs) > 1 && crossRename {
				k := 1 + r.intn(len(hs)-1)
				d, nm := pickDir(), names[r.intn(len(names))]
				if hs[k] != d {
					err := hs[k].f.Rename(d.f, nm)
					add("rename %s %s", nm, errTok(err))
				}
			}
		case 11: // clone
			h := hs[r.intn(len(hs))]
			if !h.opened {
				_, cl, err := h.f.Walk(nil)
				add("clone %s", errTok(err))
				if err == nil {
					hs = append(hs, &held{f: cl, isDir: h.isDir})
				}
			}
		}
	}
	for _, h := range hs {
		h.f.Close()
	}
	return log
}

type k7env struct {
	tmp     string
	srv     *p9.Server
	clients []*p9.Client
	roots   []p9.File
	dones   []chan struct{}
}

func newK7env(nconn, nworkers int, p *pert) (*k7env, error) {
	tmp, err := os.MkdirTemp("", "k7rand")
	if err != nil {
		return nil, err
	}
	for i := 0; i < nworkers; i++ {
		os.Mkdir(filepath.Join(tmp, fmt.Sprintf("w%d", i)), 0755)
	}
	e := &k7env{tmp: tmp}
	e.srv = p9.NewServer(&pertAttacher{a: localfs.Attacher(tmp), p: p})
	for i := 0; i < nconn; i++ {
		a, b := connPair()
		done := make(chan struct{})
		var w io.WriteCloser = b
		if i%2 == 1 {
			w = &chunkWriter{WriteCloser: b, p: p}
		}
		go func() { e.srv.Handle(b, w); close(done) }()
		c, err := p9.NewClient(a)
		if err != nil {
			return nil, err
		}
		root, err := c.Attach("")
		if err != nil {
			return nil, err
		}
		e.clients = append(e.clients, c)
		e.roots = append(e.roots, root)
		e.dones = append(e.dones, done)
	}
	return e, nil
}

func (e *k7env) close() {
	for i, c := range e.clients {
		e.roots[i].Close()
		c.Close()
		select {
		case <-e.dones[i]:
		case <-time.After(5 * time.Second):
		}
	}
	os.RemoveAll(e.tmp)
}

// runK7rand: 2..64 workers over 1..8 connections, each in its own subtree; every worker must
// finish (watchdog) and observe what it observes when it runs alone.
func runK7rand(r *rng, n int) {
	for i := 0; i < n; i++ {
		nconn := 1 + r.intn(8)
		nw := 2 + r.intn(63)
		if r.small {
			nw = 2 + r.intn(15)
		}
		nops := 10 + r.intn(40)
		cross := r.chance(1, 2)
		seeds := make([]uint64, nw)
		for k := range seeds {
			seeds[k] = r.next()
		}
		p := &pert{r: &rng{s: r.next()}, on: r.chance(3, 4)}
		env, err := newK7env(nconn, nw, p)
		if err != nil {
			panic(err)
		}
		logs := make([][]string, nw)
		var wg sync.WaitGroup
		for k := 0; k < nw; k++ {
			wg.Add(1)
			go func(k int) {
				defer wg.Done()
				logs[k] = k7worker(env.roots[k%nconn], fmt.Sprintf("w%d", k), seeds[k], nops, cross)
			}(k)
		}
		fin := make(chan struct{})
		go func() { wg.Wait(); close(fin) }()
		hung := 0
		select {
		case <-fin:
		case <-time.After(60 * time.Second):
			hung = 1
			fmt.Fprintf(os.Stderr, "k7rand: workers did not finish; goroutines:\n")
			pprof.Lookup("goroutine").WriteTo(os.Stderr, 1)
		}
		if os.Getenv("K7DEBUG") == "log" && hung == 0 {
			fmt.Fprintln(os.Stderr, strings.Join(logs[0], "\n"))
		}
		diverged := 0
		var first string
		if hung == 0 {
			env.close()
			// each worker alone: fresh tree, fresh server, one connection, no perturbation
			alone, err := newK7env(1, nw, &pert{r: &rng{s: 1}})
			if err != nil {
				panic(err)
			}
			for k := 0; k < nw; k++ {
				want := k7worker(alone.roots[0], fmt.Sprintf("w%d", k), seeds[k], nops, cross)
				if strings.Join(want, "\n") != strings.Join(logs[k], "\n") {
					diverged++
					if first == "" {
						for j := range want {
							if j >= len(logs[k]) || want[j] != logs[k][j] {
								got := "<none>"
								if j < len(logs[k]) {
									got = logs[k][j]
								}
								first = fmt.Sprintf("w%d#%d:alone=%s:concurrent=%s", k, j, strings.ReplaceAll(want[j], " ", "_"), strings.ReplaceAll(got, " ", "_"))
								break
							}
						}
					}
				}
			}
			alone.close()
		}
		cr, po := 0, 0
		if cross {
			cr = 1
		}
		if p.on {
			po = 1
		}
		count(fmt.Sprintf("workers<=%d", (nw+15)/16*16))
		count(fmt.Sprintf("conns=%d", nconn))
		if first != "" {
			emit("k7rand conns=%d workers=%d ops=%d cross=%d perturb=%d => hung=%d diverged=%d first=%s", nconn, nw, nops, cr, po, hung, diverged, first)
		} else {
			emit("k7rand conns=%d workers=%d ops=%d cross=%d perturb=%d => hung=%d diverged=%d", nconn, nw, nops, cr, po, hung, diverged)
		}
		if hung == 1 {
			return
		}
	}
}
