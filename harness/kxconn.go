package main

import (
	"encoding/binary"
	"sync"
	"time"

	"github.com/hugelgupf/p9/p9"
)

// runKxconn: many connections of one process answered at the same time: every reply carries the
// tag, type and size of *its* request's reply (C06 "each request gets exactly one reply carrying
// the same tag"; C18 "a function of its own frame alone ... on another connection of the same
// process").  Each connection has its own send lock, so nothing a reply is built from may be
// shared between connections.  Tversion is used because it needs no session and is answered by a
// frame of known shape; tags and version strings differ per connection.
func runKxconn(r *rng, n int) {
	for round := 0; round < n; round++ {
		srv := p9.NewServer(nullAttacher{})
		conns := 8 + r.intn(9)
		var wg sync.WaitGroup
		var mu sync.Mutex
		bad, total, lost := 0, 0, 0
		stop := time.Now().Add(time.Duration(150+r.intn(100)) * time.Millisecond)
		for c := 0; c < conns; c++ {
			wg.Add(1)
			go func(c int) {
				defer wg.Done()
				peer := newServerPeer(srv)
				defer peer.close()
				// version strings of different lengths: replies of different sizes per connection
				ver := "9P2000.L"
				if c%2 == 1 {
					ver = "9P2000.L.Google.7"
				}
				want := 7 + 4 + 2 + len(ver)
				b, t, l := 0, 0, 0
				for k := 0; time.Now().Before(stop); k++ {
					tag := uint16(c*2048 + k%2048)
					peer.write(rawFrame(100, tag, cat(le32(8192+uint32(c)), str9([]byte(ver)))))
					rep, err := peer.readFrame(5 * time.Second)
					if err != nil {
						l++
						break
					}
					t++
					if len(rep) != want || rep[4] != 101 || binary.LittleEndian.Uint16(rep[5:]) != tag ||
						binary.LittleEndian.Uint32(rep[7:]) != 8192+uint32(c) || string(rep[13:]) != ver {
						b++
					}
				}
				mu.Lock()
				bad, total, lost = bad+b, total+t, lost+l
				mu.Unlock()
			}(c)
		}
		wg.Wait()
		count("replies>=1000:" + map[bool]string{true: "yes", false: "no"}[total >= 1000])
		emit("kxconn conns=%d => bad=%d lost=%d", conns, bad, lost)
	}
}
