package main

import (
	"fmt"
	"io"
	"strings"
	"time"

	"github.com/hugelgupf/p9/p9"
)

// chunkReader delivers a stream as the given non-empty chunks; io.EOF comes with the last chunk
// (eofAttached) or on a read of its own.
type chunkReader struct {
	chunks      [][]byte
	eofAttached bool
}

func (c *chunkReader) Read(p []byte) (int, error) {
	if len(c.chunks) == 0 {
		return 0, io.EOF
	}
	n := copy(p, c.chunks[0])
	c.chunks[0] = c.chunks[0][n:]
	if len(c.chunks[0]) == 0 {
		c.chunks = c.chunks[1:]
		if len(c.chunks) == 0 && c.eofAttached {
			return n, io.EOF
		}
	}
	return n, nil
}

func cutStream(stream []byte, cuts []int) [][]byte {
	var out [][]byte
	prev := 0
	for _, c := range cuts {
		if c > prev && c < len(stream) {
			out = append(out, append([]byte{}, stream[prev:c]...))
			prev = c
		}
	}
	if prev < len(stream) {
		out = append(out, append([]byte{}, stream[prev:]...))
	}
	return out
}

// recvAllFrom runs the receive loop on any reader and renders outcomes like k2 (no byte counts).
func recvAllFrom(rd io.Reader, msize uint32) []string {
	var rhs []string
	for i := 0; i < 1000; i++ {
		var (
			tag uint16
			m   interface{}
			err error
			pan interface{}
		)
		func() {
			defer func() { pan = recover() }()
			tag, m, err = p9.VerifRecv(rd, msize)
		}()
		if pan != nil {
			return append(rhs, fmt.Sprintf("recv%d=panic:%q", i, fmt.Sprint(pan)))
		}
		if err != nil {
			if p9.VerifIsConnError(err) {
				return append(rhs, fmt.Sprintf("recv%d=conn", i))
			}
			rhs = append(rhs, fmt.Sprintf("recv%d=proto:%d", i, tag))
			continue
		}
		rhs = append(rhs, fmt.Sprintf("recv%d=msg:%d:%d", i, tag, p9.VerifTypeOf(m)))
		rhs = append(rhs, dumpMsg(fmt.Sprintf("d%d:", i), m)...)
		p9.VerifPut(m)
	}
	return rhs
}

func joinInts(xs []int) string {
	var s []string
	for _, x := range xs {
		s = append(s, fmt.Sprint(x))
	}
	return strings.Join(s, ",")
}

// runK3: the same bytes under different segmentations, through a plain io.Reader (generic
// ReadFrom path) and through a unix socketpair (vectorised recvmsg path).
func runK3(r *rng, n int) {
	for i := 0; i < n; i++ {
		r.small = true
		var stream []byte
		k := 1 + r.intn(3)
		for j := 0; j < k; j++ {
			f := validFrame(r)
			if r.chance(1, 4) {
				f = mutate(r, f, 8192)
			}
			stream = append(stream, f...)
		}
		if r.chance(1, 6) && len(stream) > 0 { // stream ends mid frame
			stream = stream[:r.intn(len(stream))]
			count("stream:ends-mid-frame")
		}
		r.small = false
		if len(stream) == 0 {
			continue
		}
		emitSeg := func(path string, cuts []int, eof bool) {
			chunks := cutStream(stream, cuts)
			var lens []int
			for _, c := range chunks {
				lens = append(lens, len(c))
			}
			var rhs []string
			if path == "gen" {
				rhs = recvAllFrom(&chunkReader{chunks: chunks, eofAttached: eof}, 8192)
			} else {
				a, b := connPair()
				go func() {
					for _, c := range chunks {
						a.Write(c)
						time.Sleep(150 * time.Microsecond)
					}
					a.Close()
				}()
				b.SetReadDeadline(time.Now().Add(10 * time.Second))
				rhs = recvAllFrom(b, 8192)
				b.Close()
			}
			e := 0
			if eof {
				e = 1
			}
			count("path:" + path)
			emit("k3 path=%s msize=8192 eof=%d chunks=%s stream=%s => %s", path, e, joinInts(lens), hx(stream), strings.Join(rhs, " "))
		}
		// unsegmented reference delivery, both EOF styles
		emitSeg("gen", nil, false)
		emitSeg("gen", nil, true)
		// every truncation point of a short stream, the last bytes arriving together with io.EOF
		// (in one read and in two): the stream may end exactly between two read vectors
		if len(stream) <= 160 && r.chance(1, 3) {
			full := stream
			for cut := 1; cut < len(full); cut++ {
				stream = full[:cut]
				emitSeg("gen", nil, true)
				if cut > 8 {
					emitSeg("gen", []int{7}, true)
				}
			}
			stream = full
			count("truncation-sweep")
		}
		if len(stream) <= 80 {
			// every single split point, and byte-by-byte
			for c := 1; c < len(stream); c++ {
				emitSeg("gen", []int{c}, c%2 == 0)
			}
			var all []int
			for c := 1; c < len(stream); c++ {
				all = append(all, c)
			}
			emitSeg("gen", all, true)
			emitSeg("gen", all, false)
			count("exhaustive-splits")
		}
		for t := 0; t < 4; t++ {
			var cuts []int
			nc := 1 + r.intn(6)
			pos := 0
			for j := 0; j < nc; j++ {
				pos += 1 + r.intn(len(stream)/nc+8)
				cuts = append(cuts, pos)
			}
			// interesting cut points: inside the header, right after it
			if r.chance(1, 2) {
				cuts = append([]int{1 + r.intn(6)}, cuts...)
				cuts = sortedUnique(cuts)
			}
			emitSeg("gen", cuts, r.chance(1, 2))
			if t == 0 {
				emitSeg("sock", cuts, false)
			}
		}
	}
}

func sortedUnique(xs []int) []int {
	for i := range xs {
		for j := i + 1; j < len(xs); j++ {
			if xs[j] < xs[i] {
				xs[i], xs[j] = xs[j], xs[i]
			}
		}
	}
	var out []int
	for i, x := range xs {
		if i == 0 || x != xs[i-1] {
			out = append(out, x)
		}
	}
	return out
}
