package main

import (
	"fmt"
	"os"
	"sync"

	"github.com/hugelgupf/p9/fsimpl/localfs"
	"github.com/hugelgupf/p9/fsimpl/qids"
	"github.com/hugelgupf/p9/p9"
)

func randDevIno(r *rng, pool *[][2]uint64) (uint64, uint64) {
	// re-use earlier pairs often: stability is about repeated lookups
	if len(*pool) > 0 && r.chance(2, 5) {
		p := (*pool)[r.intn(len(*pool))]
		return p[0], p[1]
	}
	var dev, ino uint64
	switch r.intn(8) {
	case 0: // plain
		dev = uint64(r.intn(1 << 16))
		ino = uint64(r.intn(1 << 20))
	case 1: // high device bits
		dev = r.bits(64) | 1<<uint(32+r.intn(32))
		ino = r.bits(40)
	case 2: // big minor (dev bits 20..31)
		dev = uint64(r.intn(16)+r.intn(2)*16)<<20 | uint64(r.intn(1<<20))
		ino = r.bits(39)
	case 3: // inode around 2^39
		dev = uint64(r.intn(1 << 12))
		ino = []uint64{1<<39 - 1, 1 << 39, 1<<39 + 1, 1 << 40, 1<<63 + 5, ^uint64(0)}[r.intn(6)]
	case 4:
		dev = r.bits(32)
		ino = r.bits(39)
	default:
		dev = r.bits(64)
		ino = r.bits(64)
	}
	*pool = append(*pool, [2]uint64{dev, ino})
	return dev, ino
}

// runKqid: (a) encodeLikely / localToQid on chosen pairs (process-global table: the model
// follows the same history), (b) the exhaustive mode table, (c) the QID mapper, sequentially
// against the model and concurrently against its own monitor.
func runKqid(r *rng, n int) {
	var pool [][2]uint64
	for i := 0; i < n; i++ {
		dev, ino := randDevIno(r, &pool)
		q, ok := localfs.VerifEncodeLikely(dev, ino)
		if ok {
			emit("klikely dev=%d ino=%d => ok=1 q=%d", dev, ino, q)
			count("likely")
		} else {
			emit("klikely dev=%d ino=%d => ok=0", dev, ino)
			count("unlikely")
		}
		p, err := localfs.VerifLocalToQid(dev, ino)
		emit("kltq dev=%d ino=%d => q=%d err=%v", dev, ino, p, err != nil)
	}
	// mapper, sequential: three mappers sharing one generator (as staticfs / composefs do)
	g := &qids.PathGenerator{}
	ms := []*qids.Mapper{qids.NewMapper(g), qids.NewMapper(g), qids.NewMapper(g)}
	for i := 0; i < n; i++ {
		k := r.intn(3)
		path := uint64(r.intn(40))
		if r.chance(1, 5) {
			path = r.bits(64)
		}
		in := p9.QID{Type: p9.QIDType(r.bits(8)), Version: uint32(r.bits(32)), Path: path}
		o := ms[k].QIDFor(in)
		emit("kmap m=%d path=%d typ=%d ver=%d => path=%d typ=%d ver=%d", k, path, in.Type, in.Version, o.Path, o.Type, o.Version)
	}
}

// runKmapbig: the translation table has no size at which it forgets: far more distinct source
// paths than any test directory holds go through one mapper (and a second one sharing the
// generator), then earlier ones are asked for again (C20 "one distinct path for good"; C19: the
// QIDs Readdir lists through composefs are those Walk and GetAttr report).
func runKmapbig(r *rng, n int) {
	for round := 0; round < n; round++ {
		g := &qids.PathGenerator{}
		ms := []*qids.Mapper{qids.NewMapper(g), qids.NewMapper(g)}
		total := []int{70000, 140000, 300000}[r.intn(3)]
		first := make(map[uint64]uint64, total)
		seen := make(map[uint64]bool, total)
		unstable, collide := 0, 0
		for i := 0; i < total; i++ {
			src := uint64(i)*2654435761 + 17
			o := ms[0].QIDFor(p9.QID{Path: src})
			first[src] = o.Path
			if seen[o.Path] {
				collide++
			}
			seen[o.Path] = true
			if i%1000 == 0 {
				o2 := ms[1].QIDFor(p9.QID{Path: src})
				if seen[o2.Path] {
					collide++
				}
				seen[o2.Path] = true
			}
		}
		for k := 0; k < 2000; k++ {
			src := uint64(r.intn(total))*2654435761 + 17
			if ms[0].QIDFor(p9.QID{Path: src}).Path != first[src] {
				unstable++
			}
		}
		emit("kmapbig sources=%d => unstable=%d collide=%d", total, unstable, collide)
	}
}

// runKmode: every one of the 7 x 4096 (type, permission) values, plus invalid types.
func runKmode(r *rng, n int) {
	types := []uint32{0140000, 0120000, 0100000, 060000, 040000, 020000, 010000}
	for _, t := range types {
		for p := uint32(0); p < 4096; p++ {
			m := p9.FileMode(t | p)
			o := m.OSMode()
			back := p9.ModeFromOS(o)
			emit("kmode m=%d => os=%d back=%d qt=%d", uint32(m), uint32(o), uint32(back), uint8(m.QIDType()))
		}
	}
	// os modes that do not come from OSMode (extra bits): ModeFromOS alone
	for i := 0; i < n; i++ {
		o := os.FileMode(r.bits(32))
		emit("kfromos os=%d => m=%d", uint32(o), uint32(p9.ModeFromOS(o)))
	}
}

// runKmapc: concurrent QIDFor through shared mappers; the monitor is the property itself:
// no crash, each source path keeps one path, distinct sources get distinct paths.
func runKmapc(r *rng, n int) {
	for round := 0; round < n; round++ {
		g := &qids.PathGenerator{}
		ms := []*qids.Mapper{qids.NewMapper(g), qids.NewMapper(g)}
		const workers = 8
		var wg sync.WaitGroup
		results := make([]map[[2]uint64]uint64, workers)
		unstable := 0
		var mu sync.Mutex
		for w := 0; w < workers; w++ {
			wg.Add(1)
			seed := r.next()
			go func(w int) {
				defer wg.Done()
				lr := &rng{s: seed}
				res := map[[2]uint64]uint64{}
				for i := 0; i < 400; i++ {
					k := uint64(lr.intn(2))
					path := uint64(lr.intn(64))
					o := ms[k].QIDFor(p9.QID{Path: path})
					if old, ok := res[[2]uint64{k, path}]; ok && old != o.Path {
						mu.Lock()
						unstable++
						mu.Unlock()
					}
					res[[2]uint64{k, path}] = o.Path
				}
				results[w] = res
			}(w)
		}
		wg.Wait()
		all := map[[2]uint64]uint64{}
		rev := map[uint64][2]uint64{}
		collide := 0
		for _, res := range results {
			for k, v := range res {
				if old, ok := all[k]; ok && old != v {
					unstable++
				}
				all[k] = v
				if ok2, ok := rev[v]; ok && ok2 != k {
					collide++
				}
				rev[v] = k
			}
		}
		emit("kmapc round=%d => unstable=%d collide=%d", round, unstable, collide)
	}
	_ = fmt.Sprint
}
