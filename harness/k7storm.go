package main

import (
	"encoding/binary"
	"fmt"
	"os"
	"runtime"
	"runtime/pprof"
	"sync"
	"time"

	"github.com/hugelgupf/p9/p9"
)

// stormConn demultiplexes replies of one raw connection by tag.
type stormConn struct {
	p       *rawPeer
	mu      sync.Mutex
	wmu     sync.Mutex
	waiting map[uint16]chan []byte
	stray   int
	bad     int
}

func newStormConn(p *rawPeer) *stormConn {
	c := &stormConn{p: p, waiting: map[uint16]chan []byte{}}
	go func() {
		for {
			f, err := p.readFrame(24 * time.Hour)
			if err != nil {
				return
			}
			if len(f) < 7 {
				c.mu.Lock()
				c.bad++
				c.mu.Unlock()
				continue
			}
			tag := binary.LittleEndian.Uint16(f[5:])
			c.mu.Lock()
			ch, ok := c.waiting[tag]
			delete(c.waiting, tag)
			if !ok {
				c.stray++
			}
			c.mu.Unlock()
			if ok {
				ch <- f
			}
		}
	}()
	return c
}

// rpc sends one request and waits for its reply; nil on watchdog expiry.
func (c *stormConn) rpc(frame []byte, tag uint16, d time.Duration) []byte {
	ch := make(chan []byte, 1)
	c.mu.Lock()
	c.waiting[tag] = ch
	c.mu.Unlock()
	c.wmu.Lock()
	c.p.write(frame)
	c.wmu.Unlock()
	select {
	case f := <-ch:
		return f
	case <-time.After(d):
		return nil
	}
}

// runK7storm: many workers on shared paths (shared path nodes, cross-directory renames,
// unlinks of entries other workers hold) against the scripted backend with scheduling
// perturbation. Each worker keeps one request outstanding and uses only its own fids.
func runK7storm(r *rng, n int) {
	for i := 0; i < n; i++ {
		nconn := 1 + r.intn(4)
		per := 1 + r.intn(8)
		nops := 20 + r.intn(60)
		be := newBackend(&rng{s: r.next()}, 0, 0, false)
		be.dirRoot = true
		pt := &pert{r: &rng{s: r.next()}, on: true}
		be.gate = func(int, string) { pt.hit() }
		srv := p9.NewServer(be)
		var conns []*stormConn
		var peers []*rawPeer
		frame := func(t uint8, tag uint16, v map[string]interface{}) []byte {
			var w sliceWriter
			if err := p9.VerifSend(&w, tag, mk(t, v)); err != nil {
				panic(err)
			}
			return w.b
		}
		okPrep := true
		for c := 0; c < nconn; c++ {
			p := newServerPeer(srv)
			peers = append(peers, p)
			sc := newStormConn(p)
			conns = append(conns, sc)
			if sc.rpc(frame(100, 0xffff, map[string]interface{}{"MSize": uint64(8192), "Version": "9P2000.L.Google.7"}), 0xffff, 5*time.Second) == nil ||
				sc.rpc(frame(104, 1, map[string]interface{}{"fid": uint64(0), "Auth.Authenticationfid": uint64(0xffffffff)}), 1, 5*time.Second) == nil {
				okPrep = false
			}
			// every worker gets its own clone of the root before the storm starts
			for w := 0; w < per; w++ {
				f := sc.rpc(frame(110, 2, map[string]interface{}{"fid": uint64(0), "newFID": uint64(1000 + w*32), "Names": []string{}}), 2, 5*time.Second)
				if f == nil || f[4] != 111 {
					okPrep = false
				}
			}
		}
		if !okPrep {
			continue
		}
		be.mu.Lock()
		be.errPm = 30
		be.mu.Unlock()
		names := []string{"p", "q", "r"}
		var wg sync.WaitGroup
		var mu sync.Mutex
		unanswered, total := 0, 0
		for c := 0; c < nconn; c++ {
			for w := 0; w < per; w++ {
				wg.Add(1)
				go func(c, w int, seed uint64) {
					defer wg.Done()
					wr := &rng{s: seed, small: true}
					sc := conns[c]
					base := uint64(1000 + w*32)
					// fids this worker has bound: fid -> is directory (as far as it knows)
					bound := map[uint64]bool{base: true}
					tagBase := uint16(100 + w*200)
					seq := 0
					pick := func(dirOnly bool) uint64 {
						var fs []uint64
						for f, d := range bound {
							if d || !dirOnly {
								fs = append(fs, f)
							}
						}
						// map order is random: sort for determinism of the script
						for a := 1; a < len(fs); a++ {
							for b := a; b > 0 && fs[b] < fs[b-1]; b-- {
								fs[b], fs[b-1] = fs[b-1], fs[b]
							}
						}
						return fs[wr.intn(len(fs))]
					}
					free := func() uint64 {
						for f := base + 1; f < base+32; f++ {
							if _, ok := bound[f]; !ok {
								return f
							}
						}
						return 0
					}
					for k := 0; k < nops; k++ {
						tag := tagBase + uint16(seq%150)
						seq++
						var t uint8
						var v map[string]interface{}
						var onOK func()
						switch wr.intn(10) {
						case 0, 1: // walk to a shared name
							nf := free()
							if nf == 0 {
								continue
							}
							nm := names[wr.intn(len(names))]
							t, v = 110, map[string]interface{}{"fid": pick(true), "newFID": nf, "Names": []string{nm}}
							onOK = func() { bound[nf] = true }
						case 2: // mkdir
							t, v = 72, map[string]interface{}{"Directory": pick(true), "Name": names[wr.intn(len(names))]}
						case 3: // unlinkat of a shared name
							t, v = 76, map[string]interface{}{"Directory": pick(true), "Name": names[wr.intn(len(names))]}
						case 4: // renameat across directories
							t, v = 74, map[string]interface{}{"OldDirectory": pick(true), "OldName": names[wr.intn(len(names))], "NewDirectory": pick(true), "NewName": names[wr.intn(len(names))]}
						case 5: // rename through a fid
							f := pick(false)
							if f == base {
								continue
							}
							t, v = 20, map[string]interface{}{"fid": f, "Directory": pick(true), "Name": names[wr.intn(len(names))]}
						case 6: // clunk
							f := pick(false)
							if f == base {
								continue
							}
							t, v = 120, map[string]interface{}{"fid": f}
							delete(bound, f)
						case 7: // getattr
							t, v = 24, map[string]interface{}{"fid": pick(false)}
						case 8: // remove (clunks whatever happens)
							f := pick(false)
							if f == base {
								continue
							}
							t, v = 122, map[string]interface{}{"fid": f}
							delete(bound, f)
						case 9: // clone
							nf := free()
							if nf == 0 {
								continue
							}
							src := pick(false)
							isDir := bound[src]
							t, v = 110, map[string]interface{}{"fid": src, "newFID": nf, "Names": []string{}}
							onOK = func() { bound[nf] = isDir }
						}
						rep := sc.rpc(frame(t, tag, v), tag, 30*time.Second)
						mu.Lock()
						total++
						if rep == nil {
							unanswered++
						}
						mu.Unlock()
						if rep == nil {
							return
						}
						if rep[4] != 7 && onOK != nil {
							onOK()
						}
						if wr.chance(1, 4) {
							runtime.Gosched()
						}
					}
				}(c, w, r.next())
			}
		}
		fin := make(chan struct{})
		go func() { wg.Wait(); close(fin) }()
		hung := 0
		select {
		case <-fin:
		case <-time.After(90 * time.Second):
			hung = 1
		}
		stophung, stray, bad := 0, 0, 0
		if hung == 0 {
			for _, p := range peers {
				p.c.Close()
			}
			for _, p := range peers {
				select {
				case <-p.done:
				case <-time.After(20 * time.Second):
					stophung = 1
				}
			}
		}
		if hung == 1 || stophung == 1 || unanswered > 0 {
			fmt.Fprintf(os.Stderr, "k7storm: no progress; goroutines:\n")
			pprof.Lookup("goroutine").WriteTo(os.Stderr, 1)
		}
		for _, sc := range conns {
			sc.mu.Lock()
			stray += sc.stray
			bad += sc.bad
			sc.mu.Unlock()
		}
		life := "leaks=? dbl=? uac=?"
		if hung == 0 && stophung == 0 {
			life = be.lifecycle()
		}
		count(fmt.Sprintf("storm-workers<=%d", (nconn*per+7)/8*8))
		emit("k7storm conns=%d per=%d ops=%d => hung=%d unanswered=%d stophung=%d stray=%d bad=%d %s", nconn, per, nops, hung, unanswered, stophung, stray, bad, life)
		if hung == 1 || stophung == 1 {
			return
		}
	}
}
