// Command harness drives the real hugelgupf/p9 code in-process (built with -tags verif from
// /repo's working tree) and prints one line per case: `<mode> <inputs> => <observations>`.
// The Lean driver reads the left-hand sides, runs the model and prints its predictions;
// /verif/check diffs them.
package main

import (
	"fmt"
	"os"
	"strconv"
)

func main() {
	if len(os.Args) < 4 {
		fmt.Fprintln(os.Stderr, "usage: harness <mode> <seed> <budget> [args]")
		os.Exit(2)
	}
	mode := os.Args[1]
	seed, _ := strconv.ParseUint(os.Args[2], 10, 64)
	n, _ := strconv.Atoi(os.Args[3])
	r := &rng{s: seed*0x2545F4914F6CDD1D + 0x1234567}
	defer out.Flush()
	defer dumpStats()
	switch mode {
	case "k1":
		runK1(r, n)
	case "k2":
		runK2(r, n)
	case "kver":
		runKver(r, n)
	case "k4":
		runK4(r, n, true)
	case "k13big":
		runK13big(r, n)
	case "kxattr":
		runKxattr(r, n)
	case "kmutual":
		runKmutual(r, n)
	case "kmsz":
		runKmsz(r, n)
	case "k5":
		runK5(r, n)
	case "k7pair":
		runK7pair(r, n)
	case "k7flush":
		runK7flush(r, n)
	case "k7tags":
		runK7tags(r, n)
	case "k7reuse":
		runK7reuse(r, n)
	case "k7rand":
		runK7rand(r, n)
	case "k7storm":
		runK7storm(r, n)
	case "k7scen":
		runK7scen(r, n)
	case "kpool":
		runKpool(r, n)
	case "kmuxfid":
		runKmuxfid(r, n)
	case "kstale":
		runKstale(r, n)
	case "kalias":
		runKalias(r, n)
	case "kxconn":
		runKxconn(r, n)
	case "kprim":
		runKprim(r, n)
	case "kmapbig":
		runKmapbig(r, n)
	case "kltype":
		runKltype(r, n)
	case "kltqc":
		runKltqc(r, n)
	case "kcompose":
		runKcompose(r, n)
	case "kearly":
		runKearly(r, n)
	case "k2srv":
		runK2srv(r, n)
	case "kmux":
		runKmux(r, n)
	case "kcs":
		runKcs(r, n)
	case "k19":
		runK19(r, n)
	case "k18":
		runK18(r, n)
	case "k13":
		runK13(r, n)
	case "k3":
		runK3(r, n)
	case "kqid":
		runKqid(r, n)
	case "kmode":
		runKmode(r, n)
	case "kmapc":
		runKmapc(r, n)
	case "kchunk":
		runKchunk(r, n)
	case "kneg":
		runKneg(r, n)
	default:
		fmt.Fprintln(os.Stderr, "unknown mode", mode)
		os.Exit(2)
	}
}
