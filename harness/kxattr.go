package main

import (
	"bytes"
	"encoding/binary"
	"net"
	"sync"

	"github.com/hugelgupf/p9/p9"
)

// tapConn records the frames the client writes.
type tapConn struct {
	net.Conn
	mu  sync.Mutex
	buf bytes.Buffer
}

func (t *tapConn) Write(b []byte) (int, error) {
	t.mu.Lock()
	t.buf.Write(b)
	t.mu.Unlock()
	return t.Conn.Write(b)
}

// runKxattr: GetXattr of values larger than one frame can carry, through a real client and server:
// the value comes back whole, and every Tread the client sends asks for no more than fits a reply
// within the negotiated msize (C13, client side; the chunking is C11's loop).
func runKxattr(r *rng, n int) {
	for i := 0; i < n; i++ {
		ms := []uint32{4096, 8192, 65536}[r.intn(3)]
		size := []int{0, 1, int(ms) - 12, int(ms) - 11, int(ms) - 10, int(ms), int(ms) + 1, 3*int(ms) + 7, 10000}[r.intn(9)]
		be := newBackend(&rng{s: r.next()}, 0, 0, false)
		be.dirRoot = true
		be.bigXattr = size
		if size == 0 {
			be.bigXattr = -1
		}
		a, b := connPair()
		srv := p9.NewServer(be)
		done := make(chan struct{})
		go func() { srv.Handle(b, b); close(done) }()
		tap := &tapConn{Conn: a}
		c, err := p9.NewClient(tap, p9.WithMessageSize(ms))
		if err != nil {
			panic(err)
		}
		root, err := c.Attach("")
		if err != nil {
			a.Close()
			<-done
			continue
		}
		val, gerr := root.GetXattr("user.big")
		root.Close()
		c.Close()
		a.Close()
		<-done
		// what the backend handed out (the last GetXattr outcome on the tape)
		whole := 0
		if gerr == nil && len(val) == size {
			whole = 1
		}
		// the client's frames: sizes and Tread counts
		tap.mu.Lock()
		st := tap.buf.Bytes()
		tap.mu.Unlock()
		fits := 1
		for len(st) >= 7 {
			sz := int(binary.LittleEndian.Uint32(st))
			if sz < 7 || sz > len(st) {
				break
			}
			if sz > int(ms) {
				fits = 0
			}
			if st[4] == 116 && sz >= 23 {
				if cnt := binary.LittleEndian.Uint32(st[19:]); cnt+11 > ms {
					fits = 0
				}
			}
			st = st[sz:]
		}
		emit("kxattr msize=%d size=%d => whole=%d fits=%d", ms, size, whole, fits)
	}
}
