package main

import (
	"os"
	"path/filepath"
	"sync"

	"github.com/hugelgupf/p9/fsimpl/composefs"
	"github.com/hugelgupf/p9/fsimpl/localfs"
	"github.com/hugelgupf/p9/p9"
)

// runKltqc: concurrent *first* lookups of one (device, inode) pair outside the compact encoding:
// every caller is told the same path (C20: "one stable path").
func runKltqc(r *rng, n int) {
	for i := 0; i < n; i++ {
		dev := r.bits(64)
		ino := uint64(1)<<40 + r.bits(20)<<12 + uint64(i)
		const workers = 8
		res := make([]uint64, workers)
		var wg sync.WaitGroup
		start := make(chan struct{})
		for w := 0; w < workers; w++ {
			wg.Add(1)
			go func(w int) {
				defer wg.Done()
				<-start
				res[w], _ = localfs.VerifLocalToQid(dev, ino)
			}(w)
		}
		close(start)
		wg.Wait()
		again, _ := localfs.VerifLocalToQid(dev, ino)
		distinct := map[uint64]bool{again: true}
		for _, q := range res {
			distinct[q] = true
		}
		emit("kltqc dev=%d ino=%d => distinct=%d", dev, ino, len(distinct))
	}
}

// runKcompose: QIDs through the composed file system and its QID mapper (C19: a listed entry's QID is
// what Walk and GetAttr report; C20: one path per file for good):
//   - a file created inside a writable mount: the QID in the Create reply, the QID GetAttr reports
//     through the created File, and the QID of a Walk to its name are one;
//   - a mount whose backing directory is replaced between two listings of the composed root: each
//     listing reports for the mount what Walk + GetAttr report at that moment.
func runKcompose(r *rng, n int) {
	for i := 0; i < n; i++ {
		base, err := os.MkdirTemp("", "kcompose")
		if err != nil {
			continue
		}
		dir := filepath.Join(base, "data")
		os.Mkdir(dir, 0755)
		fs, err := composefs.New(composefs.WithMount("rw", localfs.Attacher(dir)), composefs.WithMount("other", localfs.Attacher(base)))
		if err != nil {
			os.RemoveAll(base)
			continue
		}
		root, err := fs.Attach()
		if err != nil {
			os.RemoveAll(base)
			continue
		}
		// (a) create inside the mount
		created, viaFile, viaWalk := uint64(0), uint64(1), uint64(2)
		if _, mnt, err := root.Walk([]string{"rw"}); err == nil {
			name := "new" + string(rune('a'+r.intn(20)))
			if f, q, _, err := mnt.Create(name, p9.ReadWrite, 0644, 0, 0); err == nil {
				created = q.Path
				if q2, _, _, err := f.GetAttr(p9.AttrMask{Mode: true}); err == nil {
					viaFile = q2.Path
				}
				f.Close()
				if _, mnt2, err := root.Walk([]string{"rw"}); err == nil {
					if qs, f3, err := mnt2.Walk([]string{name}); err == nil && len(qs) == 1 {
						viaWalk = qs[0].Path
						f3.Close()
					}
					mnt2.Close()
				}
			}
		}
		same := 0
		if created == viaFile && created == viaWalk {
			same = 1
		}
		emit("kcompose part=create => same=%d", same)
		// (b) the object behind a mount is replaced between two listings
		agree := func() int {
			listed := map[string]p9.QID{}
			if _, d, err := root.Walk(nil); err == nil {
				if _, _, err := d.Open(p9.ReadOnly); err == nil {
					if ents, err := d.Readdir(0, 1<<16); err == nil {
						for _, e := range ents {
							listed[e.Name] = e.QID
						}
					}
				}
				d.Close()
			}
			ok := 1
			for _, name := range []string{"rw", "other"} {
				_, f, err := root.Walk([]string{name})
				if err != nil {
					return 0
				}
				q, _, _, err := f.GetAttr(p9.AttrMask{Mode: true})
				f.Close()
				if err != nil || listed[name] != q {
					ok = 0
				}
			}
			return ok
		}
		first := agree()
		os.Rename(dir, dir+".old")
		os.Mkdir(dir, 0755)
		second := agree()
		root.Close()
		os.RemoveAll(base)
		emit("kcompose part=swap => first=%d second=%d", first, second)
	}
}
