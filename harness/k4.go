package main

import (
	"bytes"
	"fmt"
	"reflect"
	"strings"
	"time"

	"github.com/hugelgupf/p9/p9"
)

var k4Fids = []uint64{0, 0, 0, 1, 1, 2, 2, 3}
var k4Names = []string{"a", "b", "c", "d"}
var k4BadNames = []string{"", ".", "..", "a/b", "/", "a/", "/a", "a\x00b", "..a", "...", "\xff\xfe", strings.Repeat("n", 300)}
var k4Attach = []string{"", "", "", "/", "a", "/a", "a/b", "a//b", "/../x", "a/./b", "a/", "/a/b/c", "//a", "a/b/c/d"}

// bound is the harness' guess of the fids currently bound on the connection being driven
// (maintained from the replies); most fid fields are drawn from it so that histories go deep.
var k4Bound map[uint64]bool

func (r *rng) fid() uint64 {
	if len(k4Bound) > 0 && r.chance(4, 5) {
		var ks []uint64
		for _, k := range k4Fids {
			if k4Bound[k] {
				ks = append(ks, k)
			}
		}
		if len(ks) > 0 {
			return ks[r.intn(len(ks))]
		}
	}
	switch r.intn(30) {
	case 0:
		return 0xffffffff
	case 1:
		return r.bits(32)
	default:
		return k4Fids[r.intn(len(k4Fids))]
	}
}

func (r *rng) name(adversarial bool) string {
	if adversarial && r.chance(1, 6) {
		return k4BadNames[r.intn(len(k4BadNames))]
	}
	return k4Names[r.intn(len(k4Names))]
}

// request types a client may send, weighted towards the ones that build state.
var k4Types = []uint8{104, 110, 110, 110, 110, 126, 126, 12, 12, 14, 128, 16, 134, 72, 130, 18, 132, 70, 74, 74, 76, 76, 20, 20, 122, 22, 116, 116, 118, 118,
	24, 26, 30, 32, 40, 50, 8, 52, 120, 100, 108, 102}

// genRequest builds a random T-message (or, rarely, an R-message sent as a request).
func genRequest(r *rng, adversarial bool) (uint8, interface{}) {
	t := k4Types[r.intn(len(k4Types))]
	if r.chance(1, 80) {
		all := p9.VerifMsgTypes()
		t = all[r.intn(len(all))]
	}
	m, _ := p9.VerifNewMsg(t)
	for _, f := range p9.VerifFields(m) {
		v := f.Val
		switch {
		case v.Type().Name() == "fid":
			x := r.fid()
			if f.Path == "newFID" && r.chance(2, 3) {
				x = k4Fids[r.intn(len(k4Fids))]
			}
			if f.Path == "Auth.Authenticationfid" && !r.chance(1, 12) {
				x = 0xffffffff
			}
			v.SetUint(x)
		case v.Kind() == reflect.String:
			switch f.Path {
			case "Auth.AttachName":
				v.SetString(k4Attach[r.intn(len(k4Attach))])
			case "Version":
				v.SetString(string(randVersion(r)))
				if r.chance(2, 3) {
					v.SetString("9P2000.L.Google.7")
				}
			case "Target", "Client", "Auth.UserName":
				v.SetString(string(r.bytesN(r.intn(12))))
			default:
				v.SetString(r.name(adversarial))
				if t == 30 && r.chance(1, 2) { // Txattrwalk: empty name = list
					v.SetString("")
				}
			}
		case v.Kind() == reflect.Slice && v.Type().Elem().Kind() == reflect.String:
			n := []int{0, 0, 1, 1, 1, 2, 2, 3, 5}[r.intn(9)]
			s := reflect.MakeSlice(v.Type(), n, n)
			for i := 0; i < n; i++ {
				s.Index(i).SetString(r.name(adversarial))
			}
			v.Set(s)
		case v.Kind() == reflect.Slice && v.Type().Elem().Kind() == reflect.Uint8:
			if f.Path == "Data" {
				v.SetBytes(r.bytesN(r.intn(24)))
			}
		case v.Kind() == reflect.Bool:
			v.SetBool(r.chance(1, 2))
		case v.Kind() >= reflect.Uint8 && v.Kind() <= reflect.Uint64:
			switch f.Path {
			case "Flags", "OpenFlags":
				v.SetUint([]uint64{0, 0, 1, 2, 2, 3, 0x202, 0x8001, r.bits(32)}[r.intn(9)] & (1<<wireBits(v) - 1))
			case "Count":
				v.SetUint([]uint64{0, 1, 8, 64, 200, 8181, 8182, 8192, 4 << 20, 4<<20 + 1, 0xffffffff}[r.intn(11)])
			case "Offset", "AttrSize":
				v.SetUint([]uint64{0, 0, 1, 5, 24, 1 << 33}[r.intn(6)])
			case "MSize":
				v.SetUint([]uint64{8192, 8192, 8192, 4096, 65536, 0, 100}[r.intn(7)])
			default:
				v.SetUint(r.bits(wireBits(v)))
			}
		case v.Kind() == reflect.Int32:
			v.SetInt(int64(int32(r.bits(32))))
		case v.Kind() == reflect.Slice:
			// QID / Dirent lists only occur in R-messages sent as requests
			n := r.intn(3)
			s := reflect.MakeSlice(v.Type(), n, n)
			for i := 0; i < n; i++ {
				fillValue(r, s.Index(i))
			}
			v.Set(s)
		}
	}
	return t, m
}

type k4Conn struct {
	// ioFid: a fid that was just opened (Tlopen / Tlcreate succeeded): the next requests often do
	// I/O on it (-1: none); ioLeft counts them down
	ioFid  int64
	ioLeft int
	// faultFid: the fid of the last request that was refused after reaching the backend (-1: none)
	faultFid int64
	peer     *rawPeer
	id       int
	bound    map[uint64]bool
	// stopped: the connection already ended and its k4stop line was emitted
	stopped bool
	// msize announced by the server in its last Rversion (0: none yet)
	msize uint32
}

func fieldUint(m interface{}, path string) uint64 {
	for _, f := range p9.VerifFields(m) {
		if f.Path == path {
			return f.Val.Uint()
		}
	}
	return 0
}

// track updates the bound-fid guess from a request and its reply type.
func (c *k4Conn) track(t uint8, m interface{}, rtyp string) {
	switch t {
	case 104:
		if rtyp == "rtyp=105" {
			c.bound[fieldUint(m, "fid")] = true
		}
	case 110, 126, 30:
		if rtyp == "rtyp=111" || rtyp == "rtyp=127" || rtyp == "rtyp=31" {
			c.bound[fieldUint(m, "newFID")] = true
		}
	case 120, 122:
		delete(c.bound, fieldUint(m, "fid"))
	}
}

// exchange sends one request and waits for its reply (lock-step), returning the reply tokens.
func exchange(c *k4Conn, tag uint16, m interface{}) []string {
	var w sliceWriter
	if err := p9.VerifSend(&w, tag, m); err != nil {
		return []string{"senderr"}
	}
	if err := c.peer.write(w.b); err != nil {
		return []string{"writeerr"}
	}
	rep, err := c.peer.readFrame(8 * time.Second)
	if err != nil {
		return []string{"noreply"}
	}
	rt, rm, rerr := p9.VerifRecv(bytes.NewReader(rep), 8<<20)
	if rerr != nil {
		return []string{"undecodable-reply"}
	}
	toks := []string{fmt.Sprintf("rtyp=%d", p9.VerifTypeOf(rm)), fmt.Sprintf("rtag=%d", rt), fmt.Sprintf("rlen=%d", len(rep))}
	toks = append(toks, dumpMsg("r:", rm)...)
	// C13 monitor: no Rread / Rreaddir longer than the msize this connection negotiated
	if t := p9.VerifTypeOf(rm); (t == 117 || t == 41) && c.msize > 0 && uint32(len(rep)) > c.msize {
		toks = append(toks, fmt.Sprintf("oversize-reply=%d>%d", len(rep), c.msize))
	}
	if p9.VerifTypeOf(rm) == 101 {
		if ms := uint32(fieldUint(rm, "MSize")); ms != 0 {
			c.msize = ms
		}
	}
	return toks
}

// runK4: random request histories over two connections of one server, lock-step.
func runK4(r *rng, n int, adversarial bool) {
	hist := 0
	for done := 0; done < n; hist++ {
		errPm, panicPm := 0, 0
		switch r.intn(4) {
		case 1:
			errPm = 60
		case 2:
			errPm, panicPm = 100, 15
		case 3:
			errPm = 250
		}
		cf := r.chance(1, 3)
		be := newBackend(&rng{s: r.next()}, errPm, panicPm, cf)
		srv := p9.NewServer(be)
		conns := []*k4Conn{{peer: newServerPeer(srv), id: 0, bound: map[uint64]bool{}, faultFid: -1}, {peer: newServerPeer(srv), id: 1, bound: map[uint64]bool{}, faultFid: -1}}
		cfi := 0
		if cf {
			cfi = 1
		}
		emit("k4new cf=%d => ok", cfi)
		length := 20 + r.intn(120)
		dead := false
		for i := 0; i < length && !dead; i++ {
			c := conns[0]
			if r.chance(1, 4) {
				c = conns[1]
			}
			var t uint8
			var m interface{}
			switch {
			case i == 0 || (i == 1 && r.chance(2, 3)):
				// negotiate first (almost always) so that reads have buffers
				t = 100
				m, _ = p9.VerifNewMsg(100)
				for _, f := range p9.VerifFields(m) {
					if f.Path == "MSize" {
						f.Val.SetUint(8192)
					} else {
						f.Val.SetString("9P2000.L.Google.7")
					}
				}
				if i == 1 {
					c = conns[1]
				}
			case (i == 2 || i == 3) && r.chance(9, 10):
				// attach the root on fid 0 of each connection early, so that histories get deep
				t = 104
				m, _ = p9.VerifNewMsg(104)
				for _, f := range p9.VerifFields(m) {
					switch f.Path {
					case "fid":
						f.Val.SetUint(0)
					case "Auth.Authenticationfid":
						f.Val.SetUint(0xffffffff)
					}
				}
				c = conns[i-2]
			default:
				k4Bound = c.bound
				t, m = genRequest(r, adversarial)
				// after a request that failed inside the backend, often come back to the same fid at
				// once: state left behind by a half-done request shows on the next use
				if c.faultFid >= 0 && r.chance(1, 2) {
					ft := []uint8{116, 12, 118, 24, 40, 120, 110, 26}[r.intn(8)]
					fm, _ := p9.VerifNewMsg(ft)
					for _, f := range p9.VerifFields(fm) {
						switch {
						case f.Path == "fid" || f.Path == "Directory":
							f.Val.SetUint(uint64(c.faultFid))
						case f.Path == "newFID":
							f.Val.SetUint(k4Fids[r.intn(len(k4Fids))])
						case f.Path == "Count":
							f.Val.SetUint(uint64(r.intn(64)))
						}
					}
					t, m = ft, fm
				}
				c.faultFid = -1
				// I/O on a fid that was opened a moment ago (reads, writes, readdir, fsync reach the backend
				// only on opened fids: without this they are rare)
				if c.ioLeft > 0 && r.chance(1, 2) {
					c.ioLeft--
					ft := []uint8{116, 118, 118, 116, 40, 50}[r.intn(6)]
					t, m = ft, mk(ft, map[string]interface{}{"fid": uint64(c.ioFid), "Directory": uint64(c.ioFid), "Count": uint64(r.intn(64)),
						"Offset": uint64(r.intn(8)), "Data": r.bytesN(r.intn(12))})
				}
				if len(c.bound) == 0 && r.chance(3, 4) {
					// nothing bound (any more): attach again
					t = 104
					m, _ = p9.VerifNewMsg(104)
					for _, f := range p9.VerifFields(m) {
						switch f.Path {
						case "fid":
							f.Val.SetUint(k4Fids[r.intn(len(k4Fids))])
						case "Auth.Authenticationfid":
							f.Val.SetUint(0xffffffff)
						case "Auth.AttachName":
							f.Val.SetString(k4Attach[r.intn(len(k4Attach))])
						}
					}
				}
			}
			// in histories with panics: now and then the Open / Create of this very request panics (what a
			// handler has already recorded when its backend call blows up shows on the next use of the fid)
			if panicPm > 0 && (t == 12 || t == 14) && r.chance(1, 4) {
				be.mu.Lock()
				be.panicOn = map[uint8]string{12: "Open", 14: "Create"}[t]
				be.mu.Unlock()
			}
			tag := uint16(r.bits(16))
			lhs := append([]string{"k4", fmt.Sprintf("conn=%d", c.id), fmt.Sprintf("typ=%d", t), fmt.Sprintf("tag=%d", tag)}, dumpMsg("f:", m)...)
			rhs := exchange(c, tag, m)
			if len(rhs) > 0 {
				c.track(t, m, rhs[0])
				if (t == 12 && rhs[0] == "rtyp=13") || (t == 14 && rhs[0] == "rtyp=15") {
					c.ioFid, c.ioLeft = int64(fieldUint(m, "fid")), 3
				}
			}
			if len(rhs) > 0 && (rhs[0] == "noreply" || rhs[0] == "writeerr") {
				// the server ended the connection (or hangs): its stop() runs now; report the
				// request without calls and the teardown as this connection's k4stop line
				emit("%s tape=0 => %s", strings.Join(lhs, " "), rhs[0])
				done++
				c.peer.c.Close()
				ok := c.peer.waitDone(10 * time.Second)
				_, calls := be.takeLog()
				st := "returned"
				if !ok {
					st = "HUNG"
				}
				emit("k4stop conn=%d => handle=%s %s", c.id, st, strings.Join(calls, " "))
				c.stopped = true
				dead = true
				continue
			}
			tape, calls := be.takeLog()
			if len(rhs) > 0 && rhs[0] == "rtyp=7" && len(tape) > 0 {
				for _, fp := range []string{"fid", "Directory"} {
					for _, f := range p9.VerifFields(m) {
						if f.Path == fp {
							c.faultFid = int64(f.Val.Uint())
						}
					}
				}
			}
			lhs = append(lhs, fmt.Sprintf("tape=%d", len(tape)))
			lhs = append(lhs, tape...)
			rhs = append(rhs, calls...)
			count(fmt.Sprintf("req:typ%d", t))
			for _, x := range rhs {
				if strings.HasPrefix(x, "rtyp=") {
					count("rep:" + x)
				}
				if strings.HasPrefix(x, "r:Error=") {
					count("errno:" + strings.TrimPrefix(x, "r:Error="))
				}
			}
			emit("%s => %s", strings.Join(lhs, " "), strings.Join(rhs, " "))
			done++
		}
		for _, c := range conns {
			if c.stopped {
				continue
			}
			c.peer.c.Close()
			ok := c.peer.waitDone(10 * time.Second)
			_, calls := be.takeLog()
			st := "returned"
			if !ok {
				st = "HUNG"
			}
			emit("k4stop conn=%d => handle=%s %s", c.id, st, strings.Join(calls, " "))
		}
		emit("k4end panics=%d => %s", be.panics, be.lifecycle())
	}
}

func setFields(m interface{}, vals map[string]interface{}) {
	for _, f := range p9.VerifFields(m) {
		if v, ok := vals[f.Path]; ok {
			switch x := v.(type) {
			case uint64:
				f.Val.SetUint(x)
			case string:
				f.Val.SetString(x)
			case []string:
				f.Val.Set(reflect.ValueOf(x))
			case []byte:
				f.Val.SetBytes(x)
			case bool:
				f.Val.SetBool(x)
			}
		}
	}
}

func mk(t uint8, vals map[string]interface{}) interface{} {
	m, _ := p9.VerifNewMsg(t)
	setFields(m, vals)
	return m
}

// stepK4 sends one request on c and emits its k4 line.
func stepK4(be *backend, c *k4Conn, r *rng, t uint8, m interface{}) []string {
	tag := uint16(r.bits(16))
	lhs := append([]string{"k4", fmt.Sprintf("conn=%d", c.id), fmt.Sprintf("typ=%d", t), fmt.Sprintf("tag=%d", tag)}, dumpMsg("f:", m)...)
	rhs := exchange(c, tag, m)
	tape, calls := be.takeLog()
	lhs = append(lhs, fmt.Sprintf("tape=%d", len(tape)))
	lhs = append(lhs, tape...)
	rhs = append(rhs, calls...)
	emit("%s => %s", strings.Join(lhs, " "), strings.Join(rhs, " "))
	return rhs
}

// runK13: reads and directory reads with counts around the negotiated msize.
func runK13(r *rng, n int) {
	msizes := []uint64{24, 64, 100, 4096, 8192, 65536, 1 << 20, 4 << 20, 8 << 20}
	for i := 0; i < n; i++ {
		ms := msizes[r.intn(6)]
		if r.chance(1, 25) {
			ms = msizes[6+r.intn(3)] // the megabyte sizes are costly: rare
		}
		eff := ms
		if eff > 4<<20 {
			eff = 4 << 20
		}
		be := newBackend(&rng{s: r.next()}, 0, 0, false)
		be.fullReads = r.chance(2, 3)
		srv := p9.NewServer(be)
		c := &k4Conn{peer: newServerPeer(srv), id: 0, bound: map[uint64]bool{}, faultFid: -1}
		emit("k4new cf=0 => ok")
		stepK4(be, c, r, 100, mk(100, map[string]interface{}{"MSize": ms, "Version": "9P2000.L.Google.7"}))
		stepK4(be, c, r, 104, mk(104, map[string]interface{}{"fid": uint64(0), "Auth.Authenticationfid": uint64(0xffffffff)}))
		// fid 1: a regular file below the root (the backend decides the kind; retry a few names)
		stepK4(be, c, r, 110, mk(110, map[string]interface{}{"fid": uint64(0), "newFID": uint64(1), "Names": []string{"f"}}))
		stepK4(be, c, r, 12, mk(12, map[string]interface{}{"fid": uint64(1), "Flags": uint64(0)}))
		// fid 2: the root directory, opened for reading
		stepK4(be, c, r, 110, mk(110, map[string]interface{}{"fid": uint64(0), "newFID": uint64(2), "Names": []string{}}))
		stepK4(be, c, r, 12, mk(12, map[string]interface{}{"fid": uint64(2), "Flags": uint64(0)}))
		counts := []uint64{0, 1, eff - 12, eff - 11, eff - 10, eff - 1, eff, eff + 1, 4 << 20, 4<<20 + 1, 0xffffffff, uint64(r.intn(int(eff) + 1))}
		for k := 0; k < 6; k++ {
			cnt := counts[r.intn(len(counts))]
			stepK4(be, c, r, 116, mk(116, map[string]interface{}{"fid": uint64(1), "Offset": uint64(r.intn(100)), "Count": cnt}))
			cnt = counts[r.intn(len(counts))]
			be.manyDirents = int(eff/30) + 2
			if be.manyDirents > 400 {
				be.manyDirents = 400
			}
			stepK4(be, c, r, 40, mk(40, map[string]interface{}{"Directory": uint64(2), "Offset": uint64(0), "Count": cnt}))
		}
		// the msize is negotiated down on the same connection after reads have happened: replies
		// must fit the *new* msize (buffers pooled under the old one must not be used at their old size)
		if eff >= 4096 && eff <= 1<<20 && r.chance(1, 2) {
			ms2 := eff / 4
			stepK4(be, c, r, 100, mk(100, map[string]interface{}{"MSize": ms2, "Version": "9P2000.L.Google.7"}))
			for k := 0; k < 3; k++ {
				cnt := []uint64{ms2 - 12, ms2 - 11, ms2 - 10, ms2, ms2 + 1, eff - 11, eff, 4 << 20}[r.intn(8)]
				stepK4(be, c, r, 116, mk(116, map[string]interface{}{"fid": uint64(1), "Offset": uint64(r.intn(100)), "Count": cnt}))
			}
			eff = ms2
			counts = []uint64{0, 1, eff - 12, eff - 11, eff - 10, eff - 1, eff, eff + 1, 4 << 20, 0xffffffff}
		}
		// reads through an xattr fid whose value is longer than a frame can carry
		if eff >= 4096 && eff <= 65536 {
			be.mu.Lock()
			be.bigXattr = int(eff) + 64
			be.mu.Unlock()
			stepK4(be, c, r, 30, mk(30, map[string]interface{}{"fid": uint64(0), "newFID": uint64(3), "Name": "user.big"}))
			for k := 0; k < 4; k++ {
				cnt := counts[r.intn(len(counts))]
				stepK4(be, c, r, 116, mk(116, map[string]interface{}{"fid": uint64(3), "Offset": uint64(r.intn(40)), "Count": cnt}))
			}
		}
		c.peer.c.Close()
		ok := c.peer.waitDone(10 * time.Second)
		_, calls := be.takeLog()
		st := "returned"
		if !ok {
			st = "HUNG"
		}
		emit("k4stop conn=0 => handle=%s %s", st, strings.Join(calls, " "))
		emit("k4end panics=0 => %s", be.lifecycle())
		count(fmt.Sprintf("msize=%d", ms))
	}
}
