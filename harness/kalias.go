package main

import (
	"encoding/binary"
	"runtime"
	"strconv"
	"strings"
	"sync"
	"time"

	"github.com/hugelgupf/p9/p9"
)

// runKalias: a decoded request is a function of its own frame alone, *for as long as it is in use*
// (C01/C02/C18; C03: the backend gets the arguments the client sent).  A request with string or
// payload arguments is held inside its backend call; further frames arrive on the same and on
// another connection of the process – same message type with other strings of the same lengths,
// and other types – and are decoded while the first is still in its handler.  When the held call
// goes on, its arguments must read as they did when it began (backend.intact), and the request
// must be answered as usual.
func runKalias(r *rng, n int) {
	type op struct {
		name, meth string
		typ        uint8
		vals, other func(k int) map[string]interface{}
	}
	long := func(c byte, l int) string { return strings.Repeat(string(c), l) }
	ops := []op{
		{"mkdir", "Mkdir", 72,
			func(int) map[string]interface{} { return map[string]interface{}{"Directory": uint64(1), "Name": "quarterly-report"} },
			func(k int) map[string]interface{} { return map[string]interface{}{"Directory": uint64(2), "Name": long(byte('A'+k), 16)} }},
		{"symlink", "Symlink", 16,
			func(int) map[string]interface{} { return map[string]interface{}{"Directory": uint64(1), "Name": "link-name", "Target": "the/target/path"} },
			func(k int) map[string]interface{} { return map[string]interface{}{"Directory": uint64(2), "Name": long(byte('a'+k), 9), "Target": long(byte('0'+k), 15)} }},
		{"mknod", "Mknod", 18,
			func(int) map[string]interface{} { return map[string]interface{}{"Directory": uint64(1), "Name": "device-node", "Mode": uint64(0644)} },
			func(k int) map[string]interface{} { return map[string]interface{}{"Directory": uint64(2), "Name": long(byte('N'+k), 11), "Mode": uint64(0644)} }},
		{"walk", "WalkGetAttr", 110,
			func(int) map[string]interface{} { return map[string]interface{}{"fid": uint64(1), "newFID": uint64(30), "Names": []string{"first-component"}} },
			func(k int) map[string]interface{} { return map[string]interface{}{"fid": uint64(2), "newFID": uint64(40 + k), "Names": []string{long(byte('w'-k), 15)}} }},
		{"unlinkat", "UnlinkAt", 76,
			func(int) map[string]interface{} { return map[string]interface{}{"Directory": uint64(1), "Name": "doomed-entry"} },
			func(k int) map[string]interface{} { return map[string]interface{}{"Directory": uint64(2), "Name": long(byte('U'-k), 12)} }},
		{"write", "WriteAt", 118,
			func(int) map[string]interface{} { return map[string]interface{}{"fid": uint64(3), "Offset": uint64(7), "Data": []byte(long('d', 300))} },
			func(k int) map[string]interface{} { return map[string]interface{}{"fid": uint64(4), "Offset": uint64(9), "Data": []byte(long(byte('e'+k), 300))} }},
	}
	for i := 0; i < n && !tooManyHangs(); i++ {
		if i%(len(ops)+2) == len(ops) {
			kaliasReads(r)
			continue
		}
		if i%(len(ops)+2) == len(ops)+1 {
			kaliasReaddirs(r)
			continue
		}
		o := ops[i%(len(ops)+2)]
		s := newK7(r, 2)
		s.be.noENOSYS = true
		// fids: 1, 2 = two directories; 3, 4 = two files opened for writing
		s.walk(0, 0, 1, p9.ModeDirectory|0755, "d1")
		s.walk(0, 0, 2, p9.ModeDirectory|0755, "d2")
		s.walk(0, 0, 3, p9.ModeRegular|0644, "f1")
		s.walk(0, 0, 4, p9.ModeRegular|0644, "f2")
		s.call(0, 12, map[string]interface{}{"fid": uint64(3), "Flags": uint64(1)})
		s.call(0, 12, map[string]interface{}{"fid": uint64(4), "Flags": uint64(1)})
		s.walk(1, 0, 2, p9.ModeDirectory|0755, "d2")
		g := s.g.arm(o.meth, 0)
		held := s.send(0, o.typ, o.vals(0))
		formed, answered := 0, 0
		if g.waitEntered(2 * time.Second) {
			formed = 1
			// later frames: same type (other strings, same lengths) and getattrs, on both connections
			extra := 2 + r.intn(6)
			for k := 0; k < extra; k++ {
				s.send(k%2, 24, map[string]interface{}{"fid": uint64(2)})
				if o.name != "write" || k%2 == 0 { // fid 4 lives on connection 0 only
					s.send(k%2, o.typ, o.other(k))
				}
			}
			// let them be received and decoded (their handlers may wait for locks: that is fine)
			time.Sleep(time.Duration(5+r.intn(20)) * time.Millisecond)
			close(g.release)
			deadline := time.Now().Add(12 * time.Second)
			for time.Now().Before(deadline) {
				tag, _, _, ok := s.recvReply(0, 6*time.Second)
				if !ok {
					break
				}
				if tag == held {
					answered = 1
					break
				}
			}
		}
		// everything else drains while the session closes
		s.be.mu.Lock()
		changed := 0
		for _, u := range s.be.uac {
			if strings.HasPrefix(u, "argchanged:") {
				changed++
			}
		}
		s.be.mu.Unlock()
		s.close()
		count("op:" + o.name)
		if formed == 1 {
			emit("kalias op=%s => answered=%d changed=%d", o.name, answered, changed)
		}
	}
}

// kaliasReads: many reads in flight on one connection, each answered with the bytes the backend
// produced for *that* request (the backend fills a read with byte(offset)).
func kaliasReads(r *rng) {
	// a third of the runs with megabyte frames: whatever is done to a buffer after its reply went out
	// (scrubbing, handing it on) then takes long enough to meet the next request
	big := r.chance(1, 3)
	var s *k7Sess
	if big {
		be := newBackend(&rng{s: r.next()}, 0, 0, false)
		be.dirRoot = true
		srv := p9.NewServer(be)
		s = &k7Sess{be: be, g: &gater{}, srv: srv, conns: []*rawPeer{newServerPeer(srv)}}
		s.call(0, 100, map[string]interface{}{"MSize": uint64(1 << 20), "Version": "9P2000.L.Google.7"})
		s.call(0, 104, map[string]interface{}{"fid": uint64(0), "Auth.Authenticationfid": uint64(0xffffffff)})
	} else {
		s = newK7(r, 1)
	}
	s.be.fillByOff = true
	s.be.fullReads = true
	nf := 2 + r.intn(3)
	for f := 0; f < nf; f++ {
		s.walk(0, 0, uint64(10+f), p9.ModeRegular|0644, "r"+string(rune('a'+f)))
		s.call(0, 12, map[string]interface{}{"fid": uint64(10 + f), "Flags": uint64(0)})
		// reads that come back empty first (end of file, zero length): whatever they do with their
		// buffer must not leave it to two later reads at once
		for k := 0; k < 1+r.intn(3); k++ {
			s.call(0, 116, map[string]interface{}{"fid": uint64(10 + f), "Offset": uint64(5), "Count": uint64(0)})
		}
	}
	// more reply bytes than the socket buffers hold, and nobody reads yet: reply writers block while
	// later handlers run
	rounds, bad, got, sent := 60+r.intn(40), 0, 0, 0
	if big {
		rounds = 8 + r.intn(8)
	}
	offOf := map[uint16]byte{}
	cnt := func() uint64 {
		if big {
			return uint64(900000 + r.intn(148000))
		}
		return uint64(6000 + r.intn(2181))
	}
	var mu sync.Mutex
	check := func(f []byte) {
		mu.Lock()
		want := offOf[binary.LittleEndian.Uint16(f[5:])]
		mu.Unlock()
		for _, x := range f[11:] {
			if x != want {
				bad++
				break
			}
		}
	}
	if big {
		// a steady flow: eight reads in flight, every reply read at once and the next request sent –
		// what several readers (or one multi-chunk ReadAt after the other) look like to the server
		total := rounds * nf
		inflight := make(chan struct{}, 8)
		done := make(chan struct{})
		go func() {
			defer close(done)
			for k := 0; k < total; k++ {
				f, err := s.conns[0].readFrame(10 * time.Second)
				if err != nil || len(f) < 11 || f[4] != 117 {
					return
				}
				got++
				check(f)
				<-inflight
			}
		}()
	send:
		for k := 0; k < total; k++ {
			select {
			case inflight <- struct{}{}:
			case <-done:
				break send
			}
			off := uint64(1 + k%250)
			mu.Lock()
			s.tag++
			tag := s.tag
			offOf[tag] = byte(off)
			mu.Unlock()
			s.conns[0].write(s.frame(116, tag, map[string]interface{}{"fid": uint64(10 + k%nf), "Offset": off, "Count": cnt()}))
			sent++
		}
		select {
		case <-done:
		case <-time.After(15 * time.Second):
		}
	} else {
		for k := 0; k < rounds; k++ {
			for f := 0; f < nf; f++ {
				off := uint64(1 + (k*nf+f)%250)
				tag := s.send(0, 116, map[string]interface{}{"fid": uint64(10 + f), "Offset": off, "Count": cnt()})
				offOf[tag] = byte(off)
				sent++
			}
		}
		time.Sleep(20 * time.Millisecond)
		for k := 0; k < sent; k++ {
			f, err := s.conns[0].readFrame(10 * time.Second)
			if err != nil || len(f) < 11 || f[4] != 117 {
				break
			}
			got++
			check(f)
		}
	}
	s.close()
	count("op:reads")
	ans := 0
	if got == sent {
		ans = 1
	}
	emit("kalias op=reads => answered=%d changed=%d", ans, bad)
}

// kaliasReaddirs: directory listings in flight on several connections of the process at once, the
// reply writers blocked for a while: every Rreaddir carries the entries the backend produced for
// *its* directory (the backend names each entry after the handle it was asked on).
func kaliasReaddirs(r *rng) {
	nc := 2 + r.intn(3)
	// half of the runs on a single P: whatever one reply leaves in a per-P cache (sync.Pool) is what the
	// next reply built on that P picks up
	if r.chance(1, 2) {
		old := runtime.GOMAXPROCS(1)
		defer runtime.GOMAXPROCS(old)
	}
	s := newK7(r, nc)
	s.be.direntsByH = true
	s.be.manyDirents = 150
	hs := make([]int, nc)
	for c := 0; c < nc; c++ {
		hs[c] = s.walk(c, 0, 1, p9.ModeDirectory|0755, "dir"+string(rune('a'+c)))
		s.call(c, 12, map[string]interface{}{"fid": uint64(1), "Flags": uint64(0)})
	}
	rounds := 70 + r.intn(30) // more reply bytes per connection than its socket buffers hold
	for k := 0; k < rounds; k++ {
		for c := 0; c < nc; c++ {
			s.send(c, 40, map[string]interface{}{"Directory": uint64(1), "Offset": uint64(k), "Count": uint64(7000 + r.intn(1000))})
		}
	}
	time.Sleep(20 * time.Millisecond)
	bad, got := 0, 0
	var mu sync.Mutex
	var wg sync.WaitGroup
	for c := 0; c < nc; c++ {
		wg.Add(1)
		go func(c int) {
			defer wg.Done()
			want := "h" + itoa(hs[c]) + "-"
			for k := 0; k < rounds; k++ {
				f, err := s.conns[c].readFrame(10 * time.Second)
				if err != nil || len(f) < 11 || f[4] != 41 {
					return
				}
				b := f[11:]
				wrong := false
				for len(b) >= 24 {
					l := int(binary.LittleEndian.Uint16(b[22:]))
					if 24+l > len(b) {
						wrong = true
						break
					}
					if !strings.HasPrefix(string(b[24:24+l]), want) {
						wrong = true
					}
					b = b[24+l:]
				}
				mu.Lock()
				got++
				if wrong || len(b) != 0 {
					bad++
				}
				mu.Unlock()
			}
		}(c)
	}
	wg.Wait()
	s.close()
	count("op:readdirs")
	ans := 0
	if got == rounds*nc {
		ans = 1
	}
	emit("kalias op=readdirs => answered=%d changed=%d", ans, bad)
}

func itoa(n int) string { return strconv.Itoa(n) }
