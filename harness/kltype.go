package main

import (
	"net"
	"os"
	"path/filepath"
	"syscall"

	"github.com/hugelgupf/p9/fsimpl/localfs"
	"github.com/hugelgupf/p9/p9"
)

// runKltype: one file of every kind the host has – regular, directory, symlink, fifo, socket,
// character and block device – exported by localfs: the QID type that Walk and Readdir
// report equals the QID type of the mode GetAttr reports (C20 "the QID type always matches the
// file mode's type"; C19: listed entries agree with Walk / GetAttr).
func runKltype(r *rng, n int) {
	for round := 0; round < n; round++ {
		d, err := os.MkdirTemp("", "kltype")
		if err != nil {
			continue
		}
		made := map[string]bool{}
		if os.WriteFile(filepath.Join(d, "reg"), []byte("x"), 0644) == nil {
			made["reg"] = true
		}
		if os.Mkdir(filepath.Join(d, "dir"), 0755) == nil {
			made["dir"] = true
		}
		if os.Symlink("reg", filepath.Join(d, "sym")) == nil {
			made["sym"] = true
		}
		if syscall.Mkfifo(filepath.Join(d, "fifo"), 0644) == nil {
			made["fifo"] = true
		}
		if l, err := net.Listen("unix", filepath.Join(d, "sock")); err == nil {
			defer l.Close()
			made["sock"] = true
		}
		if syscall.Mknod(filepath.Join(d, "chr"), syscall.S_IFCHR|0600, 1<<8|3) == nil {
			made["chr"] = true
		}
		if syscall.Mknod(filepath.Join(d, "blk"), syscall.S_IFBLK|0600, 7<<8|r.intn(4)) == nil {
			made["blk"] = true
		}
		root, err := localfs.Attacher(d).Attach()
		if err != nil {
			os.RemoveAll(d)
			continue
		}
		// what Readdir lists
		listed := map[string]p9.QID{}
		if _, dir, err := root.Walk(nil); err == nil {
			if _, _, err := dir.Open(p9.ReadOnly); err == nil {
				if ents, err := dir.Readdir(0, 1<<20); err == nil {
					for _, e := range ents {
						listed[e.Name] = e.QID
					}
				}
			}
			dir.Close()
		}
		for _, name := range []string{"reg", "dir", "sym", "fifo", "sock", "chr", "blk"} {
			if !made[name] {
				continue
			}
			qs, f, err := root.Walk([]string{name})
			if err != nil || len(qs) != 1 {
				emit("kltype kind=%s m=0 => walkfailed=1", name)
				continue
			}
			q, _, attr, err := f.GetAttr(p9.AttrMask{Mode: true})
			if err != nil {
				emit("kltype kind=%s m=0 => getattrfailed=1", name)
				f.Close()
				continue
			}
			lq, lp := -1, 0
			if e, ok := listed[name]; ok {
				lq = int(e.Type)
				if e.Path == q.Path {
					lp = 1
				}
			}
			f.Close()
			count("kind:" + name)
			emit("kltype kind=%s m=%d => qt=%d attrqt=%d listedqt=%d listedsamepath=%d", name, uint32(attr.Mode), uint8(qs[0].Type), uint8(q.Type), lq, lp)
		}
		root.Close()
		os.RemoveAll(d)
	}
}
