package main

import (
	"encoding/binary"
	"fmt"
	"strings"
	"time"

	"github.com/hugelgupf/p9/p9"
)

// runK2srv: the receive loop *of the server* (handleRequest), not only recv: a rejected but
// well-delimited frame is answered with Rlerror under its own tag and the frames after it are
// still served; a size field below 7 or above the negotiated msize ends the connection – no
// reply, Handle returns – without waiting for the body (C02).
//
// Lock-step: every frame is sent after the reply to the previous one arrived.  Valid frames name
// unbound fids (answered EBADF), so every expected reply is an Rlerror with the frame's tag.
func runK2srv(r *rng, n int) {
	for i := 0; i < n && !tooManyHangs(); i++ {
		msize := []uint32{4096, 8192, 65536}[r.intn(3)]
		peer := newServerPeer(p9.NewServer(nullAttacher{}))
		peer.write(rawFrame(100, 0xffff, cat(le32(msize), str9([]byte("9P2000.L.Google.7")))))
		if f, err := peer.readFrame(5 * time.Second); err != nil || f[4] != 101 {
			peer.close()
			continue
		}
		var stream []byte
		var got []string
		k := r.intn(6)
		tag := uint16(r.intn(60000))
		lost := 0
		for j := 0; j < k && lost == 0; j++ {
			tag++
			var f []byte
			switch r.intn(9) {
			case 7, 8: // Tflush of an idle tag: answered by a frame without a body (Rflush)
				f = rawFrame(108, tag, le16(uint16(r.intn(1000))))
			case 0:
				f = rawFrame(24, tag, cat(le32(7777), le64(0x7ff))) // Tgetattr, unbound fid
			case 1:
				f = rawFrame(120, tag, le32(7778)) // Tclunk, unbound fid
			case 2:
				f = rawFrame(116, tag, cat(le32(7779), le64(0), le32(10))) // Tread, unbound fid
			case 3: // unknown type, any body
				t := []uint8{0, 1, 2, 3, 4, 5, 10, 11, 99, 200, 254, 255}[r.intn(12)]
				f = rawFrame(t, tag, r.bytesN(r.intn(20)))
			case 4: // body too short for its type
				f = rawFrame(24, tag, r.bytesN(r.intn(11)))
			case 5: // inconsistent count: Twalk announcing more names than the body holds
				f = rawFrame(110, tag, cat(le32(7780), le32(7781), le16(uint16(1+r.intn(0xffff))), str9([]byte("a"))))
			default: // a string running past the frame
				f = rawFrame(72, tag, cat(le32(7782), le16(uint16(50+r.intn(1000))), []byte("ab")))
			}
			stream = append(stream, f...)
			peer.write(f)
			rep, err := peer.readFrame(8 * time.Second)
			if err != nil || len(rep) < 7 {
				lost = 1
				noteHang() // a frame that is never answered costs the whole wait: stop after a few
				break
			}
			got = append(got, fmt.Sprintf("%d:%d", binary.LittleEndian.Uint16(rep[5:]), rep[4]))
		}
		// the fatal frame: only its header (and a few body bytes at most) is ever sent
		var size uint32
		switch r.intn(4) {
		case 0:
			size = uint32(r.intn(7))
		case 1:
			size = msize + 1 + uint32(r.intn(4))
		case 2:
			size = msize + 1 + uint32(r.bits(20))
		default:
			size = uint32(r.bits(32)) | 0x80000000
		}
		hdr := cat(le32(size), []byte{24}, le16(tag+1))
		if r.chance(1, 2) {
			hdr = append(hdr, r.bytesN(r.intn(5))...)
		}
		// ... or the connection is cut inside a frame that is fine so far: a whole header and a part of
		// the body (any byte of any frame), then the peer goes away – Handle returns all the same
		cut := r.chance(1, 3)
		if cut {
			full := [][]byte{
				rawFrame(24, tag+1, cat(le32(7777), le64(0x7ff))),
				rawFrame(118, tag+1, cat(le32(7779), le64(0), le32(64), r.bytesN(64))),
				rawFrame(110, tag+1, cat(le32(7780), le32(7781), le16(2), str9([]byte("ab")), str9([]byte("cd")))),
			}[r.intn(3)]
			hdr = full[:1+r.intn(len(full)-1)]
		}
		ended, extra := 0, 0
		if lost == 0 {
			stream = append(stream, hdr...)
			peer.write(hdr)
			if cut {
				peer.c.Close()
			}
			if peer.waitDone(8 * time.Second) {
				ended = 1
			} else {
				noteHang() // a server that does not end the connection is left behind, possibly spinning: stop after a few
			}
			// whatever the server still wrote
			for {
				rep, err := peer.readFrame(50 * time.Millisecond)
				if err != nil || len(rep) < 7 {
					break
				}
				extra++
			}
		}
		peer.close()
		count(fmt.Sprintf("frames=%d", k))
		emit("k2srv msize=%d stream=%s => replies=%s lost=%d ended=%d extra=%d", msize, hx(stream), strings.Join(got, ","), lost, ended, extra)
	}
}
