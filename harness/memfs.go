package main

import (
	"fmt"

	"github.com/hugelgupf/p9/linux"
	"github.com/hugelgupf/p9/p9"
)

// memfs is a path-based in-memory file system in the style of localfs: a File is a path, resolved
// at every call; an opened File keeps the object (like a file descriptor). Objects have identities
// (inode numbers, from 1 = the root) that show in QID.Path; a regular file's content is its inode
// number in decimal. It refuses what POSIX refuses.
type mnode struct {
	ino      uint64
	mode     p9.FileMode
	children map[string]*mnode
}

type memfs struct {
	root    *mnode
	nextIno uint64
}

func newMemfs() *memfs {
	return &memfs{root: &mnode{ino: 1, mode: p9.ModeDirectory | 0755, children: map[string]*mnode{}}, nextIno: 2}
}

func (m *memfs) resolve(path []string) *mnode {
	n := m.root
	for _, c := range path {
		if n.children == nil {
			return nil
		}
		n = n.children[c]
		if n == nil {
			return nil
		}
	}
	return n
}

func (n *mnode) isDir() bool { return n.mode.IsDir() }

func (n *mnode) qid() p9.QID {
	return p9.QID{Type: n.mode.QIDType(), Version: 0, Path: n.ino}
}

func (n *mnode) content() []byte { return []byte(fmt.Sprint(n.ino)) }

// create makes a new object dir/name.
func (m *memfs) create(dir []string, name string, mode p9.FileMode) (*mnode, linux.Errno) {
	d := m.resolve(dir)
	if d == nil {
		return nil, linux.ENOENT
	}
	if !d.isDir() {
		return nil, linux.ENOTDIR
	}
	if _, ok := d.children[name]; ok {
		return nil, linux.EEXIST
	}
	n := &mnode{ino: m.nextIno, mode: mode}
	m.nextIno++
	if mode.IsDir() {
		n.children = map[string]*mnode{}
	}
	d.children[name] = n
	return n, 0
}

func (m *memfs) unlink(dir []string, name string) linux.Errno {
	d := m.resolve(dir)
	if d == nil {
		return linux.ENOENT
	}
	if !d.isDir() {
		return linux.ENOTDIR
	}
	n, ok := d.children[name]
	if !ok {
		return linux.ENOENT
	}
	if n.isDir() && len(n.children) > 0 {
		return linux.ENOTEMPTY
	}
	delete(d.children, name)
	return 0
}

func (m *memfs) rename(odir []string, oname string, ndir []string, nname string) linux.Errno {
	od, nd := m.resolve(odir), m.resolve(ndir)
	if od == nil || nd == nil {
		return linux.ENOENT
	}
	if !od.isDir() || !nd.isDir() {
		return linux.ENOTDIR
	}
	src, ok := od.children[oname]
	if !ok {
		return linux.ENOENT
	}
	if od == nd && oname == nname {
		return 0
	}
	// into its own subtree
	if hasPrefix(ndir, append(append([]string{}, odir...), oname)) {
		return linux.EINVAL
	}
	if dst, ok := nd.children[nname]; ok {
		switch {
		case dst == src:
			return 0
		case src.isDir() && !dst.isDir():
			return linux.ENOTDIR
		case !src.isDir() && dst.isDir():
			return linux.EISDIR
		case dst.isDir() && len(dst.children) > 0:
			return linux.ENOTEMPTY
		}
	}
	delete(od.children, oname)
	nd.children[nname] = src
	return 0
}
