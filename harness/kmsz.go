package main

import (
	"time"

	"github.com/hugelgupf/p9/p9"
)

// runKmsz: the size limit that applies to the frame after a Tversion is the one that Tversion
// negotiated (C02: "a size field above msize ends the connection without reading the body").
// Tversion(msize) ... Rversion, then one Twalk frame of a chosen length: answered iff it fits.
func le32at(b []byte, i int) uint32 {
	return uint32(b[i]) | uint32(b[i+1])<<8 | uint32(b[i+2])<<16 | uint32(b[i+3])<<24
}

func runKmsz(r *rng, n int) {
	for i := 0; i < n; i++ {
		be := newBackend(&rng{s: r.next()}, 0, 0, false)
		be.dirRoot = true
		srv := p9.NewServer(be)
		p := newServerPeer(srv)
		first := []uint64{8192, 65536, 4 << 20, 100}[r.intn(4)]
		second := []uint64{64, 100, 128, 256, 1024, 8192}[r.intn(6)]
		frame := func(t uint8, tag uint16, v map[string]interface{}) []byte {
			var w sliceWriter
			p9.VerifSend(&w, tag, mk(t, v))
			return w.b
		}
		ok := true
		ann := [2]uint32{}
		for k, ms := range []uint64{first, second} {
			p.write(frame(100, uint16(k+1), map[string]interface{}{"MSize": ms, "Version": "9P2000.L"}))
			if f, err := p.readFrame(5 * time.Second); err != nil || f[4] != 101 || len(f) < 11 {
				ok = false
			} else {
				ann[k] = le32at(f, 7)
			}
		}
		if !ok {
			p.close()
			continue
		}
		// a Twalk on an unbound fid with one long name: len = 7 + 4 + 4 + 2 + (2 + L)
		want := int(second) + []int{-40, -1, 0, 1, 2, 30, 200}[r.intn(7)]
		if want < 30 {
			want = 30
		}
		name := make([]byte, want-19)
		for j := range name {
			name[j] = 'n'
		}
		fr := frame(110, 9, map[string]interface{}{"fid": uint64(5), "newFID": uint64(6), "Names": []string{string(name)}})
		p.write(fr)
		reply := 0
		if f, err := p.readFrame(300 * time.Millisecond); err == nil && len(f) >= 7 {
			reply = 1
		}
		p.close()
		emit("kmsz first=%d second=%d len=%d => ann1=%d ann2=%d reply=%d", first, second, len(fr), ann[0], ann[1], reply)
	}
}
