#!/bin/sh
# Build the framework from files on disk only (offline). Run once after a fresh restore.
set -e
cd "$(dirname "$0")"
export GOFLAGS=-mod=mod GOPROXY=off GOSUMDB=off GOTOOLCHAIN=local CGO_ENABLED=0
mkdir -p build evidence replays
(cd extract && go build -o ../build/extract .)
cp /repo/go.sum harness/go.sum
(cd harness && go build -tags verif -o ../build/harness .)
./build/extract /repo lean/P9Model/Gen
(cd lean && lake build P9Model driver)
echo setup-ok
