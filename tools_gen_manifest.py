#!/usr/bin/env python3
"""Regenerates MANIFEST.json from checklib/props.py (run by hand after adding a property)."""
import json, os, sys, subprocess
ROOT = os.path.dirname(os.path.abspath(__file__))
sys.path.insert(0, os.path.join(ROOT, "checklib"))
import props
allp = [json.loads(l)["id"] for l in open(os.path.join(ROOT, "properties.jsonl"))]
hooks = subprocess.run(["git", "-C", "/repo", "log", "--format=%H %s"], stdout=subprocess.PIPE).stdout.decode().splitlines()
hook_commits = [l.split()[0] for l in hooks if l.split(" ", 1)[1].startswith("verif:")]
checks = []
for pid in allp:
    if pid not in props.PROPS or not props.PROPS[pid].get("claimed", True):
        continue
    c = props.PROPS[pid]
    checks.append({
        "property_id": pid,
        "quick_cmd": "./check %s --tier quick" % pid,
        "thorough_cmd": "./check %s --tier thorough" % pid,
        "evidence_file": "/verif/evidence/%s.json" % pid,
        "replay_cmd_template": "./check %s --replay {path}" % pid,
        "engine": "lean4-proof+correspondence",
        "level_claimed": {"category": "proof", "text": c["level_text"], "design_ref": c.get("design_ref", "DESIGN.md section 6 (%s)" % pid)},
        "level_note": c["level_note"],
        "technique": c.get("technique", "Lean 4 theorems over a model tied to the code by a regenerated fact table and a differential correspondence check"),
    })
na = [{"property_id": pid, "reason": props.NOT_YET.get(pid, "check not built yet in this round (work in progress; see DESIGN.md section 12)")}
      for pid in allp if pid not in [c["property_id"] for c in checks]]
m = {
    "version": 1,
    "setup_cmd": "./setup.sh",
    "hooks": {"guard": "verif", "enable": "go build -tags verif (add-only files p9/verif_export.go, ...)",
              "baseline_off_cmd": "cd /repo && go test -vet=off -count=1 ./p9/... ./fsimpl/composefs/... ./fsimpl/localfs/... ./fsimpl/qids/... ./fsimpl/staticfs/... ./vecnet/...",
              "source_commits": hook_commits, "add_only": True},
    "engines": [{"name": "lean4-proof+correspondence", "path": "/verif/check",
                 "serves_properties": [c["property_id"] for c in checks],
                 "kind_free_text": "Lean 4 (core only) model + theorems in /verif/lean; Go fact extractor /verif/extract regenerates lean/P9Model/Gen; Go harness /verif/harness (-tags verif) + compiled Lean driver run the correspondence; /verif/check orchestrates and writes evidence"}],
    "checks": checks,
    "not_applicable": na,
    "notes": "See DESIGN.md. known_findings.json lists genuine defects recorded rather than repaired and the fixed: entries.",
}
json.dump(m, open(os.path.join(ROOT, "MANIFEST.json"), "w"), indent=1)
print("checks:", [c["property_id"] for c in checks], "not yet:", [n["property_id"] for n in na])
