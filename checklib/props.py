"""Per-property configuration of /verif/check: which correspondence runs (harness mode, budget)
serve a property, how a disagreement is keyed, what counts as a non-trivial case."""
import hashlib
import re
import time

# budgets: (quick, thorough)
RUNS = {
    "C01": [
        {"name": "K1-codec", "mode": "k1", "budget": (6500, 130000), "nontrivial": r"recv=msg:",
         "keyfn": "k1"},
    ],
    "C02": [
        {"name": "K2-framing", "mode": "k2", "budget": (1500, 40000), "nontrivial": r"recv\d+=(msg|proto)", "keyfn": "k2"},
    ],
}

NOT_YET = {}

PROPS = {
    "C02": {
        "level_text": "Proof: recv1 is a total Lean function enumerating every return of Go's recv(); for any byte string: a bad size field "
                      "ends the connection after exactly 7 bytes, a well-delimited frame of any content is consumed exactly and its outcome "
                      "does not depend on what follows, buffers requested are <= min(msize,4MiB)-7, any mix of delimited frames yields one "
                      "outcome per frame and the loop resynchronises (induction over the frame list), truncated streams never yield a message.",
        "level_note": "Trusted: Lean kernel (standard axioms), the hand-written model recv1 of transport.go recv() tied by the K2 correspondence "
                      "(outcome, tag, decoded values and bytes consumed per call, on mutated/truncated/random streams), Go heap observed via "
                      "runtime.MemStats only (partial: peak allocation is a runtime quantity; the model bounds the sizes passed to make).",
        "rule": "K2: byte streams = 1..5 valid frames each mutated with probability 1/2 (unknown type, short/long body with adjusted size, bit "
                "flips, size field around 0/6/7/msize/4MiB/2^32-1, blown-up counts, truncation, random body), pure random bytes, and every "
                "truncation offset of two-frame streams; msize from {7,8,64,4096,8192,64K,1M,4M,8M,2^32-1}. Non-trivial = at least one call "
                "returned a message or a protocol error; distinct = distinct (msize, stream).",
        "assumptions": ["reader delivers the stream then EOF (segmentation is C17)", "allocation monitor: TotalAlloc delta per recv() call <= 64KiB + 3*declared size"],
        "trusted_base": ["Transport/Recv.lean: hand-written model of p9/transport.go recv()"],
    },
    "C01": {
        "level_text": "Proof: the generic layout codec round trip (dec (enc v ++ rest) = (norm v, rest)) and the frame round trip "
                      "recv1 (frame m ++ rest) = (msg tag (norm m), rest) are Lean theorems for every layout / every registered "
                      "message / all values; conformance of the 65 layouts, type numbers, mask bits and FixedSize values to the "
                      "9P2000.L tables is decided by `decide` over the table regenerated from messages.go/p9.go/buffer.go on every run.",
        "level_note": "Trusted: Lean kernel (axioms propext, Classical.choice, Quot.sound only), the extractor's reading of "
                      "b.WriteX(field)/b.ReadX() statements (cross-checked by K1 on every run), Spec/NineP.lean as my transcription of the protocol. "
                      "Modelled, not verified: Go's append/slicing, net.Buffers.WriteTo, sync.Pool reuse.",
        "rule": "K1: random boundary-biased values for all 65 registered message types (every type the same number of "
                "times) sent through the real send() and read back through the real recv(); the frame bytes and the "
                "decoded values are compared with the protocol-table serialiser (Spec.bytes / recv1 over Spec.messages). "
                "A case is non-trivial when the frame was accepted (recv=msg); distinct = distinct input lines.",
        "assumptions": [
            "messages are built through the struct fields the harness can reach by reflection (p9.VerifFields)",
            "fid values are < 2^32 (the Go type is uint64 but the wire field is fid[4]); strings < 65536 bytes; lists < 65536 entries"],
        "trusted_base": ["Spec/NineP.lean: my transcription of the 9P2000.L field tables and the binding of protocol fields to API names"],
    },
}


def plan(prop, tier, seed, failing, replay):
    runs = []
    for r in RUNS.get(prop, []):
        q, t = r["budget"]
        budget = t if (tier == "thorough" or failing) else q
        seeds = [seed] if tier == "quick" else [seed, seed * 7919 + 1, seed * 104729 + 2]
        for s in seeds:
            b = budget if tier == "quick" else budget // len(seeds)
            runs.append(dict(r, seed=s, n=b, name="%s/seed%d" % (r["name"], s)))
    return runs


def key_k1(m):
    t = re.search(r"typ=(\d+)", m["lhs"])
    diff = (m["impl_only"] + m["model_only"] + ["?"])[0].split("=")[0]
    return "k1:typ%s:%s" % (t.group(1) if t else "?", diff)


def key_generic(m):
    diff = (m["impl_only"] + m["model_only"] + ["?"])[0].split("=")[0]
    return "%s:%s" % (m["lhs"].split(" ", 1)[0], diff)


def key_k2(m):
    toks = m["impl_only"] + m["model_only"] + ["?"]
    for t in toks:
        if t.startswith("allocbad"):
            return "k2:allocation-beyond-frame"
        if "panic" in t:
            return "k2:panic"
    return "k2:" + re.sub(r"\d+", "", toks[0].split("=")[0])


KEYFNS = {"k1": key_k1, "k2": key_k2}


def execute(run, run_corr, sh, BUILD, REPO):
    t0 = time.time()
    lines, mism, stats, err = run_corr(run["mode"], run["seed"], run["n"], run.get("extra"))
    res = {"evaluations": len(lines), "mismatches": len(mism), "stats": stats, "problems": [], "samples": [], "distinct": set()}
    if err:
        res["problems"].append({"kind": "harness", "key": "harness:" + run["mode"], "what": err})
    nt = re.compile(run.get("nontrivial", "."))
    for l in lines:
        lhs, rhs = l.split(" => ", 1)
        if nt.search(rhs):
            res["distinct"].add(hashlib.sha1(lhs.encode()).hexdigest())
    for l in lines[:1] + lines[len(lines) // 2: len(lines) // 2 + 1]:
        res["samples"].append(l[:600])
    keyfn = KEYFNS.get(run.get("keyfn"), key_generic)
    seen = set()
    for m in mism:
        k = keyfn(m)
        if k in seen:
            continue
        seen.add(k)
        res["problems"].append({"kind": "correspondence", "key": k,
                                "what": "implementation and specification disagree on %s (mode %s seed %d case %d): impl-only %s / spec-only %s" % (
                                    k, run["mode"], run["seed"], m["index"], m["impl_only"][:3], m["model_only"][:3]),
                                "detail": m, "rerun": {"mode": run["mode"], "seed": run["seed"], "budget": run["n"], "index": m["index"]}})
    res["wall_s"] = round(time.time() - t0, 2)
    return res
