"""Per-property configuration of /verif/check: which correspondence runs (harness mode, budget)
serve a property, how a disagreement is keyed, what counts as a non-trivial case."""
import hashlib
import re
import time

# budgets: (quick, thorough)
RUNS = {
    "C01": [
        {"name": "K1-codec", "mode": "k1", "budget": (6500, 130000), "nontrivial": r"recv=msg:",
         "keyfn": "k1"},
        {"name": "K1-codec-primitives", "mode": "kprim", "budget": (30, 600), "nontrivial": r"out=x..|overrun=0", "keyfn": "generic"},
        {"name": "K3-reconstruction-over-both-read-paths", "mode": "k3", "budget": (120, 3000), "nontrivial": r"recv\d+=(msg|proto)", "keyfn": "generic"},
        {"name": "K7-messages-intact-while-in-use", "mode": "kalias", "budget": (96, 1600), "nontrivial": r"answered=1", "keyfn": "generic"},
    ],
    "C11": [
        {"name": "K6-chunk", "mode": "kchunk", "budget": (20000, 400000), "nontrivial": r"calls=\d+@\d+,", "keyfn": "generic"},
        {"name": "K6-client-io", "mode": "kneg", "budget": (1500, 30000), "nontrivial": r"ok=1", "keyfn": "generic"},
        {"name": "K3-large-transfers-over-both-read-paths", "mode": "k3", "budget": (60, 1500), "nontrivial": r"recv\d+=(msg|proto)", "keyfn": "generic"},
        {"name": "K7-messages-intact-while-in-use", "mode": "kalias", "budget": (96, 1600), "nontrivial": r"answered=1", "keyfn": "generic"},
    ],
    "C12": [
        {"name": "K6-version", "mode": "kver", "budget": (10000, 60000), "nontrivial": r"ok=1|rmsize=[1-9]", "keyfn": "generic"},
        {"name": "K6-negotiate", "mode": "kneg", "budget": (1500, 30000), "nontrivial": r"ok=1", "keyfn": "generic"},
        {"name": "K6-renegotiate", "mode": "kmsz", "budget": (300, 10000), "nontrivial": r"ann2=", "keyfn": "generic"},
    ],
    "C20": [
        {"name": "K8-qid", "mode": "kqid", "budget": (4000, 120000), "nontrivial": r"ok=0|q=9223|path=", "keyfn": "generic"},
        {"name": "K8-mode-table", "mode": "kmode", "budget": (2000, 50000), "nontrivial": r"back=", "keyfn": "generic", "exhaustive": True},
        {"name": "K8-mapper-concurrent", "mode": "kmapc", "budget": (30, 600), "nontrivial": r".", "keyfn": "generic"},
        {"name": "K8-mapper-never-forgets", "mode": "kmapbig", "budget": (3, 40), "nontrivial": r".", "keyfn": "generic"},
        {"name": "K8-qid-type-of-every-host-file-kind", "mode": "kltype", "budget": (2, 20), "nontrivial": r"kind=", "keyfn": "generic"},
        {"name": "K8-qids-through-the-composed-fs", "mode": "kcompose", "budget": (4, 60), "nontrivial": r"same=1|first=1", "keyfn": "generic"},
        {"name": "K8-concurrent-first-lookups", "mode": "kltqc", "budget": (600, 20000), "nontrivial": r"distinct=1", "keyfn": "generic"},
    ],
    "C17": [
        {"name": "K3-segmentation", "mode": "k3", "budget": (120, 3000), "nontrivial": r"recv\d+=(msg|proto)", "keyfn": "generic"},
    ],
    "C04": [
        {"name": "K4-session", "mode": "k4", "budget": (12000, 150000), "nontrivial": r"^rtyp=(?!7 )", "keyfn": "k4"},
        {"name": "K7-scenarios", "mode": "k7scen", "budget": (6, 100), "nontrivial": r".", "keyfn": "k7scen"},
    ],
    "C05": [
        {"name": "K4-session-lifecycle", "mode": "k4", "budget": (12000, 150000), "nontrivial": r"close=|^rtyp=(?!7 )", "keyfn": "k4", "monitor": "lifecycle"},
        {"name": "K2-connection-cut-inside-a-frame", "mode": "k2srv", "budget": (400, 12000), "nontrivial": r"ended=1", "keyfn": "generic"},
        {"name": "K7-concurrent-lifecycle", "mode": "k7storm", "budget": (60, 2500), "nontrivial": r".", "keyfn": "generic"},
        {"name": "K7-scenarios", "mode": "k7scen", "budget": (8, 150), "nontrivial": r".", "keyfn": "k7scen"},
    ],
    "C09": [
        {"name": "K4-session-names", "mode": "k4", "budget": (12000, 150000), "nontrivial": r" c\d+=", "keyfn": "k4", "monitor": "names"},
        {"name": "K7-unlink-excludes-walks-out-of-the-entry", "mode": "k7pair", "budget": (1058, 3174), "nontrivial": r"overlap=0", "keyfn": "k7pair"},
    ],
    "C15": [
        {"name": "K4-session-faults", "mode": "k4", "budget": (12000, 150000), "nontrivial": r"r:Error=(14|5|2|13|17|20|28|30|11|39|61)\b", "keyfn": "k4", "monitor": "lifecycle"},
        {"name": "K7-scenarios", "mode": "k7scen", "budget": (8, 150), "nontrivial": r".", "keyfn": "k7scen"},
    ],
    "C13": [
        {"name": "K4-read-boundaries", "mode": "k13", "budget": (150, 4000), "nontrivial": r"^rtyp=(117|41) ", "keyfn": "k4"},
        {"name": "K6-client-sizing", "mode": "kneg", "budget": (1500, 30000), "nontrivial": r"ok=1", "keyfn": "generic"},
        {"name": "K4-requests-above-4MiB", "mode": "k13big", "budget": (40, 1200), "nontrivial": r"rlen=41943", "keyfn": "generic"},
        {"name": "K6-long-xattr-values", "mode": "kxattr", "budget": (120, 4000), "nontrivial": r"whole=1", "keyfn": "generic"},
    ],
    "C18": [
        {"name": "K1-recycling-histories", "mode": "k18", "budget": (1500, 40000), "nontrivial": r"recv1=msg", "keyfn": "k2"},
        {"name": "K4-args-and-read-data", "mode": "k4", "budget": (3000, 60000), "nontrivial": r" c\d+=|^rtyp=117", "keyfn": "k4"},
        {"name": "K4-read-buffer-reuse", "mode": "k13", "budget": (60, 1500), "nontrivial": r"^rtyp=(117|41) ", "keyfn": "k4"},
        {"name": "K7-scenarios", "mode": "k7scen", "budget": (10, 200), "nontrivial": r".", "keyfn": "k7scen"},
        {"name": "K2-stale-receive-buffers", "mode": "k2", "budget": (1000, 25000), "nontrivial": r"recv\d+=(msg|proto)", "keyfn": "k2"},
        {"name": "K7-reply-content-under-concurrency", "mode": "k7tags", "budget": (90, 2000), "nontrivial": r"missing=0", "keyfn": "generic"},
        {"name": "K7-replies-across-connections", "mode": "kxconn", "budget": (6, 120), "nontrivial": r"bad=0", "keyfn": "generic"},
        {"name": "K6-client-replies-keep-their-content", "mode": "kmux", "budget": (600, 6000), "nontrivial": r".", "keyfn": "generic"},
        {"name": "K7-messages-intact-while-in-use", "mode": "kalias", "budget": (96, 1600), "nontrivial": r"answered=1", "keyfn": "generic"},
    ],
    "C19": [
        {"name": "K8-readdir", "mode": "k19", "budget": (600, 6000), "nontrivial": r"pages=([3-9]|\d\d)", "keyfn": "generic"},
        {"name": "K8-mapper-concurrent", "mode": "kmapc", "budget": (30, 600), "nontrivial": r".", "keyfn": "generic"},
        {"name": "K4-readdir-replies-within-msize", "mode": "k13", "budget": (60, 1500), "nontrivial": r"^rtyp=(117|41) ", "keyfn": "k4"},
        {"name": "K8-mapper-never-forgets", "mode": "kmapbig", "budget": (3, 40), "nontrivial": r".", "keyfn": "generic"},
        {"name": "K8-qid-type-of-every-host-file-kind", "mode": "kltype", "budget": (2, 20), "nontrivial": r"kind=", "keyfn": "generic"},
        {"name": "K8-qids-through-the-composed-fs", "mode": "kcompose", "budget": (4, 60), "nontrivial": r"same=1|first=1", "keyfn": "generic"},
    ],
    "C03": [
        {"name": "K6-client-server", "mode": "kcs", "budget": (6000, 60000), "nontrivial": r" c0=", "keyfn": "kcs"},
        {"name": "K4-same-handle-after-a-failed-call", "mode": "k4", "budget": (12000, 150000), "nontrivial": r"^rtyp=(?!7 )", "keyfn": "k4"},
        {"name": "K6-long-xattr-values", "mode": "kxattr", "budget": (40, 600), "nontrivial": r"whole=1", "keyfn": "generic"},
        {"name": "K5-current-name-after-renames", "mode": "k5", "budget": (12000, 120000), "nontrivial": r"ok=1|^rtyp=(?!7 )", "keyfn": "k5"},
        {"name": "K6-fid-in-flight", "mode": "kmuxfid", "budget": (60, 2000), "nontrivial": r"formed=1", "keyfn": "generic"},
        {"name": "K7-messages-intact-while-in-use", "mode": "kalias", "budget": (96, 1600), "nontrivial": r"answered=1", "keyfn": "generic"},
    ],
    "C10": [
        {"name": "K6-pool", "mode": "kpool", "budget": (10000, 100000), "nontrivial": r"x", "keyfn": "generic"},
        {"name": "K6-mux", "mode": "kmux", "budget": (1500, 15000), "nontrivial": r".", "keyfn": "generic"},
        {"name": "K6-reply-before-the-sender-returns", "mode": "kearly", "budget": (12, 300), "nontrivial": r"aok=1", "keyfn": "generic"},
        {"name": "K6-fid-in-flight", "mode": "kmuxfid", "budget": (60, 2000), "nontrivial": r"formed=1", "keyfn": "generic"},
        {"name": "K6-failed-send-leaves-nothing", "mode": "kstale", "budget": (40, 1500), "nontrivial": r"formed=1", "keyfn": "generic"},
    ],
    "C06": [
        {"name": "K7-tags", "mode": "k7tags", "budget": (120, 3000), "nontrivial": r"missing=0", "keyfn": "generic"},
        {"name": "K7-replies-across-connections", "mode": "kxconn", "budget": (6, 120), "nontrivial": r"bad=0", "keyfn": "generic"},
        {"name": "K7-tag-reuse", "mode": "k7reuse", "budget": (20, 400), "nontrivial": r".", "keyfn": "generic"},
        {"name": "K7-mutual-flushes", "mode": "kmutual", "budget": (60000, 2000000), "nontrivial": r"stuck=0", "keyfn": "generic"},
        {"name": "K7-flush-replies", "mode": "k7flush", "budget": (60, 1500), "nontrivial": r"rflush=1", "keyfn": "generic"},
        {"name": "K7-pairs-delay", "mode": "k7pair", "budget": (1058, 3174), "nontrivial": r"overlap=1", "keyfn": "k7pair"},
        {"name": "K7-scenarios", "mode": "k7scen", "budget": (8, 150), "nontrivial": r".", "keyfn": "k7scen"},
        {"name": "K7-tags-race", "mode": "k7tags", "budget": (0, 300), "nontrivial": r"missing=0", "keyfn": "generic", "race": True, "tiers": ["thorough"]},
    ],
    "C07": [
        {"name": "K7-pairs", "mode": "k7pair", "budget": (1058, 3174), "nontrivial": r"overlap=0", "keyfn": "k7pair"},
        {"name": "K7-scenarios", "mode": "k7scen", "budget": (8, 150), "nontrivial": r".", "keyfn": "k7scen"},
    ],
    "C14": [
        {"name": "K7-flush", "mode": "k7flush", "budget": (150, 4000), "nontrivial": r"rflush=1", "keyfn": "generic"},
        {"name": "K7-scenarios", "mode": "k7scen", "budget": (6, 120), "nontrivial": r".", "keyfn": "k7scen"},
    ],
    "C16": [
        {"name": "K7-random-workloads", "mode": "k7rand", "budget": (12, 300), "nontrivial": r".", "keyfn": "generic"},
        {"name": "K7-shared-path-storm", "mode": "k7storm", "budget": (60, 2500), "nontrivial": r".", "keyfn": "generic"},
        {"name": "K7-scenarios", "mode": "k7scen", "budget": (8, 150), "nontrivial": r".", "keyfn": "k7scen"},
        {"name": "K7-random-workloads-race", "mode": "k7rand", "budget": (0, 90), "nontrivial": r".", "keyfn": "generic", "race": True, "tiers": ["thorough"]},
        {"name": "K7-shared-path-storm-race", "mode": "k7storm", "budget": (150, 600), "nontrivial": r".", "keyfn": "generic", "race": True},
        {"name": "K7-pairs-race", "mode": "k7pair", "budget": (0, 968), "nontrivial": r".", "keyfn": "k7pair", "race": True, "tiers": ["thorough"]},
        {"name": "K4-session-race", "mode": "k4", "budget": (0, 9000), "nontrivial": r"^rtyp=(?!7 )", "keyfn": "k4", "race": True, "tiers": ["thorough"]},
        {"name": "K7-buffers-not-shared-between-requests", "mode": "kalias", "budget": (96, 1600), "nontrivial": r"answered=1", "keyfn": "generic"},
    ],
    "C08": [
        {"name": "K5-path-coherence", "mode": "k5", "budget": (12000, 120000), "nontrivial": r"^rtyp=(75|21|77|123) |^ok=1", "keyfn": "k5"},
    ],
    "C02": [
        {"name": "K2-framing", "mode": "k2", "budget": (1500, 40000), "nontrivial": r"recv\d+=(msg|proto)", "keyfn": "k2"},
        {"name": "K1-codec-primitives", "mode": "kprim", "budget": (30, 600), "nontrivial": r"out=x..|overrun=0", "keyfn": "generic"},
        {"name": "K2-server-receive-loop", "mode": "k2srv", "budget": (400, 12000), "nontrivial": r"replies=\d", "keyfn": "generic"},
        {"name": "K2-limit-after-version", "mode": "kmsz", "budget": (400, 20000), "nontrivial": r"reply=0", "keyfn": "generic"},
        {"name": "K3-both-read-paths", "mode": "k3", "budget": (40, 1000), "nontrivial": r"recv\d+=(msg|proto)", "keyfn": "generic"},
        {"name": "K7-messages-intact-while-in-use", "mode": "kalias", "budget": (96, 1600), "nontrivial": r"answered=1", "keyfn": "generic"},
    ],
}

NOT_YET = {}

PROPS = {
    "C08": {
        "level_text": "Proof + oracle: on the session model (the path tree of path_tree.go/server.go transcribed): a handler of the shape LookupFID / "
                      "defer DecRef / body that tests the path node first refuses a fenced fid (live reference on a deleted node) with EINVAL - "
                      "Tlopen, Tlcreate, Tmkdir/Tsymlink/Tmknod, Tunlinkat, Tsetattr, Treadlink, Txattrwalk, Txattrcreate, Treaddir - and a walk with "
                      "names from a fenced directory with ENOENT, each without a backend call and with tape, fid table and path tree untouched "
                      "(generic lemma + per-handler theorems); markChildDeleted (unlink, rename over an entry) detaches the name and marks the "
                      "path node and every node reachable below it deleted (induction over the marking pass, any depth); nameFor returns the name a "
                      "reference is registered under now. Partial: that Renamed reaches every affected File with its new parent and name, and the "
                      "two-fid handlers (Trename, Trenameat, Tlink, Tremove) refuse fenced fids, is decided by the K5 correspondence: the session "
                      "model's Renamed multiset and replies against the server on every request, plus an independent identity oracle.",
        "level_note": "Trusted: Lean kernel; Session/Model.lean (hand-written, tied by K4/K5 on every request incl. the Renamed notifications); "
                      "Spec/Coherence.lean - the oracle: directory entries between object identities learnt from creating replies, fid -> object, "
                      "rename moves an object with its subtree, unlink/overwrite kills a subtree; judged per request from what the client sees "
                      "(identities in Rwalk/Rgetattr/Rattach, Rread content, errno, number of backend calls) - never the server's tree or the "
                      "backend's paths. Backend: harness/memfs.go, a path-resolving in-memory file system in the style of localfs (a File is a path, "
                      "an opened File keeps its object, POSIX refusals); no hard links (one entry per object).",
        "rule": "k5: histories of 60..220 requests on two connections over one server: walk 1..3 names, clone, mkdir, create, unlinkat, renameat, "
                "rename, remove, clunk, open, read, getattr, setattr/symlink/mknod/readlink/walkgetattr, names a/b/c (mostly existing ones), fids "
                "0..7 mostly bound, a fifth of the steps aimed at fids whose guessed path no longer resolves with one of 16 path-dependent "
                "requests. Per request a K4 line (session model) and a k5obs line (oracle); at the end the oracle must have judged >= 5 fenced "
                "requests, >= 50 identities and followed >= 5 renames. Non-trivial: successful rename/unlink/remove, judged observations.",
        "assumptions": ["I4: path-dependent = what the server fences; I7: a fenced non-directory refuses walks with EINVAL", "POSIX backend"],
        "trusted_base": ["Session/Model.lean", "Spec/Coherence.lean (oracle)", "harness/memfs.go", "Driver/K5.lean"],
    },
    "C06": {
        "level_text": "Proof: one server connection is a labelled transition system (Conc/ConnProto.lean: StartTag / WaitTag / wake / backend enter+leave / "
                      "handler return+ClearTag / reply write, per request record, any tags incl. duplicates and re-use); for every label sequence an "
                      "invariant proved by induction gives: a request has exactly one reply frame once answered and none before, every frame carries the "
                      "tag of the accepted request it answers, nothing else is written; a request whose tag is in flight is dropped; a Tflush of its own "
                      "or of an idle tag does not wait; an accepted request can always finish and be sent once its backend call returned. Regenerated "
                      "obligations over the lock scripts of server.go/handlers.go/path_tree.go/client.go: every frame is written under sendMu and read "
                      "under recvMu, no backend call runs under a leaf mutex (fidMu, tagMu, sendMu, recvMu, pendingMu, pool.mu), and a backend call under "
                      "childMu happens only inside the global rename lock. Partial: that a blocked request delays only contract-ordered ones is the "
                      "guard-compatibility model of C07 checked against the running server by the rendezvous harness.",
        "level_note": "Trusted: Lean kernel; Conc/ConnProto.lean is a hand-written model of handleRequest/StartTag/ClearTag/WaitTag/tflush.handle with "
                      "'send' atomic (justified by the sendMu obligation); the lock-script extractor (extract/locks.go: straight-line scripts with "
                      "branches, defers replayed LIFO, closures inlined at safely* / go sites). Tie: K7 - real server over socketpairs with a gated "
                      "backend: bursts of 4..64 requests with adversarial tags through a reply writer that splits every write and yields (frames must "
                      "parse contiguously, one reply per tag, none unasked), same tag while in flight and immediately after the reply, flushes of "
                      "own/idle/earlier tags, all ordered pairs of 22 operations with the first held inside the backend, a Close blocked in the backend.",
        "rule": "k7tags: burst size 4..63, tags base+k*(1..3) avoiding NOTAG, 0..3 requests gated and released after 0..20 ms, two thirds with the "
                "chunking writer; k7reuse: tag 7 thrice (in flight, after reply); k7flush: victim in {ReadAt, WriteAt, GetAttr, Walk} x chained flush; "
                "k7pair: window of the 968 (a, b, same/other connection) cases (all in thorough); thorough adds the race-detector build.",
        "assumptions": ["I3: delay may propagate along a chain of pairwise conflicting requests (Go RWMutex writer preference)"],
        "trusted_base": ["Conc/ConnProto.lean", "Conc/Locks.lean (script interpreter)", "extract/locks.go", "Driver/K7.lean"],
    },
    "C07": {
        "level_text": "Proof + regenerated obligation: every backend call a handler makes sits inside the guard its class demands on the reference it is "
                      "made on (decided over the lock scripts regenerated from handlers.go/server.go/path_tree.go: write class under safelyWrite, "
                      "Tunlinkat additionally write-locks the child's node, RenameAt/Renamed/Tremove's UnlinkAt under the global write lock, read class "
                      "and walks under safelyRead, a clone on its parent), Open only inside the per-reference section that tests and sets 'opened'; the "
                      "guards as sets of (lock instance, mode) are proved pairwise incompatible exactly where the contract forbids overlap, and Go's "
                      "RWMutex (transition system with writer preference) never admits a writer next to another holder in any schedule (induction).",
        "level_note": "Trusted: Lean kernel; sync.RWMutex semantics as modelled in Conc/RWMutex.lean; the extractor's scripts; Conc/Guards.lean (guards "
                      "as lock sets; a clone first read-locks its own node to test 'opened', then its parent's). Tie: K7-pairs - all 22x22x2 ordered "
                      "pairs of backend-reaching operations (same fid, two fids on one path, parent/child, siblings, same/other connection), the first "
                      "held at a gate inside the backend: 'the second reaches the backend meanwhile' must equal guard compatibility; second refused "
                      "without backend call exactly when fenced / same-fid open / no-op rename; both answered. Two Tlopen on one fid: one Open.",
        "rule": "k7pair: exhaustive over the op table x {same, other connection} (3 passes with fresh seeds in thorough); a pair seen blocked is "
                "retried once with a 300 ms window before it counts as blocked. Non-trivial: pairs that must not overlap.",
        "assumptions": ["I2: calls on a File not yet bound to a fid are exempt; a clone (Walk(nil)) is a read on the parent path"],
        "trusted_base": ["Conc/RWMutex.lean", "Conc/Guards.lean", "Conc/Locks.lean", "extract/locks.go", "Driver/K7.lean"],
    },
    "C14": {
        "level_text": "Proof: in the connection transition system, for every interleaving: if a Tflush has passed its wait (only then can its handler "
                      "return and Rflush be written) and it waited on request j - the holder of the old tag when WaitTag ran - then j's handler has "
                      "returned and no backend call runs on its behalf (invariant, induction over labels); a request whose handler returned never "
                      "enters the backend again; a flush of an idle / answered / own tag sets 'waited' at once; an action on one request leaves every "
                      "other record untouched, so a flush never cancels, duplicates or suppresses the flushed request's reply (with C06 one_reply).",
        "level_note": "Trusted: Lean kernel; Conc/ConnProto.lean (hand-written; WaitTag = wait for the channel of the tag's current holder; ClearTag "
                      "closes it when the handler returns - granularity: handler return and ClearTag are one step). Tie: K7-flush - victim request held "
                      "at a gate inside ReadAt/WriteAt/GetAttr/Walk, then Tflush (optionally a chained Tflush of the Tflush), a flush of an idle tag, a "
                      "flush of its own tag and unrelated traffic: the three latter answered while the gate is closed, no Rflush/victim reply before "
                      "the release, afterwards exactly one Rflush per flush and the victim's own reply, no duplicates; predictions are computed by "
                      "running the model to quiescence with 'leave' of the victim forbidden, then allowed.",
        "rule": "k7flush: victim kind x chained in {0,1}, random seeds; windows: must-arrive replies awaited up to 5 s, must-not-arrive ones watched "
                "for 80 ms after the last arrival. Non-trivial: every case (a flush of a running request).",
        "assumptions": [],
        "trusted_base": ["Conc/ConnProto.lean", "Conc/ConnInv.lean", "Driver/K7.lean"],
    },
    "C16": {
        "level_text": "Proof + regenerated obligations: (lockset) every access to connState.fids, connState.tags, a path node's child maps, pool.cache, "
                      "Client.pending, Mapper.paths and the wire happens with its mutex held on every path of every function reachable from a request "
                      "goroutine, stop(), a client call, the allocators and the QID mapper; (order) every acquisition made while other locks are held "
                      "respects openedMu < renameMu < opMu < fidMu < childMu < leaves, tree-descending for opMu - both decided by kernel evaluation "
                      "over the lock scripts regenerated from the current source; ordered acquisition admits no deadlock for any number of "
                      "goroutines, locks and connections (proved generically); RWMutex exclusion in every schedule; a request on one connection leaves "
                      "every other connection's fid bindings untouched (C15 frame theorem, all 65 message types, any backend outcome). Partial: "
                      "lost wake-ups in Go channels/WaitGroups and data races on state the scripts do not track are runtime behaviour, observed by "
                      "the concurrent harness (watchdog, alone-vs-concurrent comparison, race detector in thorough).",
        "level_note": "Trusted: Lean kernel; the extractor's tracked-field list and script construction; rank assignment in Conc/Locks.lean. Tie: "
                      "K7-random-workloads (2..64 client goroutines over 1..8 connections to one Server on localfs temp trees, each in its own subtree, "
                      "scheduling perturbation in every backend call and in half of the reply writers, with/without cross-directory renames: all "
                      "finish within 60 s and each observes exactly what it observes alone on a fresh server); K7-shared-path-storm (workers on "
                      "shared names with unlink/rename/remove/clunk against the scripted backend with 3% faults: every request answered, stop() "
                      "returns, every File closed exactly once and never used after); deterministic D9/D13/D8 scenarios; thorough: all of it and "
                      "K4 under the Go race detector.",
        "rule": "k7rand: workers 2..64, connections 1..8, 10..49 operations each of 12 kinds; k7storm: 1..4 connections x 1..8 workers x 20..79 "
                "requests of 10 kinds on names p/q/r; one outstanding request per fid. Non-trivial: every case.",
        "assumptions": ["clients keep at most one request outstanding per fid (the property's own premise)", "POSIX backend: refuses renames into the own subtree"],
        "trusted_base": ["Conc/Locks.lean", "Conc/RWMutex.lean", "extract/locks.go", "Driver/K7.lean"],
    },
    "C10": {
        "level_text": "Proof: the allocator keeps (cache ++ outstanding) duplicate-free within [start, limit) under every Get/Put sequence (induction), "
                      "so outstanding tags/fids are pairwise distinct and never NOTAG/NOFID, and exhaustion fails instead of duplicating; the request "
                      "multiplexer is a labelled transition system (labels = goroutine moves + server sends + transport failure) in which, for every "
                      "label sequence: a done channel only ever holds the reply with the call's own tag or an error and finished calls returned exactly "
                      "that (demux, induction over labels); a bad frame or failed transport puts an error into every pending call's channel and "
                      "empties the map; a waiting call with a readable frame or failed transport never faces a state without an enabled step. The "
                      "fid-pool Get/Put sites are a regenerated obligation. Partial: Go channel/scheduler behaviour is runtime, observed by kmux.",
        "level_note": "Trusted: Lean kernel; Client/Pool.lean and Conc/ClientMux.lean are hand-written models of pool.go and of "
                      "sendRecv/waitAndRecv/handleOne (granularity: one handleOne = one step); tie = K6-pool (exported pool, exact values) and K6-mux "
                      "(real Client, 2..32 goroutines, scripted fake server answering in random permutations with faults close / short read / unknown "
                      "tag / wrong type / garbage at every position; monitors: own reply, no hang within 5 s, distinct tags, no fid reused while "
                      "bound, all unanswered calls fail, later calls fail on a dead link).",
        "rule": "kpool: pools [0..2, +0..5) so that exhaustion is frequent, 30 operations each; kmux: batches of 2..4 (every permutation reachable) "
                "and 8..31 concurrent GetAttr calls whose replies identify their request; fault kind and position random. Non-trivial: exhaustion "
                "reached (kpool) / every case (kmux).",
        "assumptions": ["a value is Put only while outstanding (client discipline, checked at the Put sites)"],
        "trusted_base": ["Client/Pool.lean", "Conc/ClientMux.lean"],
    },
    "C03": {
        "level_text": "Proof + regenerated obligations: every method uses only request types its negotiated version defines (all methods x all "
                      "versions), the newer types as soon as allowed; uid/gid dropped below version 3 and unchanged from 3 on; ExtractErrno returns an "
                      "errno found in the chain unchanged, else the sentinel mapping, else EIO; over the regenerated tables of every T-message literal "
                      "in client_file.go and every backend call in handlers.go: each stub addresses the receiver's fid and fills exactly the table's "
                      "fields from its parameters, and each handler passes exactly those fields to the backend (param -> field -> argument composes to "
                      "the identity). End-to-end reach/return for all 24 remote methods at versions 0..7 is decided by the K6 correspondence against "
                      "the transparency monitor (Driver/KCS.lean), using the session model for the walk plumbing.",
        "level_note": "Trusted: Lean kernel; Spec/Transparency.lean (hand-written expectation of field sources and call arguments, as source text: a "
                      "renamed local variable breaks the obligation without breaking the property); the extractor's collection of composite literals "
                      "and File-method calls; Client/Stub.lean. Tie: K6-client-server - a real Client and Server over socketpairs with a frame tap, a "
                      "recording backend returning values and error values of 9 kinds (linux/syscall errno, wrapped, *os.PathError, os.Err*, opaque); "
                      "compared: backend call log with all arguments, values/errors returned to the caller, request types and fields on the wire.",
        "rule": "kcs: per case a negotiated version 0..7, a fresh client File of the kind/open state the method needs, random arguments (full-range "
                "ints, flags, modes incl. type/setuid bits, uid/gid sentinels, 64-bit offsets, lock parameters, names and targets as arbitrary "
                "bytes), a quarter of the calls with every backend call failing with a random error value. 25 methods incl. SetXattr/RemoveXattr "
                "(local ENOSYS). Single-chunk I/O (chunking is C11), zero- or one-component walks (multi-step walks are K4). Non-trivial: the "
                "backend was reached.",
        "assumptions": ["Renamed notifications are C08's business and are not compared here"],
        "trusted_base": ["Spec/Transparency.lean", "Client/Stub.lean", "Driver/KCS.lean (the monitor)"],
    },
    "C19": {
        "level_text": "Proof: all three file systems number entries 1,2,... in a fixed order and return entries offset+1..offset+count; the paging loop "
                      "(next offset = Offset of the last entry) composed with the server's cut to whole entries within min(count, msize-11) bytes is "
                      "modelled (Fsimpl/Readdir.lean) and proved to return exactly the directory's entries, each once and in order, for every "
                      "directory, count >= 1 and msize as long as one entry fits - by induction over the pages; resuming from any offset returns the "
                      "rest; every page is within the byte limit. QID/type agreement with Walk and GetAttr is decided on the real file systems by K8.",
        "level_note": "Trusted: Lean kernel; the model of the three Readdir implementations as one window function (localfs after the D5 fix) is "
                      "hand-written and tied by K8-readdir: real temp directories through localfs, staticfs and composefs (files, mounts, nested dirs), "
                      "directly and through a real client + server over a socketpair; multiset of names vs. ground truth, number of Readdir calls vs. "
                      "the model's, each entry's QID and type vs. Walk and GetAttr. Assumes the OS lists an unmodified directory in a stable order.",
        "rule": "k19: fs in {localfs x2, staticfs, composefs}, 0..120 entries (400/1500 in thorough), name lengths 1..255, direct counts "
                "{1,2,3,7,50,1000} entries, server counts from exactly one (largest) entry up to beyond msize, msize {4096,8192,65536}. Non-trivial: "
                "at least 3 Readdir calls were needed.",
        "assumptions": ["stable directory order for an unmodified directory", "one entry fits in min(count, msize-11)"],
        "trusted_base": ["Fsimpl/Readdir.lean"],
    },
    "C18": {
        "level_text": "Proof: decoding into a recycled object is modelled explicitly (decInto: scalar fields assigned, slice fields appended to unless "
                      "reset); with every slice reset it equals decoding into a fresh object whatever the object held (induction over the layout), and "
                      "the regenerated facts - every leaf field of each of the 65 message structs is assigned by decode, every slice is truncated first, "
                      "registry.put clears the payload, recv reuses a payload buffer only at exactly the needed length as a read vector, read buffers "
                      "are zeroed on cleanup - are decided over the current messages.go/transport.go; a missing reset provably leaks the old rows.",
        "level_note": "Trusted: Lean kernel; the extractor's reading of decode bodies (assignments, x = x[:0] resets) and of the three buffer-handling "
                      "statements (matched textually); Go slice aliasing and sync.Pool behaviour are not modelled. Tie: K1-recycling-histories (same-type "
                      "messages long/short/empty in every order through the real recv with put() recycling, decoded values vs. the frame alone under the "
                      "protocol table), K4 (backend arguments vs. the request alone, Rread data vs. what the backend wrote), k13 (pooled read buffers).",
        "rule": "k18: per case 2..6 frames of one type with size classes long/short/empty in 6 orders (types with slices/payloads weighted), other "
                "messages interleaved in a third of the gaps; all decoded through one process-wide cache. Non-trivial: at least two messages decoded.",
        "assumptions": [],
        "trusted_base": ["Wire/Recycle.lean: model of decode acting on a used object"],
    },
    "C13": {
        "level_text": "Proof: the count tread.handle passes to the backend is min(count, msize-11), so 11+n <= msize for every count 0..2^32-1 and every "
                      "msize >= 11 (a Tread itself needs 23); Rreaddir packs whole entries within min(count, msize-11) bytes (fit_length_le) so its frame "
                      "is <= msize; largestFixedSize recomputed from the regenerated message table is 153 >= 23; after negotiation every client chunk "
                      "is <= payload and payload + 153 <= min(requested, announced) msize, hence Twrite frames (23+chunk) and requested Rread frames "
                      "(11+chunk) fit.",
        "level_note": "Trusted: Lean kernel; the model's Tread/Treaddir handlers (Session/Handlers.lean) and NewClient sizing (Client/Version.lean) are "
                      "hand-written and tied by K4-read-boundaries (real server, counts msize-12..msize+1, 4MiB, 2^32-1 at msize 24..8MiB, files and "
                      "directories on both sides of the limit; reply frame length compared and checked against the negotiated msize) and K6-client-"
                      "sizing (real client against a fake server lowering msize; every request frame size observed).",
        "rule": "k13: per case Tversion(msize from {24,64,100,4096,8192,64K,1M,4M,8M}), attach, walk+open a file and the root directory, then 6 "
                "Tread + 6 Treaddir with counts from {0,1,m-12,m-11,m-10,m-1,m,m+1,4MiB,4MiB+1,2^32-1,random}; backend fills the buffer in 2/3 of the "
                "cases and lists m/60..m/20 entries. Non-trivial: an Rread/Rreaddir was produced. kneg: see C12.",
        "assumptions": ["I6: an Rlerror is not an over-long Rread; ReaderAt contract n <= len(p)"],
        "trusted_base": ["Session/Handlers.lean hTread/hTreaddir; Client/Version.lean negotiate"],
    },
    "C04": {
        "level_text": "Proof on the session model: an unbound fid gives EBADF with no backend call, no state change and the tape untouched for every "
                      "fid-taking handler (generic withFid lemma + 17 instances, safe-name hypothesis where C09's EINVAL comes first); Tclunk leaves its "
                      "fid unbound on every normal return whatever it reports, stop() unbinds everything; Tauth is ENOSYS and an auth-fid attach EINVAL "
                      "without touching the backend; 17 request kinds provably never change the fid table, for any oracle tape (errors and panics "
                      "included), by a frame calculus over the session monad. Open-state / mode refusals (EINVAL, EPERM, EISDIR, EBUSY) and bind-only-"
                      "on-success are decided by the K4 correspondence (model = executable reference), not yet by theorems.",
        "level_note": "Trusted: Lean kernel; Session/*.lean is a hand-written transcription of handlers.go / server.go / path_tree.go (sequential semantics, "
                      "Go defer as finally, recover as EFAULT) tied on every run by K4: random request histories over two connections of one real Server "
                      "against a scripted, recording, fault-injecting backend whose outcomes are replayed to the model as an oracle tape; reply type, "
                      "errno, every reply field, reply frame length and every backend call with receiver and all arguments are compared. "
                      "Close/Renamed order inside one request follows Go map iteration and is compared as a multiset.",
        "rule": "K4: histories of 20..140 requests (Tversion, attach on fid 0 of each connection, then random T-messages of all handled types and "
                "occasionally any registered type) over a 4-fid / 4-name alphabet with adversarial names and attach names, fid fields drawn from "
                "the fids believed bound (80%), backend faults per history: none / 6% errors / 10% errors + 1.5% panics / 25% errors, Close failing "
                "for handles = 7 mod 11 in a third of the histories; teardown of both connections at the end. Non-trivial: see per-run pattern; "
                "distinct = distinct request lines (incl. tape).",
        "assumptions": ["I5: order of refusals is the code's (unsafe name EINVAL before unbound fid EBADF, except Twalk where the fid is looked up first)"],
        "trusted_base": ["Session/Model.lean, Handlers.lean, Dispatch.lean: hand-written model of the server's handlers"],
    },
    "C05": {
        "level_text": "Partial proof + monitor: on the model, dropping a non-last reference never calls Close, dropping the last one logs exactly one "
                      "Close and retires the reference, DecRef never panics, stop() unbinds every fid; the whole-history statement (each handle from "
                      "Attach/Walk/WalkGetAttr/Create closed exactly once, never used after, also at disconnect and under backend errors) is decided on "
                      "the implementation by the lifecycle monitor of the instrumented backend over K4 histories and compared with the model's own "
                      "accounting; the invariant RefInv is stated, its preservation proof is not complete.",
        "level_note": "Trusted: Lean kernel; Session/*.lean is a hand-written transcription of handlers.go / server.go / path_tree.go (sequential semantics, "
                      "Go defer as finally, recover as EFAULT) tied on every run by K4: random request histories over two connections of one real Server "
                      "against a scripted, recording, fault-injecting backend whose outcomes are replayed to the model as an oracle tape; reply type, "
                      "errno, every reply field, reply frame length and every backend call with receiver and all arguments are compared. "
                      "Close/Renamed order inside one request follows Go map iteration and is compared as a multiset." + " Goroutine leaks and teardown timing are runtime behaviour (observed: Handle must return within 10 s).",
        "rule": "K4: histories of 20..140 requests (Tversion, attach on fid 0 of each connection, then random T-messages of all handled types and "
                "occasionally any registered type) over a 4-fid / 4-name alphabet with adversarial names and attach names, fid fields drawn from "
                "the fids believed bound (80%), backend faults per history: none / 6% errors / 10% errors + 1.5% panics / 25% errors, Close failing "
                "for handles = 7 mod 11 in a third of the histories; teardown of both connections at the end. Non-trivial: see per-run pattern; "
                "distinct = distinct request lines (incl. tape).",
        "assumptions": ["I8: closed-once is counted per hand-over", "histories with injected panics may leak (outside the property); leaks are required to be empty in panic-free histories"],
        "trusted_base": ["Session/Model.lean decRef / insertFid / deleteFid / stop", "harness backend lifecycle counters"],
    },
    "C09": {
        "level_text": "Proof by construction + theorems: in the session model every path-component argument of a backend call and every name stored in "
                      "the path tree has type SafeName (bytes + proof that checkSafeName accepted them), so names_confined holds for every request, "
                      "state and oracle tape; checkSafeName is characterised exactly; unsafe names are refused with EINVAL before any lookup or call "
                      "for create/mkdir/symlink/mknod/link/unlinkat/renameat/rename, and a walk with an unsafe component returns EINVAL with no call; "
                      "attach names are split on '/' into slash-free components that go through the same walk.",
        "level_note": "Trusted: Lean kernel; Session/*.lean is a hand-written transcription of handlers.go / server.go / path_tree.go (sequential semantics, "
                      "Go defer as finally, recover as EFAULT) tied on every run by K4: random request histories over two connections of one real Server "
                      "against a scripted, recording, fault-injecting backend whose outcomes are replayed to the model as an oracle tape; reply type, "
                      "errno, every reply field, reply frame length and every backend call with receiver and all arguments are compared. "
                      "Close/Renamed order inside one request follows Go map iteration and is compared as a multiset." + " A Go handler that forgets a check cannot agree with the model on an unsafe name: the model answers EINVAL with no call.",
        "rule": "K4: histories of 20..140 requests (Tversion, attach on fid 0 of each connection, then random T-messages of all handled types and "
                "occasionally any registered type) over a 4-fid / 4-name alphabet with adversarial names and attach names, fid fields drawn from "
                "the fids believed bound (80%), backend faults per history: none / 6% errors / 10% errors + 1.5% panics / 25% errors, Close failing "
                "for handles = 7 mod 11 in a third of the histories; teardown of both connections at the end. Non-trivial: see per-run pattern; "
                "distinct = distinct request lines (incl. tape)." + " The C09 monitor scans every backend call of the implementation for empty / '.' / '..' / slash-containing components and multi-component walks.",
        "assumptions": [],
        "trusted_base": ["Session/Model.lean SafeName discipline", "harness: which argument positions are path components (Symlink: the new name only)"],
    },
    "C15": {
        "level_text": "Proof on the session model for every fault placement (the oracle tape is arbitrary): a panic anywhere is answered EFAULT; for all "
                      "33 dispatch cases no request changes the fid table of another connection - on normal return, error reply or panic (frame "
                      "calculus, dispatch_others); requests that do not bind fids leave the whole table as it was under any fault; DecRef never panics. "
                      "Lock release on every path is a static obligation (Gen/Locks, C16); closing of files obtained during a failed request is "
                      "decided by the lifecycle monitor on K4 histories with 6-25% injected errors.",
        "level_note": "Trusted: Lean kernel; Session/*.lean is a hand-written transcription of handlers.go / server.go / path_tree.go (sequential semantics, "
                      "Go defer as finally, recover as EFAULT) tied on every run by K4: random request histories over two connections of one real Server "
                      "against a scripted, recording, fault-injecting backend whose outcomes are replayed to the model as an oracle tape; reply type, "
                      "errno, every reply field, reply frame length and every backend call with receiver and all arguments are compared. "
                      "Close/Renamed order inside one request follows Go map iteration and is compared as a multiset.",
        "rule": "K4: histories of 20..140 requests (Tversion, attach on fid 0 of each connection, then random T-messages of all handled types and "
                "occasionally any registered type) over a 4-fid / 4-name alphabet with adversarial names and attach names, fid fields drawn from "
                "the fids believed bound (80%), backend faults per history: none / 6% errors / 10% errors + 1.5% panics / 25% errors, Close failing "
                "for handles = 7 mod 11 in a third of the histories; teardown of both connections at the end. Non-trivial: see per-run pattern; "
                "distinct = distinct request lines (incl. tape).",
        "assumptions": ["panics are injected in tape-driven calls only (not in Close / Renamed, whose order is not deterministic)"],
        "trusted_base": ["Session/Frame.lean, Isolation.lean: frame calculus over the model"],
    },
    "C17": {
        "level_text": "Proof (generic io.Reader path): reading n bytes through any segmentation into non-empty chunks, EOF attached to the last "
                      "chunk or separate, yields the stream's first n bytes (induction over the read loop); hence recv over a segmented reader has "
                      "the same outcome and leaves the same unread bytes as recv1 on the byte string, the whole outcome sequence of the receive loop "
                      "depends only on the bytes (induction over calls), and a stream ending mid-frame is a connection error under every segmentation. "
                      "Partial: the vectorised recvmsg path is modelled executably (readVec/scatter) and validated by the socketpair correspondence "
                      "and a per-case model cross-check; its theorem (VecPathSpec) is stated but not proved.",
        "level_note": "Trusted: Lean kernel; Transport/Seg.lean hand-written model of vecnet.Buffers.ReadFrom (generic, after the D11 fix), "
                      "io.ReadAtLeast and io.Copy/LimitReader; real kernel segmentation on the socket path is observed, not modelled. "
                      "I7: deliveries are non-empty chunks; (0, nil) reads excluded.",
        "rule": "K3: streams of 1..3 frames (1/4 mutated, 1/6 ending mid-frame) delivered unsegmented, at every single split point and byte by "
                "byte (streams <= 80 bytes), and under random cuts incl. inside the header, each with EOF attached or separate, through an "
                "io.Reader chunker; one segmentation per stream also through a real unix socketpair with paced writes (vectorised path). "
                "Expected = outcomes of the unsegmented byte string under the protocol table. Non-trivial: a message or protocol error was produced.",
        "assumptions": ["I7 delivery modes", "socket path: EOF arrives separately (close after the last write)"],
        "trusted_base": ["Transport/Seg.lean: hand-written model of the two vecnet read paths"],
    },
    "C20": {
        "level_text": "Proof: encodeLikely is injective and < 2^63 (omega over the div/mod form); the fallback table of localToQid keeps an invariant "
                      "(values distinct, > 2^63, keys distinct) under every lookup, from which stability (a pair keeps its path after any later "
                      "lookups) and injectivity over arbitrary histories follow by induction; the same for the QID mapper with a shared generator; "
                      "FileMode -> os.FileMode -> FileMode is the identity on all 7 x 4096 (type, permission) values (kernel-evaluated table over "
                      "the regenerated Go constants) and QIDType follows the mode's type.",
        "level_note": "Trusted: Lean kernel; arithmetic form of unix.Major/Minor for dev < 2^32 (tied by klikely on high-bit devices and large "
                      "majors/minors); Fsimpl/Qid.lean, Fsimpl/Mode.lean hand-written, tied by K8 (exported encodeLikely/localToQid on chosen pairs "
                      "with the process-global table followed by the model, exhaustive mode table against Go, sequential mapper). Partial: 'must "
                      "never crash' under concurrent lookups is the Go runtime's map-race abort - observed by the concurrent kmapc run and by the "
                      "lockset obligation, not provable in the model.",
        "rule": "kqid: (dev, ino) pairs from 6 shapes (plain, high device bits, big minors, inodes around 2^39, random 32/39-bit, random 64-bit), "
                "40% repeats of earlier pairs; mapper: 3 mappers sharing a generator, source paths from a small alphabet + random; kmode: all 28672 "
                "valid modes + random os.FileMode values; kmapc: 8 goroutines x 400 lookups per round on shared mappers. Non-trivial: pair outside "
                "the compact encoding / fallback path / any mapper or mode case.",
        "assumptions": ["fewer than 2^63 distinct unlikely pairs / mapper paths (no counter wrap)", "I9: QID.Type = FileMode.QIDType()"],
        "trusted_base": ["Fsimpl/Qid.lean, Fsimpl/Mode.lean: hand-written models of system_unix.go, qids.go, p9.go mode conversions"],
    },
    "C11": {
        "level_text": "Proof: chunk() is modelled as the loop it is; Lean theorems give, for every chunk size >= 1, buffer length, offset and "
                      "content: WriteAt against an accepting backend returns n = len(p) with exactly the ideal in-order contiguous chunks each "
                      "within the payload limit; ReadAt delivers min(len p, |F|-off) bytes, reports io.EOF only when fewer than len(p) bytes "
                      "were delivered and always when none were for a non-empty p; any backend obeying n <= requested keeps every request within "
                      "the limit and the total within the buffer; the first short/failed chunk ends the call with its count and error.",
        "level_note": "Trusted: Lean kernel; Client/Chunk.lean as hand-written model of chunk()/readAt()/writeAt() tied by K6 (exported chunk with "
                      "scripted fn; real Client ReadAt/WriteAt against a scripted fake server with a byte-slice file, content compared byte by byte). "
                      "Composition of the chunk writes into one splice is shown through chunks_shape (contiguous exact cover), the byte-level "
                      "splice identity is checked by the harness only.",
        "rule": "kchunk: chunk sizes {1,2,3,4,7,8,16,512,4096} x lengths incl. exact multiples +-1 x offsets up to 2^40 x scripted fn behaviours "
                "(full, short, half, zero, error, error-with-partial, EOF) keyed by offset; kneg: real client vs fake server over a socketpair, "
                "msize 154..8MiB lowered by the server, ReadAt/WriteAt lengths 0..3 payloads incl. multiples +-1, offsets at/after EOF. "
                "Non-trivial: more than one chunk (kchunk) / negotiation succeeded (kneg).",
        "assumptions": ["payload size >= 1 (guaranteed by WithMessageSize and by NewClient after the D3 fix)"],
        "trusted_base": ["Client/Chunk.lean: hand-written model of chunk(), readAt EOF rule"],
    },
    "C12": {
        "level_text": "Proof: tversion/parseVersion/versionString/NewClient's adoption are modelled in Client/Version.lean; Lean theorems: the reply is "
                      "always an Rversion and is (0,'unknown') iff msize = 0 or the string is not a 9P2000.L version; otherwise msize = min(req,4MiB) "
                      "and version = canonical(min(N,7)), which parses back to the same number for all 0..7; every '9P2000.L.Google.<decimal < 2^32>' "
                      "is accepted with that number; NewClient adopts the reply's version and min(req, reply) msize with payload+largestFixed <= msize, "
                      "and refuses non-9P2000.L replies.",
        "level_note": "Trusted: Lean kernel; the hand-written model of strconv.ParseUint(s,10,32) and strings.Split; tie = K6-version (exported "
                      "parseVersion/versionString on all string shapes, hand-built Tversion frames at a real Server over a socketpair) and K6-negotiate "
                      "(real NewClient against a scripted fake server offering every (version, msize) shape).",
        "rule": "kver: version strings of 12 shapes (canonical, leading zeros, overflow, signs, extra dots, other dialects, mutated, random bytes) x "
                "msize from 20 boundary values and random 32-bit; kneg: requested msize x requested version 0..7 x offered msize (same, lower, "
                "below largestFixed, higher, 0) x offered version (canonical <= requested, unknown, 9P2000.u, arbitrary). Non-trivial: accepted.",
        "assumptions": ["I1: an overflowing numeral is not a 9P2000.L.Google.N version"],
        "trusted_base": ["Client/Version.lean: hand-written model of version.go, tversion.handle, NewClient"],
    },
    "C02": {
        "level_text": "Proof: recv1 is a total Lean function enumerating every return of Go's recv(); for any byte string: a bad size field "
                      "ends the connection after exactly 7 bytes, a well-delimited frame of any content is consumed exactly and its outcome "
                      "does not depend on what follows, buffers requested are <= min(msize,4MiB)-7, any mix of delimited frames yields one "
                      "outcome per frame and the loop resynchronises (induction over the frame list), truncated streams never yield a message.",
        "level_note": "Trusted: Lean kernel (standard axioms), the hand-written model recv1 of transport.go recv() tied by the K2 correspondence "
                      "(outcome, tag, decoded values and bytes consumed per call, on mutated/truncated/random streams), Go heap observed via "
                      "runtime.MemStats only (partial: peak allocation is a runtime quantity; the model bounds the sizes passed to make).",
        "rule": "K2: byte streams = 1..5 valid frames each mutated with probability 1/2 (unknown type, short/long body with adjusted size, bit "
                "flips, size field around 0/6/7/msize/4MiB/2^32-1, blown-up counts, truncation, random body), pure random bytes, and every "
                "truncation offset of two-frame streams; msize from {7,8,64,4096,8192,64K,1M,4M,8M,2^32-1}. Non-trivial = at least one call "
                "returned a message or a protocol error; distinct = distinct (msize, stream).",
        "assumptions": ["reader delivers the stream then EOF (segmentation is C17)", "allocation monitor: TotalAlloc delta per recv() call <= 64KiB + 3*declared size"],
        "trusted_base": ["Transport/Recv.lean: hand-written model of p9/transport.go recv()"],
    },
    "C01": {
        "level_text": "Proof: the generic layout codec round trip (dec (enc v ++ rest) = (norm v, rest)) and the frame round trip "
                      "recv1 (frame m ++ rest) = (msg tag (norm m), rest) are Lean theorems for every layout / every registered "
                      "message / all values; conformance of the 65 layouts, type numbers, mask bits and FixedSize values to the "
                      "9P2000.L tables is decided by `decide` over the table regenerated from messages.go/p9.go/buffer.go on every run.",
        "level_note": "Trusted: Lean kernel (axioms propext, Classical.choice, Quot.sound only), the extractor's reading of "
                      "b.WriteX(field)/b.ReadX() statements (cross-checked by K1 on every run), Spec/NineP.lean as my transcription of the protocol. "
                      "Modelled, not verified: Go's append/slicing, net.Buffers.WriteTo, sync.Pool reuse.",
        "rule": "K1: random boundary-biased values for all 65 registered message types (every type the same number of "
                "times) sent through the real send() and read back through the real recv(); the frame bytes and the "
                "decoded values are compared with the protocol-table serialiser (Spec.bytes / recv1 over Spec.messages). "
                "A case is non-trivial when the frame was accepted (recv=msg); distinct = distinct input lines.",
        "assumptions": [
            "messages are built through the struct fields the harness can reach by reflection (p9.VerifFields)",
            "fid values are < 2^32 (the Go type is uint64 but the wire field is fid[4]); strings < 65536 bytes; lists < 65536 entries"],
        "trusted_base": ["Spec/NineP.lean: my transcription of the 9P2000.L field tables and the binding of protocol fields to API names"],
    },
}


def plan(prop, tier, seed, failing, replay):
    runs = []
    for r in RUNS.get(prop, []):
        if r.get("tiers") and tier not in r["tiers"]:
            continue
        q, t = r["budget"]
        budget = t if (tier == "thorough" or failing) else q
        seeds = [seed] if tier == "quick" else [seed, seed * 7919 + 1, seed * 104729 + 2]
        for s in seeds:
            b = budget if tier == "quick" else budget // len(seeds)
            runs.append(dict(r, seed=s, n=b, name="%s/seed%d" % (r["name"], s)))
    return runs


def key_k1(m):
    t = re.search(r"typ=(\d+)", m["lhs"])
    diff = (m["impl_only"] + m["model_only"] + ["?"])[0].split("=")[0]
    return "k1:typ%s:%s" % (t.group(1) if t else "?", diff)


def key_generic(m):
    diff = (m["impl_only"] + m["model_only"] + ["?"])[0].split("=")[0]
    return "%s:%s" % (m["lhs"].split(" ", 1)[0], diff)


def key_k2(m):
    toks = m["impl_only"] + m["model_only"] + ["?"]
    for t in toks:
        if t.startswith("allocbad"):
            return "k2:allocation-beyond-frame"
        if "panic" in t:
            return "k2:panic"
    return "k2:" + re.sub(r"\d+", "", toks[0].split("=")[0])


def key_k4(m):
    t = re.search(r"typ=(\d+)", m["lhs"])
    toks = m["impl_only"] + m["model_only"] + ["?"]
    for x in toks:
        if x in ("noreply", "handle=HUNG"):
            return "k4:typ%s:%s" % (t.group(1) if t else "-", x)
    k = re.sub(r"\d+", "", toks[0].split("=")[0])
    return "k4:typ%s:%s" % (t.group(1) if t else m["lhs"].split(" ")[0], k)


def key_kcs(m):
    t = re.search(r" m=(\w+)", m["lhs"])
    toks = m["impl_only"] + m["model_only"] + ["?"]
    return "kcs:%s:%s" % (t.group(1) if t else "?", re.sub(r"\d+", "", toks[0].split("=")[0]))


def key_k7pair(m):
    a = re.search(r"\ba=(\w+)", m["lhs"])
    b = re.search(r"\bb=(\w+)", m["lhs"])
    toks = m["impl_only"] + m["model_only"] + ["?"]
    return "k7pair:%s/%s:%s" % (a.group(1) if a else "?", b.group(1) if b else "?", toks[0])


def key_k7scen(m):
    n = re.search(r"name=(\S+)", m["lhs"])
    return "k7scen:%s" % (n.group(1) if n else "?")


def key_k5(m):
    if m["lhs"].startswith("k5obs"):
        t = re.search(r"typ=(\d+)", m["lhs"])
        why = [x for x in m["model_only"] if x.startswith("why=")]
        return "k5obs:typ%s:%s" % (t.group(1) if t else "?", re.sub(r"\d+", "N", why[0][4:]) if why else "?")
    if m["lhs"].startswith("k5stats"):
        return "k5stats:monitor-vacuous"
    return key_k4(m)


KEYFNS = {"k5": key_k5, "k7pair": key_k7pair, "k7scen": key_k7scen, "k1": key_k1, "k2": key_k2, "k4": key_k4, "kcs": key_kcs}


def monitor_lifecycle(lines):
    """C05/C15: every handle closed exactly once, none used after close; no leak in panic-free histories."""
    probs = []
    for i, l in enumerate(lines):
        if not l.startswith("k4end"):
            if l.startswith("k4stop") and "handle=HUNG" in l:
                probs.append(("lifecycle:handle-did-not-return", i, l))
            continue
        lhs, rhs = l.split(" => ", 1)
        kv = dict(t.split("=", 1) for t in rhs.split() if "=" in t)
        panics = int(re.search(r"panics=(\d+)", lhs).group(1)) if "panics=" in lhs else 0
        if kv.get("dbl"):
            probs.append(("lifecycle:closed-twice", i, l))
        if kv.get("uac"):
            probs.append(("lifecycle:used-after-close", i, l))
        if kv.get("leaks") and panics == 0:
            probs.append(("lifecycle:never-closed", i, l))
    return probs


SAFE_POS = {"Walk": "all", "WalkGetAttr": "all", "Create": "all", "Mkdir": "all", "Mknod": "all", "Link": "all",
            "UnlinkAt": "all", "RenameAt": "all", "Symlink": "last"}


def monitor_names(lines):
    """C09: no empty / '.' / '..' / '/'-containing path component in any backend call of the implementation."""
    probs = []
    for i, l in enumerate(lines):
        if " => " not in l:
            continue
        rhs = l.split(" => ", 1)[1]
        for t in rhs.split():
            m = re.match(r"c\d+=\d+\.(\w+)\(([^;]*);([^)]*)\)", t)
            if not m or m.group(1) not in SAFE_POS:
                continue
            strs = [x for x in m.group(3).split("|")] if m.group(3) else []
            if SAFE_POS[m.group(1)] == "last":
                strs = strs[-1:]
            for sx in strs:
                b = bytes.fromhex(sx[1:])
                if b in (b"", b".", b"..") or b"/" in b:
                    probs.append(("names:unsafe-component-reached-backend:" + m.group(1), i, l))
            if m.group(1) in ("Walk", "WalkGetAttr") and len(strs) > 1:
                probs.append(("names:multi-component-walk", i, l))
    return probs


MONITORS = {"lifecycle": monitor_lifecycle, "names": monitor_names}


def execute(run, run_corr, sh, BUILD, REPO):
    t0 = time.time()
    lines, mism, stats, err = run_corr(run["mode"], run["seed"], run["n"], run.get("extra"), race=bool(run.get("race")))
    res = {"evaluations": len(lines), "mismatches": len(mism), "stats": stats, "problems": [], "samples": [], "distinct": set()}
    if err:
        # a data race report, a Go runtime abort or a panic escaping the server is a concrete failure of the
        # implementation on this (mode, seed, budget); anything else is a harness problem
        m = re.search(r"(DATA RACE|fatal error: [^\n]*|panic: [^\n]{0,80}|goroutine stack exceeds)", err)
        if m:
            sig = re.sub(r"0x[0-9a-f]+|\d+", "", m.group(1)).strip()
            res["problems"].append({"kind": "monitor", "key": "runtime-abort:" + sig, "what": err,
                                    "rerun": {"mode": run["mode"], "seed": run["seed"], "budget": run["n"], "race": bool(run.get("race"))}})
        else:
            res["problems"].append({"kind": "harness", "key": "harness:" + run["mode"], "what": err})
    nt = re.compile(run.get("nontrivial", "."))
    for l in lines:
        lhs, rhs = l.split(" => ", 1)
        if nt.search(rhs):
            res["distinct"].add(hashlib.sha1(lhs.encode()).hexdigest())
    for l in lines[:1] + lines[len(lines) // 2: len(lines) // 2 + 1]:
        res["samples"].append(l[:600])
    if run.get("monitor"):
        seenm = set()
        res["monitor_failures"] = 0
        for key, idx, line in MONITORS[run["monitor"]](lines):
            res["monitor_failures"] += 1
            if key in seenm:
                continue
            seenm.add(key)
            res["problems"].append({"kind": "monitor", "key": key,
                                    "what": "property monitor failed on the implementation: %s (mode %s seed %d line %d): %s" % (
                                        key, run["mode"], run["seed"], idx, line[:400]),
                                    "rerun": {"mode": run["mode"], "seed": run["seed"], "budget": run["n"], "index": idx}})
    keyfn = KEYFNS.get(run.get("keyfn"), key_generic)
    seen = set()
    for m in mism:
        k = keyfn(m)
        if k in seen:
            continue
        seen.add(k)
        res["problems"].append({"kind": "correspondence", "key": k,
                                "what": "implementation and specification disagree on %s (mode %s seed %d case %d): impl-only %s / spec-only %s" % (
                                    k, run["mode"], run["seed"], m["index"], m["impl_only"][:3], m["model_only"][:3]),
                                "detail": m, "rerun": {"mode": run["mode"], "seed": run["seed"], "budget": run["n"], "index": m["index"]}})
    res["wall_s"] = round(time.time() - t0, 2)
    return res


# ---- texts brought up to date with what was built after the first wiring (appended, not edited in place) ----
PROPS["C04"]["level_text"] += (" Bind only on success (Session/BindOnSuccess.lean): Twalk/Twalkgetattr, Tattach, Txattrwalk and Tlcreate leave the "
    "whole fid table exactly as it was whenever they answer Rlerror or end in a panic - for every oracle tape."
    " Tremove always unbinds (remove_always_unbinds, like Tclunk). Open-state and mode refusals (Session/Refuse.lean, 12 theorems): Tread/Twrite/Treaddir/Tfsync on an unopened fid, Tread on write-only, "
    "Twrite on read-only, a second Tlopen or one of an unopenable type, a directory opened for writing, a walk in place from an opened fid, "
    "and create/mkdir/symlink/mknod/link/unlinkat inside an opened directory fid each answer the stated errno with no backend call and "
    "every table as it was (only the fid's count went up and down).")
PROPS["C06"]["level_text"] = (
    "Proof: one server connection is a labelled transition system (Conc/ConnProto.lean: StartTag / WaitTag / wake / backend enter+leave / "
    "handler return+ClearTag / reply write, per request record, any tags incl. duplicates and re-use; a Tflush is handled without registering "
    "its tag - the D19 fix); for every label sequence an invariant proved by induction gives: a request has exactly one reply frame once "
    "answered and none before, every frame carries the tag of the accepted request it answers, nothing else is written; a non-flush request "
    "whose tag is in flight is dropped, a Tflush never; a flush of an idle or answered tag or of a Tflush (its own tag included) does not wait; "
    "progress (Conc/ConnProgress.lean): in every reachable state every accepted unanswered request can move, or is a Tflush waiting for a "
    "non-flush request that can move - no cycles of waiters. Regenerated obligations over the lock scripts: every frame is written under "
    "sendMu and read under recvMu, no backend call runs under a leaf mutex, a backend call under childMu happens only inside the global "
    "rename lock. Partial: that a blocked request delays only contract-ordered ones is the guard-compatibility model of C07 checked against "
    "the running server by the rendezvous harness.")
PROPS["C06"]["rule"] += (" kmutual: pairs of Tflush naming each other's tags written in one segment (60 000 trials quick, 2 000 000 thorough); "
    "k7tags bursts contain unknown-type frames, a third run on a single P through the chunking writer, Rgetattr bodies are compared with the "
    "attributes of the file each request named.")
PROPS["C08"]["level_text"] += (" Added: Trename/Trenameat/Tlink with the first fid fenced and the second bound refuse with EINVAL before the backend; "
    "Renamed(file, new parent file, new name) is in the call log after the callback loop for every live moved reference and stays there "
    "(Session/Calls.lean: the log only grows), references already being destroyed are skipped.")
for _p in ("C01", "C02"):
    PROPS[_p]["rule"] = PROPS[_p].get("rule", "") + (" kprim: every codec primitive (exported method of buffer, called through a reflective hook) against what "
        "the extractor takes it to be (Gen.primTable, evaluated with encA / decA): writes of 21 boundary values and random values / strings up to 2000 bytes, "
        "reads of every data length 0..11, well-formed, cut and extended strings, random data (sticky overrun flag, zero value, bytes left).")
for _p in ("C01", "C02", "C03", "C11", "C18"):
    PROPS[_p]["rule"] = PROPS[_p].get("rule", "") + (" kalias: a request with string or payload arguments (mkdir, symlink, mknod, walk, unlinkat, write) is held "
        "inside its backend call while 4..14 further frames (same type with other strings of the same lengths, and getattrs) are received on this and "
        "another connection; at the end of the call its arguments must read as at its beginning; 120..400 pipelined reads whose reply writers block must "
        "each carry the bytes the backend produced for that request.")
PROPS["C02"]["rule"] = PROPS["C02"].get("rule", "") + (" k2srv: the server's own receive loop in lock-step: 0..5 frames that are valid (unbound fid), of unknown "
    "type, too short, with inconsistent counts or with a string past the frame - each answered with Rlerror under its tag - then a header whose size field is "
    "below 7 or above the negotiated msize, with no body: no reply, Handle returns; expectations from recv1 over the same bytes.")
PROPS["C10"]["rule"] = PROPS["C10"].get("rule", "") + (" kearly: a fake server that answers while the request is still being written (Write returns after "
    "the reply was consumed): call A holds the receive token waiting for a withheld reply, 1..3 further calls are answered before their senders "
    "come back from Write - each must get its own reply, A too.")
for _p in ("C19", "C20"):
    PROPS[_p]["rule"] = PROPS[_p].get("rule", "") + (" kltype: a localfs tree with a regular file, directory, symlink, fifo, socket, character and block "
        "device (mknod; skipped where the host refuses): the QID type from Walk, GetAttr and Readdir equals the QID type of the reported mode.")
    PROPS[_p]["rule"] = PROPS[_p].get("rule", "") + (" kmapbig: 70 000 .. 300 000 distinct source paths through one mapper (every thousandth through a second "
        "one sharing the generator), then 2000 earlier ones again: same answers, no two sources share a path.")
PROPS["C18"]["rule"] = PROPS["C18"].get("rule", "") + (" kmux (client side): concurrent calls answered in every order, in a quarter of the runs every one refused with "
    "an errno of its own, back to back: each caller must see the QID / errno sent for its request (a reply object shared between calls shows as wrongerr / foreign).")
PROPS["C15"]["level_text"] += (" The errno of a failing backend call is what the client gets (Session/Errors.lean): a Twrite / Tread whose WriteAt / ReadAt "
    "fails is answered Rlerror(e) - whatever count the backend reports next to the error - with that single call made, the fid still bound and its "
    "reference count back where it was (write_error_is_reported, read_error_is_reported).")
PROPS["C09"]["level_text"] += (" A walk advances only through directories (walk_stops_at_non_directory, Session/Closes.lean): at any iteration of the "
    "component loop - the first or after any number of steps - a node the backend did not report as a directory ends the walk with EINVAL, and the only "
    "backend calls still made are Close calls of dropped references.")
for _p in ("C06", "C18"):
    PROPS[_p]["rule"] = PROPS[_p].get("rule", "") + (" kxconn: 8..16 connections of one server exchange Tversion/Rversion as fast as they can for 150..250 ms, "
        "with tags, msize and version strings of their own: every reply must carry its own connection's tag, size, msize and string (anything a reply is "
        "built from that is shared between connections shows within a few thousand replies).")
PROPS["C03"]["rule"] = PROPS["C03"].get("rule", "") + (" k5 (memfs backend, session model and identity oracle per request): Rename / Remove reach the backend as RenameAt / UnlinkAt on "
    "the parent under the entry's *current* name after any history of renames; kmuxfid: a handle's fid is not handed to another File while its Tclunk is in flight.")
PROPS["C04"]["rule"] = PROPS["C04"].get("rule", "") + (" k7scen (requests of one connection in flight together): two Tclunk of one fid, the first held inside the "
    "xattr commit - exactly one Rclunk, the other EBADF (lookup and unbind are one step).")
for _p in ("C19", "C20"):
    PROPS[_p]["rule"] = PROPS[_p].get("rule", "") + (" kcompose: composefs with a writable localfs mount - the QID of a Create reply, of GetAttr through the created File and "
        "of a Walk to its name are one; a mount whose directory is replaced between two listings is listed each time with what Walk + GetAttr report then.")
PROPS["C20"]["rule"] = PROPS["C20"].get("rule", "") + " kltqc: eight goroutines make the first lookup of one (device, inode) pair outside the compact encoding at the same moment: one answer."
PROPS["C03"]["rule"] = PROPS["C03"].get("rule", "") + (" k4: the same fid again after a request that failed inside the backend (a retried Open reaches the File again); kxattr: attribute "
    "values longer than a frame and longer than 64 KiB come back whole.")
PROPS["C06"]["rule"] = PROPS["C06"].get("rule", "") + (" k7pair also releases the second request first when it could enter the backend: it must be *answered* while the first is "
    "still held (bdone) - nothing a handler does after its backend call may wait for a lock the contract does not give the first.")
for _p in ("C11", "C12"):
    PROPS[_p]["rule"] = PROPS[_p].get("rule", "") + (" kneg: the fake server's Rlopen recommends an I/O unit (0, 512, 4096, 128 KiB, twice the msize, 1 GiB): chunk sizes stay those of the "
        "negotiated payload size; after negotiation Mkdir / Create / Symlink / Mknod / WalkGetAttr start with the request type of the version in the *reply*; a client call that "
        "does not return within 20 s is reported as hung.")
PROPS["C12"]["rule"] = PROPS["C12"].get("rule", "") + " kver: version strings of 8000..65535 bytes (answered, not dropped)."
PROPS["C02"]["rule"] = PROPS["C02"].get("rule", "") + " k2srv frames include Tflush of idle tags (replies without a body) before rejected frames with a body."
for _p in ("C01", "C02", "C03", "C11", "C16", "C18"):
    PROPS[_p]["rule"] = PROPS[_p].get("rule", "") + (" kalias readdirs: 2..4 connections list their own directories at once with blocked reply writers; every Rreaddir must carry "
        "entries of its own directory only.")
PROPS["C09"]["rule"] = PROPS["C09"].get("rule", "") + (" k7pair: an unlink of an entry excludes every call on that entry, walks out of it included (a walk step cannot be "
    "overtaken by an unlink-and-replace of the directory it is leaving).")
for _p in ("C02", "C05"):
    PROPS[_p]["rule"] = PROPS[_p].get("rule", "") + (" k2srv also ends a third of its streams by cutting the connection inside a frame that is fine so far (any byte after the first): "
        "Handle returns within 8 s (over a real socket pair: the vectorised read path).")
PROPS["C16"]["rule"] = PROPS["C16"].get("rule", "") + (" The shared-path storm also runs under the Go race detector in the quick tier (150 cases, about 10 s after a 30 s build): the "
    "property names data races, and a plain load where an atomic one is needed shows nowhere else.")
PROPS["C07"]["level_text"] += (" Regenerated obligation names_resolved_under_the_path_locks: every name look-up in pathNodeFor happens under the rename lock and the "
    "directory node's lock, so the node an unlink locks is the node the name denotes when UnlinkAt runs.")
PROPS["C10"]["level_text"] += (" Recycled response objects (Conc/RespPool.lean, after defect D20): over all clients of the process and every "
    "interleaving of calls starting, failing to send, being answered, connections failing and calls returning, a pooled response is referenced "
    "by no pending map and its channel is empty, no response serves two calls, and handleOne never blocks on a done channel while holding the "
    "receive token (reply path and error path); the pre-repair code is a 6-step witness in which a healthy client's reply can never be "
    "delivered. Regenerated obligation: sendRecv's send-failure branch deletes its pending entry and drains the channel before the deferred Put.")
PROPS["C10"]["rule"] += (" kstale: client X has a call waiting, 1..3 further calls on X fail while writing; a call on client Y; X's connection closes; "
    "Y's call must keep waiting and then return its own reply. A preparation (handshake/attach/clone against the lock-step fake server) that fails is "
    "reported (prepfailed=1).")
PROPS["C10"]["rule"] += (" kmuxfid: a Close whose Rclunk is withheld while another goroutine allocates a fid; kmux: half of the runs refuse a third of "
    "the calls with an errno that identifies the request - each caller must see its own errno.")
PROPS["C12"]["rule"] += " kmsz: two Tversion exchanges on one connection, the second Rversion must announce min(requested, 4 MiB) whatever came before."
PROPS["C13"]["rule"] += (" k13 also renegotiates a smaller msize after reads and reads a long attribute through an xattr fid; k13big: requested msize above "
    "4 MiB (lengths only); kxattr: GetXattr of values around and above one frame through a real client, every Tread count must fit a reply.")
PROPS["C14"]["rule"] += (" Victim tags are adversarial (0xffff, 0xfffe, 0x8000, 0); a victim kind holds the Close of a replaced fid; the chained flush "
    "(a Tflush naming a Tflush) is answered at once and is not counted as early; scenarios: an undecodable frame and a self-flush leave no tag behind.")
PROPS["C15"]["level_text"] += (" Regenerated obligation panicSafeOk: no backend call runs while a lock is held whose release is not a defer placed right "
    "after the acquisition - a recovered panic leaves no lock behind; scenarios inject panics in UnlinkAt and in Renamed (moved entry, descendant).")
PROPS["C17"]["level_text"] = (
    "Proof, both paths: reading n bytes through any segmentation into non-empty chunks, EOF attached to the last chunk or separate, yields the "
    "stream's first n bytes (induction over the read loop); recv over a segmented reader has the same outcome and leaves the same unread bytes "
    "as recv1 on the byte string; the whole outcome sequence of the receive loop is independent of the segmentation; EOF inside a frame is a "
    "connection error. The vectorised recvmsg loop (Transport/Vec.lean: readVec/scatter) fills the vectors with the same consecutive pieces for "
    "every segmentation (induction with scatter_append), and both paths deliver the same vectors (read_paths_agree).")
PROPS["C17"]["level_note"] = (
    "Trusted: Lean kernel; Transport/Seg.lean and Transport/Vec.lean transcribe Buffers.ReadFrom, io.ReadAtLeast and readFromBuffersLinux by hand; "
    "tie = K3: the same bytes under all single splits, byte-by-byte, random segmentations, every truncation point with EOF attached, through a "
    "chunking io.Reader and through a unix socketpair (recvmsg path).")
PROPS["C18"]["level_text"] += (" Further regenerated facts: the pooled encode buffer of send is released only after the frame is written, the pooled "
    "receive buffers only when recv returns, tread.handle never returns a read buffer itself.")
PROPS["C05"]["rule"] = PROPS["C05"].get("rule", "") + (" Concurrent runs: k7storm (lifecycle under shared-path storms) and k7scen (clunk racing an in-flight read, "
    "connection cut with a request in the backend, rename while a child is closing, panic in a Renamed callback).")
