import P9Model.Driver.K1
import P9Model.Driver.KVer
import P9Model.Driver.KIO
/-!
Line-protocol driver: reads `<mode> key=value …` lines on stdin, prints the model's
prediction for each on stdout (one line per line). Core library only (compiled `lean_exe`).
-/
open P9.Driver

def step (line : String) : String :=
  let toks := parseLine line
  match toks.head? with
  | some ("k1", _) => k1 toks
  | some ("k2", _) => k2 toks
  | some ("kparse", _) => kparse toks
  | some ("kvstr", _) => kvstr toks
  | some ("ktv", _) => ktv toks
  | some ("kchunk", _) => kchunk toks
  | some ("kneg", _) => kneg toks
  | some ("klfs", _) => klfs toks
  | _ => "bad-op"

partial def loop (h : IO.FS.Stream) (o : IO.FS.Stream) : IO Unit := do
  let line ← h.getLine
  if line.isEmpty then return ()
  o.putStrLn (step line)
  loop h o

def main : IO Unit := do
  let i ← IO.getStdin
  let o ← IO.getStdout
  loop i o
