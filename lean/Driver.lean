import P9Model.Driver.K1
import P9Model.Driver.KVer
import P9Model.Driver.KIO
import P9Model.Driver.KQid
import P9Model.Driver.K4
import P9Model.Driver.K19
import P9Model.Driver.KCS
import P9Model.Driver.KMux
import P9Model.Driver.K7
import P9Model.Driver.K5
/-!
Line-protocol driver: reads `<mode> key=value …` lines on stdin, prints the model's
prediction for each on stdout (one line per line). Core library only (compiled `lean_exe`).
State (for the stateful models) is threaded through the lines of one run.
-/
open P9.Driver

structure DState where
  q : QState := {}
  k4 : K4State := {}
  k5 : K5State := {}

def step (s : DState) (line : String) : DState × String :=
  let toks := parseLine line
  match toks.head? with
  | some ("k1", _) => (s, k1 toks)
  | some ("k2", _) => (s, k2 toks)
  | some ("k2srv", _) => (s, k2srv toks)
  | some ("kprim", _) => (s, kprim toks)
  | some ("k3", _) => (s, k3 toks)
  | some ("kparse", _) => (s, kparse toks)
  | some ("kvstr", _) => (s, kvstr toks)
  | some ("ktv", _) => (s, ktv toks)
  | some ("kmsz", _) => (s, kmsz toks)
  | some ("kxattr", _) => (s, kxattr toks)
  | some ("k13big", _) => (s, k13big toks)
  | some ("kmuxfid", _) => (s, kmuxfid toks)
  | some ("kstale", _) => (s, kstale toks)
  | some ("kalias", _) => (s, kalias toks)
  | some ("kxconn", _) => (s, kxconn toks)
  | some ("kearly", _) => (s, kearly toks)
  | some ("kchunk", _) => (s, kchunk toks)
  | some ("kneg", _) => (s, kneg toks)
  | some ("klfs", _) => (s, klfs toks)
  | some ("klikely", _) => (s, klikely toks)
  | some ("kltq", _) => let (q, o) := kltq s.q toks; ({ s with q := q }, o)
  | some ("kmap", _) => let (q, o) := kmap s.q toks; ({ s with q := q }, o)
  | some ("kmode", _) => (s, kmode toks)
  | some ("kfromos", _) => (s, kfromos toks)
  | some ("kmapc", _) => (s, kmapc toks)
  | some ("kmapbig", _) => (s, kmapbig toks)
  | some ("kltype", _) => (s, kltype toks)
  | some ("kltqc", _) => (s, kltqc toks)
  | some ("kcompose", _) => (s, kcompose toks)
  | some ("k19", _) => (s, k19 toks)
  | some ("kcs", _) => (s, kcs toks)
  | some ("k7pair", _) => (s, k7pair toks)
  | some ("k7flush", _) => (s, k7flush toks)
  | some ("k7tags", _) => (s, k7tags toks)
  | some ("k7reuse", _) => (s, k7reuse toks)
  | some ("k7scen", _) => (s, k7scen toks)
  | some ("kmutual", _) => (s, kmutual toks)
  | some ("k7rand", _) => (s, k7rand toks)
  | some ("k7storm", _) => (s, k7storm toks)
  | some ("kpool", _) => (s, kpool toks)
  | some ("kmux", _) => (s, kmux toks)
  | some ("k5new", _) => ({ s with k5 := { s.k5 with fs := {} } }, "ok")
  | some ("k5obs", _) => let (x, o) := k5obs s.k5 toks; ({ s with k5 := x }, o)
  | some ("k5stats", _) => (s, k5stats s.k5 ++ (if toks.any (·.1 == "show") then s!" fence={s.k5.fenceChecks} ident={s.k5.identChecks} moves={s.k5.moves}" else ""))
  | some ("k4", _) => let (x, o) := k4 s.k4 toks; ({ s with k4 := x }, o)
  | some ("k4new", _) => let (x, o) := k4new toks; ({ s with k4 := x }, o)
  | some ("k4stop", _) => let (x, o) := k4stop s.k4 toks; ({ s with k4 := x }, o)
  | some ("k4end", _) => let (x, o) := k4end s.k4 toks; ({ s with k4 := x }, o)
  | _ => (s, "bad-op")

partial def loop (h : IO.FS.Stream) (o : IO.FS.Stream) (s : DState) : IO Unit := do
  let line ← h.getLine
  if line.isEmpty then return ()
  let (s', out) := step s line
  o.putStrLn out
  loop h o s'

def main : IO Unit := do
  let i ← IO.getStdin
  let o ← IO.getStdout
  loop i o {}
