/-!
# ClientMux — the client's request multiplexer (p9/client.go sendRecv / waitAndRecv / handleOne)

A labelled transition system; the label records which goroutine moves and what the environment
(server, transport) does, so "every schedule and every reply order" is "every label sequence".

* every call owns a distinct tag (the pool's guarantee, C10 `outstanding_distinct`);
* `pending` is the map tag ↦ response slot; a slot's `done` channel has room for one value;
* whoever holds the `recvr` token runs `handleOne`: it blocks in `recv` until a frame arrives
  or the transport fails, delivers the frame to the slot of its tag, or – if the frame is
  unacceptable (garbage, unknown tag, wrong reply type) or the transport failed – sends the error
  to *every* pending slot and clears the map; then it gives the token back.
-/
namespace P9.Mux

/-- a frame as `handleOne` sees it: its tag and whether `recv` accepts it for that tag's call -/
structure Frame where
  tag : Nat
  acceptable : Bool
deriving Repr, DecidableEq

/-- what a call finds in its `done` channel: the reply that was delivered (by tag), or an error -/
inductive Res
  | reply (tag : Nat)
  | error
deriving Repr, DecidableEq

inductive Phase
  | unsent | waiting | holding | finished (r : Res)
deriving Repr, DecidableEq

structure St where
  calls : List (Nat × Phase) := []          -- tag ↦ phase of the call that owns the tag
  pending : List Nat := []                  -- tags in c.pending
  dones : List (Nat × Res) := []            -- non-empty done channels: tag ↦ value
  token : Option Nat := none                -- holder of the recvr token
  net : List Frame := []                    -- frames sent by the server, in arrival order
  broken : Bool := false                    -- the transport has failed
deriving Repr

inductive Label
  | send (t : Nat)                          -- a call registers its slot and sends its request
  | take (t : Nat)                          -- a waiting call wins the recvr token (its done is empty)
  | handle (t : Nat)                        -- the holder's handleOne + return of the token
  | finish (t : Nat)                        -- a call reads its done channel and returns
  | serverSend (f : Frame)                  -- environment: a frame arrives
  | fail                                    -- environment: the transport fails
deriving Repr, DecidableEq

def phase (s : St) (t : Nat) : Option Phase := (s.calls.find? (·.1 == t)).map (·.2)
def setPhase (s : St) (t : Nat) (p : Phase) : St :=
  { s with calls := s.calls.map fun c => if c.1 == t then (t, p) else c }
def doneOf (s : St) (t : Nat) : Option Res := (s.dones.find? (·.1 == t)).map (·.2)

/-- enabledness and effect of a label -/
def step (s : St) : Label → Option St
  | .send t =>
    if phase s t = some .unsent then
      some (setPhase { s with pending := t :: s.pending } t .waiting)
    else none
  | .take t =>
    if phase s t = some .waiting ∧ s.token = none ∧ doneOf s t = none then
      some (setPhase { s with token := some t } t .holding)
    else none
  | .handle t =>
    if phase s t = some .holding ∧ s.token = some t then
      match s.net with
      | f :: rest =>
        if f.acceptable ∧ f.tag ∈ s.pending then
          -- deliver to the slot of the frame's tag, and only there
          some (setPhase { s with net := rest, pending := s.pending.erase f.tag,
                                  dones := (f.tag, .reply f.tag) :: s.dones, token := none } t .waiting)
        else
          -- unacceptable frame: every pending call gets the error
          some (setPhase { s with net := rest, pending := [],
                                  dones := s.pending.map (fun p => (p, Res.error)) ++ s.dones, token := none } t .waiting)
      | [] =>
        if s.broken then
          some (setPhase { s with pending := [], dones := s.pending.map (fun p => (p, Res.error)) ++ s.dones,
                                  token := none } t .waiting)
        else none                                -- blocked in recv
    else none
  | .finish t =>
    match doneOf s t with
    | some r =>
      if phase s t = some .waiting then
        some (setPhase { s with dones := s.dones.filter (·.1 != t) } t (.finished r))
      else none
    | none => none
  | .serverSend f => if s.broken then none else some { s with net := s.net ++ [f] }
  | .fail => some { s with broken := true }

/-- reachability by label sequences -/
def runFrom (s : St) : List Label → Option St
  | [] => some s
  | l :: ls => match step s l with
    | some s' => runFrom s' ls
    | none => none

/-- **demultiplexing invariant**: whatever sits in a done channel is the reply carrying that
call's own tag, or an error -/
def OwnReplies (s : St) : Prop := ∀ e ∈ s.dones, e.2 = .reply e.1 ∨ e.2 = .error

/-- what finished calls returned is their own reply or an error -/
def OwnResults (s : St) : Prop := ∀ c ∈ s.calls, ∀ r, c.2 = .finished r → r = .reply c.1 ∨ r = .error

end P9.Mux
