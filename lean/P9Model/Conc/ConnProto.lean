/-!
# ConnProto — one server connection: tags, handlers, flush, reply frames (p9/server.go
handleRequest, StartTag / ClearTag / WaitTag, tflush.handle, sendMu)

Labels name the goroutine that moves (by request id) and the peer's sends, so every
interleaving of in-flight requests is a label sequence.  A reply is written under `sendMu`,
hence as one contiguous frame: `send` appends one whole frame.
Every label except `arrive` acts on the record of one request: `enabled` is its guard, `upd` its
effect on the record (table-driven, so that facts about all labels are proved at once).
-/
namespace P9.Conn

inductive Phase
  | arrived       -- decoded, not yet through StartTag
  | dropped       -- its tag was already in flight: "no valid tag", never answered
  | handling      -- between StartTag and the handler's return
  | waitingFlush  -- a Tflush blocked in WaitTag
  | handled       -- handler returned, ClearTag done, reply not yet written
  | replied
deriving Repr, DecidableEq

structure Req where
  tag : Nat
  flushOf : Option Nat := none     -- Tflush: the old tag
  phase : Phase := .arrived
  inBackend : Bool := false        -- a backend call on its behalf is running
  waited : Bool := false           -- Tflush: WaitTag has returned
  awaiting : Option Nat := none    -- Tflush: the request whose tag channel it waits on
deriving Repr, DecidableEq

structure St where
  reqs : List Req := []            -- request id = position
  active : List (Nat × Nat) := []  -- cs.tags: tag ↦ request id
  out : List (Nat × Nat) := []     -- reply frames written, oldest first: (tag, request id)
deriving Repr

inductive Act
  | start        -- StartTag
  | waitTag      -- tflush.handle calls WaitTag
  | wake         -- the awaited tag channel is closed
  | enter | leave   -- a backend call begins / returns
  | finish       -- handler returns; ClearTag
  | send         -- reply frame written under sendMu
deriving Repr, DecidableEq

inductive Label
  | arrive (tag : Nat) (flushOf : Option Nat)
  | act (a : Act) (i : Nat)
deriving Repr, DecidableEq

def get (s : St) (i : Nat) : Option Req := s.reqs[i]?
def holder (s : St) (tag : Nat) : Option Nat := (s.active.find? (·.1 == tag)).map (·.2)
def phaseOf (s : St) (j : Nat) : Option Phase := (get s j).map (·.phase)

def isDone (p : Option Phase) : Bool := p == some .handled || p == some .replied

/-- guard of an action on request record `r` -/
def enabled (s : St) (a : Act) (r : Req) : Bool :=
  match a with
  | .start => r.phase == .arrived
  | .waitTag => r.phase == .handling && r.flushOf.isSome && !r.waited
  | .wake => r.phase == .waitingFlush && (match r.awaiting with | some j => isDone (phaseOf s j) | none => false)
  | .enter => r.phase == .handling && r.flushOf.isNone && !r.inBackend
  | .leave => r.phase == .handling && r.inBackend
  | .finish => r.phase == .handling && !r.inBackend && (r.flushOf.isNone || r.waited)
  | .send => r.phase == .handled

/-- effect of an action on the record -/
def upd (s : St) (a : Act) (r : Req) : Req :=
  match a with
  | .start =>
    -- a Tflush is handled without registering its tag (the D19 `fix:`): never dropped, never a holder
    if r.flushOf.isSome then { r with phase := .handling }
    else if (holder s r.tag).isSome then { r with phase := .dropped } else { r with phase := .handling }
  | .waitTag =>
    match r.flushOf.bind (holder s) with
    | some j => { r with phase := .waitingFlush, awaiting := some j }
    | none => { r with waited := true }                                          -- idle / answered / a Tflush
  | .wake => { r with phase := .handling, waited := true }
  | .enter => { r with inBackend := true }
  | .leave => { r with inBackend := false }
  | .finish => { r with phase := .handled }
  | .send => { r with phase := .replied }

def step (s : St) : Label → Option St
  | .arrive tag fo => some { s with reqs := s.reqs ++ [{ tag := tag, flushOf := fo }] }
  | .act a i =>
    match get s i with
    | none => none
    | some r =>
      if enabled s a r then
        some { reqs := s.reqs.set i (upd s a r),
               active := (match a with
                 | .start => if r.flushOf.isSome || (holder s r.tag).isSome then s.active else (r.tag, i) :: s.active
                 | .finish => s.active.filter (·.2 != i)
                 | _ => s.active),
               out := (match a with
                 | .send => s.out ++ [(r.tag, i)]
                 | _ => s.out) }
      else none

def run (s : St) : List Label → Option St
  | [] => some s
  | l :: ls => match step s l with
    | some s' => run s' ls
    | none => none

/-- frames written for request `i` -/
def framesOf (s : St) (i : Nat) : Nat := (s.out.filter (·.2 == i)).length

/-! ### facts about all actions at once -/

theorem upd_tag (s : St) (a : Act) (r : Req) : (upd s a r).tag = r.tag := by
  cases a <;> simp only [upd] <;> (repeat' split) <;> rfl

theorem upd_flushOf (s : St) (a : Act) (r : Req) : (upd s a r).flushOf = r.flushOf := by
  cases a <;> simp only [upd] <;> (repeat' split) <;> rfl

/-- only `send` produces `replied`, and only from `handled` -/
theorem upd_replied (s : St) (a : Act) (r : Req) (h : enabled s a r = true) :
    (a = .send ∧ r.phase = .handled ∧ (upd s a r).phase = .replied) ∨
    (a ≠ .send ∧ r.phase ≠ .replied ∧ (upd s a r).phase ≠ .replied) := by
  cases a <;> simp only [enabled, Bool.and_eq_true, beq_iff_eq] at h <;> simp only [upd]
  case send => left; simp_all
  all_goals right
  case start => refine ⟨by simp, by simp [h], ?_⟩; (repeat' split) <;> simp
  case waitTag => refine ⟨by simp, by simp [h.1.1], ?_⟩; (repeat' split) <;> simp [h.1.1]
  case wake => exact ⟨by simp, by simp [h.1], by simp⟩
  case enter => exact ⟨by simp, by simp [h.1.1], by simp [h.1.1]⟩
  case leave => exact ⟨by simp, by simp [h.1], by simp [h.1]⟩
  case finish => exact ⟨by simp, by simp [h.1.1], by simp⟩

/-- a request that is `handled` or `replied` only moves by `send` (handled → replied): its
handler never runs again -/
theorem done_stable (s : St) (a : Act) (r : Req) (h : enabled s a r = true)
    (hd : r.phase = .handled ∨ r.phase = .replied) : a = .send := by
  cases a <;> simp only [enabled, Bool.and_eq_true, beq_iff_eq] at h <;> first
    | rfl
    | (rcases hd with hd | hd <;> simp_all)

/-- a backend call runs only while the request is `handling`, and never for a Tflush -/
theorem upd_inBackend (s : St) (a : Act) (r : Req) (h : enabled s a r = true)
    (hr : r.inBackend = true → r.phase = .handling ∧ r.flushOf = none) :
    (upd s a r).inBackend = true → (upd s a r).phase = .handling ∧ (upd s a r).flushOf = none := by
  cases a <;> simp only [enabled, Bool.and_eq_true, beq_iff_eq, Bool.not_eq_true', Option.isNone_iff_eq_none] at h <;>
    simp only [upd]
  case start => (repeat' split) <;> (intro hb; have := hr hb; simp_all)
  case waitTag =>
    (repeat' split) <;> (intro hb; have := hr (by simpa using hb); simp_all)
  case wake => intro hb; have := hr (by simpa using hb); simp_all
  case enter => intro _; exact ⟨h.1.1, h.1.2⟩
  case leave => simp
  case finish => simp_all
  case send => intro hb; have := hr (by simpa using hb); simp_all

end P9.Conn
