/-!
# Go's `sync.RWMutex` as a transition system (with writer preference), and lock ordering

`lockReq` is the moment a writer starts waiting: from then on new readers are refused (Go's
writer preference – this is why delay can propagate along a chain of pairwise conflicting
requests, interpretation I3).
-/
namespace P9.RW

structure RW where
  writer : Option Nat := none
  readers : List Nat := []
  waitingW : List Nat := []
deriving Repr

inductive Act
  | rlock (t : Nat) | runlock (t : Nat) | lockReq (t : Nat) | lockAcq (t : Nat) | unlock (t : Nat)
deriving Repr

def step (s : RW) : Act → Option RW
  | .rlock t => if s.writer.isNone ∧ s.waitingW = [] then some { s with readers := t :: s.readers } else none
  | .runlock t => if t ∈ s.readers then some { s with readers := s.readers.erase t } else none
  | .lockReq t => some { s with waitingW := s.waitingW ++ [t] }
  | .lockAcq t => if s.writer.isNone ∧ s.readers = [] ∧ t ∈ s.waitingW then
      some { s with writer := some t, waitingW := s.waitingW.erase t } else none
  | .unlock t => if s.writer = some t then some { s with writer := none } else none

def run (s : RW) : List Act → Option RW
  | [] => some s
  | a :: as => match step s a with
    | none => none
    | some s' => run s' as

/-- a writer excludes every reader (and there is at most one writer by construction) -/
def Excl (s : RW) : Prop := s.writer.isSome → s.readers = []

theorem step_excl (s s' : RW) (a : Act) (h : Excl s) (hs : step s a = some s') : Excl s' := by
  cases a <;> simp only [step] at hs <;> (try split at hs) <;> simp_all [Excl]
  all_goals (subst hs; simp_all)

/-- **Exclusion in every reachable state**, for every schedule of lock operations. -/
theorem run_excl (s s' : RW) (as : List Act) (h : Excl s) (hr : run s as = some s') : Excl s' := by
  induction as generalizing s with
  | nil => simp [run] at hr; subst hr; exact h
  | cons a as ih =>
    simp only [run] at hr
    split at hr
    · contradiction
    · next s1 hs1 => exact ih s1 (step_excl s s1 a h hs1) hr

/-! ## lock ordering excludes deadlock -/

/-- a snapshot of who holds and who waits: each blocked thread waits for one lock -/
structure Snap where
  threads : List Nat
  holds : Nat → List Nat          -- thread ↦ locks it holds
  wants : Nat → Option Nat        -- thread ↦ the lock it is blocked on
  rank : Nat → Nat                -- lock ↦ its rank in the acquisition order

/-- the discipline the lock scripts are checked for: a thread only waits for a lock that ranks
above everything it holds -/
def Ordered (s : Snap) : Prop :=
  ∀ t ∈ s.threads, ∀ m, s.wants t = some m → ∀ h ∈ s.holds t, s.rank h < s.rank m

/-- a set of threads is deadlocked when each of them is blocked on a lock held by another
blocked member of the set -/
def DeadlockSet (s : Snap) (d : List Nat) : Prop :=
  d ≠ [] ∧ (∀ t ∈ d, t ∈ s.threads) ∧
  ∀ t ∈ d, ∃ m, s.wants t = some m ∧ ∃ u ∈ d, m ∈ s.holds u

theorem exists_max_rank (s : Snap) (d : List Nat) (hne : d ≠ [])
    (hw : ∀ t ∈ d, ∃ m, s.wants t = some m) :
    ∃ t ∈ d, ∃ m, s.wants t = some m ∧ ∀ u ∈ d, ∀ m', s.wants u = some m' → s.rank m' ≤ s.rank m := by
  induction d with
  | nil => exact absurd rfl hne
  | cons a rest ih =>
    obtain ⟨ma, hma⟩ := hw a (by simp)
    by_cases hr : rest = []
    · subst hr
      refine ⟨a, by simp, ma, hma, ?_⟩
      intro u hu m' hm'
      simp only [List.mem_singleton] at hu
      subst hu
      rw [hma] at hm'
      cases hm'
      exact Nat.le_refl _
    · obtain ⟨t, ht, m, hm, hmax⟩ := ih hr (fun t ht => hw t (by simp [ht]))
      by_cases hcmp : s.rank m ≤ s.rank ma
      · refine ⟨a, by simp, ma, hma, ?_⟩
        intro u hu m' hm'
        simp only [List.mem_cons] at hu
        rcases hu with rfl | hu
        · rw [hma] at hm'; cases hm'; exact Nat.le_refl _
        · exact Nat.le_trans (hmax u hu m' hm') hcmp
      · refine ⟨t, by simp [ht], m, hm, ?_⟩
        intro u hu m' hm'
        simp only [List.mem_cons] at hu
        rcases hu with rfl | hu
        · rw [hma] at hm'; cases hm'; omega
        · exact hmax u hu m' hm'

/-- **Ordered acquisition admits no deadlock**: no set of threads can be waiting on each other –
whatever the number of threads, locks and connections. -/
theorem ordered_no_deadlock (s : Snap) (h : Ordered s) (d : List Nat) : ¬ DeadlockSet s d := by
  intro ⟨hne, hsub, hdead⟩
  obtain ⟨t, ht, m, hm, hmax⟩ := exists_max_rank s d hne (fun t ht => by
    obtain ⟨m, hm, _⟩ := hdead t ht; exact ⟨m, hm⟩)
  -- t waits for m, held by some blocked u in the set, who then waits for something ranked above m
  obtain ⟨m0, hm0, u, hu, hheld⟩ := hdead t ht
  rw [hm] at hm0
  cases hm0
  obtain ⟨mu, hmu, _⟩ := hdead u hu
  have h1 := h u (hsub u hu) mu hmu m hheld
  have h2 := hmax u hu mu hmu
  omega

end P9.RW
