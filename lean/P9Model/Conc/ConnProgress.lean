import P9Model.Conc.ConnInv
/-!
# Progress of the connection protocol: no request can get stuck

Since a Tflush is handled without registering its tag (the D19 `fix:`), the request a flush
waits for is never itself a flush.  Hence, in every reachable state, every accepted request that
has not been answered yet can either move itself, or waits for a non-flush request that can move
(a backend call returning is the `leave` action).  There are no cycles of waiters.
-/
namespace P9.Conn

def started (p : Phase) : Bool := p == .handling || p == .handled || p == .replied

structure Inv2 (s : St) : Prop where
  /-- holders of tags are non-flush requests whose handler is running -/
  active : ∀ e ∈ s.active, ∃ r, get s e.2 = some r ∧ r.flushOf = none ∧ r.phase = .handling
  /-- an awaited request is a non-flush request that was started -/
  await : ∀ i r, get s i = some r → ∀ j, r.awaiting = some j →
    ∃ rj, get s j = some rj ∧ rj.flushOf = none ∧ started rj.phase = true
  /-- a waiting flush waits for somebody -/
  waiting : ∀ i r, get s i = some r → r.phase = .waitingFlush → ∃ j, r.awaiting = some j

theorem inv2_init : Inv2 {} := by
  constructor
  · intro e he; cases he
  · intro i r h; simp [get] at h
  · intro i r h; simp [get] at h

theorem holder_mem {s : St} {t j : Nat} (h : holder s t = some j) : ∃ e ∈ s.active, e.2 = j := by
  unfold holder at h
  cases hf : s.active.find? (·.1 == t) with
  | none => simp [hf] at h
  | some e =>
    simp only [hf, Option.map_some, Option.some.injEq] at h
    exact ⟨e, List.mem_of_find?_eq_some hf, h⟩

/-- phases only move forward through handling → handled → replied for a started request -/
theorem upd_started (s : St) (a : Act) (r : Req) (h : enabled s a r = true) (hn : r.flushOf = none)
    (hs : started r.phase = true) : started (upd s a r).phase = true := by
  cases a <;> simp only [enabled, Bool.and_eq_true, beq_iff_eq, Bool.not_eq_true'] at h <;>
    simp only [upd, started] at *
  case start => simp [h] at hs
  case waitTag => simp [hn] at h
  case wake => simp [h.1] at hs
  case enter => simpa using hs
  case leave => simpa using hs
  case finish => simp
  case send => simp

theorem step_inv2 (s s' : St) (l : Label) (h : step s l = some s') (inv : Inv2 s) : Inv2 s' := by
  cases l with
  | arrive tag fo =>
    simp only [step, Option.some.injEq] at h
    subst h
    have hold : ∀ j r, get s j = some r → get { s with reqs := s.reqs ++ [({ tag := tag, flushOf := fo } : Req)] } j = some r := by
      intro j r hj
      unfold get at hj ⊢
      have hlt := (List.getElem?_eq_some_iff.mp hj).1
      simp only [List.getElem?_append, hlt, ↓reduceIte]
      exact hj
    have hnew : ∀ j r, get { s with reqs := s.reqs ++ [({ tag := tag, flushOf := fo } : Req)] } j = some r →
        get s j = some r ∨ r = { tag := tag, flushOf := fo } := by
      intro j r hj
      unfold get at hj ⊢
      simp only [List.getElem?_append] at hj
      split at hj
      · left; exact hj
      · right
        cases hk : j - s.reqs.length with
        | zero => simp [hk] at hj; exact hj.symm
        | succ k => simp [hk] at hj
    constructor
    · intro e he
      obtain ⟨r, hr, h1, h2⟩ := inv.active e he
      exact ⟨r, hold _ _ hr, h1, h2⟩
    · intro i r hi j hj
      rcases hnew i r hi with hi' | rfl
      · obtain ⟨rj, hrj, h1, h2⟩ := inv.await i r hi' j hj
        exact ⟨rj, hold _ _ hrj, h1, h2⟩
      · cases hj
    · intro i r hi hp
      rcases hnew i r hi with hi' | rfl
      · exact inv.waiting i r hi' hp
      · cases hp
  | act a i =>
    obtain ⟨r, hg, he, hreqs, _⟩ := step_act h
    have hlt := get_lt hg
    have hself : get s' i = some (upd s a r) := by unfold get; rw [hreqs]; exact get_set_self _ _ _ hlt
    have hother : ∀ j, j ≠ i → get s' j = get s j := by
      intro j hj; unfold get; rw [hreqs]; exact get_set_other _ _ _ _ hj
    -- the active table after the step
    have hactive : ∀ e ∈ s'.active, e ∈ s.active ∨ (a = .start ∧ e = (r.tag, i) ∧ r.flushOf.isSome = false) := by
      intro e he'
      simp only [step, hg, he, ↓reduceIte, Option.some.injEq] at h
      subst h
      cases a <;> simp only at he'
      case start =>
        split at he'
        · left; exact he'
        · rename_i hc
          simp only [Bool.or_eq_true, not_or, Bool.not_eq_true] at hc
          rcases List.mem_cons.mp he' with rfl | hm
          · right; exact ⟨rfl, rfl, hc.1⟩
          · left; exact hm
      case finish => left; exact (List.mem_filter.mp he').1
      all_goals (left; exact he')
    have hfinish : a = .finish → ∀ e ∈ s'.active, e.2 ≠ i := by
      intro ha e he'
      subst ha
      simp only [step, hg, he, ↓reduceIte, Option.some.injEq] at h
      subst h
      simpa using (List.mem_filter.mp he').2
    -- a started non-flush request stays one
    have hkeep : ∀ j rj, get s j = some rj → rj.flushOf = none → started rj.phase = true →
        ∃ rj', get s' j = some rj' ∧ rj'.flushOf = none ∧ started rj'.phase = true := by
      intro j rj hj hn hs
      by_cases hji : j = i
      · subst hji
        rw [hg] at hj; cases hj
        exact ⟨_, hself, by rw [upd_flushOf]; exact hn, upd_started s a r he hn hs⟩
      · exact ⟨rj, by rw [hother j hji]; exact hj, hn, hs⟩
    constructor
    · -- active
      intro e he'
      rcases hactive e he' with hold | ⟨ha, rfl, hnf⟩
      · obtain ⟨re, hre, hn, hph⟩ := inv.active e hold
        by_cases hei : e.2 = i
        · -- the action is on a holder: enter / leave keep it handling, finish removes it
          have : re = r := by rw [hei, hg] at hre; cases hre; rfl
          subst this
          refine ⟨upd s a re, by rw [hei]; exact hself, by rw [upd_flushOf]; exact hn, ?_⟩
          cases a with
          | start => simp [enabled, hph] at he
          | waitTag => simp [enabled, hn] at he
          | wake => simp [enabled, hph] at he
          | enter => simpa [upd] using hph
          | leave => simpa [upd] using hph
          | finish => exact absurd hei (hfinish rfl e he')
          | send => simp [enabled, hph] at he
        · exact ⟨re, by rw [hother _ hei]; exact hre, hn, hph⟩
      · subst ha
        refine ⟨upd s .start r, hself, by rw [upd_flushOf]; simpa using hnf, ?_⟩
        -- it was registered, so it was not dropped
        simp only [step, hg, he, ↓reduceIte, Option.some.injEq] at h
        have hnf' : r.flushOf.isSome = false := hnf
        simp only [upd, hnf', Bool.false_eq_true, ↓reduceIte]
        by_cases hh : (holder s r.tag).isSome = true
        · -- then the table would not have grown by this entry: it was there already – but then the
          -- old entry is a different request; either way the new state's entry (r.tag, i) is in s.active
          subst h
          simp only [hnf', hh, Bool.or_true, ↓reduceIte] at he'
          obtain ⟨re, hre, _, hph⟩ := inv.active _ he'
          simp only at hre
          rw [hg] at hre; cases hre
          simp only [enabled, beq_iff_eq] at he
          rw [he] at hph; cases hph
        · simp [hh]
    · -- await
      intro j rj hj k hk
      by_cases hji : j = i
      · subst hji
        rw [hself] at hj; cases hj
        -- awaiting is set by waitTag to the holder, otherwise unchanged
        cases a <;> simp only [upd] at hk
        case waitTag =>
          split at hk
          · rename_i j' hb
            simp only [Option.some.injEq] at hk; subst hk
            obtain ⟨t, ht, hh⟩ := Option.bind_eq_some_iff.mp hb
            obtain ⟨e, hem, hej⟩ := holder_mem hh
            obtain ⟨re, hre, hn, hph⟩ := inv.active e hem
            rw [hej] at hre
            exact hkeep _ re hre hn (by simp [started, hph])
          · obtain ⟨rk, hrk, hn, hs⟩ := inv.await j r hg k (by simpa using hk)
            exact hkeep k rk hrk hn hs
        case start =>
          obtain ⟨rk, hrk, hn, hs⟩ := inv.await j r hg k (by (repeat' split at hk) <;> simpa using hk)
          exact hkeep k rk hrk hn hs
        all_goals
          obtain ⟨rk, hrk, hn, hs⟩ := inv.await j r hg k (by simpa using hk)
          exact hkeep k rk hrk hn hs
      · rw [hother j hji] at hj
        obtain ⟨rk, hrk, hn, hs⟩ := inv.await j rj hj k hk
        exact hkeep k rk hrk hn hs
    · -- waiting
      intro j rj hj hp
      by_cases hji : j = i
      · subst hji
        rw [hself] at hj; cases hj
        cases a <;> simp only [enabled, Bool.and_eq_true, beq_iff_eq, Bool.not_eq_true'] at he <;> simp only [upd] at hp ⊢
        case start => (repeat' split at hp) <;> cases hp
        case waitTag =>
          split
          · exact ⟨_, rfl⟩
          · rename_i hb; simp only [hb] at hp; rw [he.1.1] at hp; cases hp
        case wake => cases hp
        case enter => rw [he.1.1] at hp; cases hp
        case leave => rw [he.1] at hp; cases hp
        case finish => cases hp
        case send => cases hp
      · rw [hother j hji] at hj; exact inv.waiting j rj hj hp

theorem run_inv2 (ls : List Label) (s s' : St) (h : run s ls = some s') (inv : Inv2 s) : Inv2 s' := by
  induction ls generalizing s with
  | nil => simp only [run, Option.some.injEq] at h; subst h; exact inv
  | cons l ls ih =>
    simp only [run] at h
    split at h
    · next s1 hs1 => exact ih s1 h (step_inv2 s s1 l hs1 inv)
    · cases h

/-- a non-flush request that is accepted and unanswered can always move: start, the return of its
backend call, the return of its handler, or the writing of its reply -/
theorem nonflush_can_move (s : St) (r : Req) (hn : r.flushOf = none)
    (hp : r.phase ≠ .dropped ∧ r.phase ≠ .replied ∧ r.phase ≠ .waitingFlush) : ∃ a, enabled s a r = true := by
  cases hph : r.phase with
  | arrived => exact ⟨.start, by simp [enabled, hph]⟩
  | dropped => exact absurd hph hp.1
  | handling =>
    cases hb : r.inBackend with
    | true => exact ⟨.leave, by simp [enabled, hph, hb]⟩
    | false => exact ⟨.finish, by simp [enabled, hph, hb, hn]⟩
  | waitingFlush => exact absurd hph hp.2.2
  | handled => exact ⟨.send, by simp [enabled, hph]⟩
  | replied => exact absurd hph hp.2.1

/-- **No request gets stuck** – in every state reachable by any interleaving, every accepted request
that has not been answered can move itself, or is a Tflush waiting for a *non-flush* request that
can move (so there are no cycles of waiters; a backend call that returns is the move `leave`). -/
theorem progress (ls : List Label) (s : St) (h : run {} ls = some s) (i : Nat) (r : Req)
    (hi : get s i = some r) (hp : r.phase ≠ .dropped ∧ r.phase ≠ .replied) :
    (∃ a, enabled s a r = true) ∨
    (∃ j rj, r.awaiting = some j ∧ get s j = some rj ∧ rj.flushOf = none ∧ ∃ a, enabled s a rj = true) := by
  have inv2 := run_inv2 ls {} s h inv2_init
  cases hph : r.phase with
  | arrived => left; exact ⟨.start, by simp [enabled, hph]⟩
  | dropped => exact absurd hph hp.1
  | replied => exact absurd hph hp.2
  | handled => left; exact ⟨.send, by simp [enabled, hph]⟩
  | handling =>
    left
    cases hb : r.inBackend with
    | true => exact ⟨.leave, by simp [enabled, hph, hb]⟩
    | false =>
      cases hf : r.flushOf with
      | none => exact ⟨.finish, by simp [enabled, hph, hb, hf]⟩
      | some old =>
        cases hw : r.waited with
        | true => exact ⟨.finish, by simp [enabled, hph, hb, hf, hw]⟩
        | false => exact ⟨.waitTag, by simp [enabled, hph, hf, hw]⟩
  | waitingFlush =>
    obtain ⟨j, hj⟩ := inv2.waiting i r hi hph
    obtain ⟨rj, hrj, hn, hs⟩ := inv2.await i r hi j hj
    by_cases hd : isDone (phaseOf s j) = true
    · left; exact ⟨.wake, by simp [enabled, hph, hj, hd]⟩
    · right
      refine ⟨j, rj, hj, hrj, hn, ?_⟩
      -- started and not done: handling
      have hph_j : rj.phase = .handling := by
        unfold isDone phaseOf at hd
        simp only [hrj, Option.map_some, Bool.or_eq_true, beq_iff_eq, Option.some.injEq, not_or] at hd
        unfold started at hs
        simp only [Bool.or_eq_true, beq_iff_eq] at hs
        rcases hs with (h1 | h2) | h3
        · exact h1
        · exact absurd h2 hd.1
        · exact absurd h3 hd.2
      exact nonflush_can_move s rj hn ⟨by simp [hph_j], by simp [hph_j], by simp [hph_j]⟩

end P9.Conn
