import P9Model.Gen.Locks
/-!
# Interpreting the regenerated lock scripts (C06, C15, C16, C20)

`observe` walks a function's event script with the set of locks held on entry and returns one
observation per backend call, tracked-field access and lock acquisition: what was held at that
point and through which chain of functions it was reached.  Calls are resolved by bare name to
*every* scripted function of that name (an over-approximation: `handler.handle(cs)` reaches all
`t*.handle`), closures are inlined where the callee invokes its function parameter, a `go`
statement starts with no locks, a branch ending in `return`/`panic` does not affect what follows.
-/
namespace P9.Locks
open P9.Gen

structure Obs where
  kind : String          -- "backend" | "access" | "acquire"
  what : String          -- method / field / mutex
  held : List String     -- mutexes held, as "name:W" / "name:R" (with multiplicity)
  chain : List String    -- enclosing functions, innermost first
  guards : List String := []  -- "safelyRead@ref"-style: the path-tree guards entered, innermost first
  recv : String := ""    -- receiver expression of a backend call
deriving Repr, DecidableEq

def removeOne (l : List String) (x : String) : List String :=
  match l with
  | [] => []
  | y :: ys => if y == x ++ ":W" || y == x ++ ":R" then ys else y :: removeOne ys x

/-- is the mutex held (in either mode)? -/
def holds (held : List String) (m : String) : Bool := held.contains (m ++ ":W") || held.contains (m ++ ":R")

abbrev Scripts := List (String × String × List LEv)

def candidates (ss : Scripts) (bare : String) : List (String × List LEv) :=
  (ss.filter (·.2.1 == bare)).map fun s => (s.1, s.2.2)

mutual
/-- events in order; returns observations and the held set afterwards -/
def walkEvs (ss : Scripts) : Nat → List LEv → List String → List LEv → List String → List String → List Obs × List String
  | 0, _, held, _, _, _ => ([], held)
  | _, [], held, _, _, _ => ([], held)
  | fuel+1, e :: rest, held, closure, chain, guards =>
    let (o1, h1) := walkEv ss fuel e held closure chain guards
    let (o2, h2) := walkEvs ss fuel rest h1 closure chain guards
    (o1 ++ o2, h2)

def walkEv (ss : Scripts) : Nat → LEv → List String → List LEv → List String → List String → List Obs × List String
  | 0, _, held, _, _, _ => ([], held)
  | fuel+1, e, held, closure, chain, guards =>
    -- a lock whose release is not deferred leaves a marker "~name" until it is released: such a
    -- lock stays held if a panic unwinds through the section (`panicSafeOk`)
    if e.kind == "lock" then ([⟨"acquire", e.a, held, chain, guards, ""⟩],
      if e.b == "defer" then (e.a ++ ":W") :: held else ("~" ++ e.a) :: (e.a ++ ":W") :: held)
    else if e.kind == "rlock" then ([⟨"acquire", e.a, held, chain, guards, ""⟩],
      if e.b == "defer" then (e.a ++ ":R") :: held else ("~" ++ e.a) :: (e.a ++ ":R") :: held)
    else if e.kind == "unlock" || e.kind == "runlock" then ([], (removeOne held e.a).erase ("~" ++ e.a))
    else if e.kind == "backend" then ([⟨"backend", e.a, held, chain, guards, e.b⟩], held)
    else if e.kind == "access" then ([⟨"access", e.a, held, chain, guards, ""⟩], held)
    else if e.kind == "param" then
      let (o, _) := walkEvs ss fuel closure held [] chain guards
      (o, held)
    else if e.kind == "branch" then
      let (o, h) := walkEvs ss fuel e.sub held closure chain guards
      (o, if e.a == "ret" then held else h)
    else if e.kind == "go" then
      let (o, _) := walkEvs ss fuel e.sub [] closure chain []
      (o, held)
    else if e.kind == "call" then
      let guards' := if e.a == "safelyRead" || e.a == "safelyWrite" || e.a == "safelyGlobal" || e.a == "safelyReadParent" then (e.a ++ "@" ++ e.b) :: guards else guards
      let os := (candidates ss e.a).map fun (full, evs) =>
        if chain.contains full then [] else (walkEvs ss fuel evs held e.sub (full :: chain) guards').1
      (os.flatten, held)
    else ([], held)
end

/-- observations of the thread that starts in function `entry` holding nothing -/
def observe (ss : Scripts) (entry : String) : List Obs :=
  match ss.find? (·.1 == entry) with
  | some (_, _, evs) => (walkEvs ss 400 evs [] [] [entry] []).1
  | none => [⟨"missing-entry", entry, [], [], [], ""⟩]

/-- thread entry points: a server request goroutine, connection teardown, a client call,
the allocator, the QID mapper -/
def entries : List String :=
  ["connState.handleRequest", "connState.stop", "Client.sendRecv", "pool.Get", "pool.Put", "Mapper.QIDFor"]

def allObs : List Obs := (entries.map (observe Gen.lockScripts)).flatten

/-- the mutex that must be held for each tracked field -/
def guardOf : String → String
  | "fids" => "fidMu" | "tags" => "tagMu" | "childNodes" => "childMu" | "childRefs" => "childMu"
  | "childRefNames" => "childMu" | "cache" => "mu" | "pending" => "pendingMu" | "paths" => "mu"
  | "wire.send" => "sendMu" | "wire.recv" => "recvMu" | _ => "?"

/-- **lockset**: every access to a tracked shared field happens with its mutex held.
(`connState.stop` iterates `cs.fids` after `pendingWg.Wait()`: no other goroutine of the connection
exists any more – the one access exempted.  Frames (`wire.send` / `wire.recv`: calls of the
package-level `send` / `recv`) count as accesses to the connection: written under `sendMu`, read
under `recvMu`; the client reads under its channel token instead, which is the `take` label of
the ClientMux model.) -/
def locksetOk : Bool :=
  allObs.all fun o => o.kind != "access" || holds o.held (guardOf o.what) || o.chain.getLast? == some "connState.stop"
    || (o.what == "wire.recv" && o.chain.contains "Client.waitAndRecv")

/-- the lockset obligation restricted to the QID mapper (C20) -/
def mapperLocksetOk : Bool :=
  let obs := observe Gen.lockScripts "Mapper.QIDFor"
  obs.all (fun o => o.kind != "access" || holds o.held (guardOf o.what)) &&
  (obs.filter fun o => o.kind == "access" && o.what == "paths").length ≥ 2

/-- … restricted to the frames on the wire (C06) -/
def wireLocksetOk : Bool :=
  allObs.all fun o => !(o.kind == "access" && (o.what == "wire.send" || o.what == "wire.recv")) ||
    holds o.held (guardOf o.what) || o.chain.contains "Client.waitAndRecv"

/-- frames are really written and read somewhere in the scripts (the lockset obligation is not
vacuous for the wire): the server writes replies at two sites and reads at one, the client
writes at one -/
def wireSitesSeen : Bool :=
  (allObs.filter fun o => o.kind == "access" && o.what == "wire.send").length ≥ 3 &&
  (allObs.filter fun o => o.kind == "access" && o.what == "wire.recv").length ≥ 2

/-- leaf mutexes: never held while a backend File method runs -/
def leafMutexes : List String := ["fidMu", "tagMu", "sendMu", "recvMu", "pendingMu", "mu"]

/-- **leaf mutexes are leaves**: no backend call runs while one of them is held. -/
def leafOk : Bool :=
  allObs.all fun o => o.kind != "backend" || leafMutexes.all (fun m => !holds o.held m)

/-- backend calls made while a childMu is held: only inside the rename region, which holds
renameMu for write (so that no other request thread is inside the tree) -/
def childMuBackendOk : Bool :=
  allObs.all fun o => o.kind != "backend" || !holds o.held "childMu" ||
    (o.held.contains "renameMu:W" && o.chain.contains "fidRef.renameChildTo")

/-- **panic safety of the locking**: no backend call (the only code that may panic by contract –
`handle` recovers and answers EFAULT) runs while a lock is held whose release is not deferred: a
panic unwinding through such a section would leave the lock held for good. -/
def panicSafeOk : Bool :=
  allObs.all fun o => o.kind != "backend" || !(o.held.any fun h => h.startsWith "~")

/-- all (held, acquired) pairs -/
def nestings : List (String × String × List String) :=
  (allObs.filter (·.kind == "acquire")).flatMap fun o =>
    (o.held.filter fun h => !h.startsWith "~").map fun h => ((h.dropRight 2), o.what, o.chain)

def rank : String → Nat
  | "openedMu" => 0 | "renameMu" => 1 | "opMu" => 2 | "fidMu" => 3 | "childMu" => 4 | _ => 5

/-- **lock order**: acquisitions respect openedMu < renameMu < opMu < fidMu < childMu < leaves, except
(1) opMu under opMu: Tunlinkat locks the child's node below the directory's (tree-descending),
(2) childMu under childMu: only on the way `removeWithName → closure of renameChildTo`, which runs
    under renameMu held for write (addChild of the *other* directory, DecRef of an ancestor),
(3) childMu under childMu in forEachChildNode's recursion (tree-descending, read locks). -/
def orderOk : Bool :=
  nestings.all fun (h, m, chain) =>
    rank h < rank m ||
    (h == "opMu" && m == "opMu" && chain.contains "tunlinkat.handle") ||
    (h == "childMu" && m == "childMu" &&
      ((chain.contains "fidRef.renameChildTo" && chain.contains "pathNode.removeWithName") ||
       chain.contains "pathNode.forEachChildNode")) ||
    (h == "renameMu" && m == "renameMu" && false)

/-! ### the File concurrency contract (C07): which guard surrounds each backend call -/

def writeClass : List String := ["Create", "Mkdir", "Symlink", "Link", "Mknod", "SetAttr"]
def readClass : List String := ["Open", "ReadAt", "WriteAt", "Readdir", "Readlink", "FSync", "GetXattr", "ListXattrs",
  "SetXattr", "RemoveXattr"]

/-- the reference a backend receiver expression belongs to: "ref.file" ↦ "ref" -/
def refOf (recv : String) : String := if recv.endsWith ".file" then recv.dropRight 5 else recv

/-- **guards meet the contract**, per backend call of a request handler:
* write class (Create Mkdir Symlink Link Mknod SetAttr): `safelyWrite` on the receiver's reference
  – renameMu read-held, the node's opMu write-held;
* `UnlinkAt` of Tunlinkat: the same, plus the child's node write-locked (a second opMu:W);
* `RenameAt`, `Renamed` and Tremove's `UnlinkAt`: `safelyGlobal` – renameMu write-held;
* read class: `safelyRead` on the receiver's reference – renameMu and the node's opMu read-held;
  `GetAttr` of Tgetattr likewise;
* walks (`walkOne`): `safelyRead` on the reference walked from (a clone: `safelyReadParent`, which
  looks the parent up under renameMu – I2; the D15 `fix:`);
* exempt (I2 / class none): calls on a File not yet bound to a fid (Attach's and walkOne's `sf`),
  `StatFS`, `Lock`, `Close`. -/
def guardsMeetContract : Bool :=
  allObs.all fun o =>
    if o.kind != "backend" then true
    else if o.what == "Close" || o.what == "StatFS" || o.what == "Lock" then true
    else if o.recv == "sf" || o.recv == "xf" || o.recv == "nsf" then true
    else if o.what == "Renamed" || o.what == "RenameAt" then o.held.contains "renameMu:W"
    else if o.what == "UnlinkAt" then
      (o.chain.contains "tremove.handle" && o.held.contains "renameMu:W") ||
      (o.chain.contains "tunlinkat.handle" && o.guards.head? == some ("safelyWrite@" ++ refOf o.recv) &&
        (o.held.filter (· == "opMu:W")).length == 2 && o.held.contains "renameMu:R")
    else if writeClass.contains o.what then
      o.guards.head? == some ("safelyWrite@" ++ refOf o.recv) && o.held.contains "opMu:W" && o.held.contains "renameMu:R"
    else if o.what == "Walk" || o.what == "WalkGetAttr" then
      (o.chain.head? == some "walkOne" &&
        -- (the File walked from is a parameter of walkOne: the guard is the caller's, on whatever its
        --  reference variable is called)
        (match o.guards.head? with
          | some g => g.startsWith "safelyRead@" || g.startsWith "safelyReadParent@"
          | none => false) &&
        o.held.contains "opMu:R") ||
      (o.chain.contains "txattrwalk.handle" && o.guards.head? == some ("safelyRead@" ++ refOf o.recv) && o.held.contains "opMu:R")
    else if readClass.contains o.what || o.what == "GetAttr" then
      o.guards.head? == some ("safelyRead@" ++ refOf o.recv) && o.held.contains "opMu:R" && o.held.contains "renameMu:R"
    else false

/-- **A name is resolved to its path node under the locks that keep the name in place**: every
look-up in `pathNodeFor` (the accesses to `childNodes` made inside it) happens with the rename lock
write-held, or with it read-held together with the directory node's operation lock – so a rename
cannot re-bind the name between the look-up and the locking of the node it yielded (a Tunlinkat
that resolved the child node first and locked afterwards would lock a node the name no longer
denotes). -/
def nameLookupsUnderPathLocks : Bool :=
  allObs.all fun o =>
    !(o.kind == "access" && o.what == "childNodes" && o.chain.contains "pathNode.pathNodeFor") ||
    (o.held.contains "renameMu:W" ||
      (o.held.contains "renameMu:R" && (o.held.contains "opMu:R" || o.held.contains "opMu:W")))

/-- `Open` is reached only inside the per-fidRef critical section that also tests and sets
`opened` (so it is invoked at most once per File) -/
def openOnceOk : Bool :=
  allObs.all fun o => !(o.kind == "backend" && o.what == "Open") || o.held.contains "openedMu:W"

end P9.Locks
