/-!
# Guards of the path-tree wrappers as sets of (lock instance, mode)

lock instances: 0 = Server.renameMu, `n+1` = opMu of path node `n`; `true` = write.
A request may pass through several guarded stages before its backend call (Twalk tests
`opened` under a read guard on its own node before a clone takes the parent's).
-/
namespace P9.Guards

abbrev Guard := List (Nat × Bool)

/-- two guards are compatible when both can be held at once: RWMutex semantics on each shared
lock instance – a write hold excludes everything, read holds share -/
def compatible (a b : Guard) : Bool :=
  a.all fun (la, wa) => b.all fun (lb, wb) => la != lb || (!wa && !wb)

def guardRead (node : Nat) : Guard := [(0, false), (node + 1, false)]
def guardWrite (node : Nat) : Guard := [(0, false), (node + 1, true)]
def guardUnlink (dir child : Nat) : Guard := [(0, false), (dir + 1, true), (child + 1, true)]
def guardGlobal : Guard := [(0, true)]

/-- concurrency class of an operation as issued by a request, on node `n` with parent `p`
(`c` = the entry an unlink removes) -/
inductive Cls
  | none | read | write | unlink (c : Nat) | global | clone
deriving Repr, DecidableEq

/-- guard held during the backend call -/
def held (cl : Cls) (n p : Nat) : Guard :=
  match cl with
  | .none => []
  | .read => guardRead n
  | .write => guardWrite n
  | .unlink c => guardUnlink n c
  | .global => guardGlobal
  | .clone => guardRead p

/-- guards taken (and released) on the way to the backend call, in order -/
def stages (cl : Cls) (n p : Nat) : List Guard :=
  match cl with
  | .clone => [guardRead n, guardRead p]
  | _ => [held cl n p]

/-- with the first request held inside the backend, can the second reach the backend too? -/
def overlaps (a : Cls) (na pa : Nat) (b : Cls) (nb pb : Nat) : Bool :=
  (stages b nb pb).all (compatible (held a na pa))

end P9.Guards
