/-!
# RespPool — the client's recycled response objects (p9/client.go responsePool, sendRecv, handleOne)

`sendRecv` takes a `*response` from a process-wide `sync.Pool`, registers it in its client's
`pending` map under the call's tag and gives it back when it returns.  `handleOne` sends into the
`done` channel (capacity 1) of the response registered under the tag of the reply – or, when the
connection fails, of every response registered on that client – *while holding the receive token*,
so a send that blocks stops the whole client.  `ClientMux` treats "the slot of a call" as private
to the call; this model is what justifies that: objects, all clients' pending maps and the pool in
one state, every interleaving of the moves below.

* `acquire`/`acquireNew`: Get (or New) + register under (client, tag);
* `sendFail`: the request could not be written: the entry is removed, the channel drained, Put (D20 fix;
  `sendFailBuggy` is the code before the fix: Put only);
* `deliver`: handleOne, reply path: entry removed, value sent – blocks if the channel is full;
* `failAll`: handleOne, error path: every entry of the client removed, a value sent to each –
  blocks if one of the channels is full;
* `finish`: a call reads its channel and returns: Put.
-/
namespace P9.RespPool

abbrev Key := Nat × Nat        -- (client, tag)

structure St where
  pool : List Nat := []                  -- objects in the sync.Pool
  pending : List (Key × Nat) := []       -- all clients' pending maps: (client, tag) ↦ object
  full : List Nat := []                  -- objects whose done channel holds a value
  next : Nat := 0                        -- objects not yet made by New
deriving Repr, DecidableEq

inductive Label
  | acquire (k : Key) (o : Nat)
  | acquireNew (k : Key)
  | sendFail (k : Key)
  | sendFailBuggy (k : Key)
  | deliver (k : Key)
  | failAll (c : Nat)
  | finish (o : Nat)
deriving Repr, DecidableEq

def objOf (s : St) (k : Key) : Option Nat := (s.pending.find? (·.1 == k)).map (·.2)
def objs (s : St) : List Nat := s.pending.map (·.2)
def hasKey (s : St) (k : Key) : Bool := s.pending.any (·.1 == k)

/-- `none` = the move is not possible *or blocks forever* (`deliver`/`failAll` on a full channel) -/
def step (s : St) : Label → Option St
  | .acquire k o =>
    if o ∈ s.pool ∧ hasKey s k = false then
      some { s with pool := s.pool.erase o, pending := (k, o) :: s.pending }
    else none
  | .acquireNew k =>
    if hasKey s k = false then
      some { s with pending := (k, s.next) :: s.pending, next := s.next + 1 }
    else none
  | .sendFail k =>
    match objOf s k with
    | some o => some { s with pending := s.pending.filter (·.1 != k), full := s.full.erase o, pool := o :: s.pool }
    | none => none
  | .sendFailBuggy k =>
    match objOf s k with
    | some o => some { s with pool := o :: s.pool }
    | none => none
  | .deliver k =>
    match objOf s k with
    | some o =>
      if o ∈ s.full then none
      else some { s with pending := s.pending.filter (·.1 != k), full := o :: s.full }
    | none => none
  | .failAll c =>
    let mine := (s.pending.filter (·.1.1 == c)).map (·.2)
    if mine.any (· ∈ s.full) then none
    else some { s with pending := s.pending.filter (·.1.1 != c), full := mine ++ s.full }
  | .finish o =>
    if o ∈ s.full then some { s with full := s.full.erase o, pool := o :: s.pool } else none

def run (s : St) : List Label → Option St
  | [] => some s
  | l :: ls => match step s l with
    | some s' => run s' ls
    | none => none

/-- the labels of the repaired code -/
def Fixed : Label → Prop
  | .sendFailBuggy _ => False
  | _ => True

structure Inv (s : St) : Prop where
  poolNodup : s.pool.Nodup
  objsNodup : (objs s).Nodup
  fullNodup : s.full.Nodup
  poolFree : ∀ o ∈ s.pool, o ∉ objs s ∧ o ∉ s.full
  fullFree : ∀ o ∈ s.full, o ∉ objs s
  bound : ∀ o, (o ∈ s.pool ∨ o ∈ objs s ∨ o ∈ s.full) → o < s.next

end P9.RespPool
