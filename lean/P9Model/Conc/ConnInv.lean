import P9Model.Conc.ConnProto
/-! Invariants of ConnProto, for every label sequence. -/
namespace P9.Conn

theorem get_lt {s : St} {i : Nat} {r : Req} (h : get s i = some r) : i < s.reqs.length := by
  unfold get at h
  exact (List.getElem?_eq_some_iff.mp h).1

theorem get_set_self (l : List Req) (i : Nat) (r : Req) (h : i < l.length) : (l.set i r)[i]? = some r := by
  simp [List.getElem?_set, h]

theorem get_set_other (l : List Req) (i j : Nat) (r : Req) (h : j ≠ i) : (l.set i r)[j]? = l[j]? := by
  simp only [List.getElem?_set]
  have : ¬ i = j := fun e => h e.symm
  simp [this]

/-- the effect of an enabled action, spelled out -/
theorem step_act {s s' : St} {a : Act} {i : Nat} (h : step s (.act a i) = some s') :
    ∃ r, get s i = some r ∧ enabled s a r = true ∧ s'.reqs = s.reqs.set i (upd s a r) ∧
      s'.out = (match a with | .send => s.out ++ [(r.tag, i)] | _ => s.out) := by
  simp only [step] at h
  cases hg : get s i with
  | none => simp [hg] at h
  | some r =>
    simp only [hg] at h
    split at h
    · rename_i he
      simp only [Option.some.injEq] at h
      subst h
      exact ⟨r, rfl, he, rfl, by cases a <;> rfl⟩
    · cases h

structure Inv (s : St) : Prop where
  frames : ∀ i r, get s i = some r → framesOf s i = (if r.phase = .replied then 1 else 0)
  outs : ∀ e ∈ s.out, ∃ r, get s e.2 = some r ∧ r.tag = e.1 ∧ r.phase = .replied
  backend : ∀ i r, get s i = some r → r.inBackend = true → r.phase = .handling ∧ r.flushOf = none
  awaitNone : ∀ i r, get s i = some r → r.phase ≠ .waitingFlush → r.waited = false → r.awaiting = none
  flushed : ∀ i r, get s i = some r → r.waited = true → ∀ j, r.awaiting = some j → isDone (phaseOf s j) = true

theorem inv_init : Inv {} := by
  constructor
  · intro i r h; simp [get] at h
  · intro e he; cases he
  · intro i r h; simp [get] at h
  · intro i r h; simp [get] at h
  · intro i r h; simp [get] at h

theorem framesOf_append_same (s : St) (t i : Nat) :
    ((s.out ++ [(t, i)]).filter (·.2 == i)).length = (s.out.filter (·.2 == i)).length + 1 := by
  simp [List.filter_append]

theorem framesOf_append_other (s : St) (t i j : Nat) (h : j ≠ i) :
    ((s.out ++ [(t, i)]).filter (·.2 == j)).length = (s.out.filter (·.2 == j)).length := by
  have : ¬ i = j := fun e => h e.symm
  simp [List.filter_append, this]

theorem isDone_mono (s s' : St) (j : Nat)
    (hsame : ∀ r, get s j = some r → ∃ r', get s' j = some r' ∧ ((r.phase = .handled ∨ r.phase = .replied) → (r'.phase = .handled ∨ r'.phase = .replied)))
    (h : isDone (phaseOf s j) = true) : isDone (phaseOf s' j) = true := by
  unfold isDone phaseOf at *
  cases hg : get s j with
  | none => simp [hg] at h
  | some r =>
    obtain ⟨r', hr', himp⟩ := hsame r hg
    simp only [hg, Option.map_some, Bool.or_eq_true, beq_iff_eq, Option.some.injEq] at h
    simp only [hr', Option.map_some, Bool.or_eq_true, beq_iff_eq, Option.some.injEq]
    exact himp h

theorem step_inv (s s' : St) (l : Label) (h : step s l = some s') (inv : Inv s) : Inv s' := by
  cases l with
  | arrive tag fo =>
    simp only [step, Option.some.injEq] at h
    subst h
    have hget : ∀ j r, get { s with reqs := s.reqs ++ [({ tag := tag, flushOf := fo } : Req)] } j = some r →
        get s j = some r ∨ (j = s.reqs.length ∧ r = { tag := tag, flushOf := fo }) := by
      intro j r hj
      unfold get at hj ⊢
      simp only [List.getElem?_append] at hj
      split at hj
      · left; exact hj
      · right
        have hjl : j - s.reqs.length = 0 := by
          cases hk : j - s.reqs.length with
          | zero => rfl
          | succ k => simp [hk] at hj
        simp only [hjl, List.getElem?_cons_zero, Option.some.injEq] at hj
        exact ⟨by omega, hj.symm⟩
    have hold : ∀ j r, get s j = some r → get { s with reqs := s.reqs ++ [({ tag := tag, flushOf := fo } : Req)] } j = some r := by
      intro j r hj
      unfold get at hj ⊢
      rw [List.getElem?_append_left (get_lt hj)]; exact hj
    constructor
    · intro i r hi
      rcases hget i r hi with h0 | ⟨hi0, rfl⟩
      · exact inv.frames i r h0
      · -- a fresh request has no frame: every frame belongs to an older request
        subst hi0
        have : framesOf s s.reqs.length = 0 := by
          unfold framesOf
          rw [List.length_eq_zero_iff, List.filter_eq_nil_iff]
          intro e he
          obtain ⟨r, hr, _⟩ := inv.outs e he
          have := get_lt hr
          simp only [beq_iff_eq]; omega
        simpa [framesOf] using this
    · intro e he
      obtain ⟨r, hr, ht, hp⟩ := inv.outs e he
      exact ⟨r, hold _ _ hr, ht, hp⟩
    · intro i r hi hb
      rcases hget i r hi with h0 | ⟨_, rfl⟩
      · exact inv.backend i r h0 hb
      · cases hb
    · intro i r hi hp hw
      rcases hget i r hi with h0 | ⟨_, rfl⟩
      · exact inv.awaitNone i r h0 hp hw
      · rfl
    · intro i r hi hw j hj
      rcases hget i r hi with h0 | ⟨_, rfl⟩
      · refine isDone_mono s _ j (fun rj hrj => ⟨rj, hold _ _ hrj, id⟩) (inv.flushed i r h0 hw j hj)
      · cases hw
  | act a i =>
    obtain ⟨r, hg, he, hreqs, hout⟩ := step_act h
    have hi : i < s.reqs.length := get_lt hg
    have hself : get s' i = some (upd s a r) := by unfold get; rw [hreqs]; exact get_set_self _ _ _ hi
    have hother : ∀ j, j ≠ i → get s' j = get s j := by
      intro j hj; unfold get; rw [hreqs]; exact get_set_other _ _ _ _ hj
    have hrep := upd_replied s a r he
    -- phases `handled`/`replied` of every request survive the step
    have hdone : ∀ j rj, get s j = some rj → ∃ r', get s' j = some r' ∧
        ((rj.phase = .handled ∨ rj.phase = .replied) → (r'.phase = .handled ∨ r'.phase = .replied)) := by
      intro j rj hj
      by_cases hji : j = i
      · subst hji
        rw [hg] at hj; cases hj
        refine ⟨_, hself, fun hd => ?_⟩
        have := done_stable s a r he hd
        subst this
        right; simp [upd]
      · exact ⟨rj, by rw [hother j hji]; exact hj, id⟩
    constructor
    · -- frames
      intro j rj hj
      by_cases hji : j = i
      · subst hji
        rw [hself] at hj; cases hj
        have hf := inv.frames j r hg
        rcases hrep with ⟨rfl, hh, hr⟩ | ⟨hns, hnr, hnr'⟩
        · simp only [hr, if_true]
          unfold framesOf at hf ⊢
          rw [hout]
          simp only
          rw [framesOf_append_same, hf]
          simp [hh]
        · simp only [hnr', if_false]
          unfold framesOf at hf ⊢
          have : s'.out = s.out := by cases a <;> simp_all
          rw [this, hf]; simp [hnr]
      · rw [hother j hji] at hj
        have hf := inv.frames j rj hj
        unfold framesOf at hf ⊢
        rcases hrep with ⟨rfl, _, _⟩ | ⟨hns, _, _⟩
        · rw [hout]; simp only; rw [framesOf_append_other _ _ _ _ hji, hf]
        · have : s'.out = s.out := by cases a <;> simp_all
          rw [this, hf]
    · -- outs
      intro e he'
      rcases hrep with ⟨rfl, hh, hr⟩ | ⟨hns, hnr, _⟩
      · rw [hout] at he'
        simp only [List.mem_append, List.mem_singleton] at he'
        rcases he' with he' | rfl
        · obtain ⟨r0, hr0, ht, hp⟩ := inv.outs e he'
          by_cases hei : e.2 = i
          · rw [hei, hg] at hr0; cases hr0; rw [hh] at hp; cases hp
          · exact ⟨r0, by rw [hother _ hei]; exact hr0, ht, hp⟩
        · exact ⟨_, hself, upd_tag s .send r, hr⟩
      · have : s'.out = s.out := by cases a <;> simp_all
        rw [this] at he'
        obtain ⟨r0, hr0, ht, hp⟩ := inv.outs e he'
        by_cases hei : e.2 = i
        · rw [hei, hg] at hr0; cases hr0; exact absurd hp hnr
        · exact ⟨r0, by rw [hother _ hei]; exact hr0, ht, hp⟩
    · -- backend
      intro j rj hj hb
      by_cases hji : j = i
      · subst hji
        rw [hself] at hj; cases hj
        exact upd_inBackend s a r he (inv.backend j r hg) hb
      · rw [hother j hji] at hj; exact inv.backend j rj hj hb
    · -- awaitNone
      intro j rj hj hp hw
      by_cases hji : j = i
      · subst hji
        rw [hself] at hj; cases hj
        have h0 := inv.awaitNone j r hg
        cases a <;> simp only [enabled, Bool.and_eq_true, beq_iff_eq, Bool.not_eq_true'] at he <;>
          simp only [upd] at hp hw ⊢
        case start =>
          have hr0 := h0 (by simp [he]) (by (repeat' split at hw) <;> simpa using hw)
          (repeat' split) <;> simpa using hr0
        case waitTag =>
          have hr0 := h0 (by simp [he.1.1]) he.2
          (repeat' split at hw) <;> (repeat' split at hp) <;> simp_all
        case wake => simp at hw
        case enter => exact h0 (by simp [he.1.1]) hw
        case leave => exact h0 (by simp [he.1]) hw
        case finish => exact h0 (by simp [he.1.1]) hw
        case send => exact h0 (by simp [he]) hw
      · rw [hother j hji] at hj; exact inv.awaitNone j rj hj hp hw
    · -- flushed
      intro j rj hj hw k hk
      by_cases hji : j = i
      · subst hji
        rw [hself] at hj; cases hj
        cases a <;> simp only [enabled, Bool.and_eq_true, beq_iff_eq, Bool.not_eq_true'] at he <;>
          simp only [upd] at hw hk
        case start =>
          have := inv.flushed j r hg (by (repeat' split at hw) <;> simpa using hw) k (by (repeat' split at hk) <;> simpa using hk)
          exact isDone_mono s s' k (hdone k) this
        case waitTag =>
          -- waited becomes true without waiting only when nothing was awaited
          have hnone := inv.awaitNone j r hg (by simp [he.1.1]) he.2
          (repeat' split at hk) <;> simp_all
        case wake =>
          cases hra : r.awaiting with
          | none => simp [hra] at hk
          | some j0 =>
            simp only [hra, Option.some.injEq] at hk he
            subst hk
            exact isDone_mono s s' j0 (hdone j0) he.2
        case enter => exact isDone_mono s s' k (hdone k) (inv.flushed j r hg (by simpa using hw) k (by simpa using hk))
        case leave => exact isDone_mono s s' k (hdone k) (inv.flushed j r hg (by simpa using hw) k (by simpa using hk))
        case finish => exact isDone_mono s s' k (hdone k) (inv.flushed j r hg (by simpa using hw) k (by simpa using hk))
        case send => exact isDone_mono s s' k (hdone k) (inv.flushed j r hg (by simpa using hw) k (by simpa using hk))
      · rw [hother j hji] at hj
        exact isDone_mono s s' k (hdone k) (inv.flushed j rj hj hw k hk)

theorem run_inv (ls : List Label) (s s' : St) (h : run s ls = some s') (inv : Inv s) : Inv s' := by
  induction ls generalizing s with
  | nil => simp only [run, Option.some.injEq] at h; subst h; exact inv
  | cons l ls ih =>
    simp only [run] at h
    cases hs : step s l with
    | none => simp [hs] at h
    | some s1 => simp only [hs] at h; exact ih s1 h (step_inv s s1 l hs inv)

end P9.Conn
