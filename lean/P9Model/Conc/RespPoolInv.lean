import P9Model.Conc.RespPool
/-!
# RespPool: the invariant and its preservation (helper lemmas; the property theorems are in Props/C10.lean)
-/
namespace P9.RespPool

theorem map_inj_of_nodup {α β : Type} (f : α → β) : ∀ (l : List α), (l.map f).Nodup →
    ∀ a ∈ l, ∀ b ∈ l, f a = f b → a = b := by
  intro l
  induction l with
  | nil => intro _ a ha; cases ha
  | cons x xs ih =>
    intro h a ha b hb hab
    simp only [List.map_cons, List.nodup_cons, List.mem_map, not_exists, not_and] at h
    simp only [List.mem_cons] at ha hb
    rcases ha with rfl | ha <;> rcases hb with rfl | hb
    · rfl
    · exact absurd hab.symm (h.1 b hb)
    · exact absurd hab (h.1 a ha)
    · exact ih h.2 a ha b hb hab

theorem objOf_mem {s : St} {k : Key} {o : Nat} (h : objOf s k = some o) : (k, o) ∈ s.pending := by
  unfold objOf at h
  cases hf : s.pending.find? (·.1 == k) with
  | none => simp [hf] at h
  | some e =>
    simp only [hf, Option.map_some, Option.some.injEq] at h
    have hm := List.mem_of_find?_eq_some hf
    have hk := List.find?_some hf
    simp only [beq_iff_eq] at hk
    rw [← h, ← hk]; exact hm

theorem objs_filter_nodup (s : St) (p : Key × Nat → Bool) (h : (objs s).Nodup) :
    ((s.pending.filter p).map (·.2)).Nodup :=
  h.sublist ((List.filter_sublist).map _)

theorem mem_objs_filter {s : St} {p : Key × Nat → Bool} {o : Nat}
    (h : o ∈ (s.pending.filter p).map (·.2)) : o ∈ objs s := by
  simp only [List.mem_map, List.mem_filter] at h
  rcases h with ⟨e, ⟨he, _⟩, rfl⟩
  exact List.mem_map.mpr ⟨e, he, rfl⟩

/-- removing the entry of key `k` removes its object from every pending map -/
theorem removed_obj_gone {s : St} {k : Key} {o : Nat} (hn : (objs s).Nodup) (h : (k, o) ∈ s.pending) :
    o ∉ (s.pending.filter (·.1 != k)).map (·.2) := by
  intro hm
  simp only [List.mem_map, List.mem_filter] at hm
  rcases hm with ⟨e, ⟨he, hne⟩, heo⟩
  have := map_inj_of_nodup (fun (x : Key × Nat) => x.2) s.pending hn e he (k, o) h heo
  simp [this] at hne

theorem hasKey_false {s : St} {k : Key} (h : hasKey s k = false) : ∀ e ∈ s.pending, e.1 ≠ k := by
  intro e he hk
  have : hasKey s k = true := by
    unfold hasKey; exact List.any_eq_true.mpr ⟨e, he, by simp [hk]⟩
  simp [this] at h

theorem inv_init : Inv {} := by
  refine ⟨List.nodup_nil, List.nodup_nil, List.nodup_nil, ?_, ?_, ?_⟩ <;> simp [objs]

theorem step_inv (s s' : St) (l : Label) (hi : Inv s) (hf : Fixed l) (h : step s l = some s') : Inv s' := by
  obtain ⟨hpn, hon, hfn, hpf, hff, hb⟩ := hi
  cases l with
  | acquire k o =>
    simp only [step] at h
    split at h
    · rename_i hc
      simp only [Option.some.injEq] at h; subst h
      have hop := hpf o hc.1
      refine ⟨hpn.erase o, ?_, hfn, ?_, ?_, ?_⟩
      · simp only [objs, List.map_cons, List.nodup_cons]; exact ⟨hop.1, hon⟩
      · intro x hx
        have hxp := List.mem_of_mem_erase hx
        have hne : x ≠ o := fun e => by subst e; exact (List.Nodup.mem_erase_iff hpn).mp hx |>.1 rfl
        simp only [objs, List.map_cons, List.mem_cons, not_or]
        exact ⟨⟨hne, (hpf x hxp).1⟩, (hpf x hxp).2⟩
      · intro x hx
        simp only [objs, List.map_cons, List.mem_cons, not_or]
        refine ⟨fun e => ?_, hff x hx⟩
        subst e; exact hop.2 hx
      · intro x hx
        apply hb
        simp only [objs, List.map_cons, List.mem_cons] at hx
        rcases hx with hx | (rfl | hx) | hx
        · exact Or.inl (List.mem_of_mem_erase hx)
        · exact Or.inl hc.1
        · exact Or.inr (Or.inl hx)
        · exact Or.inr (Or.inr hx)
    · cases h
  | acquireNew k =>
    simp only [step] at h
    split at h
    · simp only [Option.some.injEq] at h; subst h
      have hfresh : s.next ∉ s.pool ∧ s.next ∉ objs s ∧ s.next ∉ s.full := by
        refine ⟨fun hm => ?_, fun hm => ?_, fun hm => ?_⟩
        · exact Nat.lt_irrefl _ (hb _ (Or.inl hm))
        · exact Nat.lt_irrefl _ (hb _ (Or.inr (Or.inl hm)))
        · exact Nat.lt_irrefl _ (hb _ (Or.inr (Or.inr hm)))
      refine ⟨hpn, ?_, hfn, ?_, ?_, ?_⟩
      · simp only [objs, List.map_cons, List.nodup_cons]; exact ⟨hfresh.2.1, hon⟩
      · intro x hx
        simp only [objs, List.map_cons, List.mem_cons, not_or]
        exact ⟨⟨fun e => by subst e; exact hfresh.1 hx, (hpf x hx).1⟩, (hpf x hx).2⟩
      · intro x hx
        simp only [objs, List.map_cons, List.mem_cons, not_or]
        exact ⟨fun e => by subst e; exact hfresh.2.2 hx, hff x hx⟩
      · intro x hx
        simp only [objs, List.map_cons, List.mem_cons] at hx
        rcases hx with hx | (rfl | hx) | hx
        · exact Nat.lt_succ_of_lt (hb x (Or.inl hx))
        · exact Nat.lt_succ_self _
        · exact Nat.lt_succ_of_lt (hb x (Or.inr (Or.inl hx)))
        · exact Nat.lt_succ_of_lt (hb x (Or.inr (Or.inr hx)))
    · cases h
  | sendFail k =>
    simp only [step] at h
    split at h
    · rename_i o ho
      simp only [Option.some.injEq] at h; subst h
      have hm := objOf_mem ho
      have hmo : o ∈ objs s := List.mem_map.mpr ⟨(k, o), hm, rfl⟩
      have hgone := removed_obj_gone hon hm
      refine ⟨?_, objs_filter_nodup s _ hon, hfn.erase o, ?_, ?_, ?_⟩
      · simp only [List.nodup_cons]; exact ⟨fun hp => (hpf o hp).1 hmo, hpn⟩
      · intro x hx
        simp only [List.mem_cons] at hx
        rcases hx with rfl | hx
        · exact ⟨hgone, fun hfm => ((List.Nodup.mem_erase_iff hfn).mp hfm).1 rfl⟩
        · exact ⟨fun hm' => (hpf x hx).1 (mem_objs_filter hm'), fun hfm => (hpf x hx).2 (List.mem_of_mem_erase hfm)⟩
      · intro x hx hm'
        exact hff x (List.mem_of_mem_erase hx) (mem_objs_filter hm')
      · intro x hx
        apply hb
        simp only [List.mem_cons] at hx
        rcases hx with (rfl | hx) | hx | hx
        · exact Or.inr (Or.inl hmo)
        · exact Or.inl hx
        · exact Or.inr (Or.inl (mem_objs_filter hx))
        · exact Or.inr (Or.inr (List.mem_of_mem_erase hx))
    · cases h
  | sendFailBuggy k => exact absurd hf (by simp [Fixed])
  | deliver k =>
    simp only [step] at h
    split at h
    · rename_i o ho
      split at h
      · cases h
      · rename_i hnf
        simp only [Option.some.injEq] at h; subst h
        have hm := objOf_mem ho
        have hmo : o ∈ objs s := List.mem_map.mpr ⟨(k, o), hm, rfl⟩
        have hgone := removed_obj_gone hon hm
        refine ⟨hpn, objs_filter_nodup s _ hon, ?_, ?_, ?_, ?_⟩
        · simp only [List.nodup_cons]; exact ⟨hnf, hfn⟩
        · intro x hx
          refine ⟨fun hm' => (hpf x hx).1 (mem_objs_filter hm'), ?_⟩
          simp only [List.mem_cons, not_or]
          exact ⟨fun e => by subst e; exact (hpf x hx).1 hmo, (hpf x hx).2⟩
        · intro x hx
          simp only [List.mem_cons] at hx
          rcases hx with rfl | hx
          · exact hgone
          · exact fun hm' => hff x hx (mem_objs_filter hm')
        · intro x hx
          apply hb
          simp only [List.mem_cons] at hx
          rcases hx with hx | hx | (rfl | hx)
          · exact Or.inl hx
          · exact Or.inr (Or.inl (mem_objs_filter hx))
          · exact Or.inr (Or.inl hmo)
          · exact Or.inr (Or.inr hx)
    · cases h
  | failAll c =>
    simp only [step] at h
    split at h
    · cases h
    · rename_i hnone
      simp only [Option.some.injEq] at h; subst h
      have hnone' : ∀ o ∈ (s.pending.filter (·.1.1 == c)).map (·.2), o ∉ s.full := by
        intro o ho hfm
        apply hnone
        exact List.any_eq_true.mpr ⟨o, ho, by simpa using hfm⟩
      -- the removed objects and the remaining ones are disjoint
      have hdisj : ∀ o ∈ (s.pending.filter (·.1.1 == c)).map (·.2), o ∉ (s.pending.filter (·.1.1 != c)).map (·.2) := by
        intro o ho hr
        simp only [List.mem_map, List.mem_filter] at ho hr
        rcases ho with ⟨e1, ⟨he1, hc1⟩, h1⟩
        rcases hr with ⟨e2, ⟨he2, hc2⟩, h2⟩
        have := map_inj_of_nodup (fun (x : Key × Nat) => x.2) s.pending hon e1 he1 e2 he2 (h1.trans h2.symm)
        subst this
        simp only [beq_iff_eq] at hc1
        simp [hc1] at hc2
      refine ⟨hpn, objs_filter_nodup s _ hon, ?_, ?_, ?_, ?_⟩
      · refine List.nodup_append.mpr ⟨objs_filter_nodup s _ hon, hfn, ?_⟩
        intro a ha b hb' hab
        subst hab
        exact hnone' a ha hb'
      · intro x hx
        refine ⟨fun hm' => (hpf x hx).1 (mem_objs_filter hm'), ?_⟩
        simp only [List.mem_append, not_or]
        exact ⟨fun hm' => (hpf x hx).1 (mem_objs_filter hm'), (hpf x hx).2⟩
      · intro x hx
        simp only [List.mem_append] at hx
        rcases hx with hx | hx
        · exact hdisj x hx
        · exact fun hm' => hff x hx (mem_objs_filter hm')
      · intro x hx
        apply hb
        simp only [List.mem_append] at hx
        rcases hx with hx | hx | (hx | hx)
        · exact Or.inl hx
        · exact Or.inr (Or.inl (mem_objs_filter hx))
        · exact Or.inr (Or.inl (mem_objs_filter hx))
        · exact Or.inr (Or.inr hx)
  | finish o =>
    simp only [step] at h
    split at h
    · rename_i hof
      simp only [Option.some.injEq] at h; subst h
      refine ⟨?_, hon, hfn.erase o, ?_, ?_, ?_⟩
      · simp only [List.nodup_cons]; exact ⟨fun hp => (hpf o hp).2 hof, hpn⟩
      · intro x hx
        simp only [List.mem_cons] at hx
        rcases hx with rfl | hx
        · exact ⟨hff x hof, fun hfm => ((List.Nodup.mem_erase_iff hfn).mp hfm).1 rfl⟩
        · exact ⟨(hpf x hx).1, fun hfm => (hpf x hx).2 (List.mem_of_mem_erase hfm)⟩
      · intro x hx
        exact hff x (List.mem_of_mem_erase hx)
      · intro x hx
        apply hb
        simp only [List.mem_cons] at hx
        rcases hx with (rfl | hx) | hx | hx
        · exact Or.inr (Or.inr hof)
        · exact Or.inl hx
        · exact Or.inr (Or.inl hx)
        · exact Or.inr (Or.inr (List.mem_of_mem_erase hx))
    · cases h

theorem run_inv (ls : List Label) : ∀ (s s' : St), Inv s → (∀ l ∈ ls, Fixed l) → run s ls = some s' → Inv s' := by
  induction ls with
  | nil => intro s s' hi _ h; simp only [run, Option.some.injEq] at h; subst h; exact hi
  | cons l ls ih =>
    intro s s' hi hf h
    simp only [run] at h
    cases hs : step s l with
    | none => simp [hs] at h
    | some s1 =>
      simp only [hs] at h
      exact ih s1 s' (step_inv s s1 l hi (hf l (List.mem_cons_self)) hs)
        (fun l' hl' => hf l' (List.mem_cons_of_mem _ hl')) h

end P9.RespPool
