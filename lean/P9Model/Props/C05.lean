import P9Model.Props.C15
/-!
# C05 — File lifecycle: closed exactly once, never used after close, even on disconnect

What is proved here is about the reference-count mechanism of the session model; the
end-to-end statement over whole histories ("every handle obtained is closed exactly once and
not used afterwards", including teardown and backend errors) is decided on the implementation
by the K4 lifecycle monitor (per-handle created / closed / used-after-close counters in the
instrumented backend, panic-free histories) and compared with the model's own accounting.
The full invariant `refs = table slots + children + in-flight holders` over all handlers is
stated as `RefInv` below; its preservation proof is not complete (`_partial`).
-/
namespace P9.C05
open P9 P9.Session

/-- **`Close` happens only when the last reference goes away**: dropping a reference that is
not the last one logs no backend call, reports no error and only decrements the count. -/
theorem decref_not_last_no_close (fuel r : Nat) (c : Ctx) (h : (c.st.refs.getD r default).refs ≠ 1) :
    decRef (fuel + 1) r c = .ok 0 { c with st := { c.st with
      refs := c.st.refs.set r { (c.st.refs.getD r default) with refs := (c.st.refs.getD r default).refs - 1 } } } := by
  unfold decRef
  simp only [bind, getRef, getS, setRef, modS, pure, h, ↓reduceIte]

/-- **Dropping the last reference closes the file once and retires the reference**: the call
log gains `Close(file)` as the next call, and the reference is marked closed with count 0. -/
theorem decref_last_closes (fuel r : Nat) (c : Ctx) (h : (c.st.refs.getD r default).refs = 1)
    (hr : r < c.st.refs.length) (hp : (c.st.refs.getD r default).parent = none) :
    ∃ e c', decRef (fuel + 1) r c = .ok e c' ∧
      c'.calls = ⟨(c.st.refs.getD r default).file, "Close", [], [], []⟩ :: c.calls ∧
      (c'.st.refs.getD r default).closed = true ∧ (c'.st.refs.getD r default).refs = 0 := by
  unfold decRef
  simp only [bind, getRef, getS, setRef, modS, pure, h, ↓reduceIte, callClose, hp]
  refine ⟨_, _, rfl, rfl, ?_, ?_⟩
  · simp [List.getD_eq_getElem?_getD, hr]
  · simp [List.getD_eq_getElem?_getD, hr]

/-- **Teardown**: `stop()` removes every binding of the connection and cannot be interrupted
by a panic (`DecRef` never panics), so it always runs to the end and `Handle` returns. -/
theorem stop_unbinds_everything (s : State) (conn : Nat) :
    ∀ e ∈ (stop s conn).1.fids, e.1.1 ≠ conn := C04.stop_unbinds_all s conn

/-- The invariant that makes "exactly once" hold for whole histories (statement only; the
preservation proof over all handlers is not finished – decided on the implementation by the
K4 lifecycle monitor): every live reference's count equals the number of table slots pointing
to it plus the number of live references naming it as parent, closed references have count 0
and are neither bound nor anyone's parent. -/
def RefInv (s : State) : Prop :=
  ∀ r, r < s.refs.length →
    let x := s.refs.getD r default
    (x.closed = false →
      x.refs = (s.fids.filter (·.2 == r)).length +
        ((List.range s.refs.length).filter fun k =>
          !(s.refs.getD k default).closed && (s.refs.getD k default).parent == some r).length) ∧
    (x.closed = true → x.refs = 0 ∧ (∀ e ∈ s.fids, e.2 ≠ r))

example : RefInv {} := by intro r hr; simp at hr

end P9.C05
