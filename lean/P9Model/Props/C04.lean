import P9Model.Session.Frame
import P9Model.Session.BindOnSuccess
import P9Model.Session.Refuse
/-!
# C04 — Session state machine: fid binding, open state and mode checks

Theorems about the session model `M3` (tied to the real server by the K4 correspondence on
every run).  "Unchanged" statements are for *every* oracle tape: backend errors and panics
included.
-/
namespace P9.C04
open P9 P9.Session

macro "pres_step" : tactic => `(tactic| first
  | exact Pres.pure _
  | exact dirGuard_fids _
  | exact pathNodeFor_fids _ _
  | exact markChildDeleted_fids _ _
  | exact renameChildTo_fids _ _ _ _
  | exact nameFor_fids _ _
  | exact getRef_fids _
  | exact getNode_fids _
  | exact isDeleted_fids _
  | exact setRef_fids _ _
  | exact call_fids _ _ _ _ _
  | exact callClose_fids _
  | exact connMsize_fids
  | exact Pres.goPanic
  | exact Pres.getS
  | exact Pres.getConn
  | (refine Pres.bind ?_ (fun _ => ?_))
  | (refine Pres.ite ?_ ?_)
  | split)

macro "pres" : tactic => `(tactic| repeat pres_step)

/-- fid unbound on this connection -/
def Unbound (fid : Nat) (c : Ctx) : Prop := c.st.fids.find? (·.1 == (c.conn, fid)) = none

theorem lookupFid_unbound (fid : Nat) (c : Ctx) (h : Unbound fid c) : lookupFid fid c = .ok none c := by
  unfold lookupFid lookupFidRaw getS getConn
  unfold Unbound at h
  simp [bind, pure, h]

/-- **An operation naming an unbound fid fails with EBADF and changes nothing**: no backend
call, no state change, the tape untouched (generic form for every handler built on
`LookupFID` + `defer DecRef`). -/
theorem withFid_unbound (fid : Nat) (body : Nat → M Reply) (c : Ctx) (h : Unbound fid c) :
    withFid fid body c = .ok (rerr EBADF) c := by
  unfold withFid
  simp [bind, lookupFid_unbound fid c h, pure]

theorem unbound_ebadf_open (m : Msg) (c : Ctx) (h : Unbound (m.int 0) c) :
    hTlopen m c = .ok (rerr EBADF) c := withFid_unbound _ _ c h
theorem unbound_ebadf_read (m : Msg) (c : Ctx) (h : Unbound (m.int 0) c) :
    hTread m c = .ok (rerr EBADF) c := withFid_unbound _ _ c h
theorem unbound_ebadf_write (m : Msg) (c : Ctx) (h : Unbound (m.int 0) c) :
    hTwrite m c = .ok (rerr EBADF) c := withFid_unbound _ _ c h
theorem unbound_ebadf_getattr (m : Msg) (c : Ctx) (h : Unbound (m.int 0) c) :
    hTgetattr m c = .ok (rerr EBADF) c := withFid_unbound _ _ c h
theorem unbound_ebadf_setattr (m : Msg) (c : Ctx) (h : Unbound (m.int 0) c) :
    hTsetattr m c = .ok (rerr EBADF) c := withFid_unbound _ _ c h
theorem unbound_ebadf_readdir (m : Msg) (c : Ctx) (h : Unbound (m.int 0) c) :
    hTreaddir m c = .ok (rerr EBADF) c := withFid_unbound _ _ c h
theorem unbound_ebadf_readlink (m : Msg) (c : Ctx) (h : Unbound (m.int 0) c) :
    hTreadlink m c = .ok (rerr EBADF) c := withFid_unbound _ _ c h
theorem unbound_ebadf_xattrwalk (m : Msg) (c : Ctx) (h : Unbound (m.int 0) c) :
    hTxattrwalk m c = .ok (rerr EBADF) c := withFid_unbound _ _ c h
theorem unbound_ebadf_xattrcreate (m : Msg) (c : Ctx) (h : Unbound (m.int 0) c) :
    hTxattrcreate m c = .ok (rerr EBADF) c := withFid_unbound _ _ c h
theorem unbound_ebadf_lock (m : Msg) (c : Ctx) (h : Unbound (m.int 0) c) :
    hTlock m c = .ok (rerr EBADF) c := withFid_unbound _ _ c h
theorem unbound_ebadf_simple (m : Msg) (meth : String) (o : Bool) (t : Nat) (c : Ctx) (h : Unbound (m.int 0) c) :
    hSimple m meth o t c = .ok (rerr EBADF) c := withFid_unbound _ _ c h
theorem unbound_ebadf_walk (m : Msg) (g : Bool) (c : Ctx) (h : Unbound (m.int 0) c) :
    hTwalkGen m g c = .ok (rerr EBADF) c := withFid_unbound _ _ c h

/-- name-bearing requests: with a safe name, an unbound directory fid gives EBADF (an unsafe
name gives EINVAL first – C09, interpretation I5). -/
theorem unbound_ebadf_create (m : Msg) (uid t : Nat) (c : Ctx) (hs : safeName (m.str 1) = true)
    (h : Unbound (m.int 0) c) : hCreate m uid t c = .ok (rerr EBADF) c := by
  unfold hCreate; simp only [hs, dite_true]; exact withFid_unbound _ _ c h
theorem unbound_ebadf_dirop (m : Msg) (fi ni : Nat) (meth : String) (a : List Nat) (ss : List Bytes) (t : Nat)
    (c : Ctx) (hs : safeName (m.str ni) = true) (h : Unbound (m.int fi) c) :
    hDirOp m fi ni meth a ss t c = .ok (rerr EBADF) c := by
  unfold hDirOp; simp only [hs, dite_true]; exact withFid_unbound _ _ c h
theorem unbound_ebadf_unlinkat (m : Msg) (c : Ctx) (hs : safeName (m.str 1) = true)
    (h : Unbound (m.int 0) c) : hTunlinkat m c = .ok (rerr EBADF) c := by
  unfold hTunlinkat; simp only [hs, dite_true]; exact withFid_unbound _ _ c h

/-- **Authentication is not offered**: Tauth → ENOSYS; attach with an auth fid → EINVAL, both
without touching the backend. -/
theorem no_auth (m : Msg) (c : Ctx) :
    dispatch 102 m c = .ok (rerr ENOSYS) c ∧
    (m.int 1 ≠ NOFID → hTattach m c = .ok (rerr EINVAL) c) := by
  refine ⟨rfl, fun h => ?_⟩
  unfold hTattach
  simp [h, bind, pure]

/-! ### which requests can change the fid table -/

theorem open_keeps_table (m : Msg) : Pres FidsSame (hTlopen m) := by
  unfold hTlopen; refine withFid_fids _ _ (fun r => ?_); pres
theorem read_keeps_table (m : Msg) : Pres FidsSame (hTread m) := by
  unfold hTread; refine withFid_fids _ _ (fun r => ?_); pres
theorem write_keeps_table (m : Msg) : Pres FidsSame (hTwrite m) := by
  unfold hTwrite; refine withFid_fids _ _ (fun r => ?_); pres
theorem getattr_keeps_table (m : Msg) : Pres FidsSame (hTgetattr m) := by
  unfold hTgetattr; refine withFid_fids _ _ (fun r => ?_); pres
theorem setattr_keeps_table (m : Msg) : Pres FidsSame (hTsetattr m) := by
  unfold hTsetattr; refine withFid_fids _ _ (fun r => ?_); pres
theorem readdir_keeps_table (m : Msg) : Pres FidsSame (hTreaddir m) := by
  unfold hTreaddir; refine withFid_fids _ _ (fun r => ?_); pres
theorem readlink_keeps_table (m : Msg) : Pres FidsSame (hTreadlink m) := by
  unfold hTreadlink; refine withFid_fids _ _ (fun r => ?_); pres
theorem xattrcreate_keeps_table (m : Msg) : Pres FidsSame (hTxattrcreate m) := by
  unfold hTxattrcreate; refine withFid_fids _ _ (fun r => ?_); pres
theorem lock_keeps_table (m : Msg) : Pres FidsSame (hTlock m) := by
  unfold hTlock; refine withFid_fids _ _ (fun r => ?_); pres
theorem simple_keeps_table (m : Msg) (meth : String) (o : Bool) (t : Nat) : Pres FidsSame (hSimple m meth o t) := by
  unfold hSimple; refine withFid_fids _ _ (fun r => ?_); pres

theorem dirop_keeps_table (m : Msg) (fi ni : Nat) (meth : String) (a : List Nat) (ss : List Bytes) (t : Nat) :
    Pres FidsSame (hDirOp m fi ni meth a ss t) := by
  unfold hDirOp; split
  · refine withFid_fids _ _ (fun r => ?_); pres
  · exact Pres.pure _
theorem link_keeps_table (m : Msg) : Pres FidsSame (hTlink m) := by
  unfold hTlink; split
  · refine withFid_fids _ _ (fun r => withFid_fids _ _ (fun t => ?_)); pres
  · exact Pres.pure _
theorem unlinkat_keeps_table (m : Msg) : Pres FidsSame (hTunlinkat m) := by
  unfold hTunlinkat; split
  · refine withFid_fids _ _ (fun r => ?_); pres
  · exact Pres.pure _
theorem renameat_keeps_table (m : Msg) : Pres FidsSame (hTrenameat m) := by
  unfold hTrenameat; split
  · split
    · refine withFid_fids _ _ (fun r => withFid_fids _ _ (fun t => ?_)); pres
    · exact Pres.pure _
  · exact Pres.pure _
theorem rename_keeps_table (m : Msg) : Pres FidsSame (hTrename m) := by
  unfold hTrename; split
  · refine withFid_fids _ _ (fun r => withFid_fids _ _ (fun t => ?_)); pres
  · exact Pres.pure _

/-! ### Tclunk and Tremove always unbind -/

theorem find_filter_none (l : List ((Nat × Nat) × Nat)) (k : Nat × Nat) :
    (l.filter (·.1 != k)).find? (·.1 == k) = none := by
  rw [List.find?_eq_none]
  intro x hx
  simp only [List.mem_filter, bne_iff_ne, ne_eq] at hx
  simp [hx.2]

/-- `DeleteFID` leaves the fid unbound – whether it was bound or not, whatever `Close` reports. -/
theorem deleteFid_unbinds (fid : Nat) (c : Ctx) :
    match deleteFid fid c with
    | .ok _ c' => Unbound fid c'
    | .panic c' => Unbound fid c' := by
  unfold deleteFid lookupFidRaw getS getConn
  simp only [bind, pure]
  cases hf : c.st.fids.find? (·.1 == (c.conn, fid)) with
  | none => simpa [Unbound] using hf
  | some e =>
    simp only [Option.map_some]
    unfold modS
    simp only
    have hp := decRef'_fids e.2 { c with st := { c.st with fids := c.st.fids.filter (·.1 != (c.conn, fid)) } }
    cases hd : decRef' e.2 { c with st := { c.st with fids := c.st.fids.filter (·.1 != (c.conn, fid)) } } with
    | ok a c' =>
      simp only [hd] at hp
      show Unbound fid c'
      unfold Unbound
      rw [hp.1, hp.2.1]
      exact find_filter_none _ _
    | panic c' =>
      simp only [hd] at hp
      show Unbound fid c'
      unfold Unbound
      rw [hp.1, hp.2.1]
      exact find_filter_none _ _

/-- **Tclunk always unbinds its fid, whatever else it reports** (EBADF for an unbound fid, the
errno of a failing `Close` or of the xattr commit): whenever the handler returns, the fid is
unbound.  (If the backend *panics* inside the xattr commit the request is answered EFAULT
before `DeleteFID` runs – that case is C15's, not a normal return.) -/
theorem clunk_always_unbinds (m : Msg) (c : Ctx) :
    ∀ r c', hTclunk m c = .ok r c' → Unbound (m.int 0) c' := by
  intro r c' h
  unfold hTclunk at h
  simp only [bind] at h
  cases h1 : clunkXattr (m.int 0) c with
  | panic c1 => simp [h1] at h
  | ok cerr c1 =>
    simp only [h1] at h
    have hu := deleteFid_unbinds (m.int 0) c1
    cases h2 : deleteFid (m.int 0) c1 with
    | panic c2 => simp [h2] at h
    | ok de c2 =>
      simp only [h2] at h hu
      have : c' = c2 := by
        split at h
        · simp only [pure, Out.ok.injEq] at h; exact h.2.symm
        · split at h
          · simp only [pure, Out.ok.injEq] at h; exact h.2.symm
          · simp only [pure, Out.ok.injEq] at h; exact h.2.symm
      rw [this]; exact hu

theorem lookupFid_cases (fid : Nat) (c : Ctx) :
    (lookupFid fid c = .ok none c ∧ Unbound fid c) ∨ ∃ r, lookupFid fid c = .ok (some r) (pinned r c) := by
  unfold lookupFid lookupFidRaw getS getConn Unbound
  simp only [bind, pure]
  cases hf : c.st.fids.find? (·.1 == (c.conn, fid)) with
  | none => left; simp
  | some e => right; exact ⟨e.2, rfl⟩

/-- what `defer`red clean-up does to a postcondition of the body -/
theorem finally_post {α : Type} (body : M α) (cl : M Unit) (P : Ctx → Prop)
    (hbody : ∀ c a c1, body c = .ok a c1 → P c1)
    (hcl : ∀ c1 u c2, P c1 → cl c1 = .ok u c2 → P c2) :
    ∀ c a c', finally' body cl c = .ok a c' → P c' := by
  intro c a c' h
  unfold finally' at h
  cases hb : body c with
  | panic c1 =>
    simp only [hb] at h
    cases hc : cl c1 <;> simp [hc] at h
  | ok a1 c1 =>
    simp only [hb] at h
    cases hc : cl c1 with
    | panic c2 => simp [hc] at h
    | ok u c2 =>
      simp only [hc, Out.ok.injEq] at h
      rw [← h.2]; exact hcl c1 u c2 (hbody c a1 c1 hb) hc

/-- **Tremove always unbinds its fid**, whatever it reports (EINVAL for a root or an already
deleted entry, the backend's errno of `UnlinkAt`, the errno of a failing `Close`, or success):
whenever the handler returns, the fid is unbound – "to clunk the fid, even if the remove fails". -/
theorem remove_always_unbinds (m : Msg) (c : Ctx) :
    ∀ r c', hTremove m c = .ok r c' → Unbound (m.int 0) c' := by
  intro r c' h
  unfold hTremove at h
  simp only [bind] at h
  rcases lookupFid_cases (m.int 0) c with ⟨hl, hu⟩ | ⟨t, hl⟩
  · simp only [hl, pure, Out.ok.injEq] at h; rw [← h.2]; exact hu
  · simp only [hl] at h
    refine finally_post _ _ (Unbound (m.int 0)) ?_ ?_ _ _ _ h
    · intro c0 a c1 hb
      simp only [getRef_eval] at hb
      split at hb
      · rename_i err c2 _
        have hu := deleteFid_unbinds (m.int 0) c2
        cases h2 : deleteFid (m.int 0) c2 with
        | panic c3 => simp [h2] at hb
        | ok fe c3 =>
          simp only [h2] at hb hu
          have : c1 = c3 := by
            split at hb
            · simp only [pure, Out.ok.injEq] at hb; exact hb.2.symm
            · split at hb
              · simp only [pure, Out.ok.injEq] at hb; exact hb.2.symm
              · simp only [pure, Out.ok.injEq] at hb; exact hb.2.symm
          rw [this]; exact hu
      · cases hb
    · intro c1 u c2 hP hcl
      have hp := decRefU_fids t c1
      rw [hcl] at hp
      unfold Unbound at *
      rw [hp.1, hp.2.1]; exact hP

/-- `stop()` unbinds every fid of the connection. -/
theorem stop_unbinds_all (s : State) (conn : Nat) :
    ∀ e ∈ (stop s conn).1.fids, e.1.1 ≠ conn := by
  unfold stop
  have hp : Pres FidsSame (forEach (s.fids.filter (·.1.1 == conn)) fun e => decRefU e.2) :=
    Pres.forEach _ _ (fun e => decRefU_fids _)
  simp only [bind, modS]
  have := hp { st := { s with fids := s.fids.filter (·.1.1 != conn) }, tape := [], conn := conn }
  intro e he
  cases hr : (forEach (s.fids.filter (·.1.1 == conn)) fun e => decRefU e.2)
      { st := { s with fids := s.fids.filter (·.1.1 != conn) }, tape := [], conn := conn } with
  | ok a c' =>
    simp only [hr] at this he
    rw [this.1] at he
    simp only [List.mem_filter, bne_iff_ne, ne_eq] at he
    exact he.2
  | panic c' =>
    simp only [hr] at this he
    rw [this.1] at he
    simp only [List.mem_filter, bne_iff_ne, ne_eq] at he
    exact he.2

/-! ### non-vacuity -/
example : Unbound 3 { st := {}, tape := [] } := by unfold Unbound; decide
example : (handle {} 0 120 { vals := [.atom (.int 3)] } []).reply = rerr EBADF := by decide

/-! ### a fid is bound only when the binding request succeeds -/

/-- `BOS m`: if `m` answers Rlerror (or ends in a panic, answered EFAULT) the fid table – of every
connection – is exactly as before.  For **every** oracle tape: any backend error or panic at any
step, any fid state, any names. -/
theorem walk_binds_only_on_success (m : Msg) (g : Bool) : BOS (hTwalkGen m g) := Session.walk_binds_only_on_success m g
theorem attach_binds_only_on_success (m : Msg) : BOS (hTattach m) := Session.attach_binds_only_on_success m
theorem xattrwalk_binds_only_on_success (m : Msg) : BOS (hTxattrwalk m) := Session.xattrwalk_binds_only_on_success m
theorem create_rebinds_only_on_success (m : Msg) (uid rtyp : Nat) (h : rtyp ≠ 7) : BOS (hCreate m uid rtyp) :=
  Session.create_rebinds_only_on_success m uid rtyp h

/-! ### open state and mode checks: refused before the backend -/

/-- the negotiated msize of the connection being served (0 = none yet) -/
def msizeOf (c : Ctx) : Nat := ((c.st.msize.find? (·.1 == c.conn)).map (·.2)).getD 0

theorem connMsize_eval (c : Ctx) : connMsize c = .ok (msizeOf c) c := rfl
theorem msizeOf_pinned (r : Nat) (c : Ctx) : msizeOf (pinned r c) = msizeOf c := rfl

/-- evaluates a handler body on the pinned context up to its first refusal -/
macro "refuse_body" h:ident : tactic => `(tactic|
  (have hx := pinned_getD _ _ ($h).inRange
   simp only [bind, pure, getRef_eval, isDeleted_eval, connMsize_eval, msizeOf_pinned, dirGuard, hx]))

/-- `c'` is `c` with one reference count raised and lowered again: nothing else happened -/
theorem untouched_refuse (t : Nat) (c : Ctx) : Untouched c (unpinned t (pinned t c)) := by
  simp [Untouched, unpinned, pinned]

/-- **Tread on a fid that is not opened** (and is no xattr fid): EINVAL, no backend call. -/
theorem read_unopened (m : Msg) (r : Nat) (c : Ctx) (h : Bound (m.int 0) r c)
    (hcnt : ¬ m.int 2 > maxLen) (hms : (msizeOf c == 0) = false)
    (hx : (c.st.refs.getD r default).x.op = 0) (hop : (c.st.refs.getD r default).opened = false) :
    hTread m c = .ok (rerr EINVAL) (unpinned r (pinned r c)) := by
  unfold hTread; refine withFid_refuse _ r _ _ c h ?_
  refuse_body h
  simp only [msizeOf_pinned, hcnt, hms, hx, hop, ↓reduceIte, Bool.not_false, Bool.false_eq_true]
  rfl

/-- **Tread on a fid opened write-only**: EPERM, no backend call. -/
theorem read_writeonly (m : Msg) (r : Nat) (c : Ctx) (h : Bound (m.int 0) r c)
    (hcnt : ¬ m.int 2 > maxLen) (hms : (msizeOf c == 0) = false)
    (hx : (c.st.refs.getD r default).x.op = 0) (hop : (c.st.refs.getD r default).opened = true)
    (hmode : ((c.st.refs.getD r default).openFlags &&& 3 == 1) = true) :
    hTread m c = .ok (rerr EPERM) (unpinned r (pinned r c)) := by
  unfold hTread; refine withFid_refuse _ r _ _ c h ?_
  refuse_body h
  simp only [msizeOf_pinned, hcnt, hms, hx, hop, hmode, ↓reduceIte, Bool.not_true, Bool.false_eq_true]
  rfl

/-- **Twrite on a fid that is not opened**: EINVAL; **opened read-only**: EPERM – no backend call. -/
theorem write_unopened (m : Msg) (r : Nat) (c : Ctx) (h : Bound (m.int 0) r c)
    (hx : (c.st.refs.getD r default).x.op = 0) (hop : (c.st.refs.getD r default).opened = false) :
    hTwrite m c = .ok (rerr EINVAL) (unpinned r (pinned r c)) := by
  unfold hTwrite; refine withFid_refuse _ r _ _ c h ?_
  refuse_body h
  simp only [hx, hop, ↓reduceIte, Bool.not_false]
  rfl

theorem write_readonly (m : Msg) (r : Nat) (c : Ctx) (h : Bound (m.int 0) r c)
    (hx : (c.st.refs.getD r default).x.op = 0) (hop : (c.st.refs.getD r default).opened = true)
    (hmode : ((c.st.refs.getD r default).openFlags &&& 3 == 0) = true) :
    hTwrite m c = .ok (rerr EPERM) (unpinned r (pinned r c)) := by
  unfold hTwrite; refine withFid_refuse _ r _ _ c h ?_
  refuse_body h
  simp only [hx, hop, hmode, ↓reduceIte, Bool.not_true, Bool.false_eq_true]
  rfl

/-- **Treaddir on a directory fid that is not opened**: EINVAL, no backend call. -/
theorem readdir_unopened (m : Msg) (r : Nat) (c : Ctx) (h : Bound (m.int 0) r c)
    (hop : (c.st.refs.getD r default).opened = false) :
    hTreaddir m c = .ok (rerr EINVAL) (unpinned r (pinned r c)) := by
  unfold hTreaddir; refine withFid_refuse _ r _ _ c h ?_
  refuse_body h
  simp only [hop, Bool.not_false, ↓reduceIte]
  generalize (_ || _) = b; cases b <;> rfl

/-- **Tfsync on a fid that is not opened**: EINVAL, no backend call. -/
theorem fsync_unopened (m : Msg) (r : Nat) (c : Ctx) (h : Bound (m.int 0) r c)
    (hop : (c.st.refs.getD r default).opened = false) :
    hSimple m "FSync" true 51 c = .ok (rerr EINVAL) (unpinned r (pinned r c)) := by
  unfold hSimple; refine withFid_refuse _ r _ _ c h ?_
  refuse_body h
  simp only [hop, Bool.not_false, Bool.and_self, ↓reduceIte]

/-- **A fid opens at most once, and only if its type can be opened**: a second Tlopen, or a Tlopen of
a symlink / socket, is EINVAL; a directory opens read-only (EISDIR otherwise) – no backend call. -/
theorem open_twice_or_unopenable (m : Msg) (r : Nat) (c : Ctx) (h : Bound (m.int 0) r c)
    (hnd : (c.st.nodes.getD (c.st.refs.getD r default).node default).deleted = false)
    (hbad : ((c.st.refs.getD r default).opened || !canOpen (c.st.refs.getD r default).mode) = true) :
    hTlopen m c = .ok (rerr EINVAL) (unpinned r (pinned r c)) := by
  unfold hTlopen; refine withFid_refuse _ r _ _ c h ?_
  refuse_body h
  have hnd' : ((pinned r c).st.nodes.getD (c.st.refs.getD r default).node default).deleted = false := hnd
  simp only [hnd', hbad, ↓reduceIte, Bool.false_eq_true]

theorem open_directory_for_writing (m : Msg) (r : Nat) (c : Ctx) (h : Bound (m.int 0) r c)
    (hnd : (c.st.nodes.getD (c.st.refs.getD r default).node default).deleted = false)
    (hok : ((c.st.refs.getD r default).opened || !canOpen (c.st.refs.getD r default).mode) = false)
    (hdir : (isDir (c.st.refs.getD r default).mode && (m.int 1 &&& 3) != 0) = true) :
    hTlopen m c = .ok (rerr EISDIR) (unpinned r (pinned r c)) := by
  unfold hTlopen; refine withFid_refuse _ r _ _ c h ?_
  refuse_body h
  have hnd' : ((pinned r c).st.nodes.getD (c.st.refs.getD r default).node default).deleted = false := hnd
  simp only [hnd', hok, hdir, ↓reduceIte, Bool.false_eq_true]

/-- **Walking in place from an opened fid** (newfid = fid): EBUSY, no backend call. -/
theorem walk_in_place_from_opened (m : Msg) (g : Bool) (r : Nat) (c : Ctx) (h : Bound (m.int 0) r c)
    (hbusy : ((c.st.refs.getD r default).opened && m.int 0 == m.int 1) = true) :
    hTwalkGen m g c = .ok (rerr EBUSY) (unpinned r (pinned r c)) := by
  unfold hTwalkGen; refine withFid_refuse _ r _ _ c h ?_
  refuse_body h
  simp only [hbusy, ↓reduceIte]

theorem dirGuard_opened (r : Nat) (c : Ctx) (hin : r < c.st.refs.length)
    (hop : (c.st.refs.getD r default).opened = true) :
    dirGuard r (pinned r c) = .ok (some EINVAL) (pinned r c) := by
  have hx := pinned_getD r c hin
  simp only [dirGuard, bind, pure, getRef_eval, isDeleted_eval, hx, hop, ↓reduceIte]
  generalize (_ || _) = b; cases b <;> rfl

/-- **Creating, linking or unlinking inside an opened directory fid** (mkdir, symlink, mknod, create,
unlinkat share `dirGuard`): EINVAL, no backend call. -/
theorem dirop_in_opened_directory (m : Msg) (fi ni : Nat) (meth : String) (a : List Nat) (ss : List Bytes) (t r : Nat)
    (c : Ctx) (hs : safeName (m.str ni) = true) (h : Bound (m.int fi) r c)
    (hop : (c.st.refs.getD r default).opened = true) :
    hDirOp m fi ni meth a ss t c = .ok (rerr EINVAL) (unpinned r (pinned r c)) := by
  unfold hDirOp; simp only [hs, dite_true]; refine withFid_refuse _ r _ _ c h ?_
  simp only [bind, dirGuard_opened r c h.inRange hop]
  rfl

theorem create_in_opened_directory (m : Msg) (uid t r : Nat) (c : Ctx) (hs : safeName (m.str 1) = true)
    (h : Bound (m.int 0) r c) (hop : (c.st.refs.getD r default).opened = true) :
    hCreate m uid t c = .ok (rerr EINVAL) (unpinned r (pinned r c)) := by
  unfold hCreate; simp only [hs, dite_true]; refine withFid_refuse _ r _ _ c h ?_
  simp only [bind, dirGuard_opened r c h.inRange hop]
  rfl

theorem unlinkat_in_opened_directory (m : Msg) (r : Nat) (c : Ctx) (hs : safeName (m.str 1) = true)
    (h : Bound (m.int 0) r c) (hop : (c.st.refs.getD r default).opened = true) :
    hTunlinkat m c = .ok (rerr EINVAL) (unpinned r (pinned r c)) := by
  unfold hTunlinkat; simp only [hs, dite_true]; refine withFid_refuse _ r _ _ c h ?_
  simp only [bind, dirGuard_opened r c h.inRange hop]
  rfl

/-- what the refusals above leave behind: the fid table, the path tree, the call log and the oracle
tape as they were, and every reference (counts included) as it was – the only thing that happened is
that the fid's count went up and came down again. -/
theorem refusal_leaves_everything (r k : Nat) (c : Ctx) (hin : r < c.st.refs.length) :
    Untouched c (unpinned r (pinned r c)) ∧
    (unpinned r (pinned r c)).st.refs.getD k default = c.st.refs.getD k default :=
  ⟨untouched_refuse r c, unpinned_pinned_all r k c hin⟩

/-- the hypotheses are satisfiable: connection 0 has fid 5 bound to an unopened regular file, and a
Tread / Twrite / Tfsync on it is refused with EINVAL; fid 6 is an opened directory. -/
def exampleCtx : Ctx :=
  { st := { fids := [((0, 5), 0), ((0, 6), 1)],
            refs := [{ file := 1, mode := ModeReg, refs := 1, node := 1 },
                     { file := 2, mode := ModeDir, refs := 1, node := 0, opened := true }],
            nodes := [{}, {}] },
    tape := [] }

example : Bound 5 0 exampleCtx ∧ (exampleCtx.st.refs.getD 0 default).opened = false :=
  ⟨⟨rfl, by decide, by decide⟩, rfl⟩
example : Bound 6 1 exampleCtx ∧ (exampleCtx.st.refs.getD 1 default).opened = true :=
  ⟨⟨rfl, by decide, by decide⟩, rfl⟩

end P9.C04
