import P9Model.Transport.Seg
import P9Model.Transport.Vec
import P9Model.Gen.Consts
/-!
# C17 — Stream segmentation independence on both receive paths
-/
namespace P9.C17
open P9

/-- **Reading n bytes through any segmentation yields the stream's first n bytes** and leaves a
(well-formed) segmentation of the rest; it fails exactly when the stream ends first.
This is the inner loop of `Buffers.ReadFrom` (generic path) and of `io.ReadAtLeast`. -/
theorem read_any_segmentation (want : Nat) (s : Stream) (hwf : s.WF) :
    (want ≤ s.bytes.length →
      ∃ s', fill (want + 1) want s [] = some (s.bytes.take want, s') ∧
        s'.bytes = s.bytes.drop want ∧ s'.WF) ∧
    (s.bytes.length < want → fill (want + 1) want s [] = none) := by
  obtain ⟨f1, f2⟩ := fill_spec (want + 1) want s [] hwf (by simp) (by simp)
  simp only [List.length_nil, Nat.sub_zero, List.nil_append] at f1 f2
  exact ⟨fun h => by obtain ⟨s', a, b, c, _⟩ := f1 h; exact ⟨s', a, b, c⟩, f2⟩

/-- **Vectors are filled with consecutive pieces of the stream**, whatever the segmentation. -/
theorem vectors_any_segmentation (sizes : List Nat) (s : Stream) (hwf : s.WF)
    (h : sizes.sum ≤ s.bytes.length) :
    ∃ s', readFrom sizes s = some (splitBy sizes s.bytes, s') ∧ s'.bytes = s.bytes.drop sizes.sum := by
  obtain ⟨s', a, b, _, _⟩ := (readFrom_spec sizes s hwf).1 h
  exact ⟨s', a, b⟩

/-- **One `recv` (generic io.Reader path)**: same outcome and same unread bytes as on the plain
byte string, for every segmentation and both EOF styles. -/
theorem recv_independent_of_segmentation (msize : Nat) (lookup : Lookup) (s : Stream) (hwf : s.WF) :
    (recvSeg msize Gen.C.maximumLength lookup s).1 = (recv1 msize Gen.C.maximumLength lookup s.bytes).out ∧
    ((recv1 msize Gen.C.maximumLength lookup s.bytes).out ≠ .connErr →
      (recvSeg msize Gen.C.maximumLength lookup s).2.bytes = (recv1 msize Gen.C.maximumLength lookup s.bytes).rest ∧
      (recvSeg msize Gen.C.maximumLength lookup s).2.WF) :=
  recvSeg_eq_recv1 msize _ lookup s hwf

/-- two segmentations of the same bytes give the same result. -/
theorem two_segmentations_agree (msize : Nat) (lookup : Lookup) (s1 s2 : Stream)
    (h1 : s1.WF) (h2 : s2.WF) (hb : s1.bytes = s2.bytes) :
    (recvSeg msize Gen.C.maximumLength lookup s1).1 = (recvSeg msize Gen.C.maximumLength lookup s2).1 := by
  rw [(recvSeg_eq_recv1 msize _ lookup s1 h1).1, (recvSeg_eq_recv1 msize _ lookup s2 h2).1, hb]

/-- the receive loop over a segmented reader. -/
def recvAllSeg (msize maxLen : Nat) (lookup : Lookup) : Nat → Stream → List Outcome
  | 0, _ => []
  | fuel+1, s =>
    match recvSeg msize maxLen lookup s with
    | (.connErr, _) => [.connErr]
    | (o, s') => o :: recvAllSeg msize maxLen lookup fuel s'

/-- **The whole message sequence depends only on the bytes**: the receive loop over any
segmentation yields exactly the outcomes of the loop over the byte string (messages with their
payload bytes, protocol errors, and the final connection error), by induction over the calls. -/
theorem message_sequence_independent (msize : Nat) (lookup : Lookup) (fuel : Nat) (s : Stream)
    (hwf : s.WF) :
    recvAllSeg msize Gen.C.maximumLength lookup fuel s =
      recvAll msize Gen.C.maximumLength lookup fuel s.bytes := by
  induction fuel generalizing s with
  | zero => rfl
  | succ f ih =>
    obtain ⟨e1, e2⟩ := recvSeg_eq_recv1 msize Gen.C.maximumLength lookup s hwf
    unfold recvAllSeg recvAll
    generalize hseg : recvSeg msize Gen.C.maximumLength lookup s = rs at *
    obtain ⟨o, s'⟩ := rs
    simp only at e1 e2
    simp only
    rw [← e1]
    cases o with
    | connErr => rfl
    | protoErr t =>
      simp only
      have := e2 (by rw [← e1]; simp)
      rw [ih s' this.2, this.1]
    | msg t d m =>
      simp only
      have := e2 (by rw [← e1]; simp)
      rw [ih s' this.2, this.1]

/-- **A stream that ends mid-frame** yields a connection error, never a truncated message –
under every segmentation. -/
theorem eof_mid_frame_is_conn_error (msize : Nat) (lookup : Lookup) (s : Stream) (hwf : s.WF)
    (hdr part : Bytes) (hb : s.bytes = hdr ++ part) (hl : hdr.length = 7)
    (hp : part.length < leDec (hdr.take 4) - 7) :
    ∀ tag d m, (recvSeg msize Gen.C.maximumLength lookup s).1 ≠ .msg tag d m := by
  intro tag d m
  rw [(recvSeg_eq_recv1 msize _ lookup s hwf).1, hb]
  exact recv1_truncated msize _ lookup hdr part hl hp tag d m

/-- **The vectorised path (`readFromBuffersLinux`: recvmsg into the remaining iovecs, advance them
by what arrived) through any segmentation**: with enough bytes in the stream it fills the vectors
with the consecutive pieces of the stream and leaves the rest – whatever the sizes of the
individual recvmsg completions. -/
theorem vectorised_any_segmentation (sizes : List Nat) (s : Stream) (hwf : s.WF) (h : sizes.sum ≤ s.bytes.length) :
    ∃ s', readVec (sizes.sum + 1) (sizes.map fun n => (n, [])) s = some (splitBy sizes s.bytes, s') ∧
      s'.bytes = s.bytes.drop sizes.sum :=
  readVec_fresh sizes s hwf h

/-- **Both read paths deliver the same vectors** (generic `io.Reader` loop and recvmsg loop), for
any two segmentations of the same bytes. -/
theorem read_paths_agree (sizes : List Nat) (s1 s2 : Stream) (h1 : s1.WF) (h2 : s2.WF)
    (hb : s1.bytes = s2.bytes) (h : sizes.sum ≤ s1.bytes.length) :
    (readFrom sizes s1).map (·.1) = (readVec (sizes.sum + 1) (sizes.map fun n => (n, [])) s2).map (·.1) := by
  obtain ⟨s1', e1, _⟩ := (readFrom_spec sizes s1 h1).1 h
  obtain ⟨s2', e2, _⟩ := readVec_fresh sizes s2 h2 (by rw [← hb]; exact h)
  rw [e1, e2, hb]; rfl

/-! ### non-vacuity -/
def exStream : Stream := { chunks := [[11, 0], [0, 0, 8], [0, 0, 0x6f], [0xf3, 0xa1, 0x44]], eofAttached := true }
example : exStream.WF := by unfold Stream.WF exStream; decide
example : (fill 8 7 exStream []).map (·.1) = some [11, 0, 0, 0, 8, 0, 0] := by decide
example : (readVec 12 [(7, []), (4, [])] exStream).map (·.1) =
    some [[11, 0, 0, 0, 8, 0, 0], [0x6f, 0xf3, 0xa1, 0x44]] := by decide

end P9.C17
