import P9Model.Session.Dispatch
import P9Model.Session.Frame
import P9Model.Spec.Coherence
import P9Model.Session.Calls
import P9Model.Session.Refuse
/-!
# C08 — Path coherence under rename/unlink and fencing of deleted paths
-/
namespace P9.C08
open P9 P9.Session

/-- `fid` is bound (on the connection being served) to the live reference `r`, whose path node
is marked deleted: a *fenced* fid -/
structure Fenced (fid r : Nat) (c : Ctx) : Prop where
  bound : (c.st.fids.find? (·.1 == (c.conn, fid))).map (·.2) = some r
  inRange : r < c.st.refs.length
  live : (c.st.refs.getD r default).refs ≥ 1
  deleted : (c.st.nodes.getD (c.st.refs.getD r default).node default).deleted = true

/-- **Generic fencing lemma**: a handler of the shape `LookupFID; defer DecRef; body` whose body
refuses on a deleted path node – making no backend call, leaving tape, fid table, path tree and
the count of the reference as they are – refuses a fenced fid with that errno, without a backend
call, with the tape, fid table and path tree untouched. -/
theorem withFid_fenced' (fid r e : Nat) (body : Nat → M Reply) (c : Ctx) (h : Fenced fid r c)
    (hb : ∃ c1, body r (pinned r c) = .ok (rerr e) c1 ∧ Untouched (pinned r c) c1 ∧
      c1.st.refs.getD r default = (pinned r c).st.refs.getD r default) :
    ∃ c', withFid fid body c = .ok (rerr e) c' ∧ Untouched c c' := by
  obtain ⟨c1, hb, hu, hr⟩ := hb
  have hl : lookupFid fid c = .ok (some r) (pinned r c) := by
    unfold lookupFid lookupFidRaw getS getConn incRef setRef modS
    simp [bind, pure, h.bound, pinned]
  have hx := pinned_getD r c h.inRange
  have hne : ¬ ((c.st.refs.getD r default).refs + 1 = 1) := by
    have hlive := h.live
    omega
  refine Exists.intro ?w (And.intro ?h1 ?h2)
  case h1 =>
    unfold withFid
    simp only [bind, hl, finally', hb]
    unfold decRefU decRef' getS
    simp only [bind]
    unfold decRef getRef getS setRef modS
    simp only [bind, pure, hr, hx, hne, ↓reduceIte]
    rfl
  case h2 =>
    obtain ⟨h1, h2, h3, h4⟩ := hu
    simp only [Untouched] at *
    simp_all [pinned]

theorem withFid_fenced (fid r e : Nat) (body : Nat → M Reply) (c : Ctx) (h : Fenced fid r c)
    (hb : body r (pinned r c) = .ok (rerr e) (pinned r c)) :
    ∃ c', withFid fid body c = .ok (rerr e) c' ∧ Untouched c c' :=
  withFid_fenced' fid r e body c h ⟨_, hb, ⟨rfl, rfl, rfl, rfl⟩, rfl⟩

/-! ### path-dependent operations through a fenced fid: EINVAL before the backend -/

private theorem deleted_pinned {fid r : Nat} {c : Ctx} (h : Fenced fid r c) :
    ((pinned r c).st.nodes.getD ((pinned r c).st.refs.getD r default).node default).deleted = true := by
  rw [pinned_getD r c h.inRange]; exact h.deleted

/-- evaluates the prologue `getRef; isDeleted` of a handler body on the pinned context -/
macro "fenced_body" h:ident : tactic => `(tactic|
  (have hd := deleted_pinned $h
   simp only [bind, pure, getRef, getS, isDeleted, getNode, dirGuard, hd, Bool.true_or, ite_true, ↓reduceIte]))

theorem fenced_open (m : Msg) (r : Nat) (c : Ctx) (h : Fenced (m.int 0) r c) :
    ∃ c', hTlopen m c = .ok (rerr EINVAL) c' ∧ Untouched c c' := by
  unfold hTlopen; refine withFid_fenced _ r _ _ c h ?_; fenced_body h

theorem fenced_setattr (m : Msg) (r : Nat) (c : Ctx) (h : Fenced (m.int 0) r c) :
    ∃ c', hTsetattr m c = .ok (rerr EINVAL) c' ∧ Untouched c c' := by
  unfold hTsetattr; refine withFid_fenced _ r _ _ c h ?_; fenced_body h

theorem fenced_readlink (m : Msg) (r : Nat) (c : Ctx) (h : Fenced (m.int 0) r c) :
    ∃ c', hTreadlink m c = .ok (rerr EINVAL) c' ∧ Untouched c c' := by
  unfold hTreadlink; refine withFid_fenced _ r _ _ c h ?_; fenced_body h

theorem fenced_xattrwalk (m : Msg) (r : Nat) (c : Ctx) (h : Fenced (m.int 0) r c) :
    ∃ c', hTxattrwalk m c = .ok (rerr EINVAL) c' ∧ Untouched c c' := by
  unfold hTxattrwalk; refine withFid_fenced _ r _ _ c h ?_; fenced_body h

theorem fenced_xattrcreate (m : Msg) (r : Nat) (c : Ctx) (h : Fenced (m.int 0) r c) :
    ∃ c', hTxattrcreate m c = .ok (rerr EINVAL) c' ∧ Untouched c c' := by
  unfold hTxattrcreate; refine withFid_fenced _ r _ _ c h ?_; fenced_body h

theorem fenced_readdir (m : Msg) (r : Nat) (c : Ctx) (h : Fenced (m.int 0) r c) :
    ∃ c', hTreaddir m c = .ok (rerr EINVAL) c' ∧ Untouched c c' := by
  unfold hTreaddir; refine withFid_fenced _ r _ _ c h ?_; fenced_body h

/-- Tlcreate (and its uid-carrying variant) through a fenced directory fid -/
theorem fenced_create (m : Msg) (uid t r : Nat) (c : Ctx) (hs : safeName (m.str 1) = true)
    (h : Fenced (m.int 0) r c) : ∃ c', hCreate m uid t c = .ok (rerr EINVAL) c' ∧ Untouched c c' := by
  unfold hCreate; simp only [hs, dite_true]; refine withFid_fenced _ r _ _ c h ?_; fenced_body h

/-- Tmkdir, Tsymlink, Tmknod (and variants) through a fenced directory fid -/
theorem fenced_dirop (m : Msg) (fi ni : Nat) (meth : String) (a : List Nat) (ss : List Bytes) (t r : Nat) (c : Ctx)
    (hs : safeName (m.str ni) = true) (h : Fenced (m.int fi) r c) :
    ∃ c', hDirOp m fi ni meth a ss t c = .ok (rerr EINVAL) c' ∧ Untouched c c' := by
  unfold hDirOp; simp only [hs, dite_true]; refine withFid_fenced _ r _ _ c h ?_; fenced_body h

theorem fenced_unlinkat (m : Msg) (r : Nat) (c : Ctx) (hs : safeName (m.str 1) = true)
    (h : Fenced (m.int 0) r c) : ∃ c', hTunlinkat m c = .ok (rerr EINVAL) c' ∧ Untouched c c' := by
  unfold hTunlinkat; simp only [hs, dite_true]; refine withFid_fenced _ r _ _ c h ?_; fenced_body h

/-! ### walking to a child from a fenced directory fid: ENOENT before the backend -/

/-- **Walk from a fenced fid**: a Twalk / Twalkgetattr with at least one (safe) name through a
fenced directory fid answers ENOENT; no backend call, tape, fid table and path tree untouched.
(If the fid is opened and would replace itself the session layer answers EBUSY first; a fenced
non-directory is refused as a non-directory, EINVAL – interpretation I7.) -/
theorem fenced_walk (m : Msg) (g : Bool) (r : Nat) (c : Ctx) (h : Fenced (m.int 0) r c)
    (n : SafeName) (ns : List SafeName) (hnames : checkNames (m.names 2) = some (n :: ns))
    (hdir : isDir (c.st.refs.getD r default).mode = true)
    (hbusy : ((c.st.refs.getD r default).opened && m.int 0 == m.int 1) = false) :
    ∃ c', hTwalkGen m g c = .ok (rerr ENOENT) c' ∧ Untouched c c' := by
  unfold hTwalkGen
  refine withFid_fenced' _ r _ _ c h ?_
  have hx := pinned_getD r c h.inRange
  have hlen : r < (pinned r c).st.refs.length := by simp [pinned]; exact h.inRange
  have hxx := pinned_getD r (pinned r c) hlen
  -- inside doWalk the reference is pinned once more
  have hdir2 : isDir ((pinned r (pinned r c)).st.refs.getD r default).mode = true := by rw [hxx, hx]; exact hdir
  have hdel2 : ((pinned r (pinned r c)).st.nodes.getD ((pinned r (pinned r c)).st.refs.getD r default).node default).deleted = true := by
    rw [hxx, hx]; exact h.deleted
  have hcnt : ((pinned r (pinned r c)).st.refs.getD r default).refs ≠ 1 := by rw [hxx, hx]; simp
  refine ⟨unpinned r (pinned r (pinned r c)), ?_, ?_, ?_⟩
  · simp only [bind, pure, getRef_eval, hx, hbusy, Bool.false_eq_true, ↓reduceIte]
    unfold doWalk
    simp only [hnames, bind, pure, getRef_eval, List.isEmpty_cons, Bool.false_eq_true, ↓reduceIte,
      incRef_eval, walkLoop, hdir2, Bool.not_true, isDeleted_eval, hdel2, decRefU_noclose r _ hcnt]
  · simp [Untouched, unpinned, pinned]
  · rw [unpinned_pinned_getD r (pinned r c) hlen]

/-! ### two-fid requests: the first fid fenced, the second bound -/

/-- the node-deleted test of a body evaluated inside two nested pins -/
theorem deleted_pinned2 {fid r : Nat} {c : Ctx} (h : Fenced fid r c) (t : Nat) :
    ((pinned t (pinned r c)).st.nodes.getD ((pinned t (pinned r c)).st.refs.getD r default).node default).deleted = true := by
  have hlen : r < (pinned r c).st.refs.length := by simp [pinned]; exact h.inRange
  by_cases ht : t = r
  · subst ht
    rw [pinned_getD t (pinned t c) hlen, pinned_getD t c h.inRange]; exact h.deleted
  · rw [pinned_other t r _ ht, pinned_getD r c h.inRange]; exact h.deleted

/-- **Trenameat through a fenced source directory fid** (the target directory fid bound): EINVAL,
no backend call, tape, fid table and path tree untouched. -/
theorem fenced_renameat (m : Msg) (r t : Nat) (c : Ctx) (ho : safeName (m.str 1) = true) (hn : safeName (m.str 3) = true)
    (h : Fenced (m.int 0) r c) (ht : Bound (m.int 2) t (pinned r c)) :
    ∃ c', hTrenameat m c = .ok (rerr EINVAL) c' ∧ Untouched c c' := by
  unfold hTrenameat
  simp only [ho, hn, dite_true]
  refine withFid_fenced' _ r _ _ c h ?_
  have hlen : r < (pinned r c).st.refs.length := by simp [pinned]; exact h.inRange
  refine ⟨unpinned t (pinned t (pinned r c)), ?_, ?_, ?_⟩
  · refine withFid_refuse _ t _ _ _ ht ?_
    have hd := deleted_pinned2 h t
    simp only [bind, pure, getRef_eval, isDeleted_eval, hd, Bool.true_or, ↓reduceIte]
  · simp [Untouched, unpinned, pinned]
  · exact unpinned_pinned_all t r (pinned r c) ht.inRange

/-- **Trename of a fenced fid** (the target directory fid bound): EINVAL before the backend –
whether the fid is a root ("Don't allow a root rename") or not (deleted path). -/
theorem fenced_rename (m : Msg) (r t : Nat) (c : Ctx) (hn : safeName (m.str 2) = true)
    (h : Fenced (m.int 0) r c) (ht : Bound (m.int 1) t (pinned r c)) :
    ∃ c', hTrename m c = .ok (rerr EINVAL) c' ∧ Untouched c c' := by
  unfold hTrename
  simp only [hn, dite_true]
  refine withFid_fenced' _ r _ _ c h ?_
  refine ⟨unpinned t (pinned t (pinned r c)), ?_, ?_, ?_⟩
  · refine withFid_refuse _ t _ _ _ ht ?_
    have hd := deleted_pinned2 h t
    simp only [bind, pure, getRef_eval]
    cases hp : ((pinned t (pinned r c)).st.refs.getD r default).parent with
    | none => rfl
    | some p => simp only [bind, pure, isDeleted_eval, hd, Bool.true_or, ↓reduceIte]
  · simp [Untouched, unpinned, pinned]
  · exact unpinned_pinned_all t r (pinned r c) ht.inRange

/-- **Tlink into a fenced directory fid** (the target fid bound): EINVAL before the backend. -/
theorem fenced_link (m : Msg) (r t : Nat) (c : Ctx) (hn : safeName (m.str 2) = true)
    (h : Fenced (m.int 0) r c) (ht : Bound (m.int 1) t (pinned r c)) :
    ∃ c', hTlink m c = .ok (rerr EINVAL) c' ∧ Untouched c c' := by
  unfold hTlink
  simp only [hn, dite_true]
  refine withFid_fenced' _ r _ _ c h ?_
  refine ⟨unpinned t (pinned t (pinned r c)), ?_, ?_, ?_⟩
  · refine withFid_refuse _ t _ _ _ ht ?_
    have hd := deleted_pinned2 h t
    simp only [bind, pure, dirGuard, getRef_eval, isDeleted_eval, hd, Bool.true_or, ↓reduceIte]
  · simp [Untouched, unpinned, pinned]
  · exact unpinned_pinned_all t r (pinned r c) ht.inRange

/-! ### unlink / overwrite marks the whole subtree deleted -/

/-- the effect of the marking pass: only `deleted` flags change, and only from false to true -/
structure Mono (c c' : Ctx) : Prop where
  calls : c'.calls = c.calls
  tape : c'.tape = c.tape
  fids : c'.st.fids = c.st.fids
  refs : c'.st.refs = c.st.refs
  len : c'.st.nodes.length = c.st.nodes.length
  children : ∀ k, (c'.st.nodes.getD k default).childNodes = (c.st.nodes.getD k default).childNodes
  crefs : ∀ k, (c'.st.nodes.getD k default).childRefs = (c.st.nodes.getD k default).childRefs
  keep : ∀ k, (c.st.nodes.getD k default).deleted = true → (c'.st.nodes.getD k default).deleted = true

theorem Mono.refl (c : Ctx) : Mono c c := ⟨rfl, rfl, rfl, rfl, rfl, fun _ => rfl, fun _ => rfl, fun _ h => h⟩
theorem Mono.trans {a b c : Ctx} (h1 : Mono a b) (h2 : Mono b c) : Mono a c :=
  ⟨h2.calls.trans h1.calls, h2.tape.trans h1.tape, h2.fids.trans h1.fids, h2.refs.trans h1.refs,
   h2.len.trans h1.len, fun k => (h2.children k).trans (h1.children k), fun k => (h2.crefs k).trans (h1.crefs k),
   fun k h => h2.keep k (h1.keep k h)⟩

def markCtx (n : Nat) (c : Ctx) : Ctx :=
  { c with st := { c.st with nodes := c.st.nodes.set n { (c.st.nodes.getD n default) with deleted := true } } }

theorem setDeleted_eval (n : Nat) (c : Ctx) :
    setNode n (fun nd => { nd with deleted := true }) c = .ok () (markCtx n c) := rfl

theorem getD_set_node (l : List Node) (n k : Nat) (v : Node) :
    (l.set n v).getD k default = if n = k ∧ n < l.length then v else l.getD k default := by
  simp only [List.getD_eq_getElem?_getD, List.getElem?_set]
  by_cases h : n = k
  · subst h
    by_cases hl : n < l.length
    · simp [hl]
    · simp [hl]
  · simp [h]

theorem markCtx_mono (n : Nat) (c : Ctx) : Mono c (markCtx n c) := by
  refine ⟨rfl, rfl, rfl, rfl, by simp [markCtx], fun k => ?_, fun k => ?_, fun k h => ?_⟩
  · simp only [markCtx, getD_set_node]
    split
    · next h => obtain ⟨rfl, _⟩ := h; rfl
    · rfl
  · simp only [markCtx, getD_set_node]
    split
    · next h => obtain ⟨rfl, _⟩ := h; rfl
    · rfl
  · simp only [markCtx, getD_set_node]
    split
    · rfl
    · exact h

theorem markCtx_deleted (n : Nat) (c : Ctx) (h : n < c.st.nodes.length) :
    ((markCtx n c).st.nodes.getD n default).deleted = true := by
  simp [markCtx, getD_set_node, h]

/-- a loop whose every step is a marking step is a marking step -/
theorem forEach_mono {α : Type} (l : List α) (f : α → M Unit)
    (hf : ∀ a c, ∃ c', f a c = .ok () c' ∧ Mono c c') (c : Ctx) :
    ∃ c', forEach l f c = .ok () c' ∧ Mono c c' := by
  induction l generalizing c with
  | nil => exact ⟨c, rfl, Mono.refl c⟩
  | cons a as ih =>
    obtain ⟨c1, h1, m1⟩ := hf a c
    obtain ⟨c2, h2, m2⟩ := ih c1
    exact ⟨c2, by simp [forEach, bind, h1, h2], m1.trans m2⟩

theorem notifyDelete_mono (fuel n : Nat) (c : Ctx) :
    ∃ c', notifyDelete fuel n c = .ok () c' ∧ Mono c c' := by
  induction fuel generalizing n c with
  | zero => exact ⟨c, rfl, Mono.refl c⟩
  | succ fuel ih =>
    obtain ⟨c2, h2, m2⟩ := forEach_mono ((markCtx n c).st.nodes.getD n default).childNodes
      (fun e => notifyDelete fuel e.2) (fun a c => ih a.2 c) (markCtx n c)
    refine ⟨c2, ?_, (markCtx_mono n c).trans m2⟩
    simp only [notifyDelete, bind, setDeleted_eval, getNode, getS, pure]
    exact h2

/-- `d` is reached from `o` by following `k` child-node links -/
inductive Reach (c : Ctx) : Nat → Nat → Nat → Prop
  | here (o : Nat) : Reach c o o 0
  | step {o e d k : Nat} (nm : SafeName) (h : (nm, e) ∈ (c.st.nodes.getD o default).childNodes)
      (r : Reach c e d k) : Reach c o d (k + 1)

theorem Reach.mono {c c' : Ctx} (m : Mono c c') {o d k : Nat} (r : Reach c o d k) : Reach c' o d k := by
  induction r with
  | here o => exact .here o
  | step nm h _ ih => exact .step nm (by rw [m.children]; exact h) ih

theorem Reach.lt {c : Ctx} {o d k : Nat} (r : Reach c o d k) (ho : o < c.st.nodes.length)
    (hwf : ∀ p nm e, (nm, e) ∈ (c.st.nodes.getD p default).childNodes → e < c.st.nodes.length) :
    d < c.st.nodes.length := by
  induction r with
  | here o => exact ho
  | step nm h _ ih => exact ih (hwf _ _ _ h)

/-- a loop of marking steps establishes, for an element of the list, whatever its own step
establishes – if later marking steps cannot undo it -/
theorem forEach_mem {α : Type} (l : List α) (f : α → M Unit) (a : α) (ha : a ∈ l)
    (hf : ∀ a c, ∃ c', f a c = .ok () c' ∧ Mono c c')
    (P : Ctx → Prop) (hP : ∀ c c', Mono c c' → P c → P c')
    (hstep : ∀ c, ∃ c', f a c = .ok () c' ∧ P c') (c : Ctx) :
    ∃ c', forEach l f c = .ok () c' ∧ P c' := by
  induction l generalizing c with
  | nil => cases ha
  | cons b bs ih =>
    rcases List.mem_cons.mp ha with rfl | hmem
    · obtain ⟨c1, h1, p1⟩ := hstep c
      obtain ⟨c2, h2, m2⟩ := forEach_mono bs f hf c1
      exact ⟨c2, by simp [forEach, bind, h1, h2], hP _ _ m2 p1⟩
    · obtain ⟨c1, h1, _⟩ := hf b c
      obtain ⟨c2, h2, p2⟩ := ih hmem c1
      exact ⟨c2, by simp [forEach, bind, h1, h2], p2⟩

/-- **The marking pass reaches the whole subtree**: every path node within `fuel - 1` links below
`o` is marked deleted (`markChildDeleted` runs it with more fuel than there are nodes). -/
theorem notifyDelete_marks (fuel : Nat) : ∀ (o d k : Nat) (c : Ctx), k < fuel → Reach c o d k →
    o < c.st.nodes.length →
    (∀ p nm e, (nm, e) ∈ (c.st.nodes.getD p default).childNodes → e < c.st.nodes.length) →
    ∃ c', notifyDelete fuel o c = .ok () c' ∧ Mono c c' ∧ (c'.st.nodes.getD d default).deleted = true := by
  induction fuel with
  | zero => intro o d k c hk; omega
  | succ fuel ih =>
    intro o d k c hk r ho hwf
    have m1 := markCtx_mono o c
    cases r with
    | here =>
      obtain ⟨c2, h2, m2⟩ := forEach_mono ((markCtx o c).st.nodes.getD o default).childNodes
        (fun e => notifyDelete fuel e.2) (fun a c => notifyDelete_mono fuel a.2 c) (markCtx o c)
      refine ⟨c2, ?_, m1.trans m2, m2.keep _ (markCtx_deleted o c ho)⟩
      simp only [notifyDelete, bind, setDeleted_eval, getNode, getS, pure]
      exact h2
    | @step _ e _ k' nm hmem r' =>
      have hmem' : (nm, e) ∈ ((markCtx o c).st.nodes.getD o default).childNodes := by rw [m1.children]; exact hmem
      have hstep : ∀ cc, Mono c cc → ∃ c', notifyDelete fuel e cc = .ok () c' ∧ Mono cc c' ∧ (c'.st.nodes.getD d default).deleted = true := by
        intro cc mcc
        have hwf' : ∀ p nm e, (nm, e) ∈ (cc.st.nodes.getD p default).childNodes → e < cc.st.nodes.length := by
          intro p nm e h; rw [mcc.len]; rw [mcc.children] at h; exact hwf p nm e h
        exact ih e d k' cc (by omega) (r'.mono mcc) (by rw [mcc.len]; exact hwf _ _ _ hmem) hwf'
      -- run the loop, tracking that every intermediate context is a marking-successor of `c`
      have key : ∀ (l : List (SafeName × Nat)) (cc : Ctx), Mono c cc → (nm, e) ∈ l →
          ∃ c', forEach l (fun e => notifyDelete fuel e.2) cc = .ok () c' ∧ Mono cc c' ∧
            (c'.st.nodes.getD d default).deleted = true := by
        intro l
        induction l with
        | nil => intro cc _ h; cases h
        | cons b bs ihl =>
          intro cc mcc hin
          rcases List.mem_cons.mp hin with hb | hin'
          · subst hb
            obtain ⟨c1, h1, m1', hd⟩ := hstep cc mcc
            obtain ⟨c2, h2, m2⟩ := forEach_mono bs (fun e => notifyDelete fuel e.2) (fun a c => notifyDelete_mono fuel a.2 c) c1
            exact ⟨c2, by simp [forEach, bind, h1, h2], m1'.trans m2, m2.keep _ hd⟩
          · obtain ⟨c1, h1, m1'⟩ := notifyDelete_mono fuel b.2 cc
            obtain ⟨c2, h2, m2, hd⟩ := ihl c1 (mcc.trans m1') hin'
            exact ⟨c2, by simp [forEach, bind, h1, h2], m1'.trans m2, hd⟩
      obtain ⟨c2, h2, m2, hd⟩ := key _ (markCtx o c) m1 hmem'
      refine ⟨c2, ?_, m1.trans m2, hd⟩
      simp only [notifyDelete, bind, setDeleted_eval, getNode, getS, pure]
      exact h2

/-- the path tree after `removeWithName(name, nil)` on node `n` -/
def unlinkCtx (n : Nat) (name : SafeName) (c : Ctx) : Ctx :=
  { c with st := { c.st with nodes := c.st.nodes.set n { (c.st.nodes.getD n default) with
      childRefs := (c.st.nodes.getD n default).childRefs.filter (·.2 != name),
      childNodes := (c.st.nodes.getD n default).childNodes.filter (·.1 != name) } } }

/-- **Unlink, or a rename over an entry, fences the whole subtree**: `markChildDeleted n name`
detaches `name` from node `n` and marks the path node it led to, and every path node below it
(at any depth up to the number of nodes), deleted – without a backend call. With
`fenced_*` above: every fid at or below the removed path is refused from then on. -/
theorem markChildDeleted_fences (n o : Nat) (name nm : SafeName) (c : Ctx)
    (hfind : (c.st.nodes.getD n default).childNodes.find? (·.1 == name) = some (nm, o))
    (ho : o < c.st.nodes.length)
    (hwf : ∀ p nm e, (nm, e) ∈ ((unlinkCtx n name c).st.nodes.getD p default).childNodes → e < c.st.nodes.length) :
    ∃ c', markChildDeleted n name c = .ok () c' ∧ Mono (unlinkCtx n name c) c' ∧
      ∀ d k, k ≤ c.st.nodes.length → Reach (unlinkCtx n name c) o d k → (c'.st.nodes.getD d default).deleted = true := by
  have hlen : (unlinkCtx n name c).st.nodes.length = c.st.nodes.length := by simp [unlinkCtx]
  obtain ⟨c', h', m'⟩ := notifyDelete_mono (c.st.nodes.length + 1) o (unlinkCtx n name c)
  refine ⟨c', ?_, m', fun d k hk r => ?_⟩
  · simp only [markChildDeleted, bind, getNode, getS, pure, hfind, Option.map_some]
    show notifyDelete ((unlinkCtx n name c).st.nodes.length + 1) o (unlinkCtx n name c) = _
    rw [hlen]; exact h'
  · obtain ⟨c'', h'', _, hd⟩ := notifyDelete_marks (c.st.nodes.length + 1) o d k (unlinkCtx n name c) (by omega) r
      (by rw [hlen]; exact ho) (by intro p nm e h; rw [hlen]; exact hwf p nm e h)
    rw [h'] at h''
    injection h'' with _ hc
    subst hc
    exact hd

/-! ### a rename tells the moved Files their new parent and name -/

/-- what `renameMoved` does for a reference `r` (record `x`) that is alive, then the rest of the loop -/
def movedTail (target tnode : Nat) (newName : SafeName) (tfile r : Nat) (rest : List (Nat × SafeName)) (x : Ref) :
    M (List Nat) := do
  incRef r
  whenSome x.parent decRefU
  setRef r fun x => { x with parent := some target }
  incRef target
  addChild tnode r newName
  callRenamed x.file tfile newName
  let ps ← renameMoved target tnode newName tfile rest
  return r :: ps

theorem renameMoved_cons_live (target tnode : Nat) (newName : SafeName) (tfile r : Nat) (nm : SafeName)
    (rest : List (Nat × SafeName)) (c : Ctx) (hlive : (c.st.refs.getD r default).refs > 0) :
    renameMoved target tnode newName tfile ((r, nm) :: rest) c =
      movedTail target tnode newName tfile r rest (c.st.refs.getD r default) c := by
  unfold renameMoved movedTail
  simp only [bind, getRef_eval, hlive, ↓reduceIte]

theorem movedTail_post (target tnode : Nat) (newName : SafeName) (tfile r : Nat) (rest : List (Nat × SafeName)) (x : Ref) :
    Post (fun c' => (⟨x.file, "Renamed", [tfile], [], [newName]⟩ : Call) ∈ c'.calls)
      (movedTail target tnode newName tfile r rest x) := by
  unfold movedTail
  refine Post.bind_any _ (fun _ => Post.bind_any _ (fun _ => Post.bind_any _ (fun _ => Post.bind_any _ (fun _ =>
    Post.bind_any _ (fun _ => ?_)))))
  exact Post.after_call _ (fun c1 => ⟨_, rfl, List.mem_cons_self⟩)
    (Pres.bind (renameMoved_calls _ _ _ _ _) (fun _ => Pres.pure _))

/-- **`Renamed` reaches a live reference that moves**: when the callback loop of `renameChildTo`
comes to a reference `r` that is still alive (`TryIncRef` succeeds), then – unless the loop ends in
a panic (the "already registered" assertion of `addChild`) – the backend call log afterwards
contains `Renamed(file of r, file of the new parent, new name)`; whatever the rest of the loop
does, the entry stays in the log (`CallsGrow`). -/
theorem renamed_delivered (target tnode : Nat) (newName : SafeName) (tfile r : Nat) (nm : SafeName)
    (rest : List (Nat × SafeName)) (c : Ctx) (hlive : (c.st.refs.getD r default).refs > 0) :
    match renameMoved target tnode newName tfile ((r, nm) :: rest) c with
    | .ok _ c' => (⟨(c.st.refs.getD r default).file, "Renamed", [tfile], [], [newName]⟩ : Call) ∈ c'.calls
    | .panic _ => True := by
  rw [renameMoved_cons_live _ _ _ _ _ _ _ _ hlive]
  have h := movedTail_post target tnode newName tfile r rest (c.st.refs.getD r default) c
  cases hm : movedTail target tnode newName tfile r rest (c.st.refs.getD r default) c with
  | ok a c' => simp only [hm] at h; exact h
  | panic c' => trivial

/-- … and a reference that is already being destroyed is skipped: no call for it (D16's rule for
the directly moved references) -/
theorem dying_reference_skipped (target tnode : Nat) (newName : SafeName) (tfile r : Nat) (nm : SafeName)
    (rest : List (Nat × SafeName)) (c : Ctx) (hdead : (c.st.refs.getD r default).refs = 0) :
    renameMoved target tnode newName tfile ((r, nm) :: rest) c = renameMoved target tnode newName tfile rest c := by
  conv => lhs; unfold renameMoved
  simp only [bind, getRef_eval, hdead, Nat.lt_irrefl, gt_iff_lt, ↓reduceIte]

/-! ### current names are used; the monitor's reference model keeps every fid on its object -/

/-- **Trename / Tremove use the entry's current name**: `nameFor` returns the name under which the
reference is registered in its parent's node *now* (renames re-register it, `renameMoved`). -/
theorem nameFor_current (n r : Nat) (nm : SafeName) (c : Ctx)
    (h : (c.st.nodes.getD n default).childRefs.find? (·.1 == r) = some (r, nm)) :
    nameFor n r c = .ok nm c := by
  simp only [nameFor, bind, getNode, getS, pure, h]

/-- in the monitor's reference model a rename or an unlink never rebinds a fid: every fid keeps
denoting the object it was bound to (the property's first clause, by construction of the oracle) -/
theorem oracle_fids_stable (s : Coherence.Fs) (x nd : Nat) (nn : Bytes) :
    (s.move x nd nn).fids = s.fids ∧ (s.kill x).fids = s.fids := by
  constructor
  · unfold Coherence.Fs.move
    split
    · split <;> rfl
    · rfl
  · rfl

/-! ### non-vacuity: a concrete fenced fid -/

/-- connection 0 has fid 5 bound to reference 0 (count 1) on path node 1, which is deleted -/
def exampleCtx : Ctx :=
  { st := { fids := [((0, 5), 0)], refs := [{ file := 1, mode := ModeDir, refs := 1, node := 1 }],
            nodes := [{}, { deleted := true }] },
    tape := [] }

example : Fenced 5 0 exampleCtx := ⟨rfl, by decide, by decide, rfl⟩

end P9.C08
