import P9Model.Client.Pool
import P9Model.Client.Tie
import P9Model.Conc.ClientMux
import P9Model.Conc.RespPoolInv
import P9Model.Gen.Layouts
/-!
# C10 — Client multiplexing: distinct tags/fids, replies reach their own caller, no hang
-/
namespace P9.C10
open P9 P9.Pool

theorem inv_init (start limit : Nat) (h : start ≤ limit) :
    PoolInv start { p := { start := start, limit := limit } } := by
  simp [PoolInv, h]

theorem getLast_dropLast {l : List Nat} {v : Nat} (h : l.getLast? = some v) : l = l.dropLast ++ [v] := by
  have hne : l ≠ [] := by intro e; subst e; simp at h
  have := List.dropLast_concat_getLast hne
  rw [List.getLast?_eq_some_getLast hne] at h
  simp only [Option.some.injEq] at h
  rw [h] at this
  exact this.symm

/-- the invariant is preserved by every allocator operation -/
theorem inv_step (start0 : Nat) (s : St) (op : Op) (h : PoolInv start0 s) : PoolInv start0 (step s op) := by
  obtain ⟨hnd, hrange, hle, h0⟩ := h
  cases op with
  | get =>
    unfold step pget
    cases hc : s.p.cache.getLast? with
    | some v =>
      simp only
      have hl := getLast_dropLast hc
      -- moving v from the cache to the outstanding set is a permutation
      have hperm : (s.p.cache.dropLast ++ v :: s.out).Perm (s.p.cache ++ s.out) := by
        conv => rhs; rw [hl]
        simp only [List.append_assoc, List.singleton_append]
        exact List.Perm.refl _
      refine ⟨hperm.nodup_iff.mpr hnd, ?_, hle, h0⟩
      intro x hx
      exact hrange x (hperm.mem_iff.mp hx)
    | none =>
      simp only
      by_cases hfull : s.p.start = s.p.limit
      · simp only [hfull, if_true]
        exact ⟨hnd, hrange, hle, h0⟩
      · simp only [hfull, if_false]
        refine ⟨?_, ?_, by dsimp only; omega, by dsimp only; omega⟩
        · -- the fresh value `start` is above everything known
          have hfresh : s.p.start ∉ s.p.cache ++ s.out := fun hm => by
            have := (hrange _ hm).2; omega
          have hperm : (s.p.cache ++ s.p.start :: s.out).Perm (s.p.start :: (s.p.cache ++ s.out)) :=
            List.perm_middle
          exact hperm.nodup_iff.mpr (List.nodup_cons.mpr ⟨hfresh, hnd⟩)
        · intro x hx
          have hperm : (s.p.cache ++ s.p.start :: s.out).Perm (s.p.start :: (s.p.cache ++ s.out)) :=
            List.perm_middle
          have := hperm.mem_iff.mp hx
          simp only [List.mem_cons] at this
          rcases this with rfl | hm
          · exact ⟨h0, by dsimp only; omega⟩
          · have := hrange x hm; exact ⟨this.1, by dsimp only; omega⟩
  | put v =>
    unfold step
    by_cases hv : v ∈ s.out
    · simp only [hv, if_true, pput]
      have hperm : (s.p.cache ++ [v] ++ s.out.erase v).Perm (s.p.cache ++ s.out) := by
        simp only [List.append_assoc, List.singleton_append]
        exact List.Perm.append_left _ (List.perm_cons_erase hv).symm
      refine ⟨hperm.nodup_iff.mpr hnd, ?_, hle, h0⟩
      intro x hx
      exact hrange x (hperm.mem_iff.mp hx)
    · simp only [hv, if_false]
      exact ⟨hnd, hrange, hle, h0⟩

end P9.C10

namespace P9.C10
open P9 P9.Pool

/-- **Every reachable allocator state satisfies the invariant** (induction over the operations). -/
theorem inv_run (start0 : Nat) (s : St) (ops : List Op) (h : PoolInv start0 s) : PoolInv start0 (run s ops) := by
  induction ops generalizing s with
  | nil => exact h
  | cons o os ih => exact ih _ (inv_step start0 s o h)

theorem pget_limit (p : Pool) : (pget p).2.limit = p.limit := by
  unfold pget
  cases p.cache.getLast? with
  | some v => rfl
  | none => simp only; split <;> rfl

theorem step_limit (s : St) (op : Op) : (step s op).p.limit = s.p.limit := by
  cases op with
  | get =>
    have h := pget_limit s.p
    simp only [step]
    cases hg : pget s.p with
    | mk o p' =>
      rw [hg] at h
      cases o <;> simpa using h
  | put v =>
    simp only [step]
    split
    · rfl
    · rfl

theorem run_limit (s : St) (ops : List Op) : (run s ops).p.limit = s.p.limit := by
  induction ops generalizing s with
  | nil => rfl
  | cons o os ih => show (run (step s o) os).p.limit = _; rw [ih, step_limit]

/-- **Outstanding tags / fids are pairwise distinct, never below the first value and never the
limit** – which is NOTAG (65535) for the tag pool and NOFID (2^32 − 1) for the fid pool – after
any sequence of Get and Put operations in which only outstanding values are returned. -/
theorem outstanding_distinct (start limit : Nat) (hle : start ≤ limit) (ops : List Op) :
    let s := run { p := { start := start, limit := limit } } ops
    s.out.Nodup ∧ ∀ x ∈ s.out, start ≤ x ∧ x < limit ∧ x ≠ limit := by
  intro s
  obtain ⟨hnd, hr, hl, _⟩ := inv_run start _ ops (inv_init start limit hle)
  refine ⟨(List.nodup_append.mp hnd).2.1, fun x hx => ?_⟩
  have := hr x (List.mem_append_right _ hx)
  have hlim := run_limit { p := { start := start, limit := limit } } ops
  simp only at hlim
  omega

/-- **Exhaustion returns failure, never a duplicate**: `Get` on an empty cache at the limit
changes nothing and reports `false`. -/
theorem exhausted_get_fails (limit : Nat) : pget { start := limit, limit := limit } = (none, { start := limit, limit := limit }) := by
  simp [pget]

/-- a value handed out by `Get` was not outstanding before -/
theorem get_is_fresh (start0 : Nat) (s : St) (h : PoolInv start0 s) (v : Nat) (p' : Pool)
    (hg : pget s.p = (some v, p')) : v ∉ s.out := by
  have hi := inv_step start0 s .get h
  unfold step at hi
  rw [hg] at hi
  have := hi.1
  intro hm
  have hnd := (List.nodup_append.mp this).2.1
  simp only [List.nodup_cons] at hnd
  exact hnd.1 hm

/-- O (regenerated from client_file.go): the fid pool is touched only at the expected sites –
`Get` before a binding request (Attach, Walk, WalkGetAttr, xattrWalkRead), `Put(id)` in the error
branch of that same request, `Put(c.fid)` in Close / Remove after the Rclunk / Rremove arrived. -/
theorem fid_pool_sites : Client.fidPoolSitesOk = true := by decide

end P9.C10

namespace P9.C10
open P9 P9.Mux

theorem setPhase_dones (s : Mux.St) (t : Nat) (p : Phase) : (setPhase s t p).dones = s.dones := rfl
theorem setPhase_pending (s : Mux.St) (t : Nat) (p : Phase) : (setPhase s t p).pending = s.pending := rfl

theorem mem_setPhase {s : Mux.St} {t : Nat} {p : Phase} {c : Nat × Phase} (h : c ∈ (setPhase s t p).calls) :
    c ∈ s.calls ∨ c = (t, p) := by
  unfold setPhase at h
  simp only [List.mem_map] at h
  obtain ⟨c0, hc0, he⟩ := h
  split at he
  · right; exact he.symm
  · left; rw [← he]; exact hc0

/-- **Replies reach their own caller, in whatever order the server answers and however the
goroutines are scheduled**: both invariants hold in every state reachable by any label sequence. -/
theorem demux_step (s s' : Mux.St) (l : Label) (h : step s l = some s')
    (h1 : OwnReplies s) (h2 : OwnResults s) : OwnReplies s' ∧ OwnResults s' := by
  cases l with
  | send t =>
    simp only [step] at h
    split at h
    · simp only [Option.some.injEq] at h; subst h
      refine ⟨fun e he => h1 e he, ?_⟩
      intro c hc r hr
      rcases mem_setPhase hc with hm | rfl
      · exact h2 c hm r hr
      · cases hr
    · cases h
  | take t =>
    simp only [step] at h
    split at h
    · simp only [Option.some.injEq] at h; subst h
      refine ⟨fun e he => h1 e he, ?_⟩
      intro c hc r hr
      rcases mem_setPhase hc with hm | rfl
      · exact h2 c hm r hr
      · cases hr
    · cases h
  | handle t =>
    simp only [step] at h
    split at h
    · have hres : ∀ s0 : Mux.St, OwnResults { s0 with calls := s.calls } → OwnResults (setPhase { s0 with calls := s.calls } t .waiting) := by
        intro s0 h0 c hc r hr
        rcases mem_setPhase hc with hm | rfl
        · exact h0 c hm r hr
        · cases hr
      split at h
      · rename_i f rest hnet
        split at h
        · simp only [Option.some.injEq] at h; subst h
          refine ⟨?_, ?_⟩
          · intro e he
            simp only [setPhase_dones, List.mem_cons] at he
            rcases he with rfl | he
            · left; rfl
            · exact h1 e he
          · intro c hc r hr
            rcases mem_setPhase hc with hm | rfl
            · exact h2 c hm r hr
            · cases hr
        · simp only [Option.some.injEq] at h; subst h
          refine ⟨?_, ?_⟩
          · intro e he
            simp only [setPhase_dones, List.mem_append, List.mem_map] at he
            rcases he with ⟨p, _, rfl⟩ | he
            · right; rfl
            · exact h1 e he
          · intro c hc r hr
            rcases mem_setPhase hc with hm | rfl
            · exact h2 c hm r hr
            · cases hr
      · split at h
        · simp only [Option.some.injEq] at h; subst h
          refine ⟨?_, ?_⟩
          · intro e he
            simp only [setPhase_dones, List.mem_append, List.mem_map] at he
            rcases he with ⟨p, _, rfl⟩ | he
            · right; rfl
            · exact h1 e he
          · intro c hc r hr
            rcases mem_setPhase hc with hm | rfl
            · exact h2 c hm r hr
            · cases hr
        · cases h
    · cases h
  | finish t =>
    simp only [step] at h
    split at h
    · rename_i r hd
      split at h
      · simp only [Option.some.injEq] at h; subst h
        refine ⟨?_, ?_⟩
        · intro e he
          simp only [setPhase_dones, List.mem_filter] at he
          exact h1 e he.1
        · intro c hc r' hr
          rcases mem_setPhase hc with hm | rfl
          · exact h2 c hm r' hr
          · -- the call returns what was in its own done channel
            simp only [Phase.finished.injEq] at hr
            subst hr
            unfold doneOf at hd
            cases hf : s.dones.find? (·.1 == t) with
            | none => simp [hf] at hd
            | some e =>
              simp only [hf, Option.map_some, Option.some.injEq] at hd
              have hm := List.mem_of_find?_eq_some hf
              have hk := List.find?_some hf
              simp only [beq_iff_eq] at hk
              have := h1 e hm
              rw [hd, hk] at this
              exact this
      · cases h
    · cases h
  | serverSend f =>
    simp only [step] at h
    split at h
    · cases h
    · simp only [Option.some.injEq] at h; subst h; exact ⟨h1, h2⟩
  | fail =>
    simp only [step, Option.some.injEq] at h; subst h; exact ⟨h1, h2⟩

theorem demux (ls : List Label) (s s' : Mux.St) (h : runFrom s ls = some s')
    (h1 : OwnReplies s) (h2 : OwnResults s) : OwnReplies s' ∧ OwnResults s' := by
  induction ls generalizing s with
  | nil => simp only [runFrom, Option.some.injEq] at h; subst h; exact ⟨h1, h2⟩
  | cons l ls ih =>
    simp only [runFrom] at h
    cases hs : step s l with
    | none => simp [hs] at h
    | some s1 =>
      simp only [hs] at h
      obtain ⟨a, b⟩ := demux_step s s1 l hs h1 h2
      exact ih s1 h a b

/-- **No call receives another call's data**: from any initial state with empty channels, every
call that has returned got the reply carrying its own tag, or an error. -/
theorem no_foreign_data (calls : List (Nat × Phase)) (hun : ∀ c ∈ calls, c.2 = .unsent)
    (ls : List Label) (s' : Mux.St) (h : runFrom { calls := calls } ls = some s') :
    ∀ c ∈ s'.calls, ∀ r, c.2 = .finished r → r = .reply c.1 ∨ r = .error := by
  have := demux ls { calls := calls } s' h (by intro e he; cases he)
    (by intro c hc r hr; rw [hun c hc] at hr; cases hr)
  exact this.2

/-- **A bad frame or a failed transport reaches every pending call**: after such a `handleOne`,
each call that was pending finds an error in its done channel, and nothing is left pending. -/
theorem failure_reaches_all_pending (s s' : Mux.St) (t : Nat) (h : step s (.handle t) = some s')
    (hbad : (∃ f rest, s.net = f :: rest ∧ ¬ (f.acceptable = true ∧ f.tag ∈ s.pending)) ∨ (s.net = [] ∧ s.broken = true)) :
    s'.pending = [] ∧ ∀ p ∈ s.pending, (p, Res.error) ∈ s'.dones := by
  simp only [step] at h
  split at h
  · rcases hbad with ⟨f, rest, hn, hb⟩ | ⟨hn, hb⟩
    · rw [hn] at h
      simp only [hb, if_false, Option.some.injEq] at h
      subst h
      refine ⟨rfl, fun p hp => ?_⟩
      simp only [setPhase_dones, List.mem_append, List.mem_map]
      exact Or.inl ⟨p, hp, rfl⟩
    · rw [hn] at h
      simp only [hb, if_true, Option.some.injEq] at h
      subst h
      refine ⟨rfl, fun p hp => ?_⟩
      simp only [setPhase_dones, List.mem_append, List.mem_map]
      exact Or.inl ⟨p, hp, rfl⟩
  · cases h

/-- **No call hangs on a dead or readable connection**: whenever a call is still waiting with an
empty done channel and a frame is readable or the transport has failed, some goroutine of the
client can move – the waiting call itself can take the free token, or the token holder's
`handleOne` can complete. -/
theorem no_hang (s : Mux.St) (t : Nat) (hw : phase s t = some .waiting) (hd : doneOf s t = none)
    (hready : s.net ≠ [] ∨ s.broken = true)
    (hholder : ∀ h, s.token = some h → phase s h = some .holding) :
    ∃ l, (step s l).isSome = true := by
  cases htok : s.token with
  | none =>
    refine ⟨.take t, ?_⟩
    simp only [step, hw, htok, hd, and_self, if_true, Option.isSome_some]
  | some h =>
    have hh := hholder h htok
    refine ⟨.handle h, ?_⟩
    cases hn : s.net with
    | nil =>
      have hb : s.broken = true := by
        rcases hready with h1 | h1
        · exact absurd hn h1
        · exact h1
      simp only [step, hh, htok, and_self, if_true, hn, hb, Option.isSome_some]
    | cons f rest =>
      by_cases hacc : f.acceptable = true ∧ f.tag ∈ s.pending
      · simp only [step, hh, htok, and_self, if_true, hn, hacc, Option.isSome_some]
      · simp only [step, hh, htok, and_self, if_true, hn, hacc, if_false, Option.isSome_some]

/-- a call whose done channel is filled can always return -/
theorem filled_done_returns (s : Mux.St) (t : Nat) (r : Res) (hw : phase s t = some .waiting)
    (hd : doneOf s t = some r) : (step s (.finish t)).isSome = true := by
  simp only [step, hd, hw, if_true, Option.isSome_some]

/-! ### non-vacuity: two calls, replies in reverse order -/
example :
    (runFrom { calls := [(1, .unsent), (2, .unsent)] }
      [.send 1, .send 2, .serverSend ⟨2, true⟩, .serverSend ⟨1, true⟩, .take 1, .handle 1, .finish 2, .take 1, .handle 1, .finish 1]).map
      (·.calls) = some [(1, .finished (.reply 1)), (2, .finished (.reply 2))] := by decide

/-! ### recycled response objects (`Conc/RespPool.lean`): what makes "the slot of a call" private -/

/-- **In every reachable state of the repaired client code** – any number of clients of the process,
any interleaving of calls starting, failing to send, being answered, connections failing, calls
returning – a response object in the pool is referenced by no pending map and its channel is empty,
no object is registered twice, and a registered object's channel is empty. -/
theorem pooled_responses_are_unreferenced (ls : List RespPool.Label) (s : RespPool.St)
    (hf : ∀ l ∈ ls, RespPool.Fixed l) (h : RespPool.run {} ls = some s) : RespPool.Inv s :=
  RespPool.run_inv ls {} s RespPool.inv_init hf h

/-- **`handleOne` never blocks while holding the receive token** (reply path): the channel of the
response registered under the reply's tag has room. -/
theorem deliver_never_blocks (s : RespPool.St) (k : RespPool.Key) (o : Nat) (hi : RespPool.Inv s)
    (h : RespPool.objOf s k = some o) : (RespPool.step s (.deliver k)).isSome = true := by
  have hm := RespPool.objOf_mem h
  have hnf : o ∉ s.full := fun hfm => hi.fullFree o hfm (List.mem_map.mpr ⟨(k, o), hm, rfl⟩)
  simp [RespPool.step, h, hnf]

/-- … and on the error path: every channel of the failing client's pending calls has room. -/
theorem failAll_never_blocks (s : RespPool.St) (c : Nat) (hi : RespPool.Inv s) :
    (RespPool.step s (.failAll c)).isSome = true := by
  have : ((s.pending.filter (·.1.1 == c)).map (·.2)).any (· ∈ s.full) = false := by
    rw [Bool.eq_false_iff]
    intro hany
    obtain ⟨o, ho, hof⟩ := List.any_eq_true.mp hany
    exact hi.fullFree o (by simpa using hof) (RespPool.mem_objs_filter ho)
  simp [RespPool.step, this]

/-- **No response object serves two calls**: two registrations of one object are one registration. -/
theorem no_shared_response (s : RespPool.St) (hi : RespPool.Inv s) (k1 k2 : RespPool.Key) (o : Nat)
    (h1 : (k1, o) ∈ s.pending) (h2 : (k2, o) ∈ s.pending) : k1 = k2 := by
  have := RespPool.map_inj_of_nodup (fun (x : RespPool.Key × Nat) => x.2) s.pending hi.objsNodup _ h1 _ h2 rfl
  exact congrArg Prod.fst this

/-- **D20, the code before the repair, as a witness**: client 0's call with tag 1 waits; its call
with tag 2 fails in send and only returns the object to the pool; a call on client 1 gets that object;
client 0's connection fails; the reply to client 1's call can never be delivered – `handleOne` of the
healthy client blocks for good. -/
theorem unrepaired_send_failure_blocks_a_healthy_client :
    ((RespPool.run {} [.acquireNew (0, 1), .acquireNew (0, 2), .sendFailBuggy (0, 2), .acquire (1, 1) 1,
        .failAll 0]).bind fun s => RespPool.step s (.deliver (1, 1))) = none ∧
    ((RespPool.run {} [.acquireNew (0, 1), .acquireNew (0, 2), .sendFail (0, 2), .acquire (1, 1) 1,
        .failAll 0]).bind fun s => RespPool.step s (.deliver (1, 1))).isSome = true := by
  decide

/-- **The code makes the `sendFail` move of the model** (regenerated from `(*Client).sendRecv`): when
writing the request failed, the pending entry is deleted and the channel drained before the deferred
`responsePool.Put`; that `Put` is the only one; a response's channel has room for exactly one value. -/
theorem failed_send_leaves_nothing :
    (Gen.sendFailureLeavesNothing && Gen.responsePutOnlyDeferred && Gen.doneChannelHoldsOne) = true := by decide

end P9.C10
