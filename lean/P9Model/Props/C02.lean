import P9Model.Wire.Registry
/-!
# C02 — Decoder safety: no panic, bounded buffering, frame resynchronisation

`recv1` is a total function whose three outcomes enumerate every return of Go's `recv`
("no panic" on the Go side is what the K2 correspondence observes: a Go panic has no
counterpart in the model and is reported).  All statements are for **any** byte string.
-/
namespace P9.C02
open P9 P9.Gen

/-- **Bad size field**: below 7, above 4 MiB or above msize – connection error, exactly the
7 header bytes consumed, body never read, whatever the bytes are. -/
theorem bad_size_ends_connection (msize : Nat) (lookup : Lookup) (hdr rest : Bytes)
    (hl : hdr.length = 7)
    (hs : leDec (hdr.take 4) < 7 ∨ leDec (hdr.take 4) > Gen.C.maximumLength ∨ leDec (hdr.take 4) > msize) :
    recv1 msize Gen.C.maximumLength lookup (hdr ++ rest) = ⟨.connErr, rest, []⟩ :=
  recv1_bad_size msize _ lookup hdr rest hl hs

/-- **Exact consumption, no waiting, no look-ahead**: for a well-delimited frame of *any*
content (accepted or rejected), `recv` consumes exactly its declared size, the outcome and the
buffers requested are the same whatever follows (so nothing after the frame is inspected and no
further input is awaited), and the outcome is never a connection error. -/
theorem delimited_frame_consumed_exactly (msize : Nat) (lookup : Lookup) (hdr body rest : Bytes)
    (hl : hdr.length = 7) (h7 : 7 ≤ leDec (hdr.take 4))
    (hmax : leDec (hdr.take 4) ≤ Gen.C.maximumLength) (hms : leDec (hdr.take 4) ≤ msize)
    (hb : body.length = leDec (hdr.take 4) - 7) :
    recv1 msize Gen.C.maximumLength lookup (hdr ++ body ++ rest) =
      { recv1 msize Gen.C.maximumLength lookup (hdr ++ body) with rest := rest } ∧
    (recv1 msize Gen.C.maximumLength lookup (hdr ++ body)).out ≠ .connErr :=
  recv1_frame_any msize _ lookup hdr body rest hl h7 hmax hms hb

/-- **Bounded buffering**: every buffer `recv` requests for a frame is at most
`min msize 4MiB − 7` bytes, for every byte stream. -/
theorem buffers_bounded (msize : Nat) (lookup : Lookup) (s : Bytes) :
    ∀ a ∈ (recv1 msize Gen.C.maximumLength lookup s).allocs,
      a + 7 ≤ msize ∧ a + 7 ≤ 4 * 1024 * 1024 :=
  recv1_alloc_le msize _ lookup s

/-- **Resynchronisation**: any sequence of well-delimited frames, good and bad mixed, yields
exactly one outcome per frame (message or protocol error – never a connection error), and the
loop then continues on the bytes that follow as if it had started there. -/
theorem resynchronises (msize : Nat) (lookup : Lookup) (fs : List Bytes) (tail : Bytes)
    (h : ∀ f ∈ fs, Delimited msize Gen.C.maximumLength f) (fuel : Nat) :
    recvAll msize Gen.C.maximumLength lookup (fs.length + fuel) (fs.flatten ++ tail) =
      fs.map (frameOutcome msize Gen.C.maximumLength lookup) ++
        recvAll msize Gen.C.maximumLength lookup fuel tail ∧
    ∀ f ∈ fs, frameOutcome msize Gen.C.maximumLength lookup f ≠ .connErr := by
  refine ⟨recvAll_frames msize _ lookup fs tail h fuel, ?_⟩
  intro f hf
  exact (recv1_delimited msize _ lookup f [] (h f hf)).2.2

/-- **Bounded decoding work**: every counted-list decode loop of messages.go stops at the first
overrun (regenerated fact), so the number of elements a frame can make the decoder append is
bounded by the frame's size – in the model: a decoded list never has more rows than the
bytes consumed (each row consumes at least one byte when its kinds are non-empty). -/
theorem decode_loops_stop_at_overrun : genLoopsStop = true := by decide

/-- **Short header / truncated frame**: never a message. -/
theorem truncated_stream_no_message (msize : Nat) (lookup : Lookup) :
    (∀ s : Bytes, s.length < 7 → (recv1 msize Gen.C.maximumLength lookup s).out = .connErr) ∧
    (∀ hdr part : Bytes, hdr.length = 7 → part.length < leDec (hdr.take 4) - 7 →
      ∀ tag d m, (recv1 msize Gen.C.maximumLength lookup (hdr ++ part)).out ≠ .msg tag d m) :=
  ⟨fun s h => recv1_short_header msize _ lookup s h,
   fun hdr part hl hp => recv1_truncated msize _ lookup hdr part hl hp⟩

/-- **Accepted frames carry exactly their values** (non-payload messages): if a frame is
delivered as message `m`, the body starts with a byte string that decodes to `m.vals` in front
of any continuation – the values are a function of those bytes alone, and extra trailing bytes
inside the frame are ignored. -/
theorem accepted_values_are_the_encoded_ones (d : MsgDesc) (hd : d.pay = .none) (body : Bytes) (m : Msg)
    (h : decodeBody d body [] = some m) :
    ∃ pre extra, body = pre ++ extra ∧ ∀ r', dec d.layout (pre ++ r') = some (m.vals, r') := by
  unfold decodeBody at h
  simp only [hd] at h
  split at h
  · cases h
  · rename_i vs r hdec
    simp only [Option.some.injEq] at h
    subst h
    obtain ⟨pre, hb, hp⟩ := dec_some hdec
    exact ⟨pre, r, hb, hp⟩

/-- a protocol error keeps the frame's tag only for an unknown type; other rejections carry
NOTAG (interpretation I10), and in every case the server can answer and go on. -/
theorem unknown_type_keeps_tag (lookup : Lookup) (tag typ remaining : Nat) (r : Bytes)
    (h : lookup tag typ = none) :
    recvBody lookup tag typ remaining r = ⟨.protoErr tag, r.drop remaining, []⟩ := by
  unfold recvBody; rw [h]

/-! ### non-vacuity -/

/-- a well-delimited frame with an unknown type byte (6) and three junk bytes. -/
def exBadFrame : Bytes := [10, 0, 0, 0, 6, 0x34, 0x12, 0xde, 0xad, 0xbe]

example : Delimited 8192 Gen.C.maximumLength exBadFrame := by unfold Delimited; decide
example : frameOutcome 8192 Gen.C.maximumLength registry exBadFrame = .protoErr 0x1234 := by decide

/-- O (regenerated from transport.go): the pooled buffers a frame is received into stay out of the
pool until `recv` returns, so a message is decoded from the bytes of its own frame also while
other goroutines send and receive. -/
theorem receive_buffers_live_while_decoding : Gen.recvBufferReleasedOnReturn = true := by decide

end P9.C02
