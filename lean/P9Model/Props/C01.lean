import P9Model.Wire.Registry
/-!
# C01 — Wire format: 9P2000.L layout conformance and lossless round trip

Property theorems only (helper lemmas live in Wire/ and Transport/).  The obligations over
`Gen.*` are re-checked against what messages.go / p9.go / buffer.go say *now*: the extractor
regenerates `Gen/Layouts.lean` on every run.
-/
namespace P9.C01
open P9 P9.Gen

/-- O1: the extractor read every encode/decode/typ/FixedSize statement (nothing `unknown`). -/
theorem extractor_total : genClean = true := by decide

/-- O2: for each of the registered messages, `encode` writes and `decode` reads the same
fields, in the same order, with the same primitive widths / masks. -/
theorem encode_decode_same_layout : genEncDecAgree = true := by decide

/-- O3 (**layout conformance**): the registered messages are exactly the 65 messages of
`Spec.messages`, each under its protocol type number with the protocol's field sequence
(little-endian widths, 2-byte-length strings, 16-bit counted lists, trailing payloads). -/
theorem layouts_conform_to_9P2000L : genConforms = true := by decide

/-- O4: the AttrMask / SetAttrMask bit assignments equal P9_GETATTR_* / P9_SETATTR_*. -/
theorem mask_bits_conform : genMaskTables = true := by decide

/-- O5: `FixedSize()` of every payloader equals the size of its fixed fields + count[4]. -/
theorem fixed_sizes_conform : genFixedSizes = true := by decide

/-- O6: header constants and type-number range. -/
theorem header_constants : genHeaderConsts = true := by decide

/-- the registry finds each registered message under its own type. -/
theorem registry_finds : ∀ g ∈ Gen.messages, ∀ tag, registry tag g.typ = some g.desc := by
  have h : ∀ g ∈ Gen.messages, registry 0 g.typ = some g.desc := by decide
  intro g hg tag
  exact h g hg

/-- **Round trip, generic codec** (all layouts, all values): see `P9.dec_enc`. -/
theorem body_roundtrip (L : Layout) (vs : List Val) (h : WF L vs) (rest : Bytes) :
    dec L (enc L vs ++ rest) = some (norm L vs, rest) := dec_enc L vs h rest

/-- **Wire round trip for every registered message** (all 65 types × all well-formed field
values × all tags × any following bytes): what `send` writes, `recv` reconstructs – the same
tag, the same type, and the field values sent, with only the documented changes
(`normMsg`: permission fields keep their low 12 bits, mask fields their defined bits, a
directory reply carries the whole entries that fit in its count). -/
theorem wire_roundtrip (g : GenMsg) (hg : g ∈ Gen.messages) (tag : Nat) (m : Msg) (rest : Bytes)
    (msize : Nat) (htag : tag < 65536) (hwf : wfMsg g.desc m)
    (hms : (frame g.desc tag m).length ≤ msize)
    (hmax : (frame g.desc tag m).length ≤ Gen.C.maximumLength) :
    (recv1 msize Gen.C.maximumLength registry (frame g.desc tag m ++ rest)).out
        = .msg tag g.desc (normMsg g.desc m) ∧
    (recv1 msize Gen.C.maximumLength registry (frame g.desc tag m ++ rest)).rest = rest := by
  have htyp : g.desc.typ < 256 := by
    have := header_constants
    simp only [genHeaderConsts, Bool.and_eq_true, List.all_eq_true, decide_eq_true_eq] at this
    exact this.1.1.1.1 g hg
  exact recv1_frame msize _ registry g.desc tag m rest (registry_finds g hg tag) htyp htag hwf hms hmax
    (by decide)

/-- **Wire bytes = the protocol's**: for a message whose Go layout has the protocol's shape,
the frame `send` builds is byte-for-byte what the independent spec serialiser writes:
size[4] type[1] tag[2] body payload, the size covering the whole frame. -/
theorem wire_bytes (g : GenMsg) (sm : Spec.SpecMsg) (h : conformsTo g sm = true) (tag : Nat) (m : Msg) :
    frame g.desc tag m = Spec.bytes sm tag m.vals m.payload := by
  simp only [conformsTo, Bool.and_eq_true, beq_iff_eq] at h
  obtain ⟨⟨ht, hb⟩, hp⟩ := h
  have hb' : sm.body = List.map (fun x => x.kind) g.enc := by
    rw [← hb]; simp [Spec.SpecMsg.body, Spec.SpecMsg.desc]
  unfold frame Spec.bytes encodeBody
  simp only [GenMsg.desc, MsgDesc.layout, ← ht, hb', ← hp]
  generalize m.vals = vs
  cases sm.pay with
  | none => simp
  | data => simp [Nat.add_assoc]
  | dirents =>
    simp only
    split
    · simp
      congr 1
      omega
    · simp

/-- every registered message has such a spec entry (so `wire_bytes` applies to all 65). -/
theorem every_message_has_spec :
    ∀ g ∈ Gen.messages, ∃ sm ∈ Spec.messages, conformsTo g sm = true := by
  intro g hg
  have := layouts_conform_to_9P2000L
  simp only [genConforms, Bool.and_eq_true, List.all_eq_true, List.any_eq_true] at this
  exact this.1.1.1 g hg

/-- **Directory replies**: the payload holds whole entries only, a prefix of the entries
handed to the encoder, and never more bytes than the requested count. -/
theorem readdir_whole_entries (count : Nat) (entries : List (List Atom)) :
    (∃ tl, entries = fit direntK count 0 entries ++ tl) ∧
    (encRows direntK (fit direntK count 0 entries)).length ≤ count := by
  refine ⟨fit_prefix _ _ _ _, ?_⟩
  have := fit_length_le direntK count 0 entries (Nat.zero_le _)
  omega

/-- … and nothing is dropped when everything fits. -/
theorem readdir_all_when_fits (count : Nat) (entries : List (List Atom))
    (h : (encRows direntK entries).length ≤ count) : fit direntK count 0 entries = entries :=
  fit_all _ _ _ _ (by omega)

/-- Excluded side, explicitly: a 65 536-byte string does not round-trip (16-bit length wraps);
the property quantifies over strings of 0..65535 bytes. -/
theorem excluded_long_string (s : Bytes) (h : s.length = 65536) (rest : Bytes) :
    decA .str (encA .str (.str s) ++ rest) = some (.str [], s ++ rest) := str_len_wrap s h rest

/-! ### non-vacuity: concrete non-trivial instances meet the hypotheses -/

/-- a Twalk with two names, one of them with a NUL and a '/' byte. -/
def exTwalk : Msg := { vals := [.atom (.int 7), .atom (.int 4294967295),
  .list [[.str [0x61, 0x00, 0x2f]], [.str []]]] }

example : m_twalk ∈ Gen.messages ∧ wfMsg m_twalk.desc exTwalk ∧
    (frame m_twalk.desc 65535 exTwalk).length ≤ 8192 := by decide

/-- a Tlcreate whose permission field has high bits set: they are dropped, as documented. -/
def exTlcreate : Msg := { vals := [.atom (.int 1), .atom (.str [0x78]), .atom (.int 2),
  .atom (.int 0xFFFFFFFF), .atom (.int 0)] }

example : (normMsg m_tlcreate.desc exTlcreate).vals =
    [.atom (.int 1), .atom (.str [0x78]), .atom (.int 2), .atom (.int 0o7777), .atom (.int 0)] := by
  decide

/-- O (regenerated from transport.go): the pooled buffer a frame is encoded into is released only
after the frame has been written, and the pooled buffers a frame is received into only when
`recv` returns – so the bytes on the wire are the bytes that were encoded, and the bytes decoded
are the bytes that arrived, also when other goroutines send and receive at the same time. -/
theorem frame_buffers_live_while_in_use :
    Gen.sendBufferReleasedAfterWrite = true ∧ Gen.recvBufferReleasedOnReturn = true := by decide

end P9.C01
