import P9Model.Props.C04
import P9Model.Session.Isolation
import P9Model.Lemmas.Lock.PanicSafe
import P9Model.Session.Errors
/-!
# C15 — Fault containment: backend errors and panics affect only their request

In the model a backend may answer *any* call with an errno or a panic (the oracle tape is
arbitrary), so every statement below quantifies over all fault placements.
-/
namespace P9.C15
open P9 P9.Session

/-- **A panic anywhere in a handler is answered Rlerror(EFAULT)** (`connState.handle`'s recover). -/
theorem panic_is_efault (s : State) (conn typ : Nat) (m : Msg) (tape : List Res) (cf : Bool)
    (c' : Ctx) (h : dispatch typ (normReq typ m) { st := s, tape := tape, conn := conn, closeFaults := cf } = .panic c') :
    (handle s conn typ m tape cf).reply = rerr EFAULT := by
  unfold handle; rw [h]

/-- **Every request – whatever the backend does – leaves the fid tables of all *other*
connections exactly as they were**, returns to the same connection, and this holds on normal
return, on error replies and when a panic unwinds (all 65 message types). -/
theorem dispatch_others (typ : Nat) (m : Msg) : Pres OthersSame (dispatch typ m) := by
  unfold dispatch
  split
  · exact hTversion_others m
  · exact Pres.pure _
  · exact Pres.pure _
  · exact hTattach_others m
  · exact hTwalkGen_others m false
  · exact hTwalkGen_others m true
  · exact Pres.others (C04.open_keeps_table m)
  · exact hCreate_others m _ _
  · exact hCreate_others m _ _
  · exact Pres.others (C04.dirop_keeps_table m _ _ _ _ _ _)
  · exact Pres.others (C04.dirop_keeps_table m _ _ _ _ _ _)
  · exact Pres.others (C04.dirop_keeps_table m _ _ _ _ _ _)
  · exact Pres.others (C04.dirop_keeps_table m _ _ _ _ _ _)
  · exact Pres.others (C04.dirop_keeps_table m _ _ _ _ _ _)
  · exact Pres.others (C04.dirop_keeps_table m _ _ _ _ _ _)
  · exact Pres.others (C04.link_keeps_table m)
  · exact Pres.others (C04.renameat_keeps_table m)
  · exact Pres.others (C04.unlinkat_keeps_table m)
  · exact Pres.others (C04.rename_keeps_table m)
  · exact hTremove_others m
  · exact Pres.others (C04.readlink_keeps_table m)
  · exact Pres.others (C04.read_keeps_table m)
  · exact Pres.others (C04.write_keeps_table m)
  · exact Pres.others (C04.getattr_keeps_table m)
  · exact Pres.others (C04.setattr_keeps_table m)
  · exact hTxattrwalk_others m
  · exact Pres.others (C04.xattrcreate_keeps_table m)
  · exact Pres.others (C04.readdir_keeps_table m)
  · exact Pres.others (C04.simple_keeps_table m _ _ _)
  · exact Pres.others (C04.simple_keeps_table m _ _ _)
  · exact Pres.others (C04.lock_keeps_table m)
  · exact hTclunk_others m
  · exact Pres.pure _

/-- the same at the level of `handle`: other connections' bindings after = before. -/
theorem other_connections_unaffected (s : State) (conn typ : Nat) (m : Msg) (tape : List Res) (cf : Bool) :
    (handle s conn typ m tape cf).st.fids.filter (·.1.1 != conn) = s.fids.filter (·.1.1 != conn) := by
  have h := dispatch_others typ (normReq typ m) { st := s, tape := tape, conn := conn, closeFaults := cf }
  unfold handle
  cases hd : dispatch typ (normReq typ m) { st := s, tape := tape, conn := conn, closeFaults := cf } with
  | ok r c => simp only [hd] at h; exact h.1
  | panic c => simp only [hd] at h; exact h.1

/-- **After a fault in a request that does not bind fids, the whole fid table is as if the
request had not run** – error or panic, at any backend call (instances; the list of such
requests is C04's `*_keeps_table`). -/
theorem fault_keeps_table_read (m : Msg) : Pres FidsSame (hTread m) := C04.read_keeps_table m
theorem fault_keeps_table_write (m : Msg) : Pres FidsSame (hTwrite m) := C04.write_keeps_table m
theorem fault_keeps_table_renameat (m : Msg) : Pres FidsSame (hTrenameat m) := C04.renameat_keeps_table m
theorem fault_keeps_table_unlinkat (m : Msg) : Pres FidsSame (hTunlinkat m) := C04.unlinkat_keeps_table m

/-- `DecRef` (hence every deferred cleanup and `stop()`) never panics in the model: `Close`'s
error is returned, never thrown – so a failing Close cannot take a second request down. -/
theorem decRef_never_panics (fuel r : Nat) (c : Ctx) : ∃ a c', decRef fuel r c = .ok a c' :=
  NoPanic.decRef fuel r c

/-! ### non-vacuity: a panic inside a multi-step walk is answered EFAULT -/
example : (handle
    { fids := [((0, 0), 0)], refs := [{ file := 1, mode := 0o040000, refs := 1, node := 0 }] } 0 110
    { vals := [.atom (.int 0), .atom (.int 1), .list [[.str [0x61]]]] } [.panic]).reply = rerr EFAULT := by decide

/-- O (**a panic leaves no lock behind**, regenerated from the lock scripts): every lock held
while a backend call runs is released by a `defer` placed right after its acquisition – so the
panic that `handle` recovers from unwinds through every critical section it was in, and later
requests on the same paths, fids and connections are not blocked by it. -/
theorem locks_released_when_a_backend_call_panics : Locks.panicSafeOk = true := Locks.panic_safe_fact

/-! ### the errno of a failing backend call is what the client gets -/

/-- **A failing `WriteAt` is answered with its errno** – whatever the backend reports next to the
error (a count it managed to write is not part of the outcome): Rlerror(e), the call is the only
one made, the fid stays bound and its count is back where it was. -/
theorem write_error_is_reported (m : Msg) (r e : Nat) (rest : List Res) (c : Ctx) (h : Bound (m.int 0) r c)
    (hx : (c.st.refs.getD r default).x.op = 0) (hop : (c.st.refs.getD r default).opened = true)
    (hmode : ((c.st.refs.getD r default).openFlags &&& 3 == 0) = false)
    (ht : c.tape = .err e :: rest) :
    hTwrite m c = .ok (rerr e)
      (unpinned r (called (c.st.refs.getD r default).file "WriteAt" [m.int 1] [m.payload] [] rest (pinned r c))) := by
  unfold hTwrite
  refine withFid_reply _ r _ c _ _ h ?_ rfl
  have hxr := pinned_getD r c h.inRange
  have htp : (pinned r c).tape = .err e :: rest := ht
  simp only [bind, pure, getRef_eval, hxr, hx, hop, hmode, Bool.not_true, Bool.false_eq_true, ↓reduceIte,
    call_eval _ _ _ _ _ (pinned r c) (.err e) rest htp (by simp)]


/-- **A failing `ReadAt` is answered with its errno**, whatever it delivered before failing. -/
theorem read_error_is_reported (m : Msg) (r e : Nat) (rest : List Res) (c : Ctx) (h : Bound (m.int 0) r c)
    (hcnt : ¬ m.int 2 > maxLen) (hms : (C04.msizeOf c == 0) = false)
    (hx : (c.st.refs.getD r default).x.op = 0) (hop : (c.st.refs.getD r default).opened = true)
    (hmode : ((c.st.refs.getD r default).openFlags &&& 3 == 1) = false)
    (ht : c.tape = .err e :: rest) :
    hTread m c = .ok (rerr e)
      (unpinned r (called (c.st.refs.getD r default).file "ReadAt" [min (m.int 2) (C04.msizeOf c - 11), m.int 1] [] [] rest (pinned r c))) := by
  unfold hTread
  refine withFid_reply _ r _ c _ _ h ?_ rfl
  have hxr := pinned_getD r c h.inRange
  have htp : (pinned r c).tape = .err e :: rest := ht
  simp only [bind, pure, getRef_eval, C04.connMsize_eval, C04.msizeOf_pinned, hxr, hcnt, hms, hx, hop, hmode, Bool.not_true,
    Bool.false_eq_true, ↓reduceIte,
    call_eval _ _ _ _ _ (pinned r c) (.err e) rest htp (by simp)]

end P9.C15
