import P9Model.Conc.ConnInv
import P9Model.Conc.ConnProgress
import P9Model.Lemmas.Lock.Leaf
import P9Model.Lemmas.Lock.ChildMu
import P9Model.Lemmas.Lock.Wire
/-!
# C06 — Exactly one tagged reply per request; requests served concurrently
-/
namespace P9.C06
open P9 P9.Conn

/-- **Exactly one reply, never more, never unasked** – for every interleaving (label sequence)
of any number of in-flight requests with any tags: a request has exactly one reply frame once it
is answered and none before, every frame written carries the tag of the accepted request it
answers, and nothing else is ever written. -/
theorem one_reply (ls : List Label) (s : St) (h : run {} ls = some s) :
    (∀ i r, get s i = some r → framesOf s i = (if r.phase = .replied then 1 else 0)) ∧
    (∀ e ∈ s.out, ∃ r, get s e.2 = some r ∧ r.tag = e.1 ∧ r.phase = .replied) := by
  have inv := run_inv ls {} s h inv_init
  exact ⟨inv.frames, inv.outs⟩

/-- a request whose tag is already in flight is dropped and stays unanswered (no action is
enabled on a dropped request) -/
theorem duplicate_tag_never_answered (s : St) (a : Act) (r : Req) (h : r.phase = .dropped) :
    enabled s a r = false := by
  cases a <;> simp [enabled, h]

/-- **A Tflush naming an idle (or already answered) tag – or the tag of a Tflush, its own included –
does not wait**: nothing holds that tag (a Tflush never registers its tag, the D19 `fix:`; the
holders of tags are non-flush requests, `Inv2.active`). -/
theorem idle_tag_flush_immediate (s : St) (r : Req) (old : Nat) (h : r.flushOf = some old)
    (hidle : holder s old = none) : (upd s .waitTag r).waited = true ∧ (upd s .waitTag r).phase = r.phase := by
  simp [upd, h, hidle]

/-- **A Tflush is never dropped and never holds a tag**, whatever tags are in flight. -/
theorem flush_always_accepted (s : St) (r : Req) (old : Nat) (h : r.flushOf = some old) :
    (upd s .start r).phase = .handling := by
  simp [upd, h]

/-- **No request gets stuck** (`Conc/ConnProgress.lean`): in every state reachable by any
interleaving, every accepted request that is not answered yet can move itself, or is a Tflush
waiting for a non-flush request that can move. In particular flushes never wait for each other
(before the D19 `fix:` two Tflush naming each other's tags could wait forever – 25 of 400000
pipelined trials on the real server). -/
theorem no_request_gets_stuck (ls : List Label) (s : St) (h : run {} ls = some s) (i : Nat) (r : Req)
    (hi : get s i = some r) (hp : r.phase ≠ .dropped ∧ r.phase ≠ .replied) :
    (∃ a, enabled s a r = true) ∨
    (∃ j rj, r.awaiting = some j ∧ get s j = some rj ∧ rj.flushOf = none ∧ ∃ a, enabled s a rj = true) :=
  progress ls s h i r hi hp

/-- **Progress of an accepted request**: once no backend call runs on its behalf (and, for a
Tflush, its wait is over) the handler can return, and a handled request can be answered – no
reply is lost. -/
theorem can_finish_and_send (s : St) (r : Req) :
    (r.phase = .handling → r.inBackend = false → (r.flushOf = none ∨ r.waited = true) → enabled s .finish r = true) ∧
    (r.phase = .handled → enabled s .send r = true) := by
  constructor
  · intro hp hb hw
    rcases hw with hw | hw <;> simp [enabled, hp, hb, hw]
  · intro hp; simp [enabled, hp]

/-- **Replies are whole frames**: a reply is appended to the output as one frame under sendMu
(`send` is a single atomic step of the model); O: in the code, both writes of reply frames
happen with `sendMu` held, and no backend call runs under any leaf mutex
(fidMu, tagMu, sendMu, recvMu, pendingMu, pool.mu) – so a request blocked in the backend cannot
delay others through them. -/
theorem leaf_mutexes_never_held_across_backend : Locks.leafOk = true := Locks.leaf_fact

/-- O (**frames under the send lock**, regenerated): every call of the frame writer `send` on the
server (both sites in handleRequest) and on the client happens with `sendMu` held, every call of
the frame reader `recv` on the server with `recvMu` held (part of the lockset obligation), and
those call sites are really present in the scripts. -/
theorem frames_written_under_sendMu : (Locks.wireLocksetOk && Locks.wireSitesSeen) = true := Locks.wire_fact

/-- a backend call under a node's `childMu` happens only inside a rename, which holds `renameMu`
for write (global class: it is ordered after and before everything else anyway) -/
theorem childMu_only_under_global_lock : Locks.childMuBackendOk = true := Locks.childMu_backend_fact

/-! ### non-vacuity: two requests with immediately re-used tag, replies in any order -/
example : (run {} [.arrive 5 none, .act .start 0, .act .finish 0, .arrive 5 none, .act .start 1, .act .finish 1,
    .act .send 1, .act .send 0]).map (·.out) = some [(5, 1), (5, 0)] := by decide

end P9.C06
