import P9Model.Conc.RWMutex
import P9Model.Lemmas.Lock.Lockset
import P9Model.Lemmas.Lock.Order
import P9Model.Props.C15
/-!
# C16 — Global progress and isolation across concurrent sessions
-/
namespace P9.C16
open P9

/-- O1 (**lockset**, regenerated): every access to `connState.fids`, `connState.tags`, a path
node's child maps, `pool.cache`, `Client.pending` and `Mapper.paths` happens with its mutex held,
on every path of every function reachable from a request goroutine, `stop()`, a client call, the
allocator or the QID mapper (`stop()`'s iteration after all request goroutines have ended is the
one exemption). Hence no two goroutines touch those maps at once. -/
theorem lockset : Locks.locksetOk = true := Locks.lockset_fact

/-- O2 (**lock order**, regenerated): every acquisition made while other locks are held respects
openedMu < renameMu < opMu < fidMu < childMu < leaves, with the three documented tree-descending /
rename-region exceptions. -/
theorem lock_order : Locks.orderOk = true := Locks.order_fact

/-- **Ordered acquisition admits no deadlock** (generic, any number of threads / locks /
connections): no set of goroutines can wait for each other. With O2 this is deadlock freedom of
the server's locking. -/
theorem no_deadlock (s : RW.Snap) (h : RW.Ordered s) (d : List Nat) : ¬ RW.DeadlockSet s d :=
  RW.ordered_no_deadlock s h d

/-- Go's RWMutex never admits a writer together with a reader, in any schedule. -/
theorem rw_exclusion (as : List RW.Act) (s : RW.RW) (h : RW.run {} as = some s) : s.writer.isSome → s.readers = [] :=
  RW.run_excl {} s as (by simp [RW.Excl]) h

/-- **Isolation of sessions**: a request on one connection – whatever it is, whatever the backend
answers, even if it panics – leaves the fid bindings of every other connection untouched
(C15 `other_connections_unaffected`, all 65 message types). -/
theorem sessions_isolated (s : Session.State) (conn typ : Nat) (m : Msg) (tape : List Session.Res) (cf : Bool) :
    (Session.handle s conn typ m tape cf).st.fids.filter (·.1.1 != conn) = s.fids.filter (·.1.1 != conn) :=
  C15.other_connections_unaffected s conn typ m tape cf

end P9.C16
