import P9Model.Props.C11
import P9Model.Props.C12
import P9Model.Session.Dispatch
import P9Model.Wire.Registry
/-!
# C13 — Negotiated msize is never exceeded by either peer
-/
namespace P9.C13
open P9 P9.Session

/-- `calculateSize`: FixedSize() for payloaders, else the encoding of the zero message. -/
def calcSize (d : MsgDesc) : Nat :=
  if d.pay != .none then d.fixedSize
  else (d.layout.map fun k => match k with
    | .atom a => a.minLen
    | .list _ => 2).sum

/-- `msgDotLRegistry.largestFixedSize`, recomputed from the regenerated message table. -/
def largestFixed : Nat := (Gen.messages.map fun g => calcSize g.desc).foldl max 0

/-- **The largest fixed part is 153 bytes** (Rgetattr) – in particular at least the 23 bytes of
a Tread / Twrite header, so "payload = msize − largest fixed part" leaves room for both. -/
theorem largest_fixed_is_153 : largestFixed = 153 := by decide +kernel

/-- the count `tread.handle` uses after the `fix:` -/
def clamp (count ms : Nat) : Nat := min count (ms - 11)

/-- **No Rread exceeds msize**: whatever count the Tread asks for (0 … 2^32−1), the data the
server asks the backend for – hence, by the ReaderAt contract `n ≤ len(p)`, the data it sends –
plus the 11 bytes of size[4] type[1] tag[2] count[4] fits in the announced msize. (A Tread is
23 bytes long, so msize ≥ 23 whenever one has been received.) -/
theorem rread_fits (count ms n : Nat) (hms : 11 ≤ ms) (hn : n ≤ clamp count ms) : 11 + n ≤ ms := by
  unfold clamp at hn; omega

/-- the model's Tread handler asks the backend for exactly the clamped count (instance:
msize 8192, count 8192 → 8181; the general tie is the K4 correspondence, which compares the
count of every ReadAt call and the length of every reply frame). -/
example :
    let s : State := { fids := [((0, 0), 0)], refs := [{ file := 1, mode := 0o100000, opened := true, refs := 1, node := 0 }],
                       msize := [(0, 8192)] }
    ((handle s 0 116 { vals := [.atom (.int 0), .atom (.int 5), .atom (.int 8192)] } [.ok [] [[1, 2, 3]] []]).calls.map
      fun c => (c.meth, c.ints)) = [("ReadAt", [8181, 5])] := by decide

/-- **No Rreaddir exceeds msize**: the entries are cut to whole entries within
`min(count, msize − 11)` bytes, so the frame is at most msize long. -/
theorem rreaddir_fits (count lim : Nat) (rows : List (List Atom)) (hl : 11 ≤ lim) :
    11 + (encRows direntK (fit direntK (min count (lim - 11)) 0 rows)).length ≤ lim := by
  have := fit_length_le direntK (min count (lim - 11)) 0 rows (Nat.zero_le _)
  omega

/-- **The client's requests and the replies it asks for fit in the msize the server
announced**: after negotiation (C12 `client_adopts`), every ReadAt / WriteAt chunk is at most
the payload size, so Twrite frames (23 + chunk) and the Rread frames asked for (11 + chunk)
are at most msize. -/
theorem client_fits (lf req rm : Nat) (rv : Bytes) (c : Version.ClientCfg)
    (h : Version.negotiate lf req rm rv = some c) (hlf : 23 ≤ lf) (chunk : Nat) (hc : chunk ≤ c.payload) :
    23 + chunk ≤ rm ∧ 11 + chunk ≤ rm ∧ 23 + chunk ≤ req := by
  obtain ⟨_, hm, hp, _⟩ := C12.client_adopts lf req rm rv c h
  omega

/-- every chunk `chunk()` issues is at most the payload size (any backend obeying n ≤ requested). -/
theorem chunks_within_payload (cs : Nat) (fn : Nat → Nat → Chunk.FnRes) (len off : Nat)
    (hfn : ∀ r o, (fn r o).n ≤ r) (hl : 0 < len) :
    ∀ c ∈ (Chunk.chunk cs fn len off).calls, c.1 ≤ cs := by
  unfold Chunk.chunk
  simp only [show len ≠ 0 by omega, if_false]
  exact fun c hc => ((C11.loop_within_limits cs fn len hfn (len + 1) 0 off [] (Nat.zero_le _) (by simp)).2 c hc).1

end P9.C13
