import P9Model.Conc.ConnInv
/-!
# C14 — Flush: Rflush only after the flushed request has stopped executing
-/
namespace P9.C14
open P9 P9.Conn

/-- **Rflush only after the flushed request's handler has returned**: in every state reachable by
any interleaving, if a Tflush has passed its wait (only then can it finish and be answered) and
it was waiting on request `j` – the request that held the old tag when `WaitTag` was called –
then `j`'s handler has returned (`handled` or `replied`) and no backend call runs on its behalf. -/
theorem flush_after_done (ls : List Label) (s : St) (h : run {} ls = some s)
    (i : Nat) (r : Req) (hi : get s i = some r) (hw : r.waited = true) (j : Nat) (hj : r.awaiting = some j) :
    isDone (phaseOf s j) = true ∧ ∀ rj, get s j = some rj → rj.inBackend = false := by
  have inv := run_inv ls {} s h inv_init
  have hd := inv.flushed i r hi hw j hj
  refine ⟨hd, fun rj hrj => ?_⟩
  cases hb : rj.inBackend with
  | false => rfl
  | true =>
    have := (inv.backend j rj hrj hb).1
    unfold isDone phaseOf at hd
    simp [hrj, this] at hd

/-- **… and none starts afterwards**: a request whose handler has returned never enters the
backend again – the only action left for it is the writing of its reply. -/
theorem no_backend_call_after_done (s : St) (a : Act) (r : Req) (h : enabled s a r = true)
    (hd : r.phase = .handled ∨ r.phase = .replied) : a = .send :=
  done_stable s a r h hd

/-- a Tflush can only finish (hence be answered) after its wait is over -/
theorem rflush_needs_wait_over (s : St) (r : Req) (old : Nat) (hf : r.flushOf = some old)
    (h : enabled s .finish r = true) : r.waited = true := by
  simp only [enabled, Bool.and_eq_true, beq_iff_eq, Bool.not_eq_true', Bool.or_eq_true, hf] at h
  simpa using h.2

/-- **A flush never cancels, duplicates or suppresses the flushed request's reply**: flush
actions change only the flush's own record, and the flushed request still gets exactly one
reply (C06 `one_reply`); stated here: any action on request `i` leaves every other record as it is. -/
theorem flush_touches_only_itself (s s' : St) (a : Act) (i j : Nat) (h : step s (.act a i) = some s')
    (hj : j ≠ i) : Conn.get s' j = Conn.get s j := by
  obtain ⟨r, _, _, hreqs, _⟩ := step_act h
  unfold Conn.get; rw [hreqs]; exact get_set_other _ _ _ _ hj

/-! ### non-vacuity: a request in the backend, flushed; the flush is answered only after it left -/
example : (run {} [.arrive 1 none, .act .start 0, .act .enter 0, .arrive 2 (some 1), .act .start 1, .act .waitTag 1,
    .act .wake 1]) = none := by decide
example : (run {} [.arrive 1 none, .act .start 0, .act .enter 0, .arrive 2 (some 1), .act .start 1, .act .waitTag 1,
    .act .leave 0, .act .finish 0, .act .wake 1, .act .finish 1, .act .send 1, .act .send 0]).map (·.out)
    = some [(2, 1), (1, 0)] := by decide

end P9.C14
