import P9Model.Wire.Recycle
/-!
# C18 — No carry-over between messages through recycled objects and buffers
-/
namespace P9.C18
open P9 P9.Gen

/-- O1 (regenerated from messages.go): for each of the 65 messages, `decode` assigns every leaf
field of the struct (the payload fields are set by `recv`), and truncates every slice field
before appending to it. -/
theorem decode_overwrites_every_field : genDecodeOverwritesAll = true := by decide

/-- O2: `registry.put` clears the payload before an object goes back to the cache; `recv`
reuses a payload buffer only when it has exactly the needed length and then makes it one of the
read vectors (so it is overwritten in full – C17 `read_any_segmentation`); the server's read
buffers are zeroed over the bytes handed out before they return to the pool; the pooled encode
buffer of `send` is released only after the frame has been written, the pooled receive buffers
of `recv` only when it returns (decoding is over); `tread.handle` never returns a read buffer to
the pool itself (the reply references it until `PayloadCleanup`). -/
theorem buffers_cleared_or_overwritten :
    Gen.registryPutClearsPayload = true ∧ Gen.recvPayloadExactOrFresh = true ∧
    Gen.readBufferZeroedOnCleanup = true ∧ Gen.sendBufferReleasedAfterWrite = true ∧
    Gen.recvBufferReleasedOnReturn = true ∧ Gen.treadNeverReleasesItsBuffer = true := by decide

/-- **Decoded content is a function of the frame alone**: decoding into an object that held any
earlier message gives exactly what decoding into a fresh object gives, for every layout whose
slices are reset (all of them, by O1). -/
theorem decode_independent_of_old_content (L : List (Kind × Bool)) (h : ∀ f ∈ L, f.2 = true)
    (old1 old2 : List Val) (b : Bytes) : decInto L old1 b = decInto L old2 b := by
  rw [decInto_fresh L h, decInto_fresh L h]

theorem decode_recycled_eq_fresh (L : List (Kind × Bool)) (h : ∀ f ∈ L, f.2 = true) (olds : List Val) (b : Bytes) :
    decInto L olds b = dec (L.map (·.1)) b := decInto_fresh L h olds b

/-- the per-message reset flags the regenerated table yields are all `true`. -/
def resetFlags (g : GenMsg) : List (Kind × Bool) :=
  g.dec.map fun f => (f.kind, match f.kind with
    | .list _ => g.resets.contains f.name
    | .atom _ => true)

theorem all_reset_flags_true : ∀ g ∈ Gen.messages, ∀ f ∈ resetFlags g, f.2 = true := by decide

/-- **For every registered message**: decoding a frame into a recycled object of that type
equals decoding it into a fresh one. -/
theorem every_message_decodes_fresh (g : GenMsg) (hg : g ∈ Gen.messages) (olds : List Val) (b : Bytes) :
    decInto (resetFlags g) olds b = dec ((resetFlags g).map (·.1)) b :=
  decInto_fresh _ (all_reset_flags_true g hg) olds b

/-- what a missing reset would do (the mutation this property guards against). -/
theorem missing_reset_leaks_old_rows (oldRows rows : List (List Atom)) (b r : Bytes)
    (h : decF (.list [.str]) b = some (.list rows, r)) :
    decFInto false (.list [.str]) (.list oldRows) b = some (.list (oldRows ++ rows), r) :=
  decFInto_noreset_keeps_old _ _ _ _ _ h

/-! ### non-vacuity: a long Twalk followed by a short one -/
example : decInto (resetFlags m_twalk) [.atom (.int 9), .atom (.int 9), .list [[.str [1]], [.str [2]], [.str [3]]]]
    [1,0,0,0, 2,0,0,0, 1,0, 1,0,0x61] = some ([.atom (.int 1), .atom (.int 2), .list [[.str [0x61]]]], []) := by decide

end P9.C18
