import P9Model.Conc.RWMutex
import P9Model.Conc.Guards
import P9Model.Lemmas.Lock.Contract
import P9Model.Lemmas.Lock.OpenOnce
import P9Model.Lemmas.Lock.NameLookup
/-!
# C07 — Backend concurrency contract of the File interface (path-tree locking)
-/
namespace P9.C07
open P9 P9.Guards

/-- O1 (**guards meet the contract**, regenerated from handlers.go / server.go / path_tree.go):
every backend call a request handler makes sits inside the guard its class demands, on the
reference it is made on – write class under `safelyWrite` (node write-locked), Tunlinkat's UnlinkAt
with the child's node write-locked as well, RenameAt / Renamed / Tremove's UnlinkAt under the global
write lock, read class and walks under `safelyRead` (a clone on its parent). -/
theorem guards_meet_contract : Locks.guardsMeetContract = true := Locks.contract_fact

/-- O2 (**Open at most once**): `Open` is only reached inside the per-reference critical section
that also tests and sets `opened` (the D8 `fix:`). -/
theorem open_inside_opened_section : Locks.openOnceOk = true := Locks.open_once_fact

/-- O (regenerated): the child node an unlink (or a create, or a walk step) locks is the node the name
denotes *then*: names are resolved to path nodes only under the rename lock and the directory's own
lock (`Locks.nameLookupsUnderPathLocks`). -/
theorem names_resolved_under_the_path_locks : Locks.nameLookupsUnderPathLocks = true := Locks.name_lookup_fact

/-- **The contract, from the guards**: write-class calls on a path exclude each other and every
read-class call on that path; UnlinkAt also excludes every call on the entry being removed;
global-class calls exclude every read-, write- and global-class call anywhere. Read-class calls
on one path, and calls on different paths, may overlap. -/
theorem contract_from_guards (n m c : Nat) :
    compatible (guardWrite n) (guardWrite n) = false ∧
    compatible (guardWrite n) (guardRead n) = false ∧
    compatible (guardUnlink n c) (guardRead c) = false ∧
    compatible (guardUnlink n c) (guardWrite c) = false ∧
    compatible (guardUnlink n c) (guardRead n) = false ∧
    compatible guardGlobal (guardRead m) = false ∧
    compatible guardGlobal (guardWrite m) = false ∧
    compatible guardGlobal (guardUnlink n c) = false ∧
    compatible guardGlobal guardGlobal = false ∧
    compatible (guardRead n) (guardRead n) = true ∧
    (n ≠ m → compatible (guardWrite n) (guardWrite m) = true) := by
  refine ⟨?_, ?_, ?_, ?_, ?_, ?_, ?_, ?_, ?_, ?_, ?_⟩ <;>
    simp [compatible, guardWrite, guardRead, guardUnlink, guardGlobal] <;> omega

/-- incompatible guards are never held together: on the lock instance they share in conflicting
modes, `sync.RWMutex` admits no writer next to another holder – in every schedule. -/
theorem incompatible_never_overlap (as : List RW.Act) (s : RW.RW) (h : RW.run {} as = some s) :
    s.writer.isSome → s.readers = [] := RW.run_excl {} s as (by simp [RW.Excl]) h

end P9.C07
