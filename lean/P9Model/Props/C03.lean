import P9Model.Client.Stub
import P9Model.Client.Tie
/-!
# C03 — Client/server transparency for every File operation at every version
-/
namespace P9.C03
open P9 P9.Client

/-- **Only message types the negotiated version defines**: every method, every version 0..7. -/
theorem version_types (v : Nat) (m : Method) : definedAt (firstType v m) ≤ v := by
  by_cases h3 : 3 ≤ v <;> by_cases h2 : 2 ≤ v <;> cases m <;>
    simp [firstType, definedAt, versionSupportsTucreation, versionSupportsTwalkgetattr, h3, h2] <;> omega

/-- the newer request is used as soon as the version allows it -/
theorem newest_type_used (v : Nat) :
    (3 ≤ v → firstType v .create = 128 ∧ firstType v .mkdir = 130 ∧ firstType v .mknod = 132 ∧ firstType v .symlink = 134) ∧
    (2 ≤ v → firstType v .walkGetAttr = 126) := by
  constructor <;> intro h <;> simp [firstType, versionSupportsTucreation, versionSupportsTwalkgetattr, h]

/-- **uid / gid are dropped below version 3, passed unchanged from 3 on.** -/
theorem ids_rule (v uid gid : Nat) :
    (v < 3 → ids v uid gid = (NoUID, NoGID)) ∧ (3 ≤ v → ids v uid gid = (uid, gid)) := by
  constructor <;> intro h <;> simp [ids, versionSupportsTucreation] <;> omega

/-- **Errors reach the caller as the equivalent Linux errno**: an errno in the chain is
returned as it is (EPERM stays EPERM, ENOTEMPTY stays ENOTEMPTY), the portable sentinels map to
ENOENT / EEXIST / EACCES / EINVAL, anything else is EIO. -/
theorem extract_spec (code : Nat) :
    extract .linuxErrno code = code ∧ extract .sysErrno code = code ∧
    extract .notExist code = 2 ∧ extract .exist code = 17 ∧ extract .permission code = 13 ∧
    extract .invalid code = 22 ∧ extract .opaque code = 5 := by
  simp [extract]

/-- O1 (regenerated from client_file.go): every stub that addresses the server-side File of the
receiver puts the receiver's fid (`c.fid`) into the request's fid field – the fact whose
absence is defect D1 (Lock) – and no T-message literal leaves its fid field unset. -/
theorem stubs_address_the_receiver : stubsSetReceiverFid = true := by decide

/-- O2 (regenerated): the fields each stub fills from its parameters, and the arguments each
handler passes on to the backend File from those same fields, are the ones the transparency
table prescribes (no field dropped, none swapped). -/
theorem stub_and_handler_field_maps : fieldMapsOk = true := by decide

end P9.C03
