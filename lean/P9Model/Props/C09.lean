import P9Model.Session.Dispatch
import P9Model.Session.Closes
import P9Model.Session.Refuse
import P9Model.Session.BindOnSuccess
/-!
# C09 — Name confinement: no '.', '..', '/' or empty component reaches the backend

The session model is *intrinsically* name-safe: the path-component arguments of a backend call
(`Call.names`) and the names stored in the path tree have type `SafeName`, a byte string
together with a proof that `checkSafeName` accepted it.  Every handler therefore has to produce
that proof at the place where the Go code calls `checkSafeName`; Lean's type checker is what
discharges the obligation.  The correspondence K4 compares every backend call – method,
receiver and *all* arguments – with what the real server passed, so a handler that forgets a
check in Go cannot agree with this model on an unsafe name.
-/
namespace P9.C09
open P9 P9.Session

/-- `checkSafeName` accepts exactly: non-empty, not ".", not "..", no '/'. -/
theorem safeName_spec (n : Bytes) :
    safeName n = true ↔ n ≠ [] ∧ 0x2f ∉ n ∧ n ≠ [0x2e] ∧ n ≠ [0x2e, 0x2e] := by
  unfold safeName
  simp only [Bool.and_eq_true, bne_iff_ne, ne_eq, Bool.not_eq_true', List.contains_eq_mem,
    decide_eq_false_iff_not]
  constructor
  · intro ⟨⟨⟨a, b⟩, c⟩, d⟩; exact ⟨a, b, c, d⟩
  · intro ⟨a, b, c, d⟩; exact ⟨⟨⟨a, b⟩, c⟩, d⟩

/-- **No unsafe name reaches the backend**: for every state, connection, request of any type
with any field values, any oracle tape (errors and panics included): every path component of
every backend call made while handling it is non-empty, not ".", not ".." and free of '/'. -/
theorem names_confined (s : State) (conn typ : Nat) (m : Msg) (tape : List Res) (cf : Bool) :
    ∀ c ∈ (handle s conn typ m tape cf).calls, ∀ n ∈ c.names,
      n.1 ≠ [] ∧ 0x2f ∉ n.1 ∧ n.1 ≠ [0x2e] ∧ n.1 ≠ [0x2e, 0x2e] :=
  fun _ _ n _ => (safeName_spec n.1).mp n.2

/-- … and likewise for connection teardown. -/
theorem names_confined_stop (s : State) (conn : Nat) :
    ∀ c ∈ (stop s conn).2, ∀ n ∈ c.names, safeName n.1 = true :=
  fun _ _ n _ => n.2

/-- **Every name the path tree ever stores is safe** (so the names `Trename`/`Tremove` look up
with `nameFor` and hand to `RenameAt`/`UnlinkAt` are safe too). -/
theorem tree_names_safe (s : State) :
    ∀ nd ∈ s.nodes, (∀ e ∈ nd.childRefs, safeName e.2.1 = true) ∧ (∀ e ∈ nd.childNodes, safeName e.1.1 = true) :=
  fun _ _ => ⟨fun e _ => e.2.2, fun e _ => e.1.2⟩

/-- `checkNames` succeeds exactly when every component is safe, and returns the same bytes. -/
theorem checkNames_some (ns : List Bytes) (sn : List SafeName) (h : checkNames ns = some sn) :
    sn.map (·.1) = ns := by
  induction ns generalizing sn with
  | nil => simp only [checkNames, Option.some.injEq] at h; subst h; rfl
  | cons n ns ih =>
    unfold checkNames at h
    split at h
    · cases hc : checkNames ns with
      | none => simp [hc] at h
      | some l =>
        simp only [hc, Option.map_some, Option.some.injEq] at h
        subst h
        show n :: l.map (·.1) = n :: ns
        rw [ih l hc]
    · cases h

theorem checkNames_none (ns : List Bytes) (n : Bytes) (hn : n ∈ ns) (hu : safeName n = false) :
    checkNames ns = none := by
  induction ns with
  | nil => cases hn
  | cons a as ih =>
    unfold checkNames
    simp only [List.mem_cons] at hn
    by_cases ha : safeName a = true
    · simp only [ha, dite_true]
      rcases hn with rfl | hn
      · rw [ha] at hu; cases hu
      · rw [ih hn]; rfl
    · simp [ha]

/-- **Walks fail with EINVAL before any backend call** when a component is unsafe: `doWalk`
returns EINVAL, leaves the state untouched and logs no call. -/
theorem walk_unsafe_component_einval (ref : Nat) (names : List Bytes) (getattr : Bool) (c : Ctx)
    (n : Bytes) (hn : n ∈ names) (hu : safeName n = false) :
    (match doWalk ref names getattr c with
     | .ok r c' => r = .error EINVAL ∧ c'.calls = c.calls ∧ c'.tape = c.tape
     | .panic _ => False) := by
  unfold doWalk
  rw [checkNames_none names n hn hu]
  exact ⟨rfl, rfl, rfl⟩

/-- **Create / mkdir / symlink / mknod / link / unlinkat / renameat / rename**: an unsafe name
is refused with EINVAL *first* – no fid lookup, no backend call, no state change. -/
theorem create_unsafe_einval (m : Msg) (uid rtyp : Nat) (c : Ctx) (hu : safeName (m.str 1) = false) :
    hCreate m uid rtyp c = .ok (rerr EINVAL) c := by
  unfold hCreate; simp [hu]; rfl

theorem dirop_unsafe_einval (m : Msg) (fi ni : Nat) (meth : String) (a : List Nat) (ss : List Bytes)
    (rtyp : Nat) (c : Ctx) (hu : safeName (m.str ni) = false) :
    hDirOp m fi ni meth a ss rtyp c = .ok (rerr EINVAL) c := by
  unfold hDirOp; simp [hu]; rfl

theorem link_unsafe_einval (m : Msg) (c : Ctx) (hu : safeName (m.str 2) = false) :
    hTlink m c = .ok (rerr EINVAL) c := by
  unfold hTlink; simp [hu]; rfl

theorem unlinkat_unsafe_einval (m : Msg) (c : Ctx) (hu : safeName (m.str 1) = false) :
    hTunlinkat m c = .ok (rerr EINVAL) c := by
  unfold hTunlinkat; simp [hu]; rfl

theorem renameat_unsafe_einval (m : Msg) (c : Ctx)
    (hu : safeName (m.str 1) = false ∨ safeName (m.str 3) = false) :
    hTrenameat m c = .ok (rerr EINVAL) c := by
  unfold hTrenameat
  rcases hu with hu | hu
  · simp [hu]; rfl
  · by_cases h1 : safeName (m.str 1) = true
    · simp [h1, hu]; rfl
    · simp [h1]; rfl

theorem rename_unsafe_einval (m : Msg) (c : Ctx) (hu : safeName (m.str 2) = false) :
    hTrename m c = .ok (rerr EINVAL) c := by
  unfold hTrename; simp [hu]; rfl

/-- **Attach names** are split on '/' after dropping one leading '/' and go through the same
walk (so the same checks): samples of the shapes the property lists. -/
example : splitSlash [] = [[]] ∧                                         -- ""  (handled before: attach root)
    splitSlash [0x61, 0x2f, 0x2f, 0x62] = [[0x61], [], [0x62]] ∧        -- "a//b" → empty component → EINVAL
    splitSlash [0x2e, 0x2e, 0x2f, 0x78] = [[0x2e, 0x2e], [0x78]] ∧      -- "../x" (after the leading '/' was dropped)
    splitSlash [0x61, 0x2f] = [[0x61], []] := by decide                  -- trailing '/'

example : checkNames [[0x61], [], [0x62]] = none ∧ checkNames [[0x2e, 0x2e], [0x78]] = none ∧
    checkNames [[0x61], [0x2e], [0x62]] = none ∧ (checkNames [[0x61], [0x62]]).isSome = true := by decide

/-- splitting never produces a component containing '/'. -/
theorem splitSlash_go_no_slash (s cur : Bytes) (acc : List Bytes)
    (hc : 0x2f ∉ cur) (ha : ∀ p ∈ acc, 0x2f ∉ p) : ∀ p ∈ splitSlash.go s cur acc, 0x2f ∉ p := by
  induction s generalizing cur acc with
  | nil =>
    intro p hp
    simp only [splitSlash.go, List.mem_reverse, List.mem_cons] at hp
    rcases hp with rfl | hp
    · simpa using hc
    · exact ha p hp
  | cons x xs ih =>
    unfold splitSlash.go
    by_cases hx : x = 0x2f
    · simp only [hx, beq_self_eq_true, if_true]
      apply ih
      · simp
      · intro p hp
        simp only [List.mem_cons] at hp
        rcases hp with rfl | hp
        · simpa using hc
        · exact ha p hp
    · have : (x == 0x2f) = false := by simpa using hx
      simp only [this]
      apply ih
      · simp only [List.mem_cons, not_or]
        exact ⟨fun h => hx h.symm, hc⟩
      · exact ha

/-- **A walk advances only through directories**: at any iteration of the component loop – the
first, or after any number of successful steps – if the node reached so far was not reported as a
directory by the backend, the walk ends with EINVAL and no backend call is made for the remaining
components (dropping the walk reference may `Close` files, nothing else). -/
theorem walk_stops_at_non_directory (name : SafeName) (rest : List SafeName) (walkRef : Nat)
    (qids : List Nat) (v : Nat) (a : List Nat) (c : Ctx)
    (h : isDir (c.st.refs.getD walkRef default).mode = false) :
    ∃ c', walkLoop (name :: rest) walkRef qids v a c = .ok (.error EINVAL) c' ∧ OnlyCloses c c' := by
  unfold walkLoop
  simp only [bind, getRef_eval, h, Bool.not_false, ↓reduceIte]
  have hp := decRefU_closes walkRef c
  have hn := NoPanic.decRefU walkRef c
  cases h1 : decRefU walkRef c with
  | panic c1 => simp [h1] at hn
  | ok u c1 =>
    rw [h1] at hp
    exact ⟨c1, rfl, hp⟩

/-- the hypothesis is met by any reference whose File the backend reported as a regular file -/
example : isDir ((({ st := { refs := [{ file := 1, mode := ModeReg, refs := 1, node := 0 }] }, tape := [] } : Ctx).st.refs.getD 0 default).mode) = false := by decide

end P9.C09
