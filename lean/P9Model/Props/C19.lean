import P9Model.Fsimpl.Readdir
/-!
# C19 — Directory listing: every entry exactly once, QIDs agree with Walk/GetAttr
-/
namespace P9.C19
open P9 P9.Readdir

/-- **Paged listing is complete and duplicate-free** – through the server's truncation: for any
directory content `E` (in the file system's listing order), any requested count ≥ 1 and any
msize, as long as every single entry fits in `min count (msize − 11)` bytes, listing by repeated
Readdir calls that continue at the Offset of the last entry received returns exactly `E`:
every entry once, in order. -/
theorem paged_listing_complete_via_server (E : List Row) (count msize : Nat) (hc : 1 ≤ count)
    (hfit : ∀ e ∈ E, (encRow direntK e).length ≤ min count (msize - 11)) :
    listAll (E.length + 1) E count (min count (msize - 11)) 0 = E := by
  have := listAll_complete E count (min count (msize - 11)) hc hfit (E.length + 1) 0 (by omega)
  simpa using this

/-- … and directly on the File (no byte truncation: any limit at least the size of all entries;
count caps the number of entries per call – one at a time included). -/
theorem paged_listing_complete_direct (E : List Row) (count lim : Nat) (hc : 1 ≤ count)
    (hlim : ∀ e ∈ E, (encRow direntK e).length ≤ lim) :
    listAll (E.length + 1) E count lim 0 = E := by
  have := listAll_complete E count lim hc hlim (E.length + 1) 0 (by omega)
  simpa using this

/-- resuming from any offset returns exactly the rest (so an interrupted listing can go on). -/
theorem resume_from_offset (E : List Row) (count lim off : Nat) (hc : 1 ≤ count)
    (hfit : ∀ e ∈ E, (encRow direntK e).length ≤ lim) :
    listAll (E.length - off + 1) E count lim off = E.drop off :=
  listAll_complete E count lim hc hfit _ off (Nat.le_refl _)

/-- every page holds whole entries only and at most `lim` bytes (the server's cut). -/
theorem page_within_limit (E : List Row) (count lim off : Nat) :
    (encRows direntK (page E count lim off)).length ≤ lim := by
  have := fit_length_le direntK lim 0 (window E off count) (Nat.zero_le _)
  unfold page; omega

/-- an entry is 24 bytes + its name: qid[13] offset[8] type[1] namelen[2] name. -/
theorem entry_size (q1 q2 q3 o t : Nat) (name : Bytes) :
    (encRow direntK [.int q1, .int q2, .int q3, .int o, .int t, .str name]).length = 24 + name.length := by
  simp [direntK, qidK, encRow, encA]; omega

/-! ### non-vacuity: three entries, two per page by bytes -/
def exE : List Row :=
  [[.int 0, .int 0, .int 1, .int 1, .int 0, .str [0x61]], [.int 0, .int 0, .int 2, .int 2, .int 0, .str [0x62, 0x62]],
   [.int 0x80, .int 0, .int 3, .int 3, .int 0x80, .str [0x63]]]
example : listAll 4 exE 60 60 0 = exE ∧ pages 4 exE 60 60 0 = 3 := by decide

end P9.C19
