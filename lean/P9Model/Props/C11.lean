import P9Model.Client.Chunk
import P9Model.Gen.Layouts
/-!
# C11 — Chunked I/O: ReadAt / WriteAt of any size equal one remote operation
-/
namespace P9.C11
open P9 P9.Chunk

/-- the ideal chunking of `rem` bytes starting at `off`: full chunks of `cs`, then the rest. -/
def chunks (cs : Nat) : Nat → Nat → Nat → List (Nat × Nat)
  | 0, _, _ => []
  | f+1, rem, off =>
    if rem = 0 then [] else (min cs rem, off) :: chunks cs f (rem - min cs rem) (off + min cs rem)

/-- **WriteAt, backend accepts everything**: `n = len(p)`, no error, and the chunks issued are
exactly the ideal ones – in order, contiguous from `offset`, each within the payload limit. -/
theorem loop_accept (cs len : Nat) (hcs : 1 ≤ cs) (fuel total off : Nat) (calls : List (Nat × Nat))
    (ht : total ≤ len) (hf : len - total + 1 ≤ fuel) :
    loop cs acceptAll len fuel total off calls =
      ⟨calls.reverse ++ chunks cs fuel (len - total) off, len, none⟩ := by
  induction fuel generalizing total off calls with
  | zero => omega
  | succ f ih =>
    unfold loop
    by_cases h : total = len
    · subst h; simp [chunks]
    · have hlt : total < len := by omega
      simp only [h, if_false, acceptAll]
      by_cases hc : len < total + cs
      · -- last, short chunk
        have hmin : min cs (len - total) = len - total := by omega
        have hne : len - total ≠ 0 := by omega
        simp only [hc, if_true, show len - total < cs by omega]
        cases f with
        | zero => omega
        | succ f' =>
          simp only [chunks, hne, if_false, hmin, Nat.sub_self, if_true]
          simp; omega
      · have hmin : min cs (len - total) = cs := by omega
        have hne : len - total ≠ 0 := by omega
        simp only [hc, if_false, Nat.lt_irrefl]
        rw [ih (total + cs) (off + cs) ((cs, off) :: calls) (by omega) (by omega)]
        simp only [chunks, hne, if_false, hmin, List.reverse_cons, List.append_assoc, List.singleton_append]
        rw [Nat.sub_add_eq]

theorem writeAt_accept_all (cs len off : Nat) (hcs : 1 ≤ cs) (hl : 0 < len) :
    chunk cs acceptAll len off = ⟨chunks cs (len + 1) len off, len, none⟩ := by
  unfold chunk
  simp only [show len ≠ 0 by omega, if_false]
  rw [loop_accept cs len hcs (len + 1) 0 off [] (by omega) (by omega)]
  simp

/-- the ideal chunks are each within the payload limit, non-empty, contiguous and cover
exactly `rem` bytes. -/
theorem chunks_shape (cs : Nat) (hcs : 1 ≤ cs) (fuel rem off : Nat) (hf : rem + 1 ≤ fuel) :
    (∀ c ∈ chunks cs fuel rem off, 1 ≤ c.1 ∧ c.1 ≤ cs) ∧
    ((chunks cs fuel rem off).map (·.1)).sum = rem ∧
    (chunks cs fuel rem off).Pairwise (fun a b => a.2 + a.1 ≤ b.2) ∧
    (∀ c ∈ chunks cs fuel rem off, off ≤ c.2 ∧ c.2 + c.1 ≤ off + rem) := by
  induction fuel generalizing rem off with
  | zero => omega
  | succ f ih =>
    unfold chunks
    by_cases h : rem = 0
    · simp [h]
    · simp only [h, if_false]
      have hm1 : 1 ≤ min cs rem := by omega
      have hm2 : min cs rem ≤ rem := by omega
      obtain ⟨i1, i2, i3, i4⟩ := ih (rem - min cs rem) (off + min cs rem) (by omega)
      refine ⟨?_, ?_, ?_, ?_⟩
      · intro c hc
        simp only [List.mem_cons] at hc
        rcases hc with rfl | hc
        · exact ⟨hm1, by omega⟩
        · exact i1 c hc
      · simp only [List.map_cons, List.sum_cons, i2]; omega
      · simp only [List.pairwise_cons]
        refine ⟨?_, i3⟩
        intro b hb
        have := (i4 b hb).1
        simpa using this
      · intro c hc
        simp only [List.mem_cons] at hc
        rcases hc with rfl | hc
        · simp; omega
        · have := i4 c hc
          omega

/-- **ReadAt on a file with content `F`**: delivers `min (len p) (|F| − off)` bytes. -/
theorem loop_read_total (cs : Nat) (F : Bytes) (len : Nat) (hcs : 1 ≤ cs) (fuel total off : Nat)
    (calls : List (Nat × Nat)) (ht : total ≤ len) (hf : len - total + 1 ≤ fuel) :
    (loop cs (readFn F) len fuel total off calls).total = total + min (len - total) (F.length - off) ∧
    ((loop cs (readFn F) len fuel total off calls).err = some eofCode →
        total + min (len - total) (F.length - off) < len) ∧
    ((loop cs (readFn F) len fuel total off calls).err = none ∨
      (loop cs (readFn F) len fuel total off calls).err = some eofCode) ∧
    (total < len → F.length - off = 0 →
      (loop cs (readFn F) len fuel total off calls).err = some eofCode) := by
  induction fuel generalizing total off calls with
  | zero => omega
  | succ f ih =>
    unfold loop
    by_cases h : total = len
    · subst h; simp
    · have hlt : total < len := by omega
      simp only [h, if_false]
      generalize hreq : (if len < total + cs then len - total else cs) = req
      have hreq1 : 1 ≤ req := by rw [← hreq]; split <;> omega
      have hreq2 : req ≤ cs := by rw [← hreq]; split <;> omega
      have hreq3 : req ≤ len - total := by rw [← hreq]; split <;> omega
      have hreq4 : req = cs ∨ req = len - total := by rw [← hreq]; split <;> omega
      have hfn : readFn F req off = if min req (F.length - off) = 0 ∧ req > 0 then ⟨0, some eofCode⟩
          else ⟨min req (F.length - off), none⟩ := rfl
      rw [hfn]
      by_cases hz : min req (F.length - off) = 0 ∧ req > 0
      · -- nothing left: EOF
        simp only [hz, and_self, if_true]
        have : F.length - off = 0 := by omega
        simp [this]; omega
      · simp only [hz, if_false]
        have hn : 1 ≤ min req (F.length - off) := by omega
        by_cases hshort : min req (F.length - off) < cs
        · simp only [hshort, if_true]
          refine ⟨by omega, by simp, by simp, by omega⟩
        · simp only [hshort, if_false]
          have hfull : min req (F.length - off) = cs := by omega
          rw [hfull]
          obtain ⟨j1, j2, j3, j4⟩ := ih (total + cs) (off + cs) ((req, off) :: calls) (by omega) (by omega)
          refine ⟨by rw [j1]; omega, fun he => by have := j2 he; omega, j3, by omega⟩

theorem readAt_spec (cs : Nat) (F : Bytes) (len off : Nat) (hcs : 1 ≤ cs) :
    (readAt cs F len off).total = min len (F.length - off) ∧
    ((readAt cs F len off).err = some eofCode → (readAt cs F len off).total < len) ∧
    ((readAt cs F len off).total = 0 → 0 < len → (readAt cs F len off).err = some eofCode) ∧
    ((readAt cs F len off).err = none ∨ (readAt cs F len off).err = some eofCode) := by
  unfold readAt chunk
  by_cases hl : len = 0
  · subst hl
    simp [readFn]
  · simp only [hl, if_false]
    obtain ⟨j1, j2, j3, j4⟩ := loop_read_total cs F len hcs (len + 1) 0 off [] (by omega) (by omega)
    simp only [Nat.zero_add, Nat.sub_zero] at j1 j2 j4
    refine ⟨j1, fun he => by rw [j1]; exact j2 he, ?_, j3⟩
    intro h0 hpos
    rw [j1] at h0
    exact j4 (by omega) (by omega)

/-- **Any backend obeying `n ≤ requested`**: every invocation asks for at most the payload
limit and at most what is left of the buffer, and the total never exceeds the buffer (the
`panic("bytes completed > requested")` is unreachable). -/
theorem loop_within_limits (cs : Nat) (fn : Nat → Nat → FnRes) (len : Nat)
    (hfn : ∀ r o, (fn r o).n ≤ r) (fuel total off : Nat) (calls : List (Nat × Nat))
    (ht : total ≤ len) (hc : ∀ c ∈ calls, c.1 ≤ cs ∧ c.1 ≤ len) :
    (loop cs fn len fuel total off calls).total ≤ len ∧
    ∀ c ∈ (loop cs fn len fuel total off calls).calls, c.1 ≤ cs ∧ c.1 ≤ len := by
  induction fuel generalizing total off calls with
  | zero => simp only [loop]; exact ⟨ht, by simpa using hc⟩
  | succ f ih =>
    unfold loop
    by_cases h : total = len
    · simp only [h, if_true]; exact ⟨Nat.le_refl _, by simpa using hc⟩
    · simp only [h, if_false]
      generalize hreq : (if len < total + cs then len - total else cs) = req
      have hreq2 : req ≤ cs := by rw [← hreq]; split <;> omega
      have hreq3 : req ≤ len - total := by rw [← hreq]; split <;> omega
      have hn := hfn req off
      have hc' : ∀ c ∈ (req, off) :: calls, c.1 ≤ cs ∧ c.1 ≤ len := by
        intro c hcm
        simp only [List.mem_cons] at hcm
        rcases hcm with rfl | hcm
        · exact ⟨hreq2, by simp; omega⟩
        · exact hc c hcm
      cases he : (fn req off).err with
      | some e =>
        dsimp only
        refine ⟨by omega, ?_⟩
        intro c hcm
        simp only [List.mem_reverse] at hcm
        exact hc' c hcm
      | none =>
        simp only
        split
        · dsimp only
          refine ⟨by omega, ?_⟩
          intro c hcm
          simp only [List.mem_reverse] at hcm
          exact hc' c hcm
        · exact ih (total + (fn req off).n) (off + (fn req off).n) _ (by omega) hc'

/-- **Stops at the first short or failed chunk**, whose count and error are what the caller
sees (first-invocation instance; later chunks follow by the loop's recursion). -/
theorem first_chunk_short_or_failed (cs : Nat) (fn : Nat → Nat → FnRes) (len off : Nat)
    (hl : 0 < len) (h : (fn (min cs len) off).err ≠ none ∨ (fn (min cs len) off).n < cs) :
    chunk cs fn len off = ⟨[(min cs len, off)], (fn (min cs len) off).n, (fn (min cs len) off).err⟩ := by
  unfold chunk
  simp only [show len ≠ 0 by omega, if_false]
  unfold loop
  simp only [show (0 : Nat) ≠ len by omega, if_false, Nat.zero_add]
  have hreq : (if len < cs then len - 0 else cs) = min cs len := by
    split <;> omega
  rw [hreq]
  cases he : (fn (min cs len) off).err with
  | some e => simp
  | none =>
    simp only [he] at h
    rcases h with h | h
    · exact absurd rfl h
    · simp [h]

/-- the zero-length special case: `fn` is invoked exactly once on the empty buffer. -/
theorem zero_length_once (cs : Nat) (fn : Nat → Nat → FnRes) (off : Nat) :
    chunk cs fn 0 off = ⟨[(0, off)], (fn 0 off).n, (fn 0 off).err⟩ := by
  simp [chunk]

/-! ### non-vacuity / samples -/
example : chunk 4 acceptAll 10 100 = ⟨[(4, 100), (4, 104), (2, 108)], 10, none⟩ := by decide
example : readAt 4 [1,2,3,4,5,6,7,8] 20 0 = ⟨[(4, 0), (4, 4), (4, 8)], 8, some eofCode⟩ := by decide
example : readAt 4 [1,2,3,4,5,6] 20 0 = ⟨[(4, 0), (4, 4)], 6, none⟩ := by decide

/-- **The bytes of each chunk are the backend's** (regenerated from the server's read path; the
chunk loop above assumes that `fn` returns what the remote file holds): the buffer a Tread was served
from is not given back by the handler, and after the reply has been written it is scrubbed *and
then* returned to the pool – it is never in the pool while a reply or the scrubbing still uses it. -/
theorem chunk_data_is_the_backends :
    (Gen.treadNeverReleasesItsBuffer && Gen.readBufferZeroedOnCleanup && Gen.sendBufferReleasedAfterWrite) = true := by decide

end P9.C11
