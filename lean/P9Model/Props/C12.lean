import P9Model.Client.Version
import P9Model.Gen.Consts
/-!
# C12 — Version and msize negotiation
-/
namespace P9.C12
open P9 P9.Version

/-- the model's constants are the code's (regenerated). -/
theorem constants_match :
    Gen.C.highestSupportedVersion = highest ∧ Gen.C.maximumLength = maxLen ∧
    Gen.C.lowestSupportedVersion = 0 := by decide

/-- **Always an Rversion; `unknown`/0 exactly when msize = 0 or the string is not a 9P2000.L
version** (`dotLNumber v = none`; `isDotL_iff` below ties that to the spelling). -/
theorem unknown_iff (msize : Nat) (v : Bytes) :
    tversion msize v = (0, sUnknown) ↔ msize = 0 ∨ dotLNumber v = none := by
  unfold tversion dotLNumber
  by_cases h0 : msize = 0
  · simp [h0]
  · simp only [h0, if_false, false_or]
    cases hp : parseVersion v with
    | none => simp
    | some p =>
      obtain ⟨b, n⟩ := p
      cases b <;> simp
      -- the L case: a positive msize never yields msize 0
      intro h
      exfalso
      rcases h with h | h
      · exact h0 h
      · simp [maxLen] at h

/-- **Otherwise**: msize = min(requested, 4 MiB) and the version is min(N, 7) in canonical
spelling. -/
theorem negotiated (msize : Nat) (v : Bytes) (n : Nat) (h0 : msize ≠ 0) (hv : dotLNumber v = some n) :
    tversion msize v = (min msize (4 * 1024 * 1024), versionString (min n 7)) := by
  unfold dotLNumber at hv
  unfold tversion
  simp only [h0, if_false]
  split at hv <;> simp_all [maxLen, highest]

/-- **Canonical spelling parses back** to the same number, for every version the server can
announce (0..7); version 0 is spelled plain "9P2000.L". -/
theorem canonical_parses_back : ∀ k, k ≤ 7 → parseVersion (versionString k) = some (.L, k) := by
  intro k hk
  have : k = 0 ∨ k = 1 ∨ k = 2 ∨ k = 3 ∨ k = 4 ∨ k = 5 ∨ k = 6 ∨ k = 7 := by omega
  rcases this with h | h | h | h | h | h | h | h <;> subst h <;> decide

theorem version_zero_is_plain : versionString 0 = s9P2000L := rfl

/-- the reply's version is never above the request's and never above 7. -/
theorem reply_version_bounded (msize : Nat) (v : Bytes) (n : Nat) (h0 : msize ≠ 0)
    (hv : dotLNumber v = some n) :
    dotLNumber (tversion msize v).2 = some (min n 7) := by
  rw [negotiated msize v n h0 hv]
  simp only [dotLNumber]
  rw [canonical_parses_back (min n 7) (by omega)]

/-- other dialects and malformed strings are not 9P2000.L versions (samples of the excluded
side: these are tests of the parser on literals, the general statements are above). -/
example : dotLNumber s9P2000u = none ∧ dotLNumber s9P2000 = none ∧
    dotLNumber (sGooglePrefix ++ [0x2b, 0x31]) = none ∧            -- "+1"
    dotLNumber (sGooglePrefix) = none ∧                             -- empty numeral
    dotLNumber (sGooglePrefix ++ [0x31, 0x2e, 0x32]) = none ∧       -- "1.2"
    dotLNumber (sGooglePrefix ++ [0x34,0x32,0x39,0x34,0x39,0x36,0x37,0x32,0x39,0x36]) = none ∧  -- "4294967296": overflow (I1)
    dotLNumber (sGooglePrefix ++ [0x34,0x32,0x39,0x34,0x39,0x36,0x37,0x32,0x39,0x35]) = some 4294967295 ∧
    dotLNumber (sGooglePrefix ++ [0x30, 0x30, 0x37]) = some 7 := by decide                      -- "007"

/-! ### spelling: `dotLNumber` accepts exactly "9P2000.L" and "9P2000.L.Google.<decimal>" -/

theorem splitDots_go_nodots (d cur : Bytes) (acc : List Bytes) (h : ∀ c ∈ d, c ≠ 0x2e) :
    splitDots.go d cur acc = ((cur.reverse ++ d) :: acc).reverse := by
  induction d generalizing cur with
  | nil => simp [splitDots.go]
  | cons c rest ih =>
    have hc : (c == 0x2e) = false := by
      have := h c (by simp)
      simpa using this
    simp only [splitDots.go, hc]
    rw [ih _ (fun c' hc' => h c' (by simp [hc']))]
    simp

/-- every "9P2000.L.Google.<d>" with a dot-free decimal numeral `d < 2^32` is accepted with
that number. -/
theorem google_form_accepted (d : Bytes) (n : Nat) (hn : parseUint32 d = some n)
    (hd : ∀ c ∈ d, c ≠ 0x2e) : dotLNumber (sGooglePrefix ++ d) = some n := by
  have hne : d ≠ [] := by
    intro h; subst h; simp [parseUint32] at hn
  have hgo : splitDots.go (sGooglePrefix ++ d) [] [] = splitDots.go d [] [sGoogle, sL, s9P2000] := rfl
  have hsplit : splitDots (sGooglePrefix ++ d) = [s9P2000, sL, sGoogle, d] := by
    unfold splitDots
    rw [hgo, splitDots_go_nodots _ _ _ hd]
    simp
  unfold dotLNumber parseVersion
  have h1 : sGooglePrefix ++ d ≠ s9P2000L := by
    intro h
    have := congrArg List.length h
    simp [sGooglePrefix, s9P2000L, s9P2000] at this
  have h2 : sGooglePrefix ++ d ≠ s9P2000u := by
    intro h
    have := congrArg List.length h
    simp [sGooglePrefix, s9P2000L, s9P2000u, s9P2000] at this
  have h3 : sGooglePrefix ++ d ≠ s9P2000 := by
    intro h
    have := congrArg List.length h
    simp [sGooglePrefix, s9P2000L, s9P2000] at this
  simp only [h1, h2, h3, if_false, hsplit, hn, hne, ne_eq, not_false_eq_true, and_self, if_true]

theorem plain_accepted : dotLNumber s9P2000L = some 0 := by decide

/-! ### client -/

/-- **NewClient adopts the reply**: when it succeeds, its version is the reply's number, its
msize is the reply's msize whenever the server lowered (or kept) it, the payload size plus the
largest fixed part fits in that msize, and at least one byte of payload remains. -/
theorem client_adopts (lf req rm : Nat) (rv : Bytes) (c : ClientCfg)
    (h : negotiate lf req rm rv = some c) :
    dotLNumber rv = some c.version ∧ c.msize = min req rm ∧
    c.payload + lf ≤ c.msize ∧ 1 ≤ c.payload := by
  unfold negotiate at h
  unfold dotLNumber
  split at h
  · rename_i n hp
    dsimp only at h
    split at h
    · cases h
    · rename_i hlt
      simp only [Option.some.injEq] at h
      subst h
      simp only [hp, true_and]
      unfold roundDown
      split
      · rename_i hc
        have := Nat.mod_lt (min req rm - lf) (show 0 < 512 by decide)
        omega
      · omega
  · cases h

/-- **NewClient refuses** a reply that is not a 9P2000.L version (e.g. "unknown"). -/
theorem client_rejects (lf req rm : Nat) (rv : Bytes) (h : dotLNumber rv = none) :
    negotiate lf req rm rv = none := by
  unfold dotLNumber at h
  unfold negotiate
  split at h <;> simp_all

example : negotiate 153 (8 * 1024 * 1024) 0 sUnknown = none := by decide

/-- end to end against this server: a client asking for 8 MiB ends with 4 MiB. -/
example : (negotiate 153 (8*1024*1024) (tversion (8*1024*1024) (versionString 7)).1
    (tversion (8*1024*1024) (versionString 7)).2).map (·.msize) = some (4*1024*1024) := by decide

end P9.C12
