import P9Model.Fsimpl.Qid
import P9Model.Lemmas.ModeTable
import P9Model.Lemmas.Lock.Mapper
/-!
# C20 — QID identity and mode/type mapping are stable and injective
-/
namespace P9.C20
open P9 P9.Qid P9.Mode P9.Gen

/-- the bit split the model uses is the code's (regenerated constants). -/
theorem constants_match :
    C.localfs_inodeLikelyBits = 39 ∧ C.localfs_devMinorLikelyBits = 12 ∧ C.localfs_devMajorLikelyBits = 12 ∧
    C.localfs_devUpperBits = 32 ∧ C.localfs_devUpperOffset = 32 ∧
    C.localfs_inodeLikelyBits + C.localfs_devMinorLikelyBits + C.localfs_devMajorLikelyBits = 63 := by decide

theorem encodeLikely_some {d i q : Nat} (h : encodeLikely d i = some q) :
    i < two39 ∧ d < two32 ∧ minor d ≤ 4095 ∧ q = i + minor d * two39 + major d * two51 := by
  unfold encodeLikely at h
  by_cases h1 : i ≥ two39
  · simp [h1] at h
  · by_cases h2 : d ≥ two32
    · simp [h1, h2] at h
    · by_cases h3 : major d > 4095
      · simp [h1, h2, h3] at h
      · by_cases h4 : minor d > 4095
        · simp [h1, h2, h3, h4] at h
        · simp only [h1, h2, h3, h4, if_false, Option.some.injEq] at h
          exact ⟨by omega, by omega, by omega, h.symm⟩

/-- **Compact encoding is injective**: distinct (device, inode) pairs get distinct paths. -/
theorem likely_injective (d1 i1 d2 i2 q : Nat)
    (h1 : encodeLikely d1 i1 = some q) (h2 : encodeLikely d2 i2 = some q) : d1 = d2 ∧ i1 = i2 := by
  obtain ⟨a1, a2, a3, a4⟩ := encodeLikely_some h1
  obtain ⟨b1, b2, b3, b4⟩ := encodeLikely_some h2
  unfold major minor two39 two51 two32 two20 at *
  omega

/-- … and stays below 2^63, so it can never collide with a fallback path. -/
theorem likely_below_two63 (d i q : Nat) (h : encodeLikely d i = some q) : q < two63 := by
  obtain ⟨a1, a2, a3, a4⟩ := encodeLikely_some h
  unfold major minor two39 two51 two32 two20 two63 at *
  omega

/-- invariant of the fallback table. -/
def TableInv (t : Table) : Prop :=
  two63 ≤ t.next ∧
  (∀ e ∈ t.entries, two63 < e.2 ∧ e.2 ≤ t.next) ∧
  t.entries.Pairwise (fun a b => a.1 ≠ b.1 ∧ a.2 ≠ b.2)

theorem tableInv_init : TableInv {} := by
  simp [TableInv]

theorem lookup_mem {t : Table} {k : Nat × Nat} {q : Nat} (h : t.lookup k = some q) :
    (k, q) ∈ t.entries := by
  unfold Table.lookup at h
  cases hf : t.entries.find? (·.1 == k) with
  | none => simp [hf] at h
  | some e =>
    simp only [hf, Option.map_some, Option.some.injEq] at h
    have hm := List.mem_of_find?_eq_some hf
    have hk := List.find?_some hf
    simp only [beq_iff_eq] at hk
    obtain ⟨ek, ev⟩ := e
    simp only at hk h
    subst hk h
    exact hm

theorem lookup_none {t : Table} {k : Nat × Nat} (h : t.lookup k = none) :
    ∀ e ∈ t.entries, e.1 ≠ k := by
  unfold Table.lookup at h
  simp only [Option.map_eq_none_iff] at h
  intro e he hk
  have := List.find?_eq_none.mp h e he
  simp [hk] at this

/-- **The fallback preserves its invariant** (every reachable table satisfies it). -/
theorem localToQid_inv (t : Table) (d i : Nat) (h : TableInv t) : TableInv (localToQid t d i).2 := by
  unfold localToQid
  split
  · exact h
  · split
    · exact h
    · rename_i hl
      obtain ⟨h1, h2, h3⟩ := h
      refine ⟨Nat.le_succ_of_le h1, ?_, ?_⟩
      · intro e he
        simp only [List.mem_cons] at he
        rcases he with rfl | he
        · exact ⟨Nat.lt_succ_of_le h1, Nat.le_refl _⟩
        · have := h2 e he
          exact ⟨this.1, Nat.le_succ_of_le this.2⟩
      · simp only [List.pairwise_cons]
        refine ⟨?_, h3⟩
        intro e he
        have hk := lookup_none hl e he
        have hv := h2 e he
        refine ⟨fun x => hk x.symm, ?_⟩
        show t.next + 1 ≠ e.2
        omega

/-- `t2` extends `t1`: every pair that has a path keeps it. -/
def Ext (t1 t2 : Table) : Prop := ∀ k q, t1.lookup k = some q → t2.lookup k = some q

theorem ext_refl (t : Table) : Ext t t := fun _ _ h => h
theorem ext_trans {a b c : Table} (h1 : Ext a b) (h2 : Ext b c) : Ext a c :=
  fun k q h => h2 k q (h1 k q h)

theorem lookup_cons_ne (t : Table) (k k' : Nat × Nat) (v nx : Nat) (h : k' ≠ k) :
    ({ entries := (k', v) :: t.entries, next := nx } : Table).lookup k = t.lookup k := by
  unfold Table.lookup
  simp only [List.find?_cons]
  have : (((k', v) : (Nat × Nat) × Nat).1 == k) = false := by
    simp only [beq_eq_false_iff_ne, ne_eq]; exact h
  simp only [this]

theorem lookup_cons_eq (t : Table) (k : Nat × Nat) (v nx : Nat) :
    ({ entries := (k, v) :: t.entries, next := nx } : Table).lookup k = some v := by
  simp [Table.lookup]

/-- a lookup only ever adds an entry for a pair that had none. -/
theorem localToQid_ext (t : Table) (d i : Nat) : Ext t (localToQid t d i).2 := by
  unfold localToQid
  split
  · exact ext_refl t
  · split
    · exact ext_refl t
    · rename_i hl
      intro k q hk
      have hne : (d, i) ≠ k := by
        intro h; subst h; rw [hl] at hk; cases hk
      rw [lookup_cons_ne _ _ _ _ _ hne]; exact hk

/-- after a lookup of an unlikely pair the table holds the path it returned. -/
theorem localToQid_records (t : Table) (d i : Nat) (h : encodeLikely d i = none) :
    (localToQid t d i).2.lookup (d, i) = some (localToQid t d i).1 := by
  unfold localToQid
  simp only [h]
  cases hl : t.lookup (d, i) with
  | some q => simp only; exact hl
  | none => simp only; exact lookup_cons_eq _ _ _ _

theorem localToQid_of_lookup (t : Table) (d i q : Nat) (h : encodeLikely d i = none)
    (hl : t.lookup (d, i) = some q) : (localToQid t d i).1 = q := by
  unfold localToQid; simp only [h, hl]

/-- the table after a sequence of lookups. -/
def run (t : Table) : List (Nat × Nat) → Table
  | [] => t
  | (d, i) :: ks => run (localToQid t d i).2 ks

theorem run_ext (t : Table) (ks : List (Nat × Nat)) : Ext t (run t ks) := by
  induction ks generalizing t with
  | nil => exact ext_refl t
  | cons k ks ih =>
    obtain ⟨d, i⟩ := k
    exact ext_trans (localToQid_ext t d i) (ih _)

theorem run_inv (t : Table) (ks : List (Nat × Nat)) (h : TableInv t) : TableInv (run t ks) := by
  induction ks generalizing t with
  | nil => exact h
  | cons k ks ih =>
    obtain ⟨d, i⟩ := k
    exact ih _ (localToQid_inv t d i h)

/-- **Stability**: once a pair has been given a path, every later lookup of that pair – after
any sequence of other lookups, from any table – returns the same path. -/
theorem localToQid_stable (t : Table) (d i : Nat) (ks : List (Nat × Nat)) :
    (localToQid (run (localToQid t d i).2 ks) d i).1 = (localToQid t d i).1 := by
  cases hl : encodeLikely d i with
  | some q => simp [localToQid, hl]
  | none =>
    exact localToQid_of_lookup _ d i _ hl (run_ext _ ks _ _ (localToQid_records t d i hl))

theorem entries_val_inj {t : Table} (h : TableInv t) {k1 k2 : Nat × Nat} {q : Nat}
    (h1 : (k1, q) ∈ t.entries) (h2 : (k2, q) ∈ t.entries) : k1 = k2 := by
  have hp := h.2.2
  clear h
  generalize t.entries = es at *
  induction es with
  | nil => cases h1
  | cons e es ih =>
    simp only [List.pairwise_cons] at hp
    simp only [List.mem_cons] at h1 h2
    rcases h1 with rfl | h1 <;> rcases h2 with h2 | h2
    · cases h2; rfl
    · exact absurd rfl (hp.1 _ h2).2
    · subst h2; exact absurd rfl (hp.1 _ h1).2.symm
    · exact ih h1 h2 hp.2

theorem unlikely_above_two63 (t : Table) (d i : Nat) (h : TableInv t) (hl : encodeLikely d i = none) :
    two63 < (localToQid t d i).1 := by
  have hrec := localToQid_records t d i hl
  have hinv := localToQid_inv t d i h
  exact (hinv.2.1 _ (lookup_mem hrec)).1

/-- **Injectivity over histories**: from any reachable table, two lookups separated by any
sequence of other lookups return the same path only for the same (device, inode) pair – for
pairs inside and outside the compact encoding alike. -/
theorem localToQid_injective (t : Table) (hinv : TableInv t) (d1 i1 d2 i2 : Nat) (ks : List (Nat × Nat))
    (heq : (localToQid t d1 i1).1 = (localToQid (run (localToQid t d1 i1).2 ks) d2 i2).1) :
    d1 = d2 ∧ i1 = i2 := by
  have inv1 := localToQid_inv t d1 i1 hinv
  have inv2 := run_inv _ ks inv1
  cases hl1 : encodeLikely d1 i1 with
  | some q1 =>
    cases hl2 : encodeLikely d2 i2 with
    | some q2 =>
      simp only [localToQid, hl1, hl2] at heq
      subst heq
      exact likely_injective _ _ _ _ _ hl1 hl2
    | none =>
      have hb := likely_below_two63 _ _ _ hl1
      have ha := unlikely_above_two63 _ d2 i2 inv2 hl2
      rw [← heq] at ha
      simp only [localToQid, hl1] at ha
      omega
  | none =>
    cases hl2 : encodeLikely d2 i2 with
    | some q2 =>
      have hb := likely_below_two63 _ _ _ hl2
      have ha := unlikely_above_two63 t d1 i1 hinv hl1
      rw [heq] at ha
      simp only [localToQid, hl2] at ha
      omega
    | none =>
      -- both outside the compact encoding: both recorded in the final table under one value
      have r1 := localToQid_records t d1 i1 hl1
      have r1' := run_ext _ ks _ _ r1
      have r1'' := localToQid_ext (run (localToQid t d1 i1).2 ks) d2 i2 _ _ r1'
      have r2 := localToQid_records (run (localToQid t d1 i1).2 ks) d2 i2 hl2
      have inv3 := localToQid_inv _ d2 i2 inv2
      rw [← heq] at r2
      have := entries_val_inj inv3 (lookup_mem r1'') (lookup_mem r2)
      simp only [Prod.mk.injEq] at this
      exact this

/-! ### the QID mapper (staticfs / composefs), sequential core -/

def MapperInv (m : Mapper) (gen : Nat) : Prop :=
  (∀ e ∈ m.paths, 1 ≤ e.2 ∧ e.2 ≤ gen) ∧ m.paths.Pairwise (fun a b => a.1 ≠ b.1 ∧ a.2 ≠ b.2)

/-- `QIDFor` preserves the mapper invariant and only moves the shared generator forward. -/
theorem mapper_inv (m : Mapper) (gen path : Nat) (h : MapperInv m gen) :
    MapperInv (m.qidFor gen path).2.1 (m.qidFor gen path).2.2 ∧ gen ≤ (m.qidFor gen path).2.2 := by
  unfold Mapper.qidFor
  cases hf : (m.paths.find? (·.1 == path)).map (·.2) with
  | some p => exact ⟨h, Nat.le_refl _⟩
  | none =>
    refine ⟨⟨?_, ?_⟩, Nat.le_succ _⟩
    · intro e he
      simp only [List.mem_cons] at he
      rcases he with rfl | he
      · exact ⟨Nat.succ_le_succ (Nat.zero_le _), Nat.le_refl _⟩
      · have := h.1 e he
        exact ⟨this.1, Nat.le_succ_of_le this.2⟩
    · simp only [List.pairwise_cons]
      refine ⟨?_, h.2⟩
      intro e he
      simp only [Option.map_eq_none_iff] at hf
      have hk := List.find?_eq_none.mp hf e he
      simp only [beq_iff_eq] at hk
      have hv := h.1 e he
      refine ⟨fun x => hk x.symm, ?_⟩
      show gen + 1 ≠ e.2
      omega

/-- a known source path keeps its mapped path (stable "for good"). -/
theorem mapper_stable (m : Mapper) (gen path : Nat) :
    ((m.qidFor gen path).2.1.qidFor (m.qidFor gen path).2.2 path).1 = (m.qidFor gen path).1 := by
  unfold Mapper.qidFor
  cases hf : (m.paths.find? (·.1 == path)).map (·.2) with
  | some p => simp [hf]
  | none => simp

/-- a fresh source path gets a path no mapper sharing the generator has handed out before
(`> gen`), hence distinct from every earlier one. -/
theorem mapper_fresh (m : Mapper) (gen path : Nat)
    (hf : (m.paths.find? (·.1 == path)).map (·.2) = none) : (m.qidFor gen path).1 = gen + 1 := by
  unfold Mapper.qidFor; simp [hf]

/-! ### modes -/

/-- **Mode round trip**: for every valid type and every one of the 4096 permission values
(rwx, setuid, setgid, sticky), FileMode → os.FileMode → FileMode is the identity
(exhaustive: 7 × 4096 cases evaluated by the kernel, `Lemmas/ModeTable.lean`). -/
theorem mode_roundtrip : ∀ t ∈ validTypes, ∀ p, p < 4096 → fromOS (toOS (t + p)) = t + p := by
  intro t ht p hp
  have key : roundTripsType t = true := by
    simp only [validTypes, List.mem_cons, List.not_mem_nil, or_false] at ht
    rcases ht with rfl | rfl | rfl | rfl | rfl | rfl | rfl
    · exact rt_socket
    · exact rt_symlink
    · exact rt_regular
    · exact rt_block
    · exact rt_dir
    · exact rt_char
    · exact rt_fifo
  unfold roundTripsType at key
  simp only [List.all_eq_true, List.mem_range, beq_iff_eq] at key
  exact key p hp

/-- **QID type follows the mode's type** (`FileMode.QIDType`). -/
theorem qid_type_table :
    qidType C.ModeDirectory = C.TypeDir ∧ qidType C.ModeSymlink = C.TypeSymlink ∧
    qidType C.ModeRegular = C.TypeRegular ∧ qidType C.ModeBlockDevice = C.TypeRegular ∧
    qidType C.ModeSocket = C.TypeAppendOnly ∧ qidType C.ModeNamedPipe = C.TypeAppendOnly ∧
    qidType C.ModeCharacterDevice = C.TypeAppendOnly := by decide

/-- the QID type ignores permission bits (exhaustive table). -/
theorem qid_type_ignores_perm : ∀ t ∈ validTypes, ∀ p, p < 4096 → fileType (t + p) = t := by
  intro t ht p hp
  have key := fileType_table
  simp only [List.all_eq_true, List.mem_range, beq_iff_eq] at key
  exact key t ht p hp

/-- O (**the QID mapper's table is only touched under its mutex**, regenerated from
fsimpl/qids – the D7 `fix:`): both accesses of `Mapper.paths` in `QIDFor` happen with `mu` held
(the lockset obligation on the script of `Mapper.QIDFor`; both accesses are present). -/
theorem mapper_lockset : Locks.mapperLocksetOk = true := Locks.mapper_lockset_fact

/-! ### non-vacuity -/
example : encodeLikely 0x801 12345 = some (12345 + 1 * two39 + 8 * two51) := by decide
example : encodeLikely (2 ^ 32) 5 = none ∧ encodeLikely 5 (2 ^ 39) = none := by decide
example : (localToQid {} (2 ^ 32) 5).1 = two63 + 1 := by decide

end P9.C20
