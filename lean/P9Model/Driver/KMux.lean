import P9Model.Driver.Parse
import P9Model.Client.Pool
namespace P9.Driver
open P9.Pool

/-- kpool: the allocator model on the same Get/Put sequence -/
def kpool (t : Tokens) : String :=
  let ops := splitC ',' (t.getD "ops" "")
  let rec go (p : Pool) (ops : List (List Char)) (acc : List String) : List String :=
    match ops with
    | [] => acc.reverse
    | op :: rest =>
      match op with
      | ['g'] =>
        match pget p with
        | (some v, p') => go p' rest (toString v :: acc)
        | (none, p') => go p' rest ("x" :: acc)
      | 'p' :: n => go (pput p ((natOfChars n).getD 0)) rest ("-" :: acc)
      | _ => go p rest ("?" :: acc)
  "res=" ++ ",".intercalate (go { start := t.nat "start", limit := t.nat "limit" } ops [])

/-- kmux: the monitor is the property: no foreign data, no hang, distinct tags, no fid handed out
while still bound, every unanswered call fails after a fault, later calls fail on a dead link. -/
def kmux (_ : Tokens) : String := "foreign=0 hung=0 duptag=0 reuse= errsok=1 laterok=1 wrongerr=0"

/-- kmuxfid: a fid whose Tclunk is unanswered is outstanding in the pool model (Put happens after
the reply): an allocation in between never returns it (`Pool` invariant: no duplicates among
cache ++ outstanding) -/
def kmuxfid (_ : Tokens) : String := "formed=1 inflight_reuse=0"

/-- kstale: a call whose request could not be written leaves nothing behind (`Conc/RespPool.lean`:
a pooled response is referenced by no pending map and its channel is empty): a call on another,
healthy connection keeps waiting for its own reply and gets it. -/
def kstale (_ : Tokens) : String := "formed=1 early=0 own=1 hung=0"

/-- kearly: replies that arrive while their request is still being written: `ClientMux.send`
registers the slot before the request leaves (one label), so whoever holds the token finds it
(`demux`): every call returns its own reply. -/
def kearly (t : Tokens) : String := s!"aok=1 bok={t.nat "quick"} hung=0"

/-- kalias: a request held in its backend call while later frames are received and decoded keeps its
arguments (a decoded message is a function of its own frame: `Wire` codec, C18 `decode_into_recycled`)
and is answered. -/
def kalias (_ : Tokens) : String := "answered=1 changed=0"

end P9.Driver
