import P9Model.Driver.Parse
import P9Model.Wire.Registry
/-! K1 / K2 drivers: codec and framing correspondence. -/
namespace P9.Driver
open P9 P9.Gen

def findGen (typ : Nat) : Option GenMsg := Gen.messages.find? (·.typ == typ)

/-- build the model message from `f:<name>=<value>` tokens, in wire (encode) order. -/
def msgOfTokens (g : GenMsg) (t : Tokens) : Msg :=
  { vals := g.enc.map fun f => parseVal (t.getD ("f:" ++ f.name) "0"),
    payload := if g.payEnc == .data then t.bytes "f:payload" else [] }

def showMsg (pfx : String) (g : GenMsg) (m : Msg) : List String :=
  let fs := (g.dec.zip m.vals).map fun (f, v) => pfx ++ f.name ++ "=" ++ showVal v
  if g.payDec == .data then fs ++ [pfx ++ "payload=" ++ hex m.payload] else fs

def showOutcome (idx : String) : Outcome → List String
  | .connErr => [s!"recv{idx}=conn"]
  | .protoErr tag => [s!"recv{idx}=proto:{tag}"]
  | .msg tag d m =>
    match findGen d.typ with
    | some g => s!"recv{idx}=msg:{tag}:{d.typ}" :: showMsg (if idx.isEmpty then "d:" else s!"d{idx}:") g m
    | none => [s!"recv{idx}=msg:{tag}:{d.typ}"]

def k1 (t : Tokens) : String :=
  match findGen (t.nat "typ") with
  | none => "unknown-type"
  | some g =>
    let m := msgOfTokens g t
    let fr := frame g.desc (t.nat "tag") m
    let r := recv1 (4 * 1024 * 1024) Gen.C.maximumLength registry fr
    " ".intercalate (("frame=" ++ hex fr) :: showOutcome "" r.out)

/-- K2: a whole byte stream through the receive loop. Per call: outcome and bytes consumed. -/
def k2 (t : Tokens) : String :=
  let msize := t.nat "msize"
  let s := t.bytes "stream"
  let rec go (fuel : Nat) (i : Nat) (s : Bytes) (acc : List String) : List String :=
    match fuel with
    | 0 => acc
    | fuel+1 =>
      let r := recv1 msize Gen.C.maximumLength registry s
      let consumed := s.length - r.rest.length
      let acc := acc ++ showOutcome (toString i) r.out ++ [s!"c{i}={consumed}"] ++
        [s!"a{i}={r.allocs.foldl max 0}"]
      match r.out with
      | .connErr => acc
      | _ => go fuel (i+1) r.rest acc
  " ".intercalate (go (s.length / 7 + 2) 0 s [])

end P9.Driver
