import P9Model.Driver.Parse
import P9Model.Wire.Registry
import P9Model.Gen.Layouts
import P9Model.Transport.Seg
/-! K1 / K2 drivers: codec and framing correspondence. -/
namespace P9.Driver
open P9 P9.Gen

/-!
The drivers below are the *property monitors*: they use the protocol table `Spec.messages`
only (never `Gen`), so a change of the code's layouts cannot move the expectation with it.
-/

def findSpec (typ : Nat) : Option MsgDesc := (Spec.messages.find? (·.typ == typ)).map (·.desc)

/-- build the message from `f:<name>=<value>` tokens, in the protocol's field order. -/
def msgOfTokens (d : MsgDesc) (t : Tokens) : Msg :=
  { vals := d.fields.map fun f => parseVal (t.getD ("f:" ++ f.name) "0"),
    payload := if d.pay == .data then t.bytes "f:payload" else [] }

def showMsg (pfx : String) (d : MsgDesc) (m : Msg) : List String :=
  let fs := (d.fields.zip m.vals).map fun (f, v) => pfx ++ f.name ++ "=" ++ showVal v
  if d.pay == .data then fs ++ [pfx ++ "payload=" ++ hex m.payload] else fs

def showOutcome (idx : String) : Outcome → List String
  | .connErr => [s!"recv{idx}=conn"]
  | .protoErr tag => [s!"recv{idx}=proto:{tag}"]
  | .msg tag d m => s!"recv{idx}=msg:{tag}:{d.typ}" :: showMsg (if idx.isEmpty then "d:" else s!"d{idx}:") d m

def maxLen : Nat := 4 * 1024 * 1024

def k1 (t : Tokens) : String :=
  match findSpec (t.nat "typ") with
  | none => "unknown-type"
  | some d =>
    let m := msgOfTokens d t
    let fr := frame d (t.nat "tag") m
    let r := recv1 maxLen maxLen specRegistry fr
    " ".intercalate (("frame=" ++ hex fr) :: showOutcome "" r.out)

/-- K2: a whole byte stream through the receive loop. Per call: outcome and bytes consumed. -/
def k2 (t : Tokens) : String :=
  let msize := t.nat "msize"
  let s := t.bytes "stream"
  let rec go (fuel : Nat) (i : Nat) (s : Bytes) (acc : List String) : List String :=
    match fuel with
    | 0 => acc
    | fuel+1 =>
      let r := recv1 msize maxLen specRegistry s
      let consumed := s.length - r.rest.length
      let acc := acc ++ showOutcome (toString i) r.out ++ [s!"c{i}={consumed}"]
      match r.out with
      | .connErr => acc
      | _ => go fuel (i+1) r.rest acc
  " ".intercalate (go (s.length / 7 + 2) 0 s [])

/-- kprim: every codec primitive is what the extractor takes it to be (`Gen.primTable`): a write
produces `encA` of its kind, a read returns `decA` of its kind, running out of bytes sets the sticky
flag and yields the zero value. -/
def kprim (t : Tokens) : String :=
  match Gen.primTable.find? (·.1 == t.str "name") with
  | none => "unknown-primitive"
  | some (_, w, k) =>
    if w then
      let a : Atom := match k with
        | .str => .str (t.bytes "s")
        | .int wd => .int (t.nat "v" % 2 ^ (8 * wd))
        | .masked wd _ => .int (t.nat "v" % 2 ^ (8 * wd))
      s!"out={hex (encA k a)}"
    else
      match decA k (t.bytes "data") with
      | none => "overrun=1 v=0 s=x"
      | some (.int v, r) => s!"overrun=0 v={v} s=x left={r.length}"
      | some (.str s, r) => s!"overrun=0 v=0 s={hex s} left={r.length}"

/-- K2 at the server: the outcomes of `recv1` over the stream decide what the server does – a
delivered message (here: one naming an unbound fid) and a protocol error are both answered with
Rlerror under the frame's tag; the first connection error ends the connection. -/
def k2srv (t : Tokens) : String :=
  let msize := t.nat "msize"
  let s := t.bytes "stream"
  let rec go (fuel : Nat) (s : Bytes) (acc : List String) : List String × Bool :=
    match fuel with
    | 0 => (acc, false)
    | fuel+1 =>
      let r := recv1 msize maxLen specRegistry s
      match r.out with
      | .connErr => (acc, true)
      | .protoErr tag => go fuel r.rest (acc ++ [s!"{tag}:7"])
      | .msg tag d _ => go fuel r.rest (acc ++ [if d.typ == 24 || d.typ == 120 || d.typ == 116 then s!"{tag}:7"
          else if d.typ == 108 then s!"{tag}:109" else s!"{tag}:unmodelled"])
  let (rs, ended) := go (s.length / 7 + 2) s []
  s!"replies={",".intercalate rs} lost=0 ended={if ended then 1 else 0} extra=0"

/-- K3: the monitor is segmentation independence itself – the expected outcomes are those of
the plain byte string (`recv1` over the protocol table); the segmented model `recvSeg` is run
on the actual chunking as well and must agree (cross-check of `Transport/Seg.lean`). -/
def k3 (t : Tokens) : String :=
  let msize := t.nat "msize"
  let s := t.bytes "stream"
  let lens := natList (t.getD "chunks" "")
  let rec cut (ls : List Nat) (b : Bytes) : List Bytes :=
    match ls with
    | [] => []
    | n :: r => b.take n :: cut r (b.drop n)
  let st : Stream := { chunks := (cut lens s).filter (· ≠ []), eofAttached := t.nat "eof" == 1 }
  let rec go (fuel : Nat) (i : Nat) (s : Bytes) (st : Stream) (acc : List String) : List String :=
    match fuel with
    | 0 => acc
    | fuel+1 =>
      let r := recv1 msize maxLen specRegistry s
      let (o2, st') := recvSeg msize maxLen specRegistry st
      let acc := acc ++ showOutcome (toString i) r.out ++ (if o2 == r.out then [] else [s!"segmodel{i}-differs"])
      match r.out with
      | .connErr => acc
      | _ => go fuel (i+1) r.rest st' acc
  -- cross-check of the vectorised model on this chunking: two vectors (7, rest)
  let n := s.length
  let vecOk := if n < 7 then true else
    match readVec (n + 1) [(7, []), (n - 7, [])] st with
    | some (bufs, _) => bufs == splitBy [7, n - 7] s
    | none => false
  " ".intercalate (go (s.length / 7 + 2) 0 s st [] ++ (if vecOk then [] else ["vecmodel-differs"]))

end P9.Driver
