import P9Model.Driver.Parse
import P9Model.Wire.Registry
/-! K1 / K2 drivers: codec and framing correspondence. -/
namespace P9.Driver
open P9 P9.Gen

/-!
The drivers below are the *property monitors*: they use the protocol table `Spec.messages`
only (never `Gen`), so a change of the code's layouts cannot move the expectation with it.
-/

def findSpec (typ : Nat) : Option MsgDesc := (Spec.messages.find? (·.typ == typ)).map (·.desc)

/-- build the message from `f:<name>=<value>` tokens, in the protocol's field order. -/
def msgOfTokens (d : MsgDesc) (t : Tokens) : Msg :=
  { vals := d.fields.map fun f => parseVal (t.getD ("f:" ++ f.name) "0"),
    payload := if d.pay == .data then t.bytes "f:payload" else [] }

def showMsg (pfx : String) (d : MsgDesc) (m : Msg) : List String :=
  let fs := (d.fields.zip m.vals).map fun (f, v) => pfx ++ f.name ++ "=" ++ showVal v
  if d.pay == .data then fs ++ [pfx ++ "payload=" ++ hex m.payload] else fs

def showOutcome (idx : String) : Outcome → List String
  | .connErr => [s!"recv{idx}=conn"]
  | .protoErr tag => [s!"recv{idx}=proto:{tag}"]
  | .msg tag d m => s!"recv{idx}=msg:{tag}:{d.typ}" :: showMsg (if idx.isEmpty then "d:" else s!"d{idx}:") d m

def maxLen : Nat := 4 * 1024 * 1024

def k1 (t : Tokens) : String :=
  match findSpec (t.nat "typ") with
  | none => "unknown-type"
  | some d =>
    let m := msgOfTokens d t
    let fr := frame d (t.nat "tag") m
    let r := recv1 maxLen maxLen specRegistry fr
    " ".intercalate (("frame=" ++ hex fr) :: showOutcome "" r.out)

/-- K2: a whole byte stream through the receive loop. Per call: outcome and bytes consumed. -/
def k2 (t : Tokens) : String :=
  let msize := t.nat "msize"
  let s := t.bytes "stream"
  let rec go (fuel : Nat) (i : Nat) (s : Bytes) (acc : List String) : List String :=
    match fuel with
    | 0 => acc
    | fuel+1 =>
      let r := recv1 msize maxLen specRegistry s
      let consumed := s.length - r.rest.length
      let acc := acc ++ showOutcome (toString i) r.out ++ [s!"c{i}={consumed}"]
      match r.out with
      | .connErr => acc
      | _ => go fuel (i+1) r.rest acc
  " ".intercalate (go (s.length / 7 + 2) 0 s [])

end P9.Driver
