import P9Model.Wire.Codec
/-!
# Line protocol helpers for the correspondence drivers (core only)
One case per line: space-separated tokens `key=value`; byte strings are `x<hex>`;
lists are `[a,b;c,d]` (rows separated by `;`, atoms by `,`).
-/
namespace P9.Driver
open P9

def hexDigit (c : Char) : Nat :=
  if '0' ≤ c ∧ c ≤ '9' then c.toNat - '0'.toNat
  else if 'a' ≤ c ∧ c ≤ 'f' then c.toNat - 'a'.toNat + 10
  else if 'A' ≤ c ∧ c ≤ 'F' then c.toNat - 'A'.toNat + 10
  else 0

/-- split a char list on a separator. -/
def splitC (sep : Char) (cs : List Char) : List (List Char) :=
  let rec go : List Char → List Char → List (List Char) → List (List Char)
    | [], cur, acc => (cur.reverse :: acc).reverse
    | c :: rest, cur, acc => if c == sep then go rest [] (cur.reverse :: acc) else go rest (c :: cur) acc
  go cs [] []

def natOfChars (cs : List Char) : Option Nat :=
  if cs.isEmpty then none else
  cs.foldl (fun acc c => match acc with
    | none => none
    | some n => if c.isDigit then some (n * 10 + (c.toNat - '0'.toNat)) else none) (some 0)

def unhexC (cs : List Char) : Bytes :=
  let cs := match cs with | 'x' :: r => r | r => r
  let rec go : List Char → Bytes → Bytes
    | a :: b :: rest, acc => go rest (UInt8.ofNat (hexDigit a * 16 + hexDigit b) :: acc)
    | _, acc => acc.reverse
  go cs []

/-- `x0a0b` → bytes. -/
def unhex (s : String) : Bytes := unhexC s.toList

def hexChar (n : Nat) : Char :=
  if n < 10 then Char.ofNat ('0'.toNat + n) else Char.ofNat ('a'.toNat + n - 10)

def hex (b : Bytes) : String :=
  let cs := b.foldr (fun x acc => hexChar (x.toNat / 16) :: hexChar (x.toNat % 16) :: acc) []
  String.ofList ('x' :: cs)

abbrev Tokens := List (String × List Char)

def stripEol (cs : List Char) : List Char :=
  cs.filter (fun c => c != '\n' && c != '\r')

def parseLine (line : String) : Tokens :=
  (splitC ' ' (stripEol line.toList)).filterMap fun t =>
    if t.isEmpty then none else
    let k := t.takeWhile (· != '=')
    let v := (t.dropWhile (· != '=')).drop 1
    some (String.ofList k, v)

def Tokens.get? (t : Tokens) (k : String) : Option (List Char) := (t.find? (·.1 == k)).map (·.2)
def Tokens.getD (t : Tokens) (k : String) (d : String) : List Char := (t.get? k).getD d.toList
def Tokens.str (t : Tokens) (k : String) : String := String.ofList (t.getD k "")
def Tokens.nat (t : Tokens) (k : String) : Nat := ((t.get? k).bind natOfChars).getD 0
def Tokens.bytes (t : Tokens) (k : String) : Bytes := unhexC (t.getD k "x")
def Tokens.has (t : Tokens) (k : String) : Bool := (t.get? k).isSome

def parseAtom (s : List Char) : Atom :=
  match s with
  | 'x' :: _ => .str (unhexC s)
  | _ => .int ((natOfChars s).getD 0)

def parseRows (s : List Char) : List (List Atom) :=
  let inner := (s.drop 1).dropLast
  if inner.isEmpty then [] else
  (splitC ';' inner).map fun row => (splitC ',' row).map parseAtom

def parseVal (s : List Char) : Val :=
  match s with
  | '[' :: _ => .list (parseRows s)
  | _ => .atom (parseAtom s)

def showAtom : Atom → String
  | .int n => toString n
  | .str s => hex s

def showVal : Val → String
  | .atom a => showAtom a
  | .list rows => "[" ++ ";".intercalate (rows.map fun r => ",".intercalate (r.map showAtom)) ++ "]"

def natList (s : List Char) : List Nat :=
  if s.isEmpty then [] else (splitC ',' s).filterMap natOfChars

end P9.Driver
