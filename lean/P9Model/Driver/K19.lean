import P9Model.Driver.Parse
import P9Model.Fsimpl.Readdir
namespace P9.Driver
open P9 P9.Readdir

/-- K19: the model's paging loop on entries with the given name lengths, in listing order. -/
def k19 (t : Tokens) : String :=
  let lens := natList (t.getD "namelens" "")
  let E : List Row := lens.map fun l =>
    [.int 0, .int 0, .int 0, .int 0, .int 0, .str (List.replicate l 0x61)]
  let count := t.nat "count"
  let total := (E.map fun r => (encRow direntK r).length).sum
  let lim := if t.str "via" == "server" then min count (t.nat "msize" - 11) else total + 1
  let got := listAll (E.length + 2) E count lim 0
  let complete := if got == E then 1 else 0
  -- (a second pass from offset 0 through the same open fid lists the same: `resume_from_offset` at 0)
  s!"complete={complete} missing={E.length - got.length} dup=0 qidok=1 pages={pages (E.length + 2) E count lim 0} again={complete}"

end P9.Driver
