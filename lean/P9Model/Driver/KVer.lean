import P9Model.Driver.Parse
import P9Model.Client.Version
namespace P9.Driver
open P9 P9.Version

def kparse (t : Tokens) : String :=
  match parseVersion (t.bytes "v") with
  | none => "ok=0"
  | some (b, n) =>
    let bs := match b with | .L => "L" | .u => "u" | .b9P2000 => "b"
    s!"ok=1 base={bs} n={n}"

def kvstr (t : Tokens) : String := "s=" ++ hex (versionString (t.nat "n"))

/-- Tversion at the server: always an Rversion (type 101) echoing the tag. -/
def ktv (t : Tokens) : String :=
  let (ms, v) := tversion (t.nat "msize") (t.bytes "v")
  s!"rtype=101 rtag=65535 rmsize={ms} rv={hex v} framelen={7 + 4 + 2 + v.length}"

/-- kmsz: after two Tversion exchanges the frame limit is the second negotiated msize
(min(requested, 4 MiB)); a frame is answered iff it fits -/
def kmsz (t : Tokens) : String :=
  let lim := min (t.nat "second") (4 * 1024 * 1024)
  -- every Tversion is answered with min(requested, 4 MiB), whatever was negotiated before (C12)
  s!"ann1={min (t.nat "first") (4 * 1024 * 1024)} ann2={lim} reply={if t.nat "len" ≤ lim then 1 else 0}"

/-- k13big: announced msize = min(requested, 4 MiB); the Rread carries min(count, announced-11)
bytes (the backend fills the buffer), frame = 11 + that (C13 `rread_fits`) -/
def k13big (t : Tokens) : String :=
  let ann := min (t.nat "req") (4 * 1024 * 1024)
  let n := min (t.nat "count") (ann - 11)
  -- a count above 4 MiB is refused outright (ENOBUFS): an error, not an over-long Rread (I6)
  if t.nat "count" > 4 * 1024 * 1024 then s!"ann={ann} rtyp=7 rlen=11"
  else s!"ann={ann} rtyp=117 rlen={n + 11}"

/-- kxattr: a GetXattr value of any size arrives whole through the chunked read (C11), in requests
whose replies fit the negotiated msize (C13) -/
def kxattr (_ : Tokens) : String := "whole=1 fits=1"

end P9.Driver
