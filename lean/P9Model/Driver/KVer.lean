import P9Model.Driver.Parse
import P9Model.Client.Version
namespace P9.Driver
open P9 P9.Version

def kparse (t : Tokens) : String :=
  match parseVersion (t.bytes "v") with
  | none => "ok=0"
  | some (b, n) =>
    let bs := match b with | .L => "L" | .u => "u" | .b9P2000 => "b"
    s!"ok=1 base={bs} n={n}"

def kvstr (t : Tokens) : String := "s=" ++ hex (versionString (t.nat "n"))

/-- Tversion at the server: always an Rversion (type 101) echoing the tag. -/
def ktv (t : Tokens) : String :=
  let (ms, v) := tversion (t.nat "msize") (t.bytes "v")
  s!"rtype=101 rtag=65535 rmsize={ms} rv={hex v} framelen={7 + 4 + 2 + v.length}"

end P9.Driver
