import P9Model.Driver.Parse
import P9Model.Fsimpl.Qid
import P9Model.Fsimpl.Mode
namespace P9.Driver
open P9 P9.Qid

structure QState where
  tab : Table := {}
  gen : Nat := 0
  mappers : List Mapper := [{}, {}, {}]

def klikely (t : Tokens) : String :=
  match encodeLikely (t.nat "dev") (t.nat "ino") with
  | some q => s!"ok=1 q={q}"
  | none => "ok=0"

def kltq (s : QState) (t : Tokens) : QState × String :=
  let (q, tab) := localToQid s.tab (t.nat "dev") (t.nat "ino")
  ({ s with tab := tab }, s!"q={q} err=false")

def kmap (s : QState) (t : Tokens) : QState × String :=
  let k := t.nat "m"
  let m := s.mappers.getD k {}
  let (p, m', g') := m.qidFor s.gen (t.nat "path")
  ({ s with gen := g', mappers := s.mappers.set k m' }, s!"path={p} typ={t.nat "typ"} ver={t.nat "ver"}")

def kmode (t : Tokens) : String :=
  let m := t.nat "m"
  let o := Mode.toOS m
  s!"os={o} back={Mode.fromOS o} qt={Mode.qidType m}"

def kfromos (t : Tokens) : String := s!"m={Mode.fromOS (t.nat "os")}"

/-- kltype: every way localfs reports a file's QID type gives the type of the mode it reports
(`Mode.qidType`, the table of C20) -/
def kltype (t : Tokens) : String :=
  let q := Mode.qidType (t.nat "m")
  s!"qt={q} attrqt={q} listedqt={q} listedsamepath=1"

/-- kltqc: the fallback table is a function of (device, inode) (`localToQid_stable`): concurrent first
lookups get one answer -/
def kltqc (_ : Tokens) : String := "distinct=1"

/-- kcompose: through the QID mapper a file has one path whichever way it is reached
(`mapper_stable`), and a listing reports what Walk + GetAttr report at that moment -/
def kcompose (t : Tokens) : String :=
  if t.str "part" == "create" then "same=1" else "first=1 second=1"

/-- the concurrent mapper monitor: the property itself. -/
def kmapc (_ : Tokens) : String := "unstable=0 collide=0"

/-- kmapbig: the table never forgets (`mapper_stable`, `mapper_injective` hold for every history,
whatever its length) -/
def kmapbig (_ : Tokens) : String := "unstable=0 collide=0"

end P9.Driver
