import P9Model.Driver.K1
import P9Model.Session.Dispatch
namespace P9.Driver
open P9 P9.Session

structure K4State where
  st : Session.State := {}
  cf : Bool := false
  closes : List (Nat × Nat) := []       -- handle ↦ number of Close calls so far
deriving Inhabited

def splitOnC (c : Char) (s : List Char) : List (List Char) := splitC c s

def parseRes (v : List Char) : Res :=
  match splitOnC ':' v with
  | ['p','a','n','i','c'] :: _ => .panic
  | ['e','r','r'] :: e :: _ => .err ((natOfChars e).getD 0)
  | ['o','k'] :: is :: ss :: rs :: _ =>
    .ok (natList is)
        (if ss.isEmpty then [] else (splitOnC '|' ss).map unhexC)
        (parseRows rs)
  | ['o','k'] :: is :: ss :: [] =>
    .ok (natList is) (if ss.isEmpty then [] else (splitOnC '|' ss).map unhexC) []
  | _ => .err 9998

def parseTape (t : Tokens) : List Res :=
  (List.range (t.nat "tape")).map fun i => parseRes (t.getD s!"t{i}" "err:9997")

def commaN (l : List Nat) : String := ",".intercalate (l.map toString)

def showCalls (cs : List Call) (closes : List (Nat × Nat)) : List String × List (Nat × Nat) :=
  let rec go (cs : List Call) (i : Nat) (closes : List (Nat × Nat)) (acc : List String) : List String × List (Nat × Nat) :=
    match cs with
    | [] => (acc.reverse, closes)
    | c :: rest =>
      if c.meth == "Close" then
        let k := ((closes.find? (·.1 == c.h)).map (·.2)).getD 0 + 1
        go rest i ((c.h, k) :: closes.filter (·.1 != c.h)) (s!"close={c.h}#{k}" :: acc)
      else if c.meth == "Renamed" then
        go rest i closes (s!"renamed={c.h}:{c.ints.getD 0 0}:{hex ((c.names.map (·.1)).getD 0 [])}" :: acc)
      else
        let strs := "|".intercalate ((c.strs ++ c.names.map (·.1)).map hex)
        go rest (i+1) closes (s!"c{i}={c.h}.{c.meth}({commaN c.ints};{strs})" :: acc)
  go cs 0 closes []

def connLimit (s : Session.State) (conn : Nat) : Nat :=
  match (s.msize.find? (·.1 == conn)).map (·.2) with
  | some ms => min ms Session.maxLen
  | none => Session.maxLen

def k4 (s : K4State) (t : Tokens) : K4State × String :=
  let typ := t.nat "typ"
  let conn := t.nat "conn"
  match findSpec typ with
  | none => (s, "unknown-type")
  | some d =>
    let m := msgOfTokens d t
    let flen := (frame d (t.nat "tag") m).length
    if flen > connLimit s.st conn then (s, "noreply")     -- the frame exceeds msize: connection error
    else
      let r := handle s.st conn typ m (parseTape t) s.cf
      let (rtyp, rm) := r.reply
      let (callToks, closes) := showCalls r.calls s.closes
      let rd := (findSpec rtyp).getD d
      let rlen := (frame rd (t.nat "tag") rm).length
      let desync := if r.tapeLeft == 0 then [] else [s!"model-left-{r.tapeLeft}-tape-entries-unused"]
      ({ s with st := r.st, closes := closes },
       " ".intercalate ([s!"rtyp={rtyp}", s!"rtag={t.nat "tag"}", s!"rlen={rlen}"] ++ showMsg "r:" rd (normMsg rd rm) ++ callToks ++ desync))

def k4new (t : Tokens) : K4State × String := ({ cf := t.nat "cf" == 1 }, "ok")

def k4stop (s : K4State) (t : Tokens) : K4State × String :=
  let (st, calls) := Session.stop s.st (t.nat "conn")
  let (toks, closes) := showCalls calls s.closes
  ({ s with st := st, closes := closes }, " ".intercalate ("handle=returned" :: toks))

/-- the model's own lifecycle summary: handles never closed / closed twice (none: `closed` once). -/
def k4end (s : K4State) (_ : Tokens) : K4State × String :=
  let all := (List.range s.st.nextHandle).drop 1
  let leaks := all.filter fun h => !(s.closes.any (·.1 == h))
  let dbl := (s.closes.filter (·.2 > 1)).map (·.1)
  (s, s!"leaks={commaN leaks} dbl={commaN (dbl.mergeSort)} uac=")

end P9.Driver
