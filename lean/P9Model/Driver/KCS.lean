import P9Model.Driver.K4
import P9Model.Client.Stub
/-!
KCS driver: the transparency monitor.  From the client call alone (method, arguments, version,
receiver handle / fid) and the backend's scripted outcomes it prints what the property demands:
the backend calls (same arguments, documented rewriting only), the values returned to the caller
(the backend's, errors as errno) and the requests on the wire (only types the version defines).
-/
namespace P9.Driver
open P9 P9.Session P9.Client

def errnoOfKind (kind : List Char) (code : Nat) : Nat :=
  match String.ofList kind with
  | "L" | "WL" | "JL" => extract .linuxErrno code     -- (JL: inside errors.Join; errors.As searches the tree)
  | "S" | "PE" | "MS" => extract .sysErrno code       -- (MS: one of several %w)
  | "N" => extract .notExist code
  | "X" => extract .exist code
  | "P" => extract .permission code
  | "I" => extract .invalid code
  | "O" => extract .opaque code
  | _ => code

/-- tape entries `err:<code>:<kind>` are mapped through `ExtractErrno` -/
def parseResK (v : List Char) : Res :=
  match splitOnC ':' v with
  | ['e','r','r'] :: code :: kind :: _ => .err (errnoOfKind kind ((natOfChars code).getD 0))
  | _ => parseRes v

def parseTapeK (t : Tokens) : List Res :=
  (List.range (t.nat "tape")).map fun i => parseResK (t.getD s!"t{i}" "err:9997")

def nats (t : Tokens) (k : String) : List Nat := natList (t.getD k "")

/-- run a session action on a scratch context (only the call log, result and tape matter) -/
def runM {α : Type} (nh : Nat) (tape : List Res) (m : M α) : Option α × List Call :=
  match m { st := { nextHandle := nh }, tape := tape } with
  | .ok a c => (some a, c.calls.reverse)
  | .panic c => (none, c.calls.reverse)

def callToks (cs : List Call) : List String := (showCalls (cs.filter (·.meth != "Renamed")) []).1

def qidStr (l : List Nat) : String := s!"{l.getD 0 0},{l.getD 1 0},{l.getD 2 0}"
def zeros (n : Nat) : String := ",".intercalate (List.replicate n "0")

def wtok (i : Nat) (typ : Nat) (fields : List (String × String)) : List String :=
  s!"w{i}={typ}" :: fields.map fun (k, v) => s!"w{i}:{k}={v}"

def hexs (b : List Char) : String := String.ofList b

def kcs (t : Tokens) : String :=
  let v := t.nat "v"
  let h := t.nat "h"
  let fid := toString (t.nat "fid")
  let nh := t.nat "nh"
  let tape := parseTapeK t
  let m := t.str "m"
  let r0 := tape.head?
  let errOf : Option Res → Nat := fun r => match r with | some (.err e) => e | _ => 0
  let e0 := errOf r0
  let okInts : List Nat := match r0 with | some (.ok is _ _) => is | _ => []
  let okStrs : List Bytes := match r0 with | some (.ok _ ss _) => ss | _ => []
  let name := hexs (t.getD "name" "x")
  let uid' := fun (u g : Nat) => ids v u g
  let out : List String :=
    match m with
    | "StatFS" =>
      [s!"c0={h}.StatFS(;)", s!"err={e0}", "ret=" ++ (if e0 == 0 then commaN okInts else zeros 9)] ++ wtok 0 8 [("fid", fid)]
    | "GetAttr" =>
      let mask := t.nat "mask"
      [s!"c0={h}.GetAttr({mask};)", s!"err={e0}",
       "qid=" ++ (if e0 == 0 then qidStr okInts else "0,0,0"),
       "attr=" ++ (if e0 == 0 then commaN (okInts.drop 3) else zeros 19)] ++ wtok 0 24 [("fid", fid), ("AttrMask", toString mask)]
    | "SetAttr" =>
      let a := nats t "a"
      let a' := a.set 1 (a.getD 1 0 % 4096)
      [s!"c0={h}.SetAttr({commaN a'};)", s!"err={e0}"] ++
        wtok 0 26 ([("fid", fid), ("Valid", toString (a'.getD 0 0))] ++
          (["SetAttr.Permissions", "SetAttr.UID", "SetAttr.GID", "SetAttr.Size", "SetAttr.ATimeSeconds", "SetAttr.ATimeNanoSeconds",
            "SetAttr.MTimeSeconds", "SetAttr.MTimeNanoSeconds"].zip ((a'.drop 1).map toString)))
    | "Lock" =>
      let a := nats t "a"
      let cl := hexs (t.getD "client" "x")
      [s!"c0={h}.Lock({commaN a};{cl})", s!"err={e0}", s!"ret={if e0 == 0 then okInts.getD 0 0 else 0}"] ++
        wtok 0 52 [("fid", fid), ("PID", toString (a.getD 0 0)), ("Type", toString (a.getD 1 0)), ("Flags", toString (a.getD 2 0)),
                   ("Start", toString (a.getD 3 0)), ("Length", toString (a.getD 4 0)), ("Client", cl)]
    | "Open" =>
      let fl := t.nat "flags"
      [s!"c0={h}.Open({fl};)", s!"err={e0}", "qid=" ++ (if e0 == 0 then qidStr okInts else "0,0,0"),
       s!"iounit={if e0 == 0 then okInts.getD 3 0 else 0}"] ++ wtok 0 12 [("fid", fid), ("Flags", toString fl)]
    | "FSync" => [s!"c0={h}.FSync(;)", s!"err={e0}"] ++ wtok 0 50 [("fid", fid)]
    | "ReadAt" =>
      let len := t.nat "len"
      let off := t.nat "off"
      let d := okStrs.getD 0 []
      let err := if e0 != 0 then toString e0 else if d.isEmpty && len > 0 then "eof" else "0"
      [s!"c0={h}.ReadAt({len},{off};)", s!"err={err}", s!"n={if e0 == 0 then d.length else 0}", "data=" ++ (if e0 == 0 then hex d else "x")] ++
        wtok 0 116 [("fid", fid), ("Offset", toString off), ("Count", toString len)]
    | "WriteAt" =>
      let off := t.nat "off"
      let d := hexs (t.getD "data" "x")
      [s!"c0={h}.WriteAt({off};{d})", s!"err={e0}", s!"n={if e0 == 0 then okInts.getD 0 0 else 0}"] ++
        wtok 0 118 [("fid", fid), ("Offset", toString off), ("payload", d)]
    | "Create" =>
      let a := nats t "a"
      let (u, g) := uid' (a.getD 2 0) (a.getD 3 0)
      let perm := a.getD 1 0 % 4096
      [s!"c0={h}.Create({a.getD 0 0},{perm},{u},{g};{name})", s!"err={e0}", "qid=" ++ (if e0 == 0 then qidStr okInts else "0,0,0"),
       s!"iounit={if e0 == 0 then okInts.getD 3 0 else 0}"] ++
        wtok 0 (firstType v .create) ([("fid", fid), ("Name", name), ("OpenFlags", toString (a.getD 0 0)), ("Permissions", toString perm),
          ("GID", toString g)] ++ (if versionSupportsTucreation v then [("UID", toString u)] else []))
    | "Mkdir" =>
      let a := nats t "a"
      let (u, g) := uid' (a.getD 1 0) (a.getD 2 0)
      let perm := a.getD 0 0 % 4096
      [s!"c0={h}.Mkdir({perm},{u},{g};{name})", s!"err={e0}", "qid=" ++ (if e0 == 0 then qidStr okInts else "0,0,0")] ++
        wtok 0 (firstType v .mkdir) ([("Directory", fid), ("Name", name), ("Permissions", toString perm), ("GID", toString g)] ++
          (if versionSupportsTucreation v then [("UID", toString u)] else []))
    | "Symlink" =>
      let a := nats t "a"
      let (u, g) := uid' (a.getD 0 0) (a.getD 1 0)
      let tg := hexs (t.getD "target" "x")
      [s!"c0={h}.Symlink({u},{g};{tg}|{name})", s!"err={e0}", "qid=" ++ (if e0 == 0 then qidStr okInts else "0,0,0")] ++
        wtok 0 (firstType v .symlink) ([("Directory", fid), ("Name", name), ("Target", tg), ("GID", toString g)] ++
          (if versionSupportsTucreation v then [("UID", toString u)] else []))
    | "Mknod" =>
      let a := nats t "a"
      let (u, g) := uid' (a.getD 3 0) (a.getD 4 0)
      [s!"c0={h}.Mknod({a.getD 0 0},{a.getD 1 0},{a.getD 2 0},{u},{g};{name})", s!"err={e0}",
       "qid=" ++ (if e0 == 0 then qidStr okInts else "0,0,0")] ++
        wtok 0 (firstType v .mknod) ([("Directory", fid), ("Name", name), ("Mode", toString (a.getD 0 0)), ("Major", toString (a.getD 1 0)),
          ("Minor", toString (a.getD 2 0)), ("GID", toString g)] ++ (if versionSupportsTucreation v then [("UID", toString u)] else []))
    | "Link" =>
      [s!"c0={h}.Link({t.nat "th"};{name})", s!"err={e0}"] ++
        wtok 0 70 [("Directory", fid), ("Target", toString (t.nat "tfid")), ("Name", name)]
    | "UnlinkAt" =>
      [s!"c0={h}.UnlinkAt({t.nat "flags"};{name})", s!"err={e0}"] ++
        wtok 0 76 [("Directory", fid), ("Name", name), ("Flags", toString (t.nat "flags"))]
    | "RenameAt" =>
      let nn := hexs (t.getD "newname" "x")
      [s!"c0={h}.RenameAt({t.nat "dh"};{name}|{nn})", s!"err={e0}"] ++
        wtok 0 74 [("OldDirectory", fid), ("OldName", name), ("NewDirectory", toString (t.nat "dfid")), ("NewName", nn)]
    | "Rename" =>
      let nn := hexs (t.getD "newname" "x")
      [s!"c0={t.nat "ph"}.RenameAt({t.nat "dh"};{hexs (t.getD "pname" "x")}|{nn})", s!"err={e0}"] ++
        wtok 0 20 [("fid", fid), ("Directory", toString (t.nat "dfid")), ("Name", nn)]
    | "Remove" =>
      [s!"c0={t.nat "ph"}.UnlinkAt(0;{hexs (t.getD "pname" "x")})", s!"close={h}#1", s!"err={e0}"] ++ wtok 0 122 [("fid", fid)]
    | "Readdir" =>
      let rows := match r0 with | some (.ok _ _ rs) => rs | _ => []
      let es := fit direntK (min (t.nat "count") (8192 - 11)) 0 rows
      [s!"c0={h}.Readdir({t.nat "off"},{t.nat "count"};)", s!"err={e0}", "ents=" ++ showVal (.list (if e0 == 0 then es else []))] ++
        wtok 0 40 [("Directory", fid), ("Offset", toString (t.nat "off")), ("Count", toString (t.nat "count"))]
    | "Readlink" =>
      [s!"c0={h}.Readlink(;)", s!"err={e0}", "target=" ++ (if e0 == 0 then hex (okStrs.getD 0 []) else "x")] ++ wtok 0 22 [("fid", fid)]
    | "SetXattr" | "RemoveXattr" => ["err=38"]
    | "Walk" | "WalkGetAttr" =>
      let rawNames := (parseRows (t.getD "names" "[]")).map fun r => match r with | [.str s] => s | _ => []
      let names := (checkNames rawNames).getD []
      let wga := m == "WalkGetAttr"
      let viaTwga := wga && versionSupportsTwalkgetattr v
      -- server side of Twalk / Twalkgetattr for zero or one component
      let getattr := if names.isEmpty then viaTwga else true
      let (res, calls) := runM nh tape (walkOne h names getattr)
      let wire := wtok 0 (if viaTwga then 126 else 110) [("fid", fid), ("newFID", "N"), ("Names", hexs (t.getD "names" "[]"))]
      match res with
      | some (.ok (qs, nhh, valid, attr)) =>
        let qtok := "qids=" ++ showVal (.list (qidRows qs))
        if wga && !viaTwga then
          -- below version 2: Walk, then GetAttr(all) on the new file; on failure the new file is closed
          let rest := tape.drop calls.length
          match rest.head? with
          | some (.ok is _ _) =>
            callToks (calls ++ [⟨nhh, "GetAttr", [16383], [], []⟩]) ++ ["err=0", qtok, "attr=" ++ commaN (is.drop 3)] ++ wire ++
              wtok 1 24 [("fid", "N"), ("AttrMask", "16383")]
          | some (.err e) =>
            callToks (calls ++ [⟨nhh, "GetAttr", [16383], [], []⟩, ⟨nhh, "Close", [], [], []⟩]) ++ [s!"err={e}", "qids=[]", "attr=" ++ zeros 19] ++
              wire ++ wtok 1 24 [("fid", "N"), ("AttrMask", "16383")] ++ wtok 2 120 [("fid", "N")]
          | _ => ["tape-desync"]
        else if wga then
          callToks calls ++ ["err=0", qtok, s!"attr={valid}," ++ commaN attr] ++ wire
        else callToks calls ++ ["err=0", qtok] ++ wire
      | some (.error e) =>
        callToks calls ++ [s!"err={e}", "qids=[]"] ++ (if wga then ["attr=" ++ zeros 19] else []) ++ wire
      | none => ["model-panic"]
    | "GetXattr" | "ListXattrs" =>
      let isGet := m == "GetXattr"
      let first : Call := if isGet then ⟨h, "GetXattr", [], [unhexC (t.getD "name" "x")], []⟩ else ⟨h, "ListXattrs", [], [], []⟩
      let wire0 := wtok 0 30 [("fid", fid), ("newFID", "N"), ("Name", if isGet then name else "x")]
      let emptyRet := if isGet then "data=x" else "names=[]"
      match r0 with
      | some (.err e) => callToks [first] ++ [s!"err={e}", emptyRet] ++ wire0
      | some (.ok _ ss _) =>
        let buf : Bytes := if isGet then ss.getD 0 [] else (if ss.isEmpty then [0] else joinNul ss)
        match tape.getD 1 (.err 9996) with
        | .err e => callToks [first, ⟨h, "Walk", [], [], []⟩] ++ [s!"err={e}", emptyRet] ++ wire0
        | _ =>
          let ret := if isGet then "data=" ++ hex buf else "names=" ++ showVal (.list (ss.filter (· ≠ []) |>.map fun s => [.str s]))
          let reads := if buf.isEmpty then [] else wtok 1 116 [("fid", "N"), ("Offset", "0"), ("Count", toString buf.length)]
          let ci := if buf.isEmpty then 1 else 2
          callToks [first, ⟨h, "Walk", [], [], []⟩, ⟨nh, "Close", [], [], []⟩] ++ ["err=0", ret] ++ wire0 ++ reads ++ wtok ci 120 [("fid", "N")]
      | _ => ["tape-desync"]
    | _ => ["unknown-method"]
  " ".intercalate out

end P9.Driver
