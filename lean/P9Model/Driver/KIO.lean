import P9Model.Driver.Parse
import P9Model.Client.Version
import P9Model.Client.Stub
import P9Model.Client.Chunk
import P9Model.Wire.Registry
namespace P9.Driver
open P9 P9.Version P9.Chunk

/-- `calculateSize`: FixedSize() for payloaders, else the encoding of the zero message. -/
def calcSize (d : MsgDesc) : Nat :=
  if d.pay != .none then d.fixedSize
  else (d.layout.map fun k => match k with
    | .atom a => a.minLen
    | .list _ => 2).sum

/-- `msgDotLRegistry.largestFixedSize` over the protocol table. -/
def largestFixed : Nat := (Spec.messages.map fun m => calcSize m.desc).foldl max 0

def chunkBehaviour (table : List Char) (req off : Nat) : FnRes :=
  if table.isEmpty then ⟨req, none⟩ else
  match table.getD ((off / 5) % table.length) 'f' with
  | 'f' => ⟨req, none⟩
  | 's' => ⟨req - 1, none⟩
  | 'h' => ⟨req / 2, none⟩
  | 'z' => ⟨0, none⟩
  | 'e' => ⟨req / 2, some 5⟩
  | 'E' => ⟨0, some 5⟩
  | 'o' => ⟨req / 2, some 1⟩
  | _ => ⟨req, none⟩

def errOut (e : Option Nat) : Nat :=
  match e with
  | none => 0
  | some c => if c == eofCode then 1 else c

def kchunk (t : Tokens) : String :=
  let r := chunk (t.nat "cs") (chunkBehaviour (t.getD "table" "")) (t.nat "len") (t.nat "off")
  let calls := ",".intercalate (r.calls.map fun (n, o) => s!"{n}@{o}")
  s!"calls={calls} total={r.total} err={errOut r.err}"

def commaNats (l : List Nat) : String := ",".intercalate (l.map toString)

def kneg (t : Tokens) : String :=
  let req := t.nat "req"
  let hd := s!"tvm={req} tvv={hex (versionString (t.nat "reqv"))}"
  match negotiate largestFixed req (t.nat "rm") (t.bytes "rv") with
  | none => hd ++ " ok=0"
  | some c =>
    let F : Bytes := List.replicate (t.nat "flen") 0
    let rd := readAt c.payload F (t.nat "rlen") (t.nat "roff")
    let wr := chunk c.payload acceptAll (t.nat "wlen") (t.nat "woff")
    hd ++ s!" ok=1 ver={c.version} ms={c.msize} pl={c.payload}" ++
      s!" rcounts={commaNats (rd.calls.map (·.1))} rn={rd.total} rerr={errOut rd.err} rcontent=ok" ++
      s!" wframes={commaNats (wr.calls.map fun c => c.1 + 23)} wn={wr.total} werr={errOut wr.err} wcontent=ok oversize=0" ++
      -- the version-gated requests follow the version adopted from the reply (`Client.firstType`, C03 `version_types`)
      s!" mkdir={Client.firstType c.version .mkdir} create={Client.firstType c.version .create}" ++
      s!" symlink={Client.firstType c.version .symlink} mknod={Client.firstType c.version .mknod} wga={Client.firstType c.version .walkGetAttr}"

def klfs (_ : Tokens) : String := s!"lfs={largestFixed}"

end P9.Driver
