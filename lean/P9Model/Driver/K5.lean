import P9Model.Driver.Parse
import P9Model.Spec.Coherence
namespace P9.Driver
open P9 P9.Coherence

def parseNames (v : List Char) : List Bytes :=
  let inner := (v.dropWhile (· == '[')).takeWhile (· != ']')
  if inner.isEmpty then [] else (splitC ';' inner).map unhexC

def parseIds (v : List Char) : List Nat :=
  if v.isEmpty then [] else (splitC ',' v).filterMap natOfChars

def obsOfTokens (t : Tokens) : Obs :=
  let typ := t.nat "typ"
  { conn := t.nat "conn", typ := typ, rtyp := t.nat "rtyp", errno := t.nat "errno", ncalls := t.nat "ncalls",
    fid := t.nat "f:fid", newfid := t.nat "f:newFID",
    dir := if typ == 74 then t.nat "f:NewDirectory" else t.nat "f:Directory",
    olddir := t.nat "f:OldDirectory",
    name := unhexC (if typ == 74 then t.getD "f:NewName" "x" else t.getD "f:Name" "x"),
    oldname := unhexC (t.getD "f:OldName" "x"),
    names := parseNames (t.getD "f:Names" "[]"),
    id := (t.get? "id").bind natOfChars,
    ids := parseIds (t.getD "ids" ""),
    data := unhexC (t.getD "data" "x") }

/-- monitor state across one run: the reference model + how often it really judged something -/
structure K5State where
  fs : Fs := {}
  fenceChecks : Nat := 0      -- requests through a fenced fid (refusal demanded)
  identChecks : Nat := 0      -- replies whose identities were compared (walk / getattr / read)
  moves : Nat := 0            -- successful renames followed
deriving Inhabited

def k5obs (s : K5State) (t : Tokens) : K5State × String :=
  let o := obsOfTokens t
  let (fs', probs) := judge s.fs o
  let src := if o.typ == 74 then s.fs.obj o.conn o.olddir else if o.typ == 72 || o.typ == 16 || o.typ == 18 || o.typ == 76 || o.typ == 70 || o.typ == 40
    then s.fs.obj o.conn o.dir else s.fs.obj o.conn o.fid
  let fenced := match src with | some x => s.fs.isDead x && o.typ != 24 && o.typ != 116 && o.typ != 120 | none => false
  let ident := ok o && (o.typ == 110 || o.typ == 126 || o.typ == 24 || o.typ == 116) && src.isSome
  let s' := { s with fs := fs', fenceChecks := s.fenceChecks + (if fenced then 1 else 0),
                     identChecks := s.identChecks + (if ident then 1 else 0),
                     moves := s.moves + (if ok o && (o.typ == 74 || o.typ == 20) then 1 else 0) }
  match probs with
  | [] => (s', "ok=1")
  | p :: _ => (s', s!"ok=0 why={p.replace " " "_"}")

/-- end of a run: the monitor was not vacuous (the harness only asks after at least 500 requests) -/
def k5stats (s : K5State) : String :=
  if s.fenceChecks ≥ 5 && s.identChecks ≥ 50 && s.moves ≥ 5 then "nonvacuous=1"
  else s!"nonvacuous=0 fence={s.fenceChecks} ident={s.identChecks} moves={s.moves}"

end P9.Driver
