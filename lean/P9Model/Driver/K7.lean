import P9Model.Driver.Parse
import P9Model.Conc.Guards
import P9Model.Conc.ConnProto
namespace P9.Driver
open P9.Guards P9.Conn

/-- the K7 tree: root = 0, d = 1 (D), d/f = 2 (F), g = 3 (G) -/
def k7node (o : String) : Nat × Nat :=
  match o with
  | "D" => (1, 0) | "F" => (2, 1) | "G" => (3, 0) | _ => (0, 0)

def k7cls (c : String) : Cls :=
  match c with
  | "read" => .read | "write" => .write | "unlink" => .unlink 2 | "global" => .global
  | "cloneP" => .clone | "open" => .read | "remove" => .global | _ => .none

/-- k7pair: with `a` held in the backend, `b` overlaps iff every guard on its way is compatible
(the per-fid section of Tlopen is one more exclusive lock instance, keyed by `xa` / `xb`).  `b` is
refused before the backend when `a` has removed F and `b` depends on F's path (fencing, C08), or
when both open the same fid (the second finds it opened). -/
def k7pair (t : Tokens) : String :=
  let (na, pa) := k7node (t.str "oa")
  let (nb, pb) := k7node (t.str "ob")
  let sameSection := t.str "xa" != "-" && t.str "xa" == t.str "xb"
  let ov := overlaps (k7cls (t.str "ca")) na pa (k7cls (t.str "cb")) nb pb && !sameSection
  let removes := t.str "ca" == "unlink" || t.str "ca" == "remove"
  -- renaming F to where the first rename has already put it short-circuits (no backend call)
  let noop := t.str "a" == "renameF" && t.str "b" == "renameF"
  let fenced := (removes && t.nat "fb" == 1) || sameSection || noop
  -- (what may enter the backend while the first is held also finishes while it is held: nothing a
  --  handler does after its backend call waits for a lock the contract does not give the first)
  s!"overlap={if ov then 1 else 0} entered={if fenced then 0 else 1} answered=2 bdone={if ov then 1 else 0}"

/-- run the connection model to quiescence: fire the first enabled action not forbidden -/
def quiesce (forbid : Act → Nat → Bool) : Nat → St → St
  | 0, s => s
  | fuel + 1, s =>
    let acts : List Act := [.start, .waitTag, .wake, .leave, .finish, .send]
    let cands := (List.range s.reqs.length).flatMap fun i => acts.map fun a => (a, i)
    match cands.find? fun (a, i) => !forbid a i && (step s (.act a i)).isSome with
    | some (a, i) => match step s (.act a i) with
      | some s' => quiesce forbid fuel s'
      | none => s
    | none => s

def arriveAll (s : St) (rs : List (Nat × Option Nat)) : St :=
  rs.foldl (fun s (tag, fo) => (step s (.arrive tag fo)).getD s) s

def b2n (b : Bool) : Nat := if b then 1 else 0

/-- k7flush: request 0 (the victim) sits in the backend; then flush(es), a flush of an idle tag,
a flush of its own tag and an unrelated request arrive; the gate opens only afterwards. -/
def k7flush (t : Tokens) : String :=
  let chained := t.nat "chained" == 1
  let twice := t.nat "twice" == 1
  let s0 := arriveAll {} [(1, none)]
  -- the victim starts and enters the backend; nothing else of it may move while gated
  let s1 := ((step s0 (.act .start 0)).bind (step · (.act .enter 0))).getD s0
  let fl : List (Nat × Option Nat) :=
    [(2, some 1)] ++ (if chained then [(3, some 2)] else []) ++ (if twice then [(7, some 1)] else []) ++
      [(4, some 60000), (5, some 5), (6, none)]
  let s2 := arriveAll s1 fl
  -- request ids: 0 victim, 1 f1, (f2), (f3: a second flush of the victim), then idle, own, other
  let i3 := if chained then 3 else 2
  let k := i3 + (if twice then 1 else 0)
  let gated := quiesce (fun a i => i == 0 && (a == .leave || a == .enter)) 400 s2
  -- (the chained flush, request 2, names a Tflush: it may or may not have to wait – not counted)
  let early := (([0, 1] ++ (if twice then [i3] else [])).map (framesOf gated)).sum
  let idle := framesOf gated k
  let own := framesOf gated (k + 1)
  let other := framesOf gated (k + 2)
  -- release: the victim's backend call returns; unrelated request never enters a gated call again
  let fin := quiesce (fun a i => a == .enter && i == 0) 400 gated
  let rflush := b2n (framesOf fin 1 == 1 && (!chained || framesOf fin 2 == 1) && (!twice || framesOf fin i3 == 1))
  let rvictim := b2n (framesOf fin 0 == 1)
  let dup := ((List.range fin.reqs.length).map fun i => framesOf fin i - 1).sum
  s!"early={early} idle={idle} own={own} other={other} rflush={rflush} rvictim={rvictim} dup={dup}"

/-- k7tags: a burst of requests with distinct tags, some gated for a while: the final
accounting does not depend on the schedule (ConnInv) – run one schedule of the model -/
def k7tags (t : Tokens) : String :=
  let n := t.nat "burst"
  let s := arriveAll {} ((List.range n).map fun i => (i, none))
  let fin := quiesce (fun _ _ => false) (n * 8 + 8) s
  let missing := ((List.range n).filter fun i => framesOf fin i == 0).length
  let dup := ((List.range n).map fun i => framesOf fin i - 1).sum
  let unasked := (fin.out.filter fun (_, i) => i ≥ n).length
  s!"missing={missing} dup={dup} unasked={unasked} badframe=0 extra=0 wrongbody=0"

/-- k7reuse: a second request with a tag still in flight is dropped; after the reply the tag is
free again -/
def k7reuse (_ : Tokens) : String :=
  let s := arriveAll {} [(7, none)]
  let s := ((step s (.act .start 0)).bind (step · (.act .enter 0))).getD s
  let s := arriveAll s [(7, none)]
  let gated := quiesce (fun a i => i == 0 && (a == .leave || a == .enter)) 100 s
  let during := framesOf gated 1
  let fin := quiesce (fun a i => a == .enter && i == 0) 100 gated
  let s3 := arriveAll fin [(7, none)]
  let fin3 := quiesce (fun a i => a == .enter && i == 0) 100 s3
  s!"during={during} first={framesOf fin3 0} second={framesOf fin3 1} third={framesOf fin3 2} total={fin3.out.length}"

/-- k7rand / k7storm: the property's demand on any concurrent workload – everything is answered,
nobody observes anything else than alone, every File is closed exactly once and never used
afterwards (justified on the model side by C16 `no_deadlock` + `lock_order` + `lockset` and C05) -/
def k7rand (_ : Tokens) : String := "hung=0 diverged=0"
def k7storm (_ : Tokens) : String := "hung=0 unanswered=0 stophung=0 stray=0 bad=0 leaks= dbl= uac="

/-- kmutual: two Tflush naming each other's tags, pipelined: both are answered in every trial
(C06 `no_request_gets_stuck`: a flush never waits for a flush) -/
def kmutual (t : Tokens) : String :=
  if (t.get? "trials").isSome then "stuck=0" else "answered=2 handle_returned=1"

/-- k7scen: the regression scenarios state the property's demand directly -/
def k7scen (t : Tokens) : String :=
  match t.str "name" with
  | "close-blocked-other-fid-proceeds" => "progressed=1"
  | "two-tlopen-one-fid" => "opens=1"
  | "rename-samedir-while-last-ref-dropped" => "renamed=1 alive=1"
  | "rename-dir-while-child-closing" => "renamed=1 uac=0"
  | "rename-of-an-entry-whose-last-fid-is-closing" => "renamed=1 leaks= dbl= uac="
  | "cut-with-a-walk-in-the-backend" => "returned=1 leaks= dbl= uac="
  | "panic-in-a-read-class-call-keeps-serving" => "efault=1 setattr=1 renamed=1"
  | "two-tclunk-one-fid" => "rclunk=1 ebadf=1"
  | "refused-unlink-keeps-the-path-node" => "overlapped=0"
  | "clunk-races-inflight-read" => "clunked=1 closed_early=0 closed_after=1 uac=0"
  | "cut-with-request-in-backend" => "returned_early=0 closed_early=0 returned=1 leaks= dbl= uac="
  | "panic-in-unlinkat-keeps-serving" => "efault=1 child=1 again=1"
  | "panic-in-renamed-of-the-moved-entry-keeps-serving" => "efault=1 walked=1"
  | "panic-in-renamed-of-a-descendant-keeps-serving" => "efault=1 walked=1 again=1 leaks= dbl= uac="
  | "rread-keeps-its-data-while-waiting-to-be-written" => "clean=1"
  | "simultaneous-first-walks-share-one-path-node" => "overlap=0"
  | "undecodable-frame-leaves-no-tag-behind" => "rlerror=1 flush=1 reuse=1 stopped=1"
  | "self-flush-leaves-no-tag-behind" => "self=1 flush=1 reuse=1 stopped=1"
  | "rename-in-one-directory-through-two-fids" => "renamed=1 alive=1"
  | "moved-fid-and-fresh-fid-share-the-path-lock" => "formed=1 overlap=0"
  | _ => "?"

/-- kxconn: connections are independent transition systems (`ConnProto`): a frame written on one
carries the tag of a request accepted on that one (`one_reply`, `ConnInv`), whatever the others do. -/
def kxconn (_ : Tokens) : String := "bad=0 lost=0"

end P9.Driver
