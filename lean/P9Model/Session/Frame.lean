import P9Model.Session.Dispatch
/-!
# A small frame / preservation calculus for the session monad

`Pres R m`: running `m` from any context `c` ends – normally or by a panic – in a context
related to `c` by `R`.  For reflexive, transitive `R` this is closed under `pure`, `bind`,
`finally'`, `for` loops and case distinctions, so a preservation fact about the primitives
lifts to every handler by structural rules (no unfolding of do-notation internals beyond
`bind`).
-/
namespace P9.Session

def Pres (R : Ctx → Ctx → Prop) {α : Type} (m : M α) : Prop :=
  ∀ c, match m c with
    | .ok _ c' => R c c'
    | .panic c' => R c c'

class Rel (R : Ctx → Ctx → Prop) : Prop where
  refl : ∀ c, R c c
  trans : ∀ {a b c}, R a b → R b c → R a c

variable {R : Ctx → Ctx → Prop} [Rel R]

theorem Pres.pure {α : Type} (a : α) : Pres R (pure a : M α) := fun c => Rel.refl c

theorem Pres.bind {α β : Type} {m : M α} {f : α → M β} (hm : Pres R m) (hf : ∀ a, Pres R (f a)) :
    Pres R (m >>= f) := by
  intro c
  have h1 := hm c
  show match (Bind.bind m f : M β) c with | .ok _ c' => R c c' | .panic c' => R c c'
  simp only [Bind.bind]
  cases hmc : m c with
  | ok a c1 =>
    simp only [hmc] at h1
    have h2 := hf a c1
    simp only
    cases hfc : f a c1 with
    | ok b c2 => simp only [hfc] at h2; exact Rel.trans h1 h2
    | panic c2 => simp only [hfc] at h2; exact Rel.trans h1 h2
  | panic c1 =>
    simp only [hmc] at h1
    exact h1

theorem Pres.finally' {α : Type} {body : M α} {cleanup : M Unit} (hb : Pres R body) (hc : Pres R cleanup) :
    Pres R (finally' body cleanup) := by
  intro c
  have h1 := hb c
  unfold Session.finally'
  cases hbc : body c with
  | ok a c1 =>
    simp only [hbc] at h1
    have h2 := hc c1
    simp only
    cases hcc : cleanup c1 with
    | ok u c2 => simp only [hcc] at h2; exact Rel.trans h1 h2
    | panic c2 => simp only [hcc] at h2; exact Rel.trans h1 h2
  | panic c1 =>
    simp only [hbc] at h1
    have h2 := hc c1
    simp only
    cases hcc : cleanup c1 with
    | ok u c2 => simp only [hcc] at h2; exact Rel.trans h1 h2
    | panic c2 => simp only [hcc] at h2; exact Rel.trans h1 h2

theorem Pres.ite {α : Type} {p : Prop} [Decidable p] {a b : M α} (ha : Pres R a) (hb : Pres R b) :
    Pres R (if p then a else b) := by
  split <;> assumption

theorem Pres.goPanic {α : Type} : Pres R (goPanic : M α) := fun c => Rel.refl c

/-- a state update that `R` tolerates -/
theorem Pres.modS {f : State → State} (h : ∀ c : Ctx, R c { c with st := f c.st }) : Pres R (modS f) :=
  fun c => h c

theorem Pres.getS : Pres R getS := fun c => Rel.refl c
theorem Pres.getConn : Pres R getConn := fun c => Rel.refl c

end P9.Session

namespace P9.Session

/-- fid table, connection id and fault switch are untouched -/
def FidsSame (c c' : Ctx) : Prop :=
  c'.st.fids = c.st.fids ∧ c'.conn = c.conn ∧ c'.closeFaults = c.closeFaults

instance : Rel FidsSame where
  refl _ := ⟨rfl, rfl, rfl⟩
  trans h1 h2 := ⟨h2.1.trans h1.1, h2.2.1.trans h1.2.1, h2.2.2.trans h1.2.2⟩

theorem getRef_fids (r : Nat) : Pres FidsSame (getRef r) := by
  unfold getRef; exact Pres.bind Pres.getS (fun _ => Pres.pure _)
theorem getNode_fids (n : Nat) : Pres FidsSame (getNode n) := by
  unfold getNode; exact Pres.bind Pres.getS (fun _ => Pres.pure _)
theorem setRef_fids (r : Nat) (f : Ref → Ref) : Pres FidsSame (setRef r f) :=
  Pres.modS (fun _ => ⟨rfl, rfl, rfl⟩)
theorem setNode_fids (n : Nat) (f : Node → Node) : Pres FidsSame (setNode n f) :=
  Pres.modS (fun _ => ⟨rfl, rfl, rfl⟩)
theorem callClose_fids (h : Nat) : Pres FidsSame (callClose h) := fun _ => ⟨rfl, rfl, rfl⟩
theorem call_fids (h : Nat) (meth : String) (i : List Nat) (s : List Bytes) (n : List SafeName) :
    Pres FidsSame (call h meth i s n) := by
  intro c
  unfold call
  cases ht : c.tape with
  | nil => simp only [ht]; exact ⟨rfl, rfl, rfl⟩
  | cons r t => cases r <;> simp only [ht] <;> exact ⟨rfl, rfl, rfl⟩
theorem incRef_fids (r : Nat) : Pres FidsSame (incRef r) := setRef_fids r _
theorem removeChild_fids (n r : Nat) : Pres FidsSame (removeChild n r) := setNode_fids n _

theorem decRef_fids (fuel r : Nat) : Pres FidsSame (decRef fuel r) := by
  induction fuel generalizing r with
  | zero => exact Pres.pure _
  | succ f ih =>
    unfold decRef
    refine Pres.bind (getRef_fids r) (fun x => ?_)
    refine Pres.bind (setRef_fids r _) (fun _ => ?_)
    refine Pres.ite ?_ (Pres.pure _)
    refine Pres.bind (setRef_fids r _) (fun _ => ?_)
    refine Pres.bind (callClose_fids _) (fun e => ?_)
    split
    · exact Pres.pure _
    · refine Pres.bind (getRef_fids _) (fun px => ?_)
      refine Pres.bind (removeChild_fids _ _) (fun _ => ?_)
      exact Pres.bind (ih _) (fun _ => Pres.pure _)

theorem decRef'_fids (r : Nat) : Pres FidsSame (decRef' r) := by
  unfold decRef'; exact Pres.bind Pres.getS (fun _ => decRef_fids _ _)

theorem decRefU_fids (r : Nat) : Pres FidsSame (decRefU r) := by
  unfold decRefU; exact Pres.bind (decRef'_fids r) (fun _ => Pres.pure _)

end P9.Session
