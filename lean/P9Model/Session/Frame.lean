import P9Model.Session.Dispatch
/-!
# A small frame / preservation calculus for the session monad

`Pres R m`: running `m` from any context `c` ends – normally or by a panic – in a context
related to `c` by `R`.  For reflexive, transitive `R` this is closed under `pure`, `bind`,
`finally'`, `for` loops and case distinctions, so a preservation fact about the primitives
lifts to every handler by structural rules (no unfolding of do-notation internals beyond
`bind`).
-/
namespace P9.Session

def Pres (R : Ctx → Ctx → Prop) {α : Type} (m : M α) : Prop :=
  ∀ c, match m c with
    | .ok _ c' => R c c'
    | .panic c' => R c c'

class Rel (R : Ctx → Ctx → Prop) : Prop where
  refl : ∀ c, R c c
  trans : ∀ {a b c}, R a b → R b c → R a c

variable {R : Ctx → Ctx → Prop} [Rel R]

theorem Pres.pure {α : Type} (a : α) : Pres R (pure a : M α) := fun c => Rel.refl c

theorem Pres.bind {α β : Type} {m : M α} {f : α → M β} (hm : Pres R m) (hf : ∀ a, Pres R (f a)) :
    Pres R (m >>= f) := by
  intro c
  have h1 := hm c
  show match (Bind.bind m f : M β) c with | .ok _ c' => R c c' | .panic c' => R c c'
  simp only [Bind.bind]
  cases hmc : m c with
  | ok a c1 =>
    simp only [hmc] at h1
    have h2 := hf a c1
    simp only
    cases hfc : f a c1 with
    | ok b c2 => simp only [hfc] at h2; exact Rel.trans h1 h2
    | panic c2 => simp only [hfc] at h2; exact Rel.trans h1 h2
  | panic c1 =>
    simp only [hmc] at h1
    exact h1

theorem Pres.finally' {α : Type} {body : M α} {cleanup : M Unit} (hb : Pres R body) (hc : Pres R cleanup) :
    Pres R (finally' body cleanup) := by
  intro c
  have h1 := hb c
  unfold Session.finally'
  cases hbc : body c with
  | ok a c1 =>
    simp only [hbc] at h1
    have h2 := hc c1
    simp only
    cases hcc : cleanup c1 with
    | ok u c2 => simp only [hcc] at h2; exact Rel.trans h1 h2
    | panic c2 => simp only [hcc] at h2; exact Rel.trans h1 h2
  | panic c1 =>
    simp only [hbc] at h1
    have h2 := hc c1
    simp only
    cases hcc : cleanup c1 with
    | ok u c2 => simp only [hcc] at h2; exact Rel.trans h1 h2
    | panic c2 => simp only [hcc] at h2; exact Rel.trans h1 h2

theorem Pres.ite {α : Type} {p : Prop} [Decidable p] {a b : M α} (ha : Pres R a) (hb : Pres R b) :
    Pres R (if p then a else b) := by
  split <;> assumption

theorem Pres.goPanic {α : Type} : Pres R (goPanic : M α) := fun c => Rel.refl c

/-- a state update that `R` tolerates -/
theorem Pres.modS {f : State → State} (h : ∀ c : Ctx, R c { c with st := f c.st }) : Pres R (modS f) :=
  fun c => h c

theorem Pres.getS : Pres R getS := fun c => Rel.refl c
theorem Pres.getConn : Pres R getConn := fun c => Rel.refl c

end P9.Session

namespace P9.Session

/-- fid table, connection id and fault switch are untouched -/
def FidsSame (c c' : Ctx) : Prop :=
  c'.st.fids = c.st.fids ∧ c'.conn = c.conn ∧ c'.closeFaults = c.closeFaults

instance : Rel FidsSame where
  refl _ := ⟨rfl, rfl, rfl⟩
  trans h1 h2 := ⟨h2.1.trans h1.1, h2.2.1.trans h1.2.1, h2.2.2.trans h1.2.2⟩

theorem getRef_fids (r : Nat) : Pres FidsSame (getRef r) := by
  unfold getRef; exact Pres.bind Pres.getS (fun _ => Pres.pure _)
theorem getNode_fids (n : Nat) : Pres FidsSame (getNode n) := by
  unfold getNode; exact Pres.bind Pres.getS (fun _ => Pres.pure _)
theorem setRef_fids (r : Nat) (f : Ref → Ref) : Pres FidsSame (setRef r f) :=
  Pres.modS (fun _ => ⟨rfl, rfl, rfl⟩)
theorem setNode_fids (n : Nat) (f : Node → Node) : Pres FidsSame (setNode n f) :=
  Pres.modS (fun _ => ⟨rfl, rfl, rfl⟩)
theorem callClose_fids (h : Nat) : Pres FidsSame (callClose h) := fun _ => ⟨rfl, rfl, rfl⟩
theorem call_fids (h : Nat) (meth : String) (i : List Nat) (s : List Bytes) (n : List SafeName) :
    Pres FidsSame (call h meth i s n) := by
  intro c
  unfold call
  cases ht : c.tape with
  | nil => simp only [ht]; exact ⟨rfl, rfl, rfl⟩
  | cons r t => cases r <;> simp only [ht] <;> exact ⟨rfl, rfl, rfl⟩
theorem incRef_fids (r : Nat) : Pres FidsSame (incRef r) := setRef_fids r _
theorem removeChild_fids (n r : Nat) : Pres FidsSame (removeChild n r) := setNode_fids n _

theorem decRef_fids (fuel r : Nat) : Pres FidsSame (decRef fuel r) := by
  induction fuel generalizing r with
  | zero => exact Pres.pure _
  | succ f ih =>
    unfold decRef
    refine Pres.bind (getRef_fids r) (fun x => ?_)
    refine Pres.bind (setRef_fids r _) (fun _ => ?_)
    refine Pres.ite ?_ (Pres.pure _)
    refine Pres.bind (setRef_fids r _) (fun _ => ?_)
    refine Pres.bind (callClose_fids _) (fun e => ?_)
    split
    · exact Pres.pure _
    · refine Pres.bind (getRef_fids _) (fun px => ?_)
      refine Pres.bind (removeChild_fids _ _) (fun _ => ?_)
      exact Pres.bind (ih _) (fun _ => Pres.pure _)

theorem decRef'_fids (r : Nat) : Pres FidsSame (decRef' r) := by
  unfold decRef'; exact Pres.bind Pres.getS (fun _ => decRef_fids _ _)

theorem decRefU_fids (r : Nat) : Pres FidsSame (decRefU r) := by
  unfold decRefU; exact Pres.bind (decRef'_fids r) (fun _ => Pres.pure _)

end P9.Session

namespace P9.Session
variable {R : Ctx → Ctx → Prop} [Rel R]

theorem Pres.forEach {α : Type} (l : List α) (f : α → M Unit) (hf : ∀ a, Pres R (f a)) :
    Pres R (forEach l f) := by
  induction l with
  | nil => exact Pres.pure _
  | cons a as ih => unfold Session.forEach; exact Pres.bind (hf a) (fun _ => ih)

/-! ### everything except the binding operations leaves the fid table alone -/

theorem isDeleted_fids (r : Nat) : Pres FidsSame (isDeleted r) := by
  unfold isDeleted
  exact Pres.bind (getRef_fids r) (fun _ => Pres.bind (getNode_fids _) (fun _ => Pres.pure _))

theorem lookupFidRaw_fids (fid : Nat) : Pres FidsSame (lookupFidRaw fid) := by
  unfold lookupFidRaw
  exact Pres.bind Pres.getS (fun _ => Pres.bind Pres.getConn (fun _ => Pres.pure _))

theorem lookupFid_fids (fid : Nat) : Pres FidsSame (lookupFid fid) := by
  unfold lookupFid
  refine Pres.bind (lookupFidRaw_fids fid) (fun o => ?_)
  cases o with
  | none => exact Pres.pure _
  | some r => exact Pres.bind (incRef_fids r) (fun _ => Pres.pure _)

theorem withFid_fids (fid : Nat) (body : Nat → M Reply) (hb : ∀ r, Pres FidsSame (body r)) :
    Pres FidsSame (withFid fid body) := by
  unfold withFid
  refine Pres.bind (lookupFid_fids fid) (fun o => ?_)
  cases o with
  | none => exact Pres.pure _
  | some r => exact Pres.finally' (hb r) (decRefU_fids r)

theorem connMsize_fids : Pres FidsSame connMsize := by
  unfold connMsize
  exact Pres.bind Pres.getS (fun _ => Pres.bind Pres.getConn (fun _ => Pres.pure _))

end P9.Session

namespace P9.Session

theorem newRef_fids (r : Ref) : Pres FidsSame (newRef r) := fun _ => ⟨rfl, rfl, rfl⟩
theorem newNode_fids : Pres FidsSame newNode := fun _ => ⟨rfl, rfl, rfl⟩
theorem newHandle_fids : Pres FidsSame newHandle := fun _ => ⟨rfl, rfl, rfl⟩

theorem whenSome_fids {α : Type} (o : Option α) (f : α → M Unit) (hf : ∀ a, Pres FidsSame (f a)) :
    Pres FidsSame (whenSome o f) := by
  unfold whenSome; split
  · exact hf _
  · exact Pres.pure _

theorem panicIf_fids (b : Bool) : Pres FidsSame (panicIf b) := by
  unfold panicIf; exact Pres.ite Pres.goPanic (Pres.pure _)

theorem pathNodeFor_fids (n : Nat) (name : SafeName) : Pres FidsSame (pathNodeFor n name) := by
  unfold pathNodeFor
  refine Pres.bind (getNode_fids n) (fun nd => ?_)
  split
  · exact Pres.pure _
  · exact Pres.bind newNode_fids (fun _ => Pres.bind (setNode_fids _ _) (fun _ => Pres.pure _))

theorem addChild_fids (n r : Nat) (name : SafeName) : Pres FidsSame (addChild n r name) := by
  unfold addChild
  refine Pres.bind (getNode_fids n) (fun nd => ?_)
  exact Pres.ite Pres.goPanic (setNode_fids _ _)

theorem nameFor_fids (n r : Nat) : Pres FidsSame (nameFor n r) := by
  unfold nameFor
  refine Pres.bind (getNode_fids n) (fun nd => ?_)
  split
  · exact Pres.pure _
  · exact Pres.goPanic

theorem notifyDelete_fids (fuel n : Nat) : Pres FidsSame (notifyDelete fuel n) := by
  induction fuel generalizing n with
  | zero => exact Pres.pure _
  | succ f ih =>
    unfold notifyDelete
    refine Pres.bind (setNode_fids _ _) (fun _ => Pres.bind (getNode_fids _) (fun nd => ?_))
    exact Pres.forEach _ _ (fun e => ih _)

theorem markChildDeleted_fids (n : Nat) (name : SafeName) : Pres FidsSame (markChildDeleted n name) := by
  unfold markChildDeleted
  refine Pres.bind (getNode_fids n) (fun nd => Pres.bind (setNode_fids _ _) (fun _ => ?_))
  split
  · exact Pres.bind Pres.getS (fun _ => notifyDelete_fids _ _)
  · exact Pres.pure _

theorem callRenamed_fids (h p : Nat) (n : SafeName) : Pres FidsSame (callRenamed h p n) :=
  fun _ => ⟨rfl, rfl, rfl⟩

theorem notifyNameChange_fids (fuel n : Nat) : Pres FidsSame (notifyNameChange fuel n) := by
  induction fuel generalizing n with
  | zero => exact Pres.pure _
  | succ f ih =>
    unfold notifyNameChange
    refine Pres.bind (getNode_fids _) (fun nd => Pres.bind ?_ (fun _ => ?_))
    · refine Pres.forEach _ _ (fun e => Pres.bind (getRef_fids _) (fun x => ?_))
      split
      · exact Pres.bind (getRef_fids _) (fun _ => callRenamed_fids _ _ _)
      · exact Pres.pure _
    · exact Pres.forEach _ _ (fun e => ih _)

theorem renameMoved_fids (t tn : Nat) (n : SafeName) (tf : Nat) (l : List (Nat × SafeName)) :
    Pres FidsSame (renameMoved t tn n tf l) := by
  induction l with
  | nil => exact Pres.pure _
  | cons e rest ih =>
    unfold renameMoved
    refine Pres.bind (getRef_fids _) (fun x => Pres.ite ?_ ih)
    refine Pres.bind (incRef_fids _) (fun _ => Pres.bind (whenSome_fids _ _ (fun p => decRefU_fids p)) (fun _ => ?_))
    refine Pres.bind (setRef_fids _ _) (fun _ => Pres.bind (incRef_fids _) (fun _ => ?_))
    refine Pres.bind (addChild_fids _ _ _) (fun _ => Pres.bind (callRenamed_fids _ _ _) (fun _ => ?_))
    exact Pres.bind ih (fun _ => Pres.pure _)

theorem renameChildTo_fids (f : Nat) (o : SafeName) (t : Nat) (n : SafeName) :
    Pres FidsSame (renameChildTo f o t n) := by
  unfold renameChildTo
  refine Pres.bind (getRef_fids _) (fun fx => Pres.bind (getRef_fids _) (fun tx => ?_))
  refine Pres.bind (markChildDeleted_fids _ _) (fun _ => Pres.bind (getNode_fids _) (fun fnode => ?_))
  refine Pres.bind (setNode_fids _ _) (fun _ => Pres.bind (renameMoved_fids _ _ _ _ _) (fun pinned => ?_))
  refine Pres.bind (Pres.forEach _ _ (fun r => decRefU_fids r)) (fun _ => ?_)
  split
  · refine Pres.bind (getNode_fids _) (fun tn => ?_)
    refine Pres.bind (panicIf_fids _) (fun _ => ?_)
    exact Pres.bind (setNode_fids _ _) (fun _ => Pres.bind Pres.getS (fun _ => notifyNameChange_fids _ _))
  · exact Pres.pure _

theorem dirGuard_fids (r : Nat) : Pres FidsSame (dirGuard r) := by
  unfold dirGuard
  refine Pres.bind (getRef_fids _) (fun x => Pres.bind (isDeleted_fids _) (fun d => ?_))
  exact Pres.ite (Pres.pure _) (Pres.ite (Pres.pure _) (Pres.pure _))

end P9.Session

namespace P9.Session

theorem Pres.mono {R R' : Ctx → Ctx → Prop} {α : Type} {m : M α} (h : ∀ a b, R a b → R' a b)
    (hm : Pres R m) : Pres R' m := by
  intro c
  have := hm c
  cases hmc : m c with
  | ok a c' => simp only [hmc] at this; exact h _ _ this
  | panic c' => simp only [hmc] at this; exact h _ _ this

/-- the fid bindings of *other* connections, the connection id and the fault switch are
untouched (what the binding operations preserve). -/
def OthersSame (c c' : Ctx) : Prop :=
  c'.st.fids.filter (·.1.1 != c.conn) = c.st.fids.filter (·.1.1 != c.conn) ∧
  c'.conn = c.conn ∧ c'.closeFaults = c.closeFaults

instance : Rel OthersSame where
  refl _ := ⟨rfl, rfl, rfl⟩
  trans := by
    intro a b c h1 h2
    refine ⟨?_, h2.2.1.trans h1.2.1, h2.2.2.trans h1.2.2⟩
    have := h2.1
    rw [h1.2.1] at this
    exact this.trans h1.1

theorem fidsSame_othersSame (a b : Ctx) (h : FidsSame a b) : OthersSame a b :=
  ⟨by rw [h.1], h.2.1, h.2.2⟩

/-- lift a `FidsSame` fact -/
theorem Pres.others {α : Type} {m : M α} (h : Pres FidsSame m) : Pres OthersSame m :=
  Pres.mono fidsSame_othersSame h

theorem filter_other_cons (l : List ((Nat × Nat) × Nat)) (conn fid r : Nat) :
    (((conn, fid), r) :: l.filter (·.1 != (conn, fid))).filter (·.1.1 != conn) = l.filter (·.1.1 != conn) := by
  simp only [List.filter_cons, bne_self_eq_false, Bool.false_eq_true, if_false, List.filter_filter]
  apply List.filter_congr
  intro x _
  by_cases h : x.1.1 = conn
  · simp [h]
  · have : x.1 ≠ (conn, fid) := fun e => h (by rw [e])
    simp [h, this]

theorem filter_other_filter (l : List ((Nat × Nat) × Nat)) (conn fid : Nat) :
    (l.filter (·.1 != (conn, fid))).filter (·.1.1 != conn) = l.filter (·.1.1 != conn) := by
  simp only [List.filter_filter]
  apply List.filter_congr
  intro x _
  by_cases h : x.1.1 = conn
  · simp [h]
  · have : x.1 ≠ (conn, fid) := fun e => h (by rw [e])
    simp [h, this]

theorem insertFid_others (fid r : Nat) : Pres OthersSame (insertFid fid r) := by
  unfold insertFid
  refine Pres.bind (Pres.others (lookupFidRaw_fids fid)) (fun orig => ?_)
  intro c
  simp only [bind, getConn, incRef, setRef, modS]
  have key : OthersSame c { c with st := { c.st with
      refs := c.st.refs.set r { (c.st.refs.getD r default) with refs := (c.st.refs.getD r default).refs + 1 },
      fids := ((c.conn, fid), r) :: c.st.fids.filter (·.1 != (c.conn, fid)) } } :=
    ⟨filter_other_cons _ _ _ _, rfl, rfl⟩
  cases orig with
  | none => exact key
  | some o =>
    simp only
    have hp := Pres.others (decRefU_fids o) { c with st := { c.st with
      refs := c.st.refs.set r { (c.st.refs.getD r default) with refs := (c.st.refs.getD r default).refs + 1 },
      fids := ((c.conn, fid), r) :: c.st.fids.filter (·.1 != (c.conn, fid)) } }
    cases hd : decRefU o { c with st := { c.st with
      refs := c.st.refs.set r { (c.st.refs.getD r default) with refs := (c.st.refs.getD r default).refs + 1 },
      fids := ((c.conn, fid), r) :: c.st.fids.filter (·.1 != (c.conn, fid)) } } with
    | ok a c' => simp only [hd] at hp; exact Rel.trans key hp
    | panic c' => simp only [hd] at hp; exact Rel.trans key hp

theorem deleteFid_others (fid : Nat) : Pres OthersSame (deleteFid fid) := by
  unfold deleteFid
  refine Pres.bind (Pres.others (lookupFidRaw_fids fid)) (fun o => ?_)
  cases o with
  | none => exact Pres.pure _
  | some r =>
    intro c
    simp only [bind, getConn, modS]
    have key : OthersSame c { c with st := { c.st with fids := c.st.fids.filter (·.1 != (c.conn, fid)) } } :=
      ⟨filter_other_filter _ _ _, rfl, rfl⟩
    have hp := Pres.others (decRef'_fids r) { c with st := { c.st with fids := c.st.fids.filter (·.1 != (c.conn, fid)) } }
    cases hd : decRef' r { c with st := { c.st with fids := c.st.fids.filter (·.1 != (c.conn, fid)) } } with
    | ok a c' => simp only [hd] at hp; exact Rel.trans key hp
    | panic c' => simp only [hd] at hp; exact Rel.trans key hp

end P9.Session

namespace P9.Session

/-- `m` never panics -/
def NoPanic {α : Type} (m : M α) : Prop := ∀ c, ∃ a c', m c = .ok a c'

theorem NoPanic.pure {α : Type} (a : α) : NoPanic (pure a : M α) := fun c => ⟨a, c, rfl⟩
theorem NoPanic.bind {α β : Type} {m : M α} {f : α → M β} (hm : NoPanic m) (hf : ∀ a, NoPanic (f a)) :
    NoPanic (m >>= f) := by
  intro c
  obtain ⟨a, c1, h1⟩ := hm c
  obtain ⟨b, c2, h2⟩ := hf a c1
  exact ⟨b, c2, by simp only [Bind.bind, h1, h2]⟩
theorem NoPanic.ite {α : Type} {p : Prop} [Decidable p] {a b : M α} (ha : NoPanic a) (hb : NoPanic b) :
    NoPanic (if p then a else b) := by split <;> assumption
theorem NoPanic.getS : NoPanic getS := fun c => ⟨_, c, rfl⟩
theorem NoPanic.modS (f : State → State) : NoPanic (modS f) := fun c => ⟨_, _, rfl⟩
theorem NoPanic.getRef (r : Nat) : NoPanic (getRef r) := by
  unfold Session.getRef; exact NoPanic.bind NoPanic.getS (fun _ => NoPanic.pure _)
theorem NoPanic.setRef (r : Nat) (f : Ref → Ref) : NoPanic (setRef r f) := NoPanic.modS _
theorem NoPanic.setNode (n : Nat) (f : Node → Node) : NoPanic (setNode n f) := NoPanic.modS _
theorem NoPanic.callClose (h : Nat) : NoPanic (callClose h) := fun c => ⟨_, _, rfl⟩

/-- `DecRef` (hence every deferred cleanup and `stop()`) never panics in the model: `Close`'s
error is returned, never thrown. -/
theorem NoPanic.decRef (fuel r : Nat) : NoPanic (decRef fuel r) := by
  induction fuel generalizing r with
  | zero => exact NoPanic.pure _
  | succ f ih =>
    unfold Session.decRef
    refine NoPanic.bind (NoPanic.getRef r) (fun x => NoPanic.bind (NoPanic.setRef _ _) (fun _ => ?_))
    refine NoPanic.ite ?_ (NoPanic.pure _)
    refine NoPanic.bind (NoPanic.setRef _ _) (fun _ => NoPanic.bind (NoPanic.callClose _) (fun e => ?_))
    split
    · exact NoPanic.pure _
    · refine NoPanic.bind (NoPanic.getRef _) (fun px => NoPanic.bind ?_ (fun _ => ?_))
      · unfold removeChild; exact NoPanic.setNode _ _
      · exact NoPanic.bind (ih _) (fun _ => NoPanic.pure _)

end P9.Session
