import P9Model.Session.Refuse
/-!
# Handlers that reach the backend: evaluating `LookupFID; defer DecRef; body` when the body makes a call
-/
namespace P9.Session
open P9

/-- the context after a backend call that did not panic: the call logged, one tape entry used -/
def called (h : Nat) (meth : String) (ints : List Nat) (strs : List Bytes) (names : List SafeName)
    (rest : List Res) (c : Ctx) : Ctx :=
  { c with calls := ⟨h, meth, ints, strs, names⟩ :: c.calls, tape := rest }

theorem call_eval (h : Nat) (meth : String) (ints : List Nat) (strs : List Bytes) (names : List SafeName)
    (c : Ctx) (r : Res) (rest : List Res) (ht : c.tape = r :: rest) (hr : r ≠ .panic) :
    call h meth ints strs names c = .ok r (called h meth ints strs names rest c) := by
  unfold call called
  simp only [ht]

/-- `LookupFID; defer DecRef; body` on a bound fid whose body answers without touching the
reference itself: the answer is the body's, the count is back where it was -/
theorem withFid_reply (fid t : Nat) (body : Nat → M Reply) (c c1 : Ctx) (reply : Reply) (h : Bound fid t c)
    (hb : body t (pinned t c) = .ok reply c1)
    (hsame : c1.st.refs.getD t default = (pinned t c).st.refs.getD t default) :
    withFid fid body c = .ok reply (unpinned t c1) := by
  have hl : lookupFid fid c = .ok (some t) (pinned t c) := by
    unfold lookupFid lookupFidRaw getS getConn incRef setRef modS
    simp [bind, pure, h.bound, pinned]
  have hx := pinned_getD t c h.inRange
  have hne : (c1.st.refs.getD t default).refs ≠ 1 := by
    rw [hsame, hx]
    have hlive := h.live
    show (c.st.refs.getD t default).refs + 1 ≠ 1
    omega
  unfold withFid
  simp only [bind, hl, finally', hb, decRefU_noclose t _ hne]

end P9.Session
