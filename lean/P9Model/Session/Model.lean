import P9Model.Wire.Msg
/-!
# M3 — the server's session state machine (model of p9/handlers.go, server.go, path_tree.go)

Sequential semantics: one request at a time (interleavings are `Conc/`).  The backend is an
**oracle tape**: every backend call consumes the next scripted outcome and is appended to the
call log with its receiver handle and arguments.  `Close` and `Renamed` are not on the tape
(their order inside one request follows Go map iteration and is not deterministic): `Close`'s
outcome is a fixed function of the handle, `Renamed` has no outcome.

Go's `defer` is modelled by `finally`: deferred actions run on normal return *and* while a
backend panic unwinds; `handle`'s `recover` turns the panic into Rlerror(EFAULT).
-/
namespace P9.Session
open P9

/-! ## errno and protocol constants used by the handlers -/
def EPERM := 1
def ENOENT := 2
def EIO := 5
def EBADF := 9
def EFAULT := 14
def EBUSY := 16
def EISDIR := 21
def EINVAL := 22
def ENOSYS := 38
def ENOBUFS := 105
def NOFID := 4294967295
def maxLen := 4 * 1024 * 1024
def attrMaskAll := 0x3fff

def modeMask := 0o170000
def ModeDir := 0o040000
def ModeReg := 0o100000
def ModeSymlink := 0o120000
def ModeFifo := 0o010000
def ModeBlock := 0o060000
def ModeChar := 0o020000

def fileType (m : Nat) : Nat := m &&& modeMask
def isDir (m : Nat) : Bool := fileType m == ModeDir
def canOpen (m : Nat) : Bool :=
  let t := fileType m
  t == ModeReg || t == ModeDir || t == ModeFifo || t == ModeBlock || t == ModeChar

/-- `checkSafeName` -/
def safeName (n : Bytes) : Bool := n != [] && !n.contains 0x2f && n != [0x2e] && n != [0x2e, 0x2e]

/-- a path component that passed `checkSafeName`: the only kind of name the path tree stores
and the only kind a backend call can carry in a name position (intrinsic invariant). -/
def SafeName := { n : Bytes // safeName n = true }

instance : DecidableEq SafeName := inferInstanceAs (DecidableEq { n : Bytes // safeName n = true })
instance : Repr SafeName := ⟨fun n _ => repr n.1⟩

/-- `checkSafeName` on every component. -/
def checkNames : List Bytes → Option (List SafeName)
  | [] => some []
  | n :: ns =>
    if h : safeName n = true then (checkNames ns).map (⟨n, h⟩ :: ·) else none

/-! ## state -/

structure XAttr where
  op : Nat := 0          -- 0 none, 1 create, 2 walk
  name : Bytes := []
  size : Nat := 0
  flags : Nat := 0
  buf : Bytes := []
deriving Repr, DecidableEq, Inhabited

structure Ref where
  file : Nat
  mode : Nat
  opened : Bool := false
  openFlags : Nat := 0
  x : XAttr := {}
  refs : Nat := 0
  node : Nat
  parent : Option Nat := none
  closed : Bool := false
deriving Repr, DecidableEq, Inhabited

structure Node where
  deleted : Bool := false
  childNodes : List (SafeName × Nat) := []
  childRefs : List (Nat × SafeName) := []    -- childRefNames (ref ↦ name)
deriving Repr, DecidableEq, Inhabited

structure State where
  fids : List ((Nat × Nat) × Nat) := []      -- (conn, fid) ↦ ref
  refs : List Ref := []
  nodes : List Node := [{}]                  -- node 0 = Server.pathTree
  nextHandle : Nat := 1
  msize : List (Nat × Nat) := []             -- conn ↦ negotiated msize (absent = none yet)
deriving Repr, Inhabited

/-- scripted outcome of one backend call -/
inductive Res
  | ok (ints : List Nat) (strs : List Bytes) (rows : List (List Atom))
  | err (e : Nat)
  | panic
deriving Repr, Inhabited

structure Call where
  h : Nat
  meth : String
  ints : List Nat := []
  strs : List Bytes := []
  /-- the arguments that are path components (walk / create / … names) -/
  names : List SafeName := []
deriving Repr, DecidableEq, Inhabited

structure Ctx where
  st : State
  tape : List Res
  calls : List Call := []                    -- newest first
  conn : Nat := 0
  /-- Close(h) fails with EIO when `closeFaults` and h % 11 = 7 -/
  closeFaults : Bool := false
deriving Inhabited

inductive Out (α : Type)
  | ok (a : α) (c : Ctx)
  | panic (c : Ctx)

def M (α : Type) := Ctx → Out α

instance : Monad M where
  pure a := fun c => .ok a c
  bind m f := fun c =>
    match m c with
    | .ok a c' => f a c'
    | .panic c' => .panic c'

/-- Go `defer`: `cleanup` runs after `body`, also while a panic unwinds. -/
def finally' {α : Type} (body : M α) (cleanup : M Unit) : M α := fun c =>
  match body c with
  | .ok a c' =>
    match cleanup c' with
    | .ok _ c'' => .ok a c''
    | .panic c'' => .panic c''
  | .panic c' =>
    match cleanup c' with
    | .ok _ c'' => .panic c''
    | .panic c'' => .panic c''

def getS : M State := fun c => .ok c.st c
def setS (s : State) : M Unit := fun c => .ok () { c with st := s }
def modS (f : State → State) : M Unit := fun c => .ok () { c with st := f c.st }
def getConn : M Nat := fun c => .ok c.conn c
def goPanic {α : Type} : M α := fun c => .panic c

/-- a backend call that takes its outcome from the tape -/
def call (h : Nat) (meth : String) (ints : List Nat := []) (strs : List Bytes := [])
    (names : List SafeName := []) : M Res := fun c =>
  let c := { c with calls := ⟨h, meth, ints, strs, names⟩ :: c.calls }
  match c.tape with
  | [] => .ok (.err 9999) c                              -- tape exhausted: desynchronised
  | .panic :: t => .panic { c with tape := t }
  | r :: t => .ok r { c with tape := t }

/-- `File.Close()`: outcome is a function of the handle (see header). Returns the errno, 0 = nil. -/
def callClose (h : Nat) : M Nat := fun c =>
  let c := { c with calls := ⟨h, "Close", [], [], []⟩ :: c.calls }
  .ok (if c.closeFaults && h % 11 == 7 then EIO else 0) c

def callRenamed (h parentH : Nat) (name : SafeName) : M Unit := fun c =>
  .ok () { c with calls := ⟨h, "Renamed", [parentH], [], [name]⟩ :: c.calls }

/-- `for x in l do f x` as plain structural recursion (proof-friendly). -/
def forEach {α : Type} : List α → (α → M Unit) → M Unit
  | [], _ => pure ()
  | a :: as, f => do f a; forEach as f

/-! ## references -/

def getRef (r : Nat) : M Ref := do return (← getS).refs.getD r default
def setRef (r : Nat) (f : Ref → Ref) : M Unit :=
  modS fun s => { s with refs := s.refs.set r (f (s.refs.getD r default)) }
def newRef (r : Ref) : M Nat := fun c =>
  .ok c.st.refs.length { c with st := { c.st with refs := c.st.refs ++ [r] } }
/-- a fresh path node -/
def newNode : M Nat := fun c =>
  .ok c.st.nodes.length { c with st := { c.st with nodes := c.st.nodes ++ [{}] } }
/-- the id the backend gives to the next File it hands out -/
def newHandle : M Nat := fun c =>
  .ok c.st.nextHandle { c with st := { c.st with nextHandle := c.st.nextHandle + 1 } }
def whenSome {α : Type} (o : Option α) (f : α → M Unit) : M Unit :=
  match o with
  | some a => f a
  | none => pure ()
def panicIf (b : Bool) : M Unit := if b then goPanic else pure ()
def getNode (n : Nat) : M Node := do return (← getS).nodes.getD n default
def setNode (n : Nat) (f : Node → Node) : M Unit :=
  modS fun s => { s with nodes := s.nodes.set n (f (s.nodes.getD n default)) }

def incRef (r : Nat) : M Unit := setRef r fun x => { x with refs := x.refs + 1 }

/-- `pathNode.removeChild` -/
def removeChild (n r : Nat) : M Unit :=
  setNode n fun nd => { nd with childRefs := nd.childRefs.filter (·.1 != r) }

/-- `fidRef.DecRef`: at zero close the file, unregister from the parent's node, drop the parent
reference (recursively). Returns the first errno of the joined Close errors (0 = nil). -/
def decRef : Nat → Nat → M Nat
  | 0, _ => pure 0
  | fuel+1, r => do
    let x ← getRef r
    setRef r fun x => { x with refs := x.refs - 1 }
    if x.refs = 1 then
      setRef r fun x => { x with closed := true }
      let e ← callClose x.file
      match x.parent with
      | none => pure e
      | some p =>
        let px ← getRef p
        removeChild px.node r
        let pe ← decRef fuel p
        pure (if e != 0 then e else pe)
    else pure 0

def decRef' (r : Nat) : M Nat := do
  let s ← getS
  decRef (s.refs.length + 1) r

def decRefU (r : Nat) : M Unit := do let _ ← decRef' r; pure ()

def lookupFidRaw (fid : Nat) : M (Option Nat) := do
  let s ← getS
  let c ← getConn
  return (s.fids.find? (·.1 == (c, fid))).map (·.2)

/-- `LookupFID`: find and IncRef -/
def lookupFid (fid : Nat) : M (Option Nat) := do
  match ← lookupFidRaw fid with
  | none => return none
  | some r => incRef r; return some r

/-- `InsertFID`: install (IncRef), then drop the reference of a replaced entry. -/
def insertFid (fid r : Nat) : M Unit := do
  let orig ← lookupFidRaw fid
  let c ← getConn
  incRef r
  modS fun s => { s with fids := ((c, fid), r) :: s.fids.filter (·.1 != (c, fid)) }
  match orig with
  | some o => decRefU o
  | none => pure ()

/-- `DeleteFID`: errno (0 = nil) -/
def deleteFid (fid : Nat) : M Nat := do
  match ← lookupFidRaw fid with
  | none => return EBADF
  | some r =>
    let c ← getConn
    modS fun s => { s with fids := s.fids.filter (·.1 != (c, fid)) }
    decRef' r

/-! ## path tree -/

def isDeleted (r : Nat) : M Bool := do
  let x ← getRef r
  return (← getNode x.node).deleted

/-- `pathNodeFor`: existing child node or a fresh one -/
def pathNodeFor (n : Nat) (name : SafeName) : M Nat := do
  let nd ← getNode n
  match nd.childNodes.find? (·.1 == name) with
  | some (_, c) => return c
  | none =>
    let c ← newNode
    setNode n fun nd => { nd with childNodes := (name, c) :: nd.childNodes }
    return c

/-- `addChild` / `addChildLocked` (panics if the ref is already registered) -/
def addChild (n r : Nat) (name : SafeName) : M Unit := do
  let nd ← getNode n
  if nd.childRefs.any (·.1 == r) then goPanic
  else setNode n fun nd => { nd with childRefs := (r, name) :: nd.childRefs }

/-- `nameFor` (panics if absent) -/
def nameFor (n r : Nat) : M SafeName := do
  let nd ← getNode n
  match nd.childRefs.find? (·.1 == r) with
  | some (_, nm) => return nm
  | none => goPanic

/-- `notifyDelete`: mark the node and its whole subtree deleted -/
def notifyDelete : Nat → Nat → M Unit
  | 0, _ => pure ()
  | fuel+1, n => do
    setNode n fun nd => { nd with deleted := true }
    let nd ← getNode n
    forEach nd.childNodes fun e => notifyDelete fuel e.2

/-- `markChildDeleted`: `removeWithName(name, nil)` then `notifyDelete` -/
def markChildDeleted (n : Nat) (name : SafeName) : M Unit := do
  let nd ← getNode n
  let orig := (nd.childNodes.find? (·.1 == name)).map (·.2)
  setNode n fun nd => { nd with
    childRefs := nd.childRefs.filter (·.2 != name),
    childNodes := nd.childNodes.filter (·.1 != name) }
  match orig with
  | some o => do
    let s ← getS
    notifyDelete (s.nodes.length + 1) o
  | none => pure ()

/-- `notifyNameChange`: `Renamed` on every reference below the node -/
def notifyNameChange : Nat → Nat → M Unit
  | 0, _ => pure ()
  | fuel+1, n => do
    let nd ← getNode n
    forEach nd.childRefs fun e => do
      let x ← getRef e.1
      match x.parent with
      | some p => do
        let px ← getRef p
        callRenamed x.file px.file e.2
      | none => pure ()
    forEach nd.childNodes fun e => notifyNameChange fuel e.2

/-- the callback loop of `removeWithName(oldName, fn)` in `renameChildTo`; returns the pinned refs -/
def renameMoved (target tnode : Nat) (newName : SafeName) (tfile : Nat) : List (Nat × SafeName) → M (List Nat)
  | [] => pure []
  | e :: rest => do
    let r := e.1
    let x ← getRef r
    if x.refs > 0 then               -- TryIncRef
      incRef r
      whenSome x.parent decRefU      -- drop original parent reference
      setRef r fun x => { x with parent := some target }
      incRef target
      addChild tnode r newName
      callRenamed x.file tfile newName
      let ps ← renameMoved target tnode newName tfile rest
      return r :: ps
    else renameMoved target tnode newName tfile rest

/-- `renameChildTo` -/
def renameChildTo (f : Nat) (oldName : SafeName) (target : Nat) (newName : SafeName) : M Unit := do
  let fx ← getRef f
  let tx ← getRef target
  markChildDeleted tx.node newName
  let fnode ← getNode fx.node
  let moved := fnode.childRefs.filter (·.2 == oldName)
  let orig := (fnode.childNodes.find? (·.1 == oldName)).map (·.2)
  -- removeWithName(oldName, fn): refs are unregistered, then fn runs for each live one
  setNode fx.node fun nd => { nd with
    childRefs := nd.childRefs.filter (·.2 != oldName),
    childNodes := nd.childNodes.filter (·.1 != oldName) }
  -- TryIncRef pins each reference for its callback; the pins are dropped after childMu is
  -- released, i.e. after the whole loop (the D9 `fix:`)
  let pinned ← renameMoved target tx.node newName tx.file moved
  forEach pinned decRefU
  match orig with
  | some o => do
    -- addPathNodeFor (panics if the name is present – it was just removed by markChildDeleted)
    let tn ← getNode tx.node
    panicIf (tn.childNodes.any (·.1 == newName))
    setNode tx.node fun nd => { nd with childNodes := (newName, o) :: nd.childNodes }
    let s ← getS
    notifyNameChange (s.nodes.length + 1) o
  | none => pure ()

end P9.Session
