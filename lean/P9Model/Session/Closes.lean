import P9Model.Session.Frame
import P9Model.Session.Handlers
/-!
# Dropping references makes no backend call but `Close`

`OnlyCloses c c'`: the call log of `c'` is that of `c` with newer calls in front, every one of
them a `Close`.  `DecRef` (recursively through parents) is such a step.
-/
namespace P9.Session
open P9

def OnlyCloses (c c' : Ctx) : Prop :=
  ∃ newer, c'.calls = newer ++ c.calls ∧ ∀ x ∈ newer, x.meth = "Close"

instance : Rel OnlyCloses where
  refl _ := ⟨[], rfl, by simp⟩
  trans := by
    rintro a b c ⟨n1, h1, g1⟩ ⟨n2, h2, g2⟩
    refine ⟨n2 ++ n1, by rw [h2, h1, List.append_assoc], ?_⟩
    intro x hx
    rcases List.mem_append.mp hx with h | h
    · exact g2 x h
    · exact g1 x h

theorem getRef_closes (r : Nat) : Pres OnlyCloses (getRef r) := by
  unfold getRef; exact Pres.bind Pres.getS (fun _ => Pres.pure _)
theorem setRef_closes (r : Nat) (f : Ref → Ref) : Pres OnlyCloses (setRef r f) :=
  Pres.modS (fun _ => ⟨[], rfl, by simp⟩)
theorem setNode_closes (n : Nat) (f : Node → Node) : Pres OnlyCloses (setNode n f) :=
  Pres.modS (fun _ => ⟨[], rfl, by simp⟩)
theorem removeChild_closes (n r : Nat) : Pres OnlyCloses (removeChild n r) := setNode_closes n _
theorem callClose_closes (h : Nat) : Pres OnlyCloses (callClose h) := fun c =>
  ⟨[⟨h, "Close", [], [], []⟩], rfl, by simp⟩

theorem decRef_closes (fuel r : Nat) : Pres OnlyCloses (decRef fuel r) := by
  induction fuel generalizing r with
  | zero => exact Pres.pure _
  | succ f ih =>
    unfold decRef
    refine Pres.bind (getRef_closes r) (fun x => ?_)
    refine Pres.bind (setRef_closes r _) (fun _ => ?_)
    refine Pres.ite ?_ (Pres.pure _)
    refine Pres.bind (setRef_closes r _) (fun _ => ?_)
    refine Pres.bind (callClose_closes _) (fun e => ?_)
    split
    · exact Pres.pure _
    · refine Pres.bind (getRef_closes _) (fun px => ?_)
      refine Pres.bind (removeChild_closes _ _) (fun _ => ?_)
      exact Pres.bind (ih _) (fun _ => Pres.pure _)

theorem decRefU_closes (r : Nat) : Pres OnlyCloses (decRefU r) := by
  unfold decRefU decRef'
  exact Pres.bind (Pres.bind Pres.getS (fun _ => decRef_closes _ _)) (fun _ => Pres.pure _)

end P9.Session
