import P9Model.Session.Handlers
import P9Model.Client.Version
import P9Model.Spec.NineP
/-!
# `connState.handle`: dispatch, panic recovery, `stop()`
-/
namespace P9.Session
open P9

def hTversion (m : Msg) : M Reply := do
  let ms := (Version.tversion (m.int 0) (m.str 1)).1
  let v := (Version.tversion (m.int 0) (m.str 1)).2
  (if ms != 0 then do
    let c ← getConn
    modS fun s => { s with msize := (c, ms) :: s.msize.filter (·.1 != c) }
   else pure () : M Unit)
  return rmsg 101 [.atom (.int ms), .atom (.str v)]

/-- the handler for a request type; types without a handler (R-messages, Tauth aside) get ENOSYS -/
def dispatch (typ : Nat) (m : Msg) : M Reply :=
  match typ with
  | 100 => hTversion m
  | 108 => pure (rmsg 109)                                   -- Tflush: WaitTag returns at once sequentially
  | 102 => pure (rerr ENOSYS)                                -- Tauth
  | 104 => hTattach m
  | 110 => hTwalkGen m false
  | 126 => hTwalkGen m true
  | 12 => hTlopen m
  | 14 => hCreate m 4294967295 15                            -- Tlcreate: NoUID
  | 128 => hCreate m (m.int 5) 129                           -- Tucreate
  | 16 => hDirOp m 0 1 "Symlink" [4294967295, m.int 3] [m.str 2] 17
  | 134 => hDirOp m 0 1 "Symlink" [m.int 4, m.int 3] [m.str 2] 135
  | 72 => hDirOp m 0 1 "Mkdir" [m.int 2, 4294967295, m.int 3] [] 73
  | 130 => hDirOp m 0 1 "Mkdir" [m.int 2, m.int 4, m.int 3] [] 131
  | 18 => hDirOp m 0 1 "Mknod" [m.int 2, m.int 3, m.int 4, 4294967295, m.int 5] [] 19
  | 132 => hDirOp m 0 1 "Mknod" [m.int 2, m.int 3, m.int 4, m.int 6, m.int 5] [] 133
  | 70 => hTlink m
  | 74 => hTrenameat m
  | 76 => hTunlinkat m
  | 20 => hTrename m
  | 122 => hTremove m
  | 22 => hTreadlink m
  | 116 => hTread m
  | 118 => hTwrite m
  | 24 => hTgetattr m
  | 26 => hTsetattr m
  | 30 => hTxattrwalk m
  | 32 => hTxattrcreate m
  | 40 => hTreaddir m
  | 50 => hSimple m "FSync" true 51
  | 8 => hSimple m "StatFS" false 9
  | 52 => hTlock m
  | 120 => hTclunk m
  | _ => pure (rerr ENOSYS)

/-- what the decoder hands to the handler: masked fields reduced (`normMsg`). -/
def normReq (typ : Nat) (m : Msg) : Msg :=
  match Spec.messages.find? (·.typ == typ) with
  | some sm => normMsg sm.desc m
  | none => m

structure StepResult where
  st : State
  reply : Reply
  calls : List Call
  tapeLeft : Nat

/-- one request on connection `conn`: `cs.handle(m)` with its `recover`. -/
def handle (s : State) (conn typ : Nat) (m : Msg) (tape : List Res) (closeFaults : Bool := false) : StepResult :=
  match dispatch typ (normReq typ m) { st := s, tape := tape, conn := conn, closeFaults := closeFaults } with
  | .ok r c => ⟨c.st, r, c.calls.reverse, c.tape.length⟩
  | .panic c => ⟨c.st, rerr EFAULT, c.calls.reverse, c.tape.length⟩

/-- `connState.stop()`: drop the table's reference of every fid of the connection. -/
def stop (s : State) (conn : Nat) : State × List Call :=
  let mine := s.fids.filter (·.1.1 == conn)
  let body : M Unit := do
    modS fun s => { s with fids := s.fids.filter (·.1.1 != conn) }
    forEach mine fun e => decRefU e.2
  match body { st := s, tape := [], conn := conn } with
  | .ok _ c => (c.st, c.calls.reverse)
  | .panic c => (c.st, c.calls.reverse)

end P9.Session
