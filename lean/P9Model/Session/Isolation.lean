import P9Model.Session.Frame
/-!
# No request touches another connection's fid table
`Pres OthersSame (dispatch typ m)` for every request type, by the frame calculus.
-/
namespace P9.Session

macro "oth_step" : tactic => `(tactic| first
  | exact Pres.pure _
  | exact insertFid_others _ _
  | exact deleteFid_others _
  | exact Pres.others (dirGuard_fids _)
  | exact Pres.others (pathNodeFor_fids _ _)
  | exact Pres.others (markChildDeleted_fids _ _)
  | exact Pres.others (renameChildTo_fids _ _ _ _)
  | exact Pres.others (nameFor_fids _ _)
  | exact Pres.others (addChild_fids _ _ _)
  | exact Pres.others (newRef_fids _)
  | exact Pres.others newHandle_fids
  | exact Pres.others (incRef_fids _)
  | exact Pres.others (decRefU_fids _)
  | exact Pres.others (getRef_fids _)
  | exact Pres.others (getNode_fids _)
  | exact Pres.others (isDeleted_fids _)
  | exact Pres.others (setRef_fids _ _)
  | exact Pres.others (call_fids _ _ _ _ _)
  | exact Pres.others (callClose_fids _)
  | exact Pres.others connMsize_fids
  | exact Pres.others (lookupFid_fids _)
  | exact Pres.goPanic
  | exact Pres.getS
  | exact Pres.getConn
  | (refine Pres.finally' ?_ ?_)
  | (refine Pres.bind ?_ (fun _ => ?_))
  | (refine Pres.ite ?_ ?_)
  | split)

macro "oth" : tactic => `(tactic| repeat oth_step)

theorem withFid_others (fid : Nat) (body : Nat → M Reply) (hb : ∀ r, Pres OthersSame (body r)) :
    Pres OthersSame (withFid fid body) := by
  unfold withFid
  refine Pres.bind (Pres.others (lookupFid_fids fid)) (fun o => ?_)
  cases o with
  | none => exact Pres.pure _
  | some r => exact Pres.finally' (hb r) (Pres.others (decRefU_fids r))

theorem whenSome_others {α : Type} (o : Option α) (f : α → M Unit) (hf : ∀ a, Pres OthersSame (f a)) :
    Pres OthersSame (whenSome o f) := by
  unfold whenSome; split
  · exact hf _
  · exact Pres.pure _

theorem walkViaWalk_others (h : Nat) (ns : List SafeName) (g : Bool) : Pres OthersSame (walkViaWalk h ns g) := by
  unfold walkViaWalk; oth

theorem walkOne_others (h : Nat) (ns : List SafeName) (g : Bool) : Pres OthersSame (walkOne h ns g) := by
  unfold walkOne
  refine Pres.ite (Pres.pure _) ?_
  refine Pres.bind ?_ (fun res => ?_)
  · refine Pres.ite ?_ (walkViaWalk_others _ _ _)
    refine Pres.bind (Pres.others (call_fids _ _ _ _ _)) (fun r => ?_)
    split
    · oth
    · exact Pres.ite (walkViaWalk_others _ _ _) (Pres.pure _)
    · exact Pres.pure _
  · oth

theorem walkLoop_others (ns : List SafeName) (w : Nat) (q : List Nat) (v : Nat) (a : List Nat) :
    Pres OthersSame (walkLoop ns w q v a) := by
  induction ns generalizing w q v a with
  | nil => exact Pres.pure _
  | cons n rest ih =>
    unfold walkLoop
    refine Pres.bind (Pres.others (getRef_fids _)) (fun wx => ?_)
    refine Pres.ite (by oth) ?_
    refine Pres.bind (Pres.others (isDeleted_fids _)) (fun d => ?_)
    refine Pres.ite (by oth) ?_
    refine Pres.bind (walkOne_others _ _ _) (fun r => ?_)
    split
    · oth
    · refine Pres.bind (Pres.others (pathNodeFor_fids _ _)) (fun cn => ?_)
      refine Pres.bind (Pres.others (newRef_fids _)) (fun nr => ?_)
      refine Pres.bind (Pres.others (addChild_fids _ _ _)) (fun _ => ?_)
      exact Pres.bind (Pres.others (incRef_fids _)) (fun _ => ih _ _ _ _)

theorem doWalk_others (ref : Nat) (ns : List Bytes) (g : Bool) : Pres OthersSame (doWalk ref ns g) := by
  unfold doWalk
  split
  · exact Pres.pure _
  · refine Pres.bind (Pres.others (getRef_fids _)) (fun x => Pres.ite ?_ ?_)
    · refine Pres.bind (walkOne_others _ _ _) (fun r => ?_)
      split
      · exact Pres.pure _
      · refine Pres.bind (Pres.others (newRef_fids _)) (fun nr => Pres.bind ?_ (fun _ => ?_))
        · refine whenSome_others _ _ (fun p => ?_)
          refine Pres.bind (Pres.others (isDeleted_fids _)) (fun del => Pres.bind ?_ (fun _ => Pres.others (incRef_fids _)))
          exact Pres.ite (by oth) (Pres.pure _)
        · oth
    · exact Pres.bind (Pres.others (incRef_fids _)) (fun _ => walkLoop_others _ _ _ _ _)

theorem hTattach_others (m : Msg) : Pres OthersSame (hTattach m) := by
  unfold hTattach
  refine Pres.ite (Pres.pure _) ?_
  refine Pres.bind (Pres.others (call_fids _ _ _ _ _)) (fun r => ?_)
  split
  · exact Pres.pure _
  · exact Pres.pure _
  · refine Pres.bind (Pres.others newHandle_fids) (fun h => Pres.bind (Pres.others (call_fids _ _ _ _ _)) (fun g => ?_))
    split
    · oth
    · exact Pres.pure _
    · refine Pres.ite (by oth) ?_
      refine Pres.bind (Pres.others (newRef_fids _)) (fun root => Pres.finally' ?_ (Pres.others (decRefU_fids _)))
      refine Pres.ite (by oth) ?_
      refine Pres.bind (doWalk_others _ _ _) (fun w => ?_)
      split
      · exact Pres.pure _
      · exact Pres.finally' (by oth) (Pres.others (decRefU_fids _))

theorem hTwalkGen_others (m : Msg) (g : Bool) : Pres OthersSame (hTwalkGen m g) := by
  unfold hTwalkGen
  refine withFid_others _ _ (fun ref => ?_)
  refine Pres.bind (Pres.others (getRef_fids _)) (fun x => Pres.ite (Pres.pure _) ?_)
  refine Pres.bind (doWalk_others _ _ _) (fun w => ?_)
  split
  · exact Pres.pure _
  · refine Pres.finally' ?_ (Pres.others (decRefU_fids _))
    refine Pres.bind (insertFid_others _ _) (fun _ => Pres.ite (Pres.pure _) (Pres.pure _))

theorem hCreate_others (m : Msg) (uid t : Nat) : Pres OthersSame (hCreate m uid t) := by
  unfold hCreate
  split
  · refine withFid_others _ _ (fun ref => ?_); oth
  · exact Pres.pure _

theorem hTxattrwalk_others (m : Msg) : Pres OthersSame (hTxattrwalk m) := by
  unfold hTxattrwalk
  refine withFid_others _ _ (fun ref => ?_)
  refine Pres.bind (Pres.others (getRef_fids _)) (fun x => ?_)
  refine Pres.bind (Pres.others (isDeleted_fids _)) (fun d => Pres.ite (Pres.pure _) ?_)
  refine Pres.bind (R := OthersSame) ?_ (fun r => ?_)
  · exact Pres.ite (R := OthersSame) (Pres.others (call_fids _ _ _ _ _)) (Pres.others (call_fids _ _ _ _ _))
  split
  · exact Pres.pure _
  · exact Pres.pure _
  · refine Pres.ite (Pres.pure _) ?_
    refine Pres.bind (doWalk_others _ _ _) (fun w => ?_)
    split
    · exact Pres.pure _
    · refine Pres.finally' ?_ (Pres.others (decRefU_fids _))
      exact Pres.bind (Pres.others (setRef_fids _ _)) (fun _ => Pres.bind (insertFid_others _ _) (fun _ => Pres.pure _))

theorem clunkXattr_others (fid : Nat) : Pres OthersSame (clunkXattr fid) := by
  unfold clunkXattr
  refine Pres.bind (Pres.others (lookupFid_fids fid)) (fun o => ?_)
  cases o with
  | none => exact Pres.pure _
  | some ref =>
    refine Pres.finally' ?_ (Pres.others (decRefU_fids _))
    refine Pres.bind (Pres.others (getRef_fids _)) (fun x => Pres.ite ?_ (Pres.pure _))
    refine Pres.ite (Pres.pure _) ?_
    refine Pres.bind (R := OthersSame) ?_ (fun r => ?_)
    · exact Pres.ite (R := OthersSame) (Pres.others (call_fids _ _ _ _ _)) (Pres.others (call_fids _ _ _ _ _))
    split <;> exact Pres.pure _

theorem hTclunk_others (m : Msg) : Pres OthersSame (hTclunk m) := by
  unfold hTclunk
  refine Pres.bind (clunkXattr_others _) (fun cerr => Pres.bind (deleteFid_others _) (fun de => ?_))
  exact Pres.ite (Pres.pure _) (Pres.ite (Pres.pure _) (Pres.pure _))

theorem hTremove_others (m : Msg) : Pres OthersSame (hTremove m) := by
  unfold hTremove
  refine Pres.bind (Pres.others (lookupFid_fids _)) (fun o => ?_)
  cases o with
  | none => exact Pres.pure _
  | some ref =>
    refine Pres.finally' ?_ (Pres.others (decRefU_fids _))
    refine Pres.bind (Pres.others (getRef_fids _)) (fun x => Pres.bind ?_ (fun err => ?_))
    · split
      · exact Pres.pure _
      · oth
    · refine Pres.bind (deleteFid_others _) (fun fe => ?_)
      exact Pres.ite (Pres.pure _) (Pres.ite (Pres.pure _) (Pres.pure _))

theorem hTversion_others (m : Msg) : Pres OthersSame (hTversion m) := by
  unfold hTversion
  refine Pres.bind (R := OthersSame) ?_ (fun _ => Pres.pure _)
  refine Pres.ite ?_ (Pres.pure _)
  refine Pres.bind Pres.getConn (fun c => ?_)
  exact fun _ => ⟨rfl, rfl, rfl⟩

end P9.Session
