import P9Model.Session.Frame
/-!
# "A fid is bound only when the request succeeds"

`BOS m`: whenever `m` ends with an Rlerror reply – or by a panic (answered EFAULT by `handle`) –
the fid table is as before.  Closed under the handler combinators; the only place a binding
request touches the table is the tail `insertFid …; return R…`, whose reply is not an Rlerror and
which cannot panic.
-/
namespace P9.Session

def BOS (m : M Reply) : Prop :=
  ∀ c, match m c with
    | .ok r c' => r.1 = 7 → FidsSame c c'
    | .panic c' => FidsSame c c'

theorem BOS.of_pres {m : M Reply} (h : Pres FidsSame m) : BOS m := by
  intro c
  have := h c
  cases hm : m c with
  | ok r c' => simp only [hm] at this; exact fun _ => this
  | panic c' => simp only [hm] at this; exact this

theorem BOS.bind {α : Type} {m : M α} {f : α → M Reply} (hm : Pres FidsSame m) (hf : ∀ a, BOS (f a)) :
    BOS (m >>= f) := by
  intro c
  have h1 := hm c
  show match (Bind.bind m f : M Reply) c with | .ok r c' => r.1 = 7 → FidsSame c c' | .panic c' => FidsSame c c'
  simp only [Bind.bind]
  cases hmc : m c with
  | ok a c1 =>
    simp only [hmc] at h1
    have h2 := hf a c1
    simp only
    cases hfc : f a c1 with
    | ok r c2 => simp only [hfc] at h2 ⊢; exact fun h7 => Rel.trans h1 (h2 h7)
    | panic c2 => simp only [hfc] at h2 ⊢; exact Rel.trans h1 h2
  | panic c1 => simp only [hmc] at h1; exact h1

theorem BOS.ite {p : Prop} [Decidable p] {a b : M Reply} (ha : BOS a) (hb : BOS b) : BOS (if p then a else b) := by
  split <;> assumption

/-- `defer cleanup`: fine if the cleanup keeps the table and cannot panic -/
theorem BOS.finally' {body : M Reply} {cleanup : M Unit} (hb : BOS body) (hc : Pres FidsSame cleanup)
    (hn : NoPanic cleanup) : BOS (finally' body cleanup) := by
  intro c
  have h1 := hb c
  unfold Session.finally'
  cases hbc : body c with
  | ok r c1 =>
    simp only [hbc] at h1
    obtain ⟨u, c2, hcc⟩ := hn c1
    have h2 := hc c1
    simp only [hcc] at h2 ⊢
    exact fun h7 => Rel.trans (h1 h7) h2
  | panic c1 =>
    simp only [hbc] at h1
    obtain ⟨u, c2, hcc⟩ := hn c1
    have h2 := hc c1
    simp only [hcc] at h2 ⊢
    exact Rel.trans h1 h2

/-- the success tail: something that cannot panic, then a reply that is not an Rlerror -/
theorem BOS.success_tail {m : M Unit} (hn : NoPanic m) (typ : Nat) (vals : List Val) (pl : Bytes) (h7 : typ ≠ 7) :
    BOS (m >>= fun _ => (pure (rmsg typ vals pl) : M Reply)) := by
  intro c
  show match (Bind.bind m (fun _ => (pure (rmsg typ vals pl) : M Reply)) : M Reply) c with
    | .ok r c' => r.1 = 7 → FidsSame c c' | .panic c' => FidsSame c c'
  simp only [Bind.bind]
  obtain ⟨u, c1, h1⟩ := hn c
  rw [h1]
  intro h; exact absurd h h7

theorem NoPanic.decRefU (r : Nat) : NoPanic (decRefU r) := by
  unfold Session.decRefU Session.decRef'
  exact NoPanic.bind (NoPanic.bind NoPanic.getS (fun _ => NoPanic.decRef _ _)) (fun _ => NoPanic.pure _)

theorem NoPanic.incRef (r : Nat) : NoPanic (incRef r) := NoPanic.setRef _ _
theorem NoPanic.getConn : NoPanic getConn := fun c => ⟨_, c, rfl⟩

theorem NoPanic.lookupFidRaw (fid : Nat) : NoPanic (lookupFidRaw fid) := by
  unfold Session.lookupFidRaw
  exact NoPanic.bind NoPanic.getS (fun _ => NoPanic.bind NoPanic.getConn (fun _ => NoPanic.pure _))

theorem NoPanic.insertFid (fid r : Nat) : NoPanic (insertFid fid r) := by
  unfold Session.insertFid
  refine NoPanic.bind (NoPanic.lookupFidRaw fid) (fun o => NoPanic.bind NoPanic.getConn (fun _ =>
    NoPanic.bind (NoPanic.incRef r) (fun _ => NoPanic.bind (NoPanic.modS _) (fun _ => ?_))))
  cases o with
  | none => exact NoPanic.pure _
  | some x => exact NoPanic.decRefU x

/-! ### walking never touches the fid table -/

macro "fs_step" : tactic => `(tactic| first
  | exact Pres.pure _
  | exact getRef_fids _
  | exact getNode_fids _
  | exact isDeleted_fids _
  | exact setRef_fids _ _
  | exact incRef_fids _
  | exact decRefU_fids _
  | exact newRef_fids _
  | exact newHandle_fids
  | exact pathNodeFor_fids _ _
  | exact addChild_fids _ _ _
  | exact nameFor_fids _ _
  | exact call_fids _ _ _ _ _
  | exact callClose_fids _
  | exact Pres.goPanic
  | exact Pres.getS
  | exact Pres.getConn
  | (refine Pres.finally' ?_ ?_)
  | (refine Pres.bind ?_ (fun _ => ?_))
  | (refine Pres.ite ?_ ?_)
  | split)
macro "fs" : tactic => `(tactic| repeat fs_step)

theorem walkViaWalk_fids (h : Nat) (ns : List SafeName) (g : Bool) : Pres FidsSame (walkViaWalk h ns g) := by
  unfold walkViaWalk; fs

theorem walkOne_fids (h : Nat) (ns : List SafeName) (g : Bool) : Pres FidsSame (walkOne h ns g) := by
  unfold walkOne
  refine Pres.ite (Pres.pure _) ?_
  refine Pres.bind ?_ (fun res => ?_)
  · refine Pres.ite ?_ (walkViaWalk_fids _ _ _)
    refine Pres.bind (call_fids _ _ _ _ _) (fun r => ?_)
    split
    · fs
    · exact Pres.ite (walkViaWalk_fids _ _ _) (Pres.pure _)
    · exact Pres.pure _
  · fs

theorem walkLoop_fids (ns : List SafeName) (w : Nat) (q : List Nat) (v : Nat) (a : List Nat) :
    Pres FidsSame (walkLoop ns w q v a) := by
  induction ns generalizing w q v a with
  | nil => exact Pres.pure _
  | cons n rest ih =>
    unfold walkLoop
    refine Pres.bind (getRef_fids _) (fun wx => ?_)
    refine Pres.ite (by fs) ?_
    refine Pres.bind (isDeleted_fids _) (fun d => ?_)
    refine Pres.ite (by fs) ?_
    refine Pres.bind (walkOne_fids _ _ _) (fun r => ?_)
    split
    · fs
    · refine Pres.bind (pathNodeFor_fids _ _) (fun cn => ?_)
      refine Pres.bind (newRef_fids _) (fun nr => ?_)
      refine Pres.bind (addChild_fids _ _ _) (fun _ => ?_)
      exact Pres.bind (incRef_fids _) (fun _ => ih _ _ _ _)

theorem doWalk_fids (ref : Nat) (ns : List Bytes) (g : Bool) : Pres FidsSame (doWalk ref ns g) := by
  unfold doWalk
  split
  · exact Pres.pure _
  · refine Pres.bind (getRef_fids _) (fun x => Pres.ite ?_ ?_)
    · refine Pres.bind (walkOne_fids _ _ _) (fun r => ?_)
      split
      · exact Pres.pure _
      · refine Pres.bind (newRef_fids _) (fun nr => Pres.bind ?_ (fun _ => ?_))
        · refine whenSome_fids _ _ (fun p => ?_)
          refine Pres.bind (isDeleted_fids _) (fun del => Pres.bind ?_ (fun _ => incRef_fids _))
          exact Pres.ite (by fs) (Pres.pure _)
        · fs
    · exact Pres.bind (incRef_fids _) (fun _ => walkLoop_fids _ _ _ _ _)

/-- `LookupFID; defer DecRef; body` -/
theorem BOS.withFid (fid : Nat) (body : Nat → M Reply) (hb : ∀ r, BOS (body r)) : BOS (withFid fid body) := by
  unfold Session.withFid
  refine BOS.bind (lookupFid_fids fid) (fun o => ?_)
  cases o with
  | none => exact BOS.of_pres (Pres.pure _)
  | some r => exact BOS.finally' (hb r) (decRefU_fids r) (NoPanic.decRefU r)

/-- **Twalk / Twalkgetattr bind `newfid` only when they succeed**: if the reply is an Rlerror – a bad
name, an unbound or fenced fid, any backend error at any step of a multi-step walk – or the request
ends in a panic, the fid table is exactly as before. -/
theorem walk_binds_only_on_success (m : Msg) (g : Bool) : BOS (hTwalkGen m g) := by
  unfold hTwalkGen
  refine BOS.withFid _ _ (fun ref => ?_)
  refine BOS.bind (getRef_fids _) (fun x => BOS.ite (BOS.of_pres (Pres.pure _)) ?_)
  refine BOS.bind (doWalk_fids _ _ _) (fun w => ?_)
  split
  · exact BOS.of_pres (Pres.pure _)
  · refine BOS.finally' ?_ (decRefU_fids _) (NoPanic.decRefU _)
    cases g with
    | true => exact BOS.success_tail (NoPanic.insertFid _ _) 127 _ [] (by decide)
    | false => exact BOS.success_tail (NoPanic.insertFid _ _) 111 _ [] (by decide)

/-- **Tattach binds its fid only when it succeeds** (Attach, GetAttr and every step of an attach-name
walk may fail or panic). -/
theorem attach_binds_only_on_success (m : Msg) : BOS (hTattach m) := by
  unfold hTattach
  refine BOS.ite (BOS.of_pres (Pres.pure _)) ?_
  refine BOS.bind (call_fids _ _ _ _ _) (fun r => ?_)
  split
  · exact BOS.of_pres (Pres.pure _)
  · exact BOS.of_pres (Pres.pure _)
  · refine BOS.bind newHandle_fids (fun h => BOS.bind (call_fids _ _ _ _ _) (fun g => ?_))
    split
    · exact BOS.of_pres (by fs)
    · exact BOS.of_pres (Pres.pure _)
    · refine BOS.ite (BOS.of_pres (by fs)) ?_
      refine BOS.bind (newRef_fids _) (fun root => BOS.finally' ?_ (decRefU_fids _) (NoPanic.decRefU _))
      refine BOS.ite (BOS.success_tail (NoPanic.insertFid _ _) 105 _ [] (by decide)) ?_
      refine BOS.bind (doWalk_fids _ _ _) (fun w => ?_)
      split
      · exact BOS.of_pres (Pres.pure _)
      · exact BOS.finally' (BOS.success_tail (NoPanic.insertFid _ _) 105 _ [] (by decide)) (decRefU_fids _) (NoPanic.decRefU _)

/-- **Txattrwalk binds `newfid` only when it succeeds.** -/
theorem xattrwalk_binds_only_on_success (m : Msg) : BOS (hTxattrwalk m) := by
  unfold hTxattrwalk
  refine BOS.withFid _ _ (fun ref => ?_)
  refine BOS.bind (getRef_fids _) (fun x => BOS.bind (isDeleted_fids _) (fun d => BOS.ite (BOS.of_pres (Pres.pure _)) ?_))
  refine BOS.bind (Pres.ite (call_fids _ _ _ _ _) (call_fids _ _ _ _ _)) (fun r => ?_)
  split
  · exact BOS.of_pres (Pres.pure _)
  · exact BOS.of_pres (Pres.pure _)
  · refine BOS.ite (BOS.of_pres (Pres.pure _)) ?_
    refine BOS.bind (doWalk_fids _ _ _) (fun w => ?_)
    split
    · exact BOS.of_pres (Pres.pure _)
    · refine BOS.finally' ?_ (decRefU_fids _) (NoPanic.decRefU _)
      refine BOS.bind (setRef_fids _ _) (fun _ => ?_)
      exact BOS.success_tail (NoPanic.insertFid _ _) 31 _ [] (by decide)

/-- **Tlcreate re-binds its fid to the new file only when it succeeds** (a refused name, a fenced or
non-directory fid, a backend error or panic, or the path tree's own assertion leave the fid on the
directory). -/
theorem create_rebinds_only_on_success (m : Msg) (uid rtyp : Nat) (h7 : rtyp ≠ 7) : BOS (hCreate m uid rtyp) := by
  unfold hCreate
  split
  · refine BOS.withFid _ _ (fun ref => ?_)
    refine BOS.bind (dirGuard_fids _) (fun g => ?_)
    split
    · exact BOS.of_pres (Pres.pure _)
    · refine BOS.bind (getRef_fids _) (fun x => BOS.bind (call_fids _ _ _ _ _) (fun r => ?_))
      split
      · exact BOS.of_pres (Pres.pure _)
      · exact BOS.of_pres (Pres.pure _)
      · refine BOS.bind newHandle_fids (fun h => BOS.bind (pathNodeFor_fids _ _) (fun cn =>
          BOS.bind (newRef_fids _) (fun nr => BOS.bind (addChild_fids _ _ _) (fun _ => BOS.bind (incRef_fids _) (fun _ => ?_)))))
        exact BOS.success_tail (NoPanic.insertFid _ _) rtyp _ [] h7
  · exact BOS.of_pres (Pres.pure _)

end P9.Session
