import P9Model.Session.Model
/-!
# The handlers of p9/handlers.go, transcribed

Requests and replies are `(type number, Msg)` with the field values in the protocol's wire
order (`Spec/NineP.lean`).  Each definition follows its Go function statement by statement;
comments quote the Go text where the order of tests matters.
-/
namespace P9.Session
open P9

abbrev Reply := Nat × Msg

def rerr (e : Nat) : Reply := (7, { vals := [.atom (.int e)] })
def rmsg (typ : Nat) (vals : List Val := []) (payload : Bytes := []) : Reply := (typ, { vals := vals, payload := payload })

def _root_.P9.Msg.int (m : Msg) (i : Nat) : Nat :=
  match m.vals.getD i (.atom (.int 0)) with
  | .atom (.int n) => n
  | _ => 0
def _root_.P9.Msg.str (m : Msg) (i : Nat) : Bytes :=
  match m.vals.getD i (.atom (.str [])) with
  | .atom (.str s) => s
  | _ => []
def _root_.P9.Msg.rows (m : Msg) (i : Nat) : List (List Atom) :=
  match m.vals.getD i (.list []) with
  | .list r => r
  | _ => []
def _root_.P9.Msg.names (m : Msg) (i : Nat) : List Bytes :=
  (m.rows i).map fun r => match r with | [.str s] => s | _ => []

def ints (l : List Nat) : List Val := l.map fun n => .atom (.int n)

def qidRows : List Nat → List (List Atom)
  | a :: b :: c :: rest => [.int a, .int b, .int c] :: qidRows rest
  | _ => []

/-- run `body` with `ref` looked up (`LookupFID` + `defer ref.DecRef()`); EBADF if unbound. -/
def withFid (fid : Nat) (body : Nat → M Reply) : M Reply := do
  match ← lookupFid fid with
  | none => return rerr EBADF
  | some r => finally' (body r) (decRefU r)

abbrev WalkRes := Except Nat (List Nat × Nat × Nat × List Nat)

/-- the `default:` branch of `walkOne`: `Walk`, then (if asked) `GetAttr` on the new file -/
def walkViaWalk (fromH : Nat) (names : List SafeName) (getattr : Bool) : M WalkRes := do
  match ← call fromH "Walk" [] [] names with
  | .ok is _ _ =>
    let h ← newHandle
    if getattr then
      match ← call h "GetAttr" [attrMaskAll] with
      | .ok as _ _ => return .ok (is, h, as.getD 3 0, as.drop 4)
      | .err e =>
        let _ ← callClose h                -- "Don't leak the file."
        return .error e
      | .panic => return .error EIO
    else return .ok (is, h, 0, [])
  | .err e => return .error e
  | .panic => return .error EIO

/-- `walkOne`: Except errno (new qids, handle, valid, attr ints) -/
def walkOne (fromH : Nat) (names : List SafeName) (getattr : Bool) : M WalkRes := do
  if names.length > 1 then return .error EINVAL      -- "We require exactly zero or one elements."
  let result ← (if getattr then do
      match ← call fromH "WalkGetAttr" [] [] names with
      | .ok is _ _ =>
        let h ← newHandle
        let nq := (is.length - 19) / 3
        return .ok (is.take (3 * nq), h, is.getD (3 * nq) 0, is.drop (3 * nq + 1))
      | .err e => if e == ENOSYS then walkViaWalk fromH names getattr else return .error e
      | .panic => return .error EIO
    else walkViaWalk fromH names getattr : M WalkRes)
  match result with
  | .error e => return .error e
  | .ok (qs, h, valid, attr) =>
    if names.length == 1 && qs.length != 3 then
      let _ ← callClose h                    -- "Expected a single QID."
      return .error EINVAL
    return .ok (qs, h, valid, attr)

/-- the loop of `doWalk`: one component at a time, only through directories -/
def walkLoop : List SafeName → Nat → List Nat → Nat → List Nat → M WalkRes
  | [], walkRef, qids, valid, attr => pure (.ok (qids, walkRef, valid, attr))
  | name :: rest, walkRef, qids, _, _ => do
    let wx ← getRef walkRef
    if !isDir wx.mode then
      decRefU walkRef                        -- "Drop walk reference; no lock required."
      return .error EINVAL
    if ← isDeleted walkRef then
      decRefU walkRef
      return .error ENOENT
    match ← walkOne wx.file [name] true with
    | .error e =>
      decRefU walkRef                        -- "Drop the old walkRef."
      return .error e
    | .ok (qs, h, v, a) =>
      let cn ← pathNodeFor wx.node name
      let nr ← newRef { file := h, mode := fileType (a.getD 0 0), node := cn, parent := some walkRef }
      addChild wx.node nr name
      incRef nr
      walkLoop rest nr (qids ++ qs) v a

/-- `doWalk`: Except errno (qids, newRef (holding one reference), valid, attr) -/
def doWalk (ref : Nat) (rawNames : List Bytes) (getattr : Bool) : M WalkRes := do
  -- "Check the names."
  match checkNames rawNames with
  | none => return .error EINVAL
  | some names =>
  let x ← getRef ref
  if names.isEmpty then
    -- clone
    match ← walkOne x.file [] getattr with
    | .error e => return .error e
    | .ok (_, h, valid, attr) =>
      let nr ← newRef { file := h, mode := x.mode, node := x.node, parent := x.parent }
      whenSome x.parent (fun p => do
        let del ← isDeleted nr
        (if !del then do
          let px ← getRef p
          let nm ← nameFor px.node ref
          addChild px.node nr nm
         else pure () : M Unit)
        incRef p)
      incRef nr
      return .ok ([], nr, valid, attr)
  else
    incRef ref
    walkLoop names ref [] 0 []

def splitSlash (s : Bytes) : List Bytes :=
  let rec go : Bytes → Bytes → List Bytes → List Bytes
    | [], cur, acc => (cur.reverse :: acc).reverse
    | c :: rest, cur, acc => if c == 0x2f then go rest [] (cur.reverse :: acc) else go rest (c :: cur) acc
  go s [] []

def hTattach (m : Msg) : M Reply := do
  -- fid afid uname aname n_uname
  if m.int 1 != NOFID then return rerr EINVAL
  let aname := if (m.str 3).head? == some 0x2f then (m.str 3).drop 1 else m.str 3
  match ← call 0 "Attach" with
  | .err e => return rerr e
  | .panic => return rerr EIO
  | .ok _ _ _ =>
    let h ← newHandle
    match ← call h "GetAttr" [attrMaskAll] with
    | .err e => let _ ← callClose h; return rerr e
    | .panic => return rerr EIO
    | .ok as _ _ =>
      if as.getD 3 0 &&& 1 == 0 then
        let _ ← callClose h
        return rerr EINVAL
      let root ← newRef { file := h, mode := fileType (as.getD 4 0), refs := 1, node := 0 }
      finally' (do
        if aname.isEmpty then
          insertFid (m.int 0) root
          return rmsg 105 (ints (as.take 3))
        match ← doWalk root (splitSlash aname) false with
        | .error e => return rerr e
        | .ok (_, nr, _, _) =>
          finally' (do
            insertFid (m.int 0) nr
            return rmsg 105 (ints (as.take 3))) (decRefU nr)) (decRefU root)

def hTwalkGen (m : Msg) (getattr : Bool) : M Reply :=
  -- fid newfid names
  withFid (m.int 0) fun ref => do
    let x ← getRef ref
    if x.opened && m.int 0 == m.int 1 then return rerr EBUSY
    match ← doWalk ref (m.names 2) getattr with
    | .error e => return rerr e
    | .ok (qids, nr, valid, attr) =>
      finally' (do
        insertFid (m.int 1) nr
        if getattr then
          return rmsg 127 ([.atom (.int valid)] ++ ints attr ++ [.list (qidRows qids)])
        else
          return rmsg 111 [.list (qidRows qids)]) (decRefU nr)

def hTlopen (m : Msg) : M Reply :=
  withFid (m.int 0) fun ref => do
    let x ← getRef ref
    if ← isDeleted ref then return rerr EINVAL
    if x.opened || !canOpen x.mode then return rerr EINVAL
    if isDir x.mode && (m.int 1 &&& 3) != 0 then return rerr EISDIR
    match ← call x.file "Open" [m.int 1] with
    | .err e => return rerr e
    | .panic => return rerr EIO
    | .ok is _ _ =>
      setRef ref fun x => { x with opened := true, openFlags := m.int 1 }
      return rmsg 13 (ints (is.take 4))

/-- the preamble shared by create/mkdir/symlink/link/mknod/unlinkat on a directory fid -/
def dirGuard (ref : Nat) : M (Option Nat) := do
  let x ← getRef ref
  if (← isDeleted ref) || !isDir x.mode then return some EINVAL
  if x.opened then return some EINVAL
  return none

def hCreate (m : Msg) (uid : Nat) (rtyp : Nat) : M Reply := do
  -- fid name flags mode gid
  if hn : safeName (m.str 1) = true then
  let name : SafeName := ⟨m.str 1, hn⟩
  withFid (m.int 0) fun ref => do
    match ← dirGuard ref with
    | some e => return rerr e
    | none =>
      let x ← getRef ref
      match ← call x.file "Create" [m.int 2, m.int 3 % 4096, uid, m.int 4] [] [name] with
      | .err e => return rerr e
      | .panic => return rerr EIO
      | .ok is _ _ =>
        let h ← newHandle
        let cn ← pathNodeFor x.node name
        let nr ← newRef { file := h, mode := ModeReg, opened := true, openFlags := m.int 2, node := cn, parent := some ref }
        addChild x.node nr name
        incRef ref
        insertFid (m.int 0) nr
        return rmsg rtyp (ints (is.take 4))
  else return rerr EINVAL

/-- mkdir / symlink / mknod: one backend call returning a QID -/
def hDirOp (m : Msg) (fidIx : Nat) (nameIx : Nat) (meth : String) (args : List Nat) (strs : List Bytes) (rtyp : Nat) : M Reply := do
  if hn : safeName (m.str nameIx) = true then
  withFid (m.int fidIx) fun ref => do
    match ← dirGuard ref with
    | some e => return rerr e
    | none =>
      let x ← getRef ref
      match ← call x.file meth args strs [⟨m.str nameIx, hn⟩] with
      | .err e => return rerr e
      | .panic => return rerr EIO
      | .ok is _ _ => return rmsg rtyp (ints (is.take 3))
  else return rerr EINVAL

def hTlink (m : Msg) : M Reply := do
  -- dfid fid name
  if hn : safeName (m.str 2) = true then
  withFid (m.int 0) fun ref =>
    withFid (m.int 1) fun target => do
      match ← dirGuard ref with
      | some e => return rerr e
      | none =>
        let x ← getRef ref
        let tx ← getRef target
        match ← call x.file "Link" [tx.file] [] [⟨m.str 2, hn⟩] with
        | .err e => return rerr e
        | .panic => return rerr EIO
        | .ok _ _ _ => return rmsg 71
  else return rerr EINVAL

def hTrenameat (m : Msg) : M Reply := do
  -- olddirfid oldname newdirfid newname
  if ho : safeName (m.str 1) = true then
  if hn : safeName (m.str 3) = true then
  let oldName : SafeName := ⟨m.str 1, ho⟩
  let newName : SafeName := ⟨m.str 3, hn⟩
  withFid (m.int 0) fun ref =>
    withFid (m.int 2) fun target => do
      let x ← getRef ref
      let tx ← getRef target
      if (← isDeleted ref) || !isDir x.mode || (← isDeleted target) || !isDir tx.mode then return rerr EINVAL
      if x.opened then return rerr EINVAL
      if x.node == tx.node && m.str 1 == m.str 3 then return rmsg 75
      match ← call x.file "RenameAt" [tx.file] [] [oldName, newName] with
      | .err e => return rerr e
      | .panic => return rerr EIO
      | .ok _ _ _ =>
        renameChildTo ref oldName target newName
        return rmsg 75
  else return rerr EINVAL
  else return rerr EINVAL

def hTunlinkat (m : Msg) : M Reply := do
  -- dirfd name flags
  if hn : safeName (m.str 1) = true then
  let name : SafeName := ⟨m.str 1, hn⟩
  withFid (m.int 0) fun ref => do
    match ← dirGuard ref with
    | some e => return rerr e
    | none =>
      let x ← getRef ref
      let _ ← pathNodeFor x.node name
      match ← call x.file "UnlinkAt" [m.int 2] [] [name] with
      | .err e => return rerr e
      | .panic => return rerr EIO
      | .ok _ _ _ =>
        markChildDeleted x.node name
        return rmsg 77
  else return rerr EINVAL

def hTrename (m : Msg) : M Reply := do
  -- fid dfid name
  if hn : safeName (m.str 2) = true then
  let newName : SafeName := ⟨m.str 2, hn⟩
  withFid (m.int 0) fun ref =>
    withFid (m.int 1) fun target => do
      let x ← getRef ref
      let tx ← getRef target
      match x.parent with
      | none => return rerr EINVAL                      -- "Don't allow a root rename."
      | some p =>
        if (← isDeleted ref) || (← isDeleted target) || !isDir tx.mode then return rerr EINVAL
        if ← isDeleted p then goPanic
        let px ← getRef p
        let oldName ← nameFor px.node ref
        if px.node == tx.node && oldName == newName then return rmsg 21
        match ← call px.file "RenameAt" [tx.file] [] [oldName, newName] with
        | .err e => return rerr e
        | .panic => return rerr EIO
        | .ok _ _ _ =>
          renameChildTo p oldName target newName
          return rmsg 21
  else return rerr EINVAL

def hTremove (m : Msg) : M Reply := do
  match ← lookupFid (m.int 0) with
  | none => return rerr EBADF
  | some ref =>
    finally' (do
      let x ← getRef ref
      let err ← (do
        match x.parent with
        | none => return EINVAL                         -- "Is this a root? Can't remove that."
        | some p =>
          if ← isDeleted ref then return EINVAL
          let px ← getRef p
          let name ← nameFor px.node ref
          match ← call px.file "UnlinkAt" [0] [] [name] with
          | .err e => return e
          | .panic => return EIO
          | .ok _ _ _ =>
            markChildDeleted px.node name
            return 0 : M Nat)
      -- "… and to clunk the fid, even if the remove fails."
      let fe ← deleteFid (m.int 0)
      if fe != 0 then return rerr fe
      if err != 0 then return rerr err
      return rmsg 123) (decRefU ref)

def hTreadlink (m : Msg) : M Reply :=
  withFid (m.int 0) fun ref => do
    let x ← getRef ref
    if (← isDeleted ref) || fileType x.mode != ModeSymlink then return rerr EINVAL
    match ← call x.file "Readlink" with
    | .err e => return rerr e
    | .panic => return rerr EIO
    | .ok _ ss _ => return rmsg 23 [.atom (.str (ss.getD 0 []))]

def connMsize : M Nat := do
  let s ← getS
  let c ← getConn
  return ((s.msize.find? (·.1 == c)).map (·.2)).getD 0

def hTread (m : Msg) : M Reply :=
  -- fid offset count
  withFid (m.int 0) fun ref => do
    let x ← getRef ref
    let count := m.int 2
    if count > maxLen then return rerr ENOBUFS
    let ms ← connMsize
    if ms == 0 then goPanic                 -- readBufPool has no New before Tversion: nil assertion panics
    -- after the D4 `fix:`: the count is clamped so that the Rread frame fits in msize
    let count := min count (ms - 11)
    match x.x.op with
    | 0 =>
      if !x.opened then return rerr EINVAL
      if x.openFlags &&& 3 == 1 then return rerr EPERM
      match ← call x.file "ReadAt" [count, m.int 1] with
      | .err e => return rerr e
      | .panic => return rerr EIO
      | .ok _ ss _ => return rmsg 117 [] (ss.getD 0 [])
    | 2 =>
      if count == 0 then
        if x.x.size == 0 then return rmsg 117 [] []
        return rerr EINVAL
      if m.int 1 + count > x.x.buf.length then return rerr EINVAL
      return rmsg 117 [] ((x.x.buf.drop (m.int 1)).take count)
    | _ => return rerr EINVAL

def hTwrite (m : Msg) : M Reply :=
  -- fid offset (count) data
  withFid (m.int 0) fun ref => do
    let x ← getRef ref
    match x.x.op with
    | 0 =>
      if !x.opened then return rerr EINVAL
      if x.openFlags &&& 3 == 0 then return rerr EPERM
      match ← call x.file "WriteAt" [m.int 1] [m.payload] with
      | .err e => return rerr e
      | .panic => return rerr EIO
      | .ok is _ _ => return rmsg 119 (ints [is.getD 0 0 % 4294967296])
    | 1 =>
      if x.x.buf.length != m.int 1 then return rerr EINVAL
      if m.int 1 + m.payload.length > x.x.size then return rerr EINVAL
      setRef ref fun x => { x with x := { x.x with buf := x.x.buf ++ m.payload } }
      return rmsg 119 (ints [m.payload.length])
    | _ => return rerr EINVAL

def hTgetattr (m : Msg) : M Reply :=
  withFid (m.int 0) fun ref => do
    let x ← getRef ref
    match ← call x.file "GetAttr" [m.int 1] with
    | .err e => return rerr e
    | .panic => return rerr EIO
    | .ok is _ _ => return rmsg 25 (ints ([is.getD 3 0] ++ is.take 3 ++ is.drop 4))

def hTsetattr (m : Msg) : M Reply :=
  withFid (m.int 0) fun ref => do
    let x ← getRef ref
    if ← isDeleted ref then return rerr EINVAL
    match ← call x.file "SetAttr" ((m.vals.drop 1).map fun v => match v with | .atom (.int n) => n | _ => 0) with
    | .err e => return rerr e
    | .panic => return rerr EIO
    | .ok _ _ _ => return rmsg 27

def joinNul (l : List Bytes) : Bytes := (l.map fun s => s ++ [0]).flatten

def hTxattrwalk (m : Msg) : M Reply :=
  -- fid newfid name
  withFid (m.int 0) fun ref => do
    let x ← getRef ref
    if ← isDeleted ref then return rerr EINVAL
    let r ← (if (m.str 2).length > 0 then call x.file "GetXattr" [] [m.str 2] else call x.file "ListXattrs" : M Res)
    match r with
    | .err e => return rerr e
    | .panic => return rerr EIO
    | .ok _ ss _ =>
      let buf := if (m.str 2).length > 0 then ss.getD 0 [] else (if ss.isEmpty then [0] else joinNul ss)
      if buf.length > maxLen then return rerr EINVAL
      -- after the D2 `fix:`s: the xattr fid gets a reference of its own made like a clone walk's
      -- (own File, registered in the path tree)
      match ← doWalk ref [] false with
      | .error e => return rerr e
      | .ok (_, nr, _, _) =>
        finally' (do
          setRef nr fun y => { y with x := { op := 2, name := m.str 2, size := buf.length, buf := buf } }
          insertFid (m.int 1) nr
          return rmsg 31 (ints [buf.length])) (decRefU nr)

def hTxattrcreate (m : Msg) : M Reply :=
  -- fid name attr_size flags
  withFid (m.int 0) fun ref => do
    if ← isDeleted ref then return rerr EINVAL
    setRef ref fun x => { x with x := { op := 1, name := m.str 1, size := m.int 2, flags := m.int 3 } }
    return rmsg 33

def hTreaddir (m : Msg) : M Reply :=
  -- fid offset count
  withFid (m.int 0) fun ref => do
    let x ← getRef ref
    if (← isDeleted ref) || !isDir x.mode then return rerr EINVAL
    if !x.opened then return rerr EINVAL
    match ← call x.file "Readdir" [m.int 1, m.int 2] with
    | .err e => return rerr e
    | .panic => return rerr EIO
    | .ok _ _ rows =>
      -- after the D4 `fix:`: the byte limit is clamped so that the Rreaddir frame fits in msize
      let ms ← connMsize
      let lim := if ms == 0 then maxLen else ms
      let count := min (m.int 2) (lim - 11)
      let es := fit direntK count 0 rows
      return rmsg 41 [.atom (.int (encRows direntK es).length), .list es]

def hSimple (m : Msg) (meth : String) (needOpen : Bool) (rtyp : Nat) : M Reply :=
  withFid (m.int 0) fun ref => do
    let x ← getRef ref
    if needOpen && !x.opened then return rerr EINVAL
    match ← call x.file meth with
    | .err e => return rerr e
    | .panic => return rerr EIO
    | .ok is _ _ => return rmsg rtyp (ints is)

def hTlock (m : Msg) : M Reply :=
  -- fid type flags start length proc_id client_id
  withFid (m.int 0) fun ref => do
    let x ← getRef ref
    match ← call x.file "Lock" [m.int 5, m.int 1, m.int 2, m.int 3, m.int 4] [m.str 6] with
    | .err e => return rerr e
    | .panic => return rerr EIO
    | .ok is _ _ => return rmsg 53 (ints (is.take 1))

/-- `clunkHandleXattr`: errno (0 = nil) -/
def clunkXattr (fid : Nat) : M Nat := do
  match ← lookupFid fid with
  | none => return EBADF
  | some ref =>
    finally' (do
      let x ← getRef ref
      if x.x.op == 1 then
        if x.x.buf.length != x.x.size then return EINVAL
        let r ← (if x.x.flags == 2 && x.x.size == 0 then call x.file "RemoveXattr" [] [x.x.name]
                else call x.file "SetXattr" [x.x.flags] [x.x.name, x.x.buf] : M Res)
        match r with
        | .err e => return e
        | _ => return 0
      else return 0) (decRefU ref)

def hTclunk (m : Msg) : M Reply := do
  let cerr ← clunkXattr (m.int 0)
  let de ← deleteFid (m.int 0)
  if de != 0 then return rerr de
  if cerr != 0 then return rerr cerr
  return rmsg 121

end P9.Session
