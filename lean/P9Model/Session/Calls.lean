import P9Model.Session.Frame
/-!
# The backend call log only grows

`CallsGrow c c'`: the log of `c'` is the log of `c` with newer calls in front.  Every primitive of
the session monad satisfies it, hence (frame calculus) every handler: a call once made stays in
the log.  `Post P m`: if `m` returns normally, `P` holds of the context it returns.
-/
namespace P9.Session

def CallsGrow (c c' : Ctx) : Prop := ∃ newer, c'.calls = newer ++ c.calls

instance : Rel CallsGrow where
  refl _ := ⟨[], rfl⟩
  trans := fun ⟨n1, h1⟩ ⟨n2, h2⟩ => ⟨n2 ++ n1, by rw [h2, h1, List.append_assoc]⟩

theorem CallsGrow.mem {c c' : Ctx} (h : CallsGrow c c') {x : Call} (hx : x ∈ c.calls) : x ∈ c'.calls := by
  obtain ⟨n, hn⟩ := h; rw [hn]; exact List.mem_append_right _ hx

theorem modS_calls (f : State → State) : Pres CallsGrow (modS f) := Pres.modS (fun _ => ⟨[], rfl⟩)
theorem getRef_calls (r : Nat) : Pres CallsGrow (getRef r) := by
  unfold getRef; exact Pres.bind Pres.getS (fun _ => Pres.pure _)
theorem getNode_calls (n : Nat) : Pres CallsGrow (getNode n) := by
  unfold getNode; exact Pres.bind Pres.getS (fun _ => Pres.pure _)
theorem setRef_calls (r : Nat) (f : Ref → Ref) : Pres CallsGrow (setRef r f) := modS_calls _
theorem setNode_calls (n : Nat) (f : Node → Node) : Pres CallsGrow (setNode n f) := modS_calls _
theorem incRef_calls (r : Nat) : Pres CallsGrow (incRef r) := setRef_calls r _
theorem removeChild_calls (n r : Nat) : Pres CallsGrow (removeChild n r) := setNode_calls n _
theorem callClose_calls (h : Nat) : Pres CallsGrow (callClose h) := fun c => ⟨[_], rfl⟩
theorem callRenamed_calls (h p : Nat) (n : SafeName) : Pres CallsGrow (callRenamed h p n) := fun c => ⟨[_], rfl⟩

theorem decRef_calls (fuel r : Nat) : Pres CallsGrow (decRef fuel r) := by
  induction fuel generalizing r with
  | zero => exact Pres.pure _
  | succ f ih =>
    unfold decRef
    refine Pres.bind (getRef_calls r) (fun x => ?_)
    refine Pres.bind (setRef_calls r _) (fun _ => ?_)
    refine Pres.ite ?_ (Pres.pure _)
    refine Pres.bind (setRef_calls r _) (fun _ => ?_)
    refine Pres.bind (callClose_calls _) (fun e => ?_)
    split
    · exact Pres.pure _
    · refine Pres.bind (getRef_calls _) (fun px => ?_)
      refine Pres.bind (removeChild_calls _ _) (fun _ => ?_)
      exact Pres.bind (ih _) (fun _ => Pres.pure _)

theorem decRefU_calls (r : Nat) : Pres CallsGrow (decRefU r) := by
  unfold decRefU decRef'
  exact Pres.bind (Pres.bind Pres.getS (fun _ => decRef_calls _ _)) (fun _ => Pres.pure _)

theorem whenSome_calls {α : Type} (o : Option α) (f : α → M Unit) (hf : ∀ a, Pres CallsGrow (f a)) :
    Pres CallsGrow (whenSome o f) := by
  cases o with
  | none => exact Pres.pure _
  | some a => exact hf a

theorem addChild_calls (n r : Nat) (name : SafeName) : Pres CallsGrow (addChild n r name) := by
  unfold addChild
  refine Pres.bind (getNode_calls n) (fun nd => Pres.ite Pres.goPanic (setNode_calls _ _))

theorem renameMoved_calls (target tnode : Nat) (newName : SafeName) (tfile : Nat) (l : List (Nat × SafeName)) :
    Pres CallsGrow (renameMoved target tnode newName tfile l) := by
  induction l with
  | nil => exact Pres.pure _
  | cons e rest ih =>
    unfold renameMoved
    refine Pres.bind (getRef_calls _) (fun x => Pres.ite ?_ ih)
    refine Pres.bind (incRef_calls _) (fun _ => ?_)
    refine Pres.bind (whenSome_calls _ _ decRefU_calls) (fun _ => ?_)
    refine Pres.bind (setRef_calls _ _) (fun _ => ?_)
    refine Pres.bind (incRef_calls _) (fun _ => ?_)
    refine Pres.bind (addChild_calls _ _ _) (fun _ => ?_)
    refine Pres.bind (callRenamed_calls _ _ _) (fun _ => ?_)
    exact Pres.bind ih (fun _ => Pres.pure _)

/-- if `m` returns normally, `P` holds of the context it returns -/
def Post {α : Type} (P : Ctx → Prop) (m : M α) : Prop :=
  ∀ c, match m c with
    | .ok _ c' => P c'
    | .panic _ => True

theorem Post.bind_any {α β : Type} {P : Ctx → Prop} (m : M α) {f : α → M β} (hf : ∀ a, Post P (f a)) :
    Post P (m >>= f) := by
  intro c
  show match (Bind.bind m f : M β) c with | .ok _ c' => P c' | .panic _ => True
  simp only [Bind.bind]
  cases hmc : m c with
  | ok a c1 => exact hf a c1
  | panic c1 => trivial

/-- a call just made stays in the log through anything that only grows the log -/
theorem Post.after_call {β : Type} (x : Call) {first : M Unit} {rest : M β}
    (hfirst : ∀ c, ∃ c1, first c = .ok () c1 ∧ x ∈ c1.calls) (hrest : Pres CallsGrow rest) :
    Post (fun c => x ∈ c.calls) (first >>= fun _ => rest) := by
  intro c
  show match (Bind.bind first (fun _ => rest) : M β) c with | .ok _ c' => x ∈ c'.calls | .panic _ => True
  simp only [Bind.bind]
  obtain ⟨c1, h1, hx⟩ := hfirst c
  rw [h1]
  simp only
  have := hrest c1
  cases hr : rest c1 with
  | ok b c2 => simp only [hr] at this ⊢; exact this.mem hx
  | panic c2 => simp only [hr]

end P9.Session
