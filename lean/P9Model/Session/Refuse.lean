import P9Model.Session.Dispatch
import P9Model.Session.Frame
/-!
# Refusals: evaluating `LookupFID; defer DecRef; body` when the body refuses at once

`pinned r c` / `unpinned r c` are the contexts with the count of reference `r` raised / lowered by
one; a handler whose body refuses without touching anything returns the context it started from
up to that raise-and-lower (`withFid_refuse`), i.e. `Untouched`.
-/
namespace P9.Session
open P9

/-- what a refusal leaves behind: no backend call was made, the oracle tape is untouched, fid
table and path tree are as before -/
def Untouched (c c' : Ctx) : Prop :=
  c'.calls = c.calls ∧ c'.tape = c.tape ∧ c'.st.fids = c.st.fids ∧ c'.st.nodes = c.st.nodes

/-- the context inside `withFid`: the reference count raised by one -/
def pinned (r : Nat) (c : Ctx) : Ctx :=
  { c with st := { c.st with refs := c.st.refs.set r { (c.st.refs.getD r default) with refs := (c.st.refs.getD r default).refs + 1 } } }

theorem pinned_getD (r : Nat) (c : Ctx) (h : r < c.st.refs.length) :
    (pinned r c).st.refs.getD r default = { (c.st.refs.getD r default) with refs := (c.st.refs.getD r default).refs + 1 } := by
  simp [pinned, List.getD_eq_getElem?_getD, List.getElem?_set, h]

/-- the reference count lowered by one -/
def unpinned (r : Nat) (c : Ctx) : Ctx :=
  { c with st := { c.st with refs := c.st.refs.set r { (c.st.refs.getD r default) with refs := (c.st.refs.getD r default).refs - 1 } } }

theorem getRef_eval (r : Nat) (c : Ctx) : getRef r c = .ok (c.st.refs.getD r default) c := rfl

theorem incRef_eval (r : Nat) (c : Ctx) : incRef r c = .ok () (pinned r c) := rfl

theorem isDeleted_eval (r : Nat) (c : Ctx) :
    isDeleted r c = .ok (c.st.nodes.getD (c.st.refs.getD r default).node default).deleted c := rfl

/-- dropping a reference that is not the last one: no Close, only the count changes -/
theorem decRefU_noclose (r : Nat) (c : Ctx) (h : (c.st.refs.getD r default).refs ≠ 1) :
    decRefU r c = .ok () (unpinned r c) := by
  unfold decRefU decRef' getS
  simp only [bind]
  unfold decRef getRef getS setRef modS
  simp only [bind, pure, h, ↓reduceIte]
  rfl

theorem unpinned_pinned_getD (r : Nat) (c : Ctx) (h : r < c.st.refs.length) :
    (unpinned r (pinned r c)).st.refs.getD r default = c.st.refs.getD r default := by
  have hx := pinned_getD r c h
  have hlen : r < (pinned r c).st.refs.length := by simp [pinned]; exact h
  simp only [unpinned, List.getD_eq_getElem?_getD, List.getElem?_set_self hlen, Option.getD_some]
  simp only [← List.getD_eq_getElem?_getD, hx]
  simp

/-- `fid` is bound to the live reference `t` (any path node) -/
structure Bound (fid t : Nat) (c : Ctx) : Prop where
  bound : (c.st.fids.find? (·.1 == (c.conn, fid))).map (·.2) = some t
  inRange : t < c.st.refs.length
  live : (c.st.refs.getD t default).refs ≥ 1

theorem getD_set_ref (l : List Ref) (n k : Nat) (v : Ref) :
    (l.set n v).getD k default = if n = k ∧ n < l.length then v else l.getD k default := by
  simp only [List.getD_eq_getElem?_getD, List.getElem?_set]
  by_cases h : n = k
  · subst h
    by_cases hl : n < l.length
    · simp [hl]
    · simp [hl]
  · simp [h]

/-- pinning and unpinning a reference in range gives back every reference as it was -/
theorem unpinned_pinned_all (t k : Nat) (c : Ctx) (h : t < c.st.refs.length) :
    (unpinned t (pinned t c)).st.refs.getD k default = c.st.refs.getD k default := by
  by_cases hk : t = k
  · subst hk; exact unpinned_pinned_getD t c h
  · simp only [unpinned, pinned, getD_set_ref, hk, false_and, ↓reduceIte]

theorem pinned_other (t k : Nat) (c : Ctx) (hk : t ≠ k) :
    (pinned t c).st.refs.getD k default = c.st.refs.getD k default := by
  simp only [pinned, getD_set_ref, hk, false_and, ↓reduceIte]

/-- a `LookupFID; defer DecRef; body` on a bound fid whose body refuses at once: the result
context is the one we started from with the count raised and lowered again -/
theorem withFid_refuse (fid t e : Nat) (body : Nat → M Reply) (c : Ctx) (h : Bound fid t c)
    (hb : body t (pinned t c) = .ok (rerr e) (pinned t c)) :
    withFid fid body c = .ok (rerr e) (unpinned t (pinned t c)) := by
  have hl : lookupFid fid c = .ok (some t) (pinned t c) := by
    unfold lookupFid lookupFidRaw getS getConn incRef setRef modS
    simp [bind, pure, h.bound, pinned]
  have hx := pinned_getD t c h.inRange
  have hne : ((pinned t c).st.refs.getD t default).refs ≠ 1 := by
    rw [hx]
    have hlive := h.live
    show (c.st.refs.getD t default).refs + 1 ≠ 1
    omega
  unfold withFid
  simp only [bind, hl, finally', hb, decRefU_noclose t _ hne]

end P9.Session
