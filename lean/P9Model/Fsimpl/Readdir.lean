import P9Model.Wire.Msg
/-!
# Directory listing by pages (fsimpl/readdir, fsimpl/localfs/readdir.go after the D5 fix,
staticfs / composefs, the server's truncation of Rreaddir, the client's paging loop)

All three file systems number the entries 1, 2, … in a fixed order and return, for
`Readdir(offset, count)`, the entries numbered `offset+1 … offset+count` (count caps the
*number* of entries on the backend side); the server then keeps the whole entries that fit in
`min(count, msize − 11)` *bytes*.  A lister continues at the Offset of the last entry it got.
-/
namespace P9.Readdir
open P9

abbrev Row := List Atom

/-- what the backend returns: at most `count` entries after the first `off`. -/
def window (E : List Row) (off count : Nat) : List Row := (E.drop off).take count

/-- one page as the lister sees it: the backend's window cut to whole entries within `lim` bytes
(`lim = min count (msize − 11)` through the server, `lim = ∞` – any bound ≥ the window's size –
when the File is used directly). -/
def page (E : List Row) (count lim off : Nat) : List Row := fit direntK lim 0 (window E off count)

/-- the paging loop: next offset = Offset of the last entry = number of entries seen so far. -/
def listAll : Nat → List Row → Nat → Nat → Nat → List Row
  | 0, _, _, _, _ => []
  | f+1, E, count, lim, off =>
    let p := page E count lim off
    if p = [] then [] else p ++ listAll f E count lim (off + p.length)

/-- number of Readdir calls the loop makes (including the final empty one). -/
def pages : Nat → List Row → Nat → Nat → Nat → Nat
  | 0, _, _, _, _ => 0
  | f+1, E, count, lim, off =>
    let p := page E count lim off
    if p = [] then 1 else 1 + pages f E count lim (off + p.length)

theorem fit_head_fits (ks : List AKind) (count : Nat) (r : Row) (rs : List Row)
    (h : (encRow ks r).length ≤ count) : fit ks count 0 (r :: rs) ≠ [] := by
  simp only [fit, Nat.zero_add]
  have : ¬ (encRow ks r).length > count := by omega
  simp [this]

theorem fit_is_take (ks : List AKind) (count acc : Nat) (rows : List Row) :
    fit ks count acc rows = rows.take (fit ks count acc rows).length := by
  obtain ⟨tl, h⟩ := fit_prefix ks count acc rows
  conv => rhs; arg 2; rw [h]
  rw [List.take_left']
  rfl

/-- **Paging returns every entry exactly once, in order**, whatever count is requested, as long
as each single entry fits in the byte limit (and count ≥ 1). -/
theorem listAll_complete (E : List Row) (count lim : Nat) (hc : 1 ≤ count)
    (hfit : ∀ e ∈ E, (encRow direntK e).length ≤ lim) (fuel off : Nat)
    (hf : E.length - off + 1 ≤ fuel) : listAll fuel E count lim off = E.drop off := by
  induction fuel generalizing off with
  | zero => omega
  | succ f ih =>
    unfold listAll
    simp only
    by_cases hoff : E.length ≤ off
    · have : E.drop off = [] := List.drop_eq_nil_of_le hoff
      simp [page, window, this, fit]
    · -- the window is non-empty and its first entry fits, so the page is non-empty
      have hlt : off < E.length := by omega
      have hw : window E off count ≠ [] := by
        unfold window
        intro h
        have := congrArg List.length h
        simp at this
        omega
      obtain ⟨r, rs, hrs⟩ := List.exists_cons_of_ne_nil hw
      have hr_mem : r ∈ E := by
        have : r ∈ window E off count := by rw [hrs]; simp
        unfold window at this
        exact List.mem_of_mem_drop (List.mem_of_mem_take this)
      have hp : page E count lim off ≠ [] := by
        unfold page; rw [hrs]; exact fit_head_fits _ _ _ _ (hfit r hr_mem)
      simp only [hp, if_false]
      -- the page is a prefix of the window, which is a prefix of `E.drop off`
      have hpre : page E count lim off = (E.drop off).take (page E count lim off).length := by
        have h1 := fit_is_take direntK lim 0 (window E off count)
        unfold page
        conv => lhs; rw [h1]
        unfold window
        rw [List.take_take]
        congr 1
        have hle : (fit direntK lim 0 ((E.drop off).take count)).length ≤ ((E.drop off).take count).length := by
          obtain ⟨tl, h⟩ := fit_prefix direntK lim 0 ((E.drop off).take count)
          have := congrArg List.length h
          rw [List.length_append] at this
          omega
        simp at hle
        omega
      have hplen : 1 ≤ (page E count lim off).length := by
        cases hpl : page E count lim off with
        | nil => exact absurd hpl hp
        | cons _ _ => simp
      have hple : (page E count lim off).length ≤ (E.drop off).length := by
        rw [hpre]; simp; exact Nat.min_le_right _ _
      rw [ih (off + (page E count lim off).length) (by simp at hple; omega)]
      rw [← List.drop_drop]
      conv => lhs; lhs; rw [hpre]
      exact List.take_append_drop _ _

end P9.Readdir
