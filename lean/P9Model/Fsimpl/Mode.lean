import P9Model.Gen.Consts
/-!
# FileMode <-> os.FileMode (p9/p9.go ModeFromOS / OSMode / QIDType), bit-exact on Nat
The os.Mode* values are the Go standard library's, evaluated by the extractor (`Gen.C.os_*`).
-/
namespace P9.Mode
open P9.Gen

def fileType (m : Nat) : Nat := m &&& C.FileModeMask

/-- `FileMode.OSMode` -/
def toOS (m : Nat) : Nat :=
  let o := m &&& C.AllPermissions
  let o :=
    if fileType m = C.ModeDirectory then o ||| C.os_ModeDir
    else if fileType m = C.ModeSymlink then o ||| C.os_ModeSymlink
    else if fileType m = C.ModeSocket then o ||| C.os_ModeSocket
    else if fileType m = C.ModeNamedPipe then o ||| C.os_ModeNamedPipe
    else if fileType m = C.ModeCharacterDevice then o ||| C.os_ModeCharDevice ||| C.os_ModeDevice
    else if fileType m = C.ModeBlockDevice then o ||| C.os_ModeDevice
    else o
  let o := if m &&& C.Setuid ≠ 0 then o ||| C.os_ModeSetuid else o
  let o := if m &&& C.Setgid ≠ 0 then o ||| C.os_ModeSetgid else o
  if m &&& C.Sticky ≠ 0 then o ||| C.os_ModeSticky else o

/-- `ModeFromOS` -/
def fromOS (o : Nat) : Nat :=
  let m := o &&& C.os_ModePerm
  let m :=
    if o &&& C.os_ModeDir ≠ 0 then m ||| C.ModeDirectory
    else if o &&& C.os_ModeSymlink ≠ 0 then m ||| C.ModeSymlink
    else if o &&& C.os_ModeSocket ≠ 0 then m ||| C.ModeSocket
    else if o &&& C.os_ModeNamedPipe ≠ 0 then m ||| C.ModeNamedPipe
    else if o &&& C.os_ModeCharDevice ≠ 0 then m ||| C.ModeCharacterDevice
    else if o &&& C.os_ModeDevice ≠ 0 then m ||| C.ModeBlockDevice
    else m ||| C.ModeRegular
  let m := if o &&& C.os_ModeSetuid ≠ 0 then m ||| C.Setuid else m
  let m := if o &&& C.os_ModeSetgid ≠ 0 then m ||| C.Setgid else m
  if o &&& C.os_ModeSticky ≠ 0 then m ||| C.Sticky else m

/-- `FileMode.QIDType` -/
def qidType (m : Nat) : Nat :=
  if fileType m = C.ModeDirectory then C.TypeDir
  else if fileType m = C.ModeSocket ∨ fileType m = C.ModeNamedPipe ∨ fileType m = C.ModeCharacterDevice then C.TypeAppendOnly
  else if fileType m = C.ModeSymlink then C.TypeSymlink
  else C.TypeRegular

/-- the seven valid file types. -/
def validTypes : List Nat :=
  [C.ModeSocket, C.ModeSymlink, C.ModeRegular, C.ModeBlockDevice, C.ModeDirectory,
   C.ModeCharacterDevice, C.ModeNamedPipe]

/-- round trip on all 4096 permission values of one type. -/
def roundTripsType (t : Nat) : Bool := (List.range 4096).all fun p => fromOS (toOS (t + p)) == t + p

end P9.Mode
