import P9Model.Gen.Consts
/-!
# QID paths of localfs (fsimpl/localfs/system_unix.go) and the QID mapper (fsimpl/qids/qids.go)

`encodeLikely` in arithmetic form.  For `dev < 2^32` (what the function requires before it
looks at major/minor) golang.org/x/sys/unix gives
`Major(dev) = (dev >> 8) & 0xfff` and `Minor(dev) = ((dev >> 12) & 0xffffff00) | (dev & 0xff)`,
i.e. `major = dev / 256 % 4096`, `minor = dev / 2^20 * 256 + dev % 256`.
-/
namespace P9.Qid

def two39 : Nat := 549755813888
def two51 : Nat := 2251799813685248
def two63 : Nat := 9223372036854775808
def two32 : Nat := 4294967296
def two20 : Nat := 1048576

def major (dev : Nat) : Nat := dev / 256 % 4096
def minor (dev : Nat) : Nat := dev / two20 * 256 + dev % 256

/-- `encodeLikely(dev, ino)`; `none` = `(0, false)`. -/
def encodeLikely (dev ino : Nat) : Option Nat :=
  if ino ≥ two39 then none            -- inode needs more than 39 bits
  else if dev ≥ two32 then none       -- upper 32 device bits set
  else if major dev > 4095 then none
  else if minor dev > 4095 then none
  else some (ino + minor dev * two39 + major dev * two51)

/-- the fallback table of `localToQid` (after the `fix:` that keys it by value):
pairs seen so far, and the counter (`nextQid`, starting at 2^63). -/
structure Table where
  entries : List ((Nat × Nat) × Nat) := []
  next : Nat := two63
deriving Repr

def Table.lookup (t : Table) (k : Nat × Nat) : Option Nat := (t.entries.find? (·.1 == k)).map (·.2)

/-- `localToQid` on a (dev, ino) pair: the path and the new table. -/
def localToQid (t : Table) (dev ino : Nat) : Nat × Table :=
  match encodeLikely dev ino with
  | some q => (q, t)
  | none =>
    match t.lookup (dev, ino) with
    | some q => (q, t)
    | none => (t.next + 1, { entries := ((dev, ino), t.next + 1) :: t.entries, next := t.next + 1 })

/-- `Mapper.QIDFor` with its `PathGenerator` counter threaded through. -/
structure Mapper where
  paths : List (Nat × Nat) := []
deriving Repr

def Mapper.qidFor (m : Mapper) (gen : Nat) (path : Nat) : Nat × Mapper × Nat :=
  match (m.paths.find? (·.1 == path)).map (·.2) with
  | some p => (p, m, gen)
  | none => (gen + 1, { paths := (path, gen + 1) :: m.paths }, gen + 1)

end P9.Qid
