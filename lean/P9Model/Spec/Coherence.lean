import P9Model.Basic.Bytes
/-!
# Path-coherence monitor (C08) — an independent reference model of *object identity*

The monitor sees only what a client sees: each request and its reply (plus the number of backend
calls the request caused, for "without reaching the backend").  It keeps the directory tree as a
set of entries between object identities (inode numbers, learnt from the replies that create
objects), and for every fid the object it was bound to.  Renames move an object (and with it its
whole subtree); an unlink, or a rename over an existing entry, makes the removed object and
everything below it *dead*.  A fid on a dead object is fenced.

It never looks at the server's path tree or at the backend's idea of paths: if the server failed
to tell a File its new name, or kept a reference under a stale name, the backend (which resolves
paths at each call) would reach another object or none, and the identities in the replies would
disagree with this model.  Hard links are not generated (one entry per object).
-/
namespace P9.Coherence
open P9

def ENOENT := 2
def EBADF := 9
def EINVAL := 22
def EBUSY := 16

structure Fs where
  entries : List (Nat × Bytes × Nat) := []      -- (directory object, name, object): live entries
  dirs : List Nat := []
  dead : List Nat := []
  known : List Nat := []
  fids : List ((Nat × Nat) × Nat) := []         -- (conn, fid) ↦ object
  opened : List (Nat × Nat) := []
  xattr : List (Nat × Nat) := []                -- fids turned into xattr fids (same object, no file I/O)
  root : Option Nat := none
deriving Repr, Inhabited

namespace Fs

def obj (s : Fs) (c f : Nat) : Option Nat := (s.fids.find? (·.1 == (c, f))).map (·.2)
def child (s : Fs) (d : Nat) (nm : Bytes) : Option Nat :=
  (s.entries.find? fun e => e.1 == d && e.2.1 == nm).map (·.2.2)
def entryOf (s : Fs) (o : Nat) : Option (Nat × Bytes) :=
  (s.entries.find? fun e => e.2.2 == o).map fun e => (e.1, e.2.1)
def isDead (s : Fs) (o : Nat) : Bool := s.dead.contains o
def isDir (s : Fs) (o : Nat) : Bool := s.dirs.contains o

/-- identities along a walk from `o` -/
def resolve (s : Fs) (o : Nat) : List Bytes → Option (List Nat)
  | [] => some []
  | n :: ns =>
    match s.child o n with
    | some c => (resolve s c ns).map (c :: ·)
    | none => none

/-- `o` and everything below it -/
def subtree (s : Fs) : Nat → Nat → List Nat
  | 0, o => [o]
  | fuel + 1, o => o :: ((s.entries.filter (·.1 == o)).map (·.2.2)).flatMap (subtree s fuel)

/-- the path to `o` is gone: it and everything below it are dead, their entries disappear -/
def kill (s : Fs) (o : Nat) : Fs :=
  let sub := subtree s (s.entries.length + 1) o
  { s with dead := sub ++ s.dead, entries := s.entries.filter fun e => !sub.contains e.2.2 }

def bind (s : Fs) (c f o : Nat) : Fs :=
  { s with fids := ((c, f), o) :: s.fids.filter (·.1 != (c, f)), opened := s.opened.filter (· != (c, f)),
           xattr := s.xattr.filter (· != (c, f)) }
def unbind (s : Fs) (c f : Nat) : Fs :=
  { s with fids := s.fids.filter (·.1 != (c, f)), opened := s.opened.filter (· != (c, f)),
           xattr := s.xattr.filter (· != (c, f)) }

/-- move object `x` to `(nd, nn)`, killing what was there -/
def move (s : Fs) (x nd : Nat) (nn : Bytes) : Fs :=
  let s := match s.child nd nn with
    | some y => if y == x then s else s.kill y
    | none => s
  { s with entries := (nd, nn, x) :: s.entries.filter (·.2.2 != x) }

end Fs

/-- what the client observed for one request -/
structure Obs where
  conn : Nat
  typ : Nat
  rtyp : Nat
  errno : Nat := 0
  ncalls : Nat := 0
  fid : Nat := 0
  newfid : Nat := 0
  dir : Nat := 0          -- Directory / NewDirectory
  olddir : Nat := 0
  name : Bytes := []      -- Name / NewName
  oldname : Bytes := []
  names : List Bytes := []
  id : Option Nat := none
  ids : List Nat := []
  data : Bytes := []
deriving Repr, Inhabited

def ok (o : Obs) : Bool := o.rtyp != 7

/-- a fenced fid: the request must be refused with `want`, without a backend call
(an EBADF means the fid was not bound after all, an EBUSY that a walk would replace its own opened
fid: refusals of the session layer that come first – also without a backend call) -/
def fence (o : Obs) (want : Nat) (what : String) : List String :=
  if o.rtyp == 7 && o.ncalls == 0 && (o.errno == EBADF || (o.errno == EBUSY && (o.typ == 110 || o.typ == 126))) then []
  else if o.rtyp == 7 && o.errno == want && o.ncalls == 0 then []
  else [s!"fenced-{what}-not-refused-with-{want}-before-the-backend"]

def digits (n : Nat) : Bytes := (toString n).toList.map fun c => UInt8.ofNat c.toNat

/-- creation of `name` in the directory bound to fid `df` -/
def judgeCreate (s : Fs) (o : Obs) (df : Nat) (isDir rebind : Bool) : Fs × List String :=
  match s.obj o.conn df with
  | none => (s, if ok o then ["created-through-a-fid-the-monitor-has-not-seen-bound"] else [])
  | some d =>
    if s.isDead d then (s, fence o EINVAL "create")
    else if ok o then
      match o.id with
      | none => (s, ["no-identity-in-reply"])
      | some i =>
        let probs := (if s.known.contains i then ["new-object-reuses-an-identity"] else []) ++
          (if (s.child d o.name).isSome then ["created-over-an-existing-entry"] else [])
        let s := { s with entries := (d, o.name, i) :: s.entries, known := i :: s.known,
                          dirs := (if isDir then i :: s.dirs else s.dirs) }
        let b := s.bind o.conn df i
        let s := if rebind then { b with opened := (o.conn, df) :: b.opened } else s
        (s, probs)
    else (s, if o.errno == ENOENT && s.isDir d then ["ENOENT-creating-in-a-live-directory"] else [])

def judgeMove (s : Fs) (o : Obs) (x : Option Nat) (nd : Nat) : Fs × List String :=
  match x with
  | none => (s, if ok o then ["renamed-an-entry-the-monitor-does-not-have"] else [])
  | some x =>
    if ok o then (s.move x nd o.name, [])
    else (s, if o.errno == ENOENT && s.isDir nd then ["ENOENT-renaming-a-live-entry"] else [])

def judge (s : Fs) (o : Obs) : Fs × List String :=
  match o.typ with
  | 104 =>
    if ok o then
      match o.id with
      | some i =>
        let probs := match s.root with
          | some r => if r == i then [] else ["root-identity-changed"]
          | none => []
        let b := s.bind o.conn o.fid i
        ({ b with root := some i, known := (if s.known.contains i then s.known else i :: s.known),
                  dirs := (if s.dirs.contains i then s.dirs else i :: s.dirs) }, probs)
      | none => (s, ["no-identity-in-reply"])
    else (s, [])
  | 110 | 126 =>
    match s.obj o.conn o.fid with
    | none => (s, if ok o then ["walk-succeeded-from-a-fid-the-monitor-has-not-seen-bound"] else [])
    | some src =>
      if o.names.isEmpty then
        (if ok o then s.bind o.conn o.newfid src else s, [])
      -- (a non-directory has no children: walking from it is refused as such, EINVAL – I7)
      else if s.isDead src then (s, fence o (if s.isDir src then ENOENT else EINVAL) "walk")
      else
        let res := s.resolve src o.names
        if ok o then
          match res with
          | some ids =>
            if ids == o.ids then (s.bind o.conn o.newfid (ids.getLast?.getD src), [])
            else (s.bind o.conn o.newfid (o.ids.getLast?.getD src), [s!"walk-reached-{o.ids}-expected-{ids}"])
          | none => (s.bind o.conn o.newfid (o.ids.getLast?.getD src), [s!"walk-reached-{o.ids}-but-the-path-does-not-exist"])
        else
          match res with
          | some ids =>
            let inter := src :: ids.dropLast
            (s, if o.errno == ENOENT && inter.all s.isDir then ["ENOENT-walking-an-existing-path"] else [])
          | none => (s, [])
  | 24 =>
    match s.obj o.conn o.fid with
    | none => (s, [])
    | some x =>
      if s.isDead x then (s, [])
      else if ok o then (s, if o.id == some x then [] else [s!"getattr-shows-{o.id}-fid-denotes-{x}"])
      else (s, if o.errno == ENOENT then ["ENOENT-getattr-on-a-live-object"] else [])
  | 72 => judgeCreate s o o.dir true false
  | 16 | 18 => judgeCreate s o o.dir false false
  | 14 => judgeCreate s o o.fid false true
  | 76 =>
    match s.obj o.conn o.dir with
    | none => (s, [])
    | some d =>
      if s.isDead d then (s, fence o EINVAL "unlinkat")
      else match s.child d o.name with
        | some x => if ok o then (s.kill x, [])
                    else (s, if o.errno == ENOENT then ["ENOENT-unlinking-a-live-entry"] else [])
        | none => (s, if ok o then ["unlinked-an-entry-the-monitor-does-not-have"] else [])
  | 122 =>
    match s.obj o.conn o.fid with
    | none => (s, [])
    | some x =>
      let s' := s.unbind o.conn o.fid
      if s.isDead x then (s', fence o EINVAL "remove")
      else if ok o then (s'.kill x, [])
      else (s', if o.errno == ENOENT && (s.entryOf x).isSome then ["ENOENT-removing-a-live-entry"] else [])
  | 74 =>
    match s.obj o.conn o.olddir, s.obj o.conn o.dir with
    | some od, some nd =>
      if s.isDead od || s.isDead nd then (s, fence o EINVAL "renameat")
      else if od == nd && o.oldname == o.name then (s, [])
      else judgeMove s o (s.child od o.oldname) nd
    | _, _ => (s, [])
  | 20 =>
    match s.obj o.conn o.fid, s.obj o.conn o.dir with
    | some x, some nd =>
      if s.isDead x || s.isDead nd then (s, fence o EINVAL "rename")
      else if (s.entryOf x).isNone then (s, [])           -- the root
      else if s.entryOf x == some (nd, o.name) then (s, [])
      else judgeMove s o (some x) nd
    | _, _ => (s, [])
  | 12 =>
    match s.obj o.conn o.fid with
    | none => (s, [])
    | some x =>
      if s.isDead x then (s, fence o EINVAL "open")
      else (if ok o then { s with opened := (o.conn, o.fid) :: s.opened } else s, [])
  | 116 =>
    match s.obj o.conn o.fid with
    | none => (s, [])
    | some x =>
      if s.opened.contains (o.conn, o.fid) && !s.isDir x && !s.xattr.contains (o.conn, o.fid) then
        -- (a fid opened write-only refuses reads with EPERM before the backend: the session layer's rule, C04)
        (s, if !ok o then (if o.errno == 1 && o.ncalls == 0 then [] else ["read-on-an-open-fid-failed"])
            else if o.data == digits x then [] else [s!"read-returned-the-content-of-another-object-fid-denotes-{x}"])
      else (s, [])
  | 120 => (if ok o then s.unbind o.conn o.fid else s, [])
  | 26 | 22 | 30 | 32 | 40 =>
    match s.obj o.conn (if o.typ == 40 then o.dir else o.fid) with
    | none => (s, [])
    | some x =>
      -- a successful Txattrwalk binds newfid to, and a successful Txattrcreate turns the fid into, an
      -- xattr fid: still on the same object and path, but reads and writes go to the attribute
      let s' := if ok o && o.typ == 30 then
                  let b := s.bind o.conn o.newfid x
                  { b with xattr := (o.conn, o.newfid) :: b.xattr }
                else if ok o && o.typ == 32 then { s with xattr := (o.conn, o.fid) :: s.xattr } else s
      (s', if s.isDead x then fence o EINVAL s!"typ{o.typ}" else [])
  | 70 =>
    match s.obj o.conn o.dir with
    | none => (s, [])
    | some d => (s, if s.isDead d then fence o EINVAL "link" else [])
  | _ => (s, [])

end P9.Coherence
