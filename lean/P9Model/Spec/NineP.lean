import P9Model.Wire.Msg
/-!
# 9P2000.L (+ `.Google.N` extensions) wire layouts, transcribed from the protocol texts

Independent of the Go sources.  Sources transcribed: the diod `protocol.md` (the text
messages.go itself cites) for the 9P2000.L operations, intro(5)/version(5)/attach(5)/walk(5)/
read(5)/flush(5)/clunk(5)/remove(5) for the 9P2000 base messages, Linux
`include/net/9p/9p.h` for the type numbers and the `P9_GETATTR_*` / `P9_SETATTR_*` bit
values, and gVisor's p9 for Twalkgetattr / Tucreate / Tumkdir / Tumknod / Tusymlink.

Notation follows the manual pages (quoted in the comment above each entry): `name[n]` is an
n-byte little-endian integer, `name[s]` a string with a two-byte length, `qid[13]` =
type[1] version[4] path[8].  Each protocol field is *bound* to the name under which the p9 API
exposes it (the Go field path, embedded structs adding no component) so that values handed
to / returned by the implementation can be placed on the wire by this spec alone.
Permission-carrying `mode[4]` fields of Tlcreate / Tmkdir / Tsetattr are the ones p9 documents
as keeping their low 12 bits only (`perm`); Tmknod's mode carries the file type and is a
plain `mode[4]`.
-/
namespace P9.Spec
open P9

abbrev u1 : Kind := .atom (.int 1)
abbrev u2 : Kind := .atom (.int 2)
abbrev u4 : Kind := .atom (.int 4)
abbrev u8 : Kind := .atom (.int 8)
abbrev s : Kind := .atom .str
/-- permission bits: low 12 bits kept (07777). -/
abbrev perm : Kind := .atom (.masked 4 12)
/-- request_mask[8] / valid[8]: P9_GETATTR_* has 14 defined bits (0x1 … 0x2000). -/
abbrev getattrMask : Kind := .atom (.masked 8 14)
/-- valid[4] of Tsetattr: P9_SETATTR_* has 9 defined bits (0x1 … 0x100). -/
abbrev setattrMask : Kind := .atom (.masked 4 9)
/-- nwname[2] nwname*(wname[s]) -/
abbrev names : Kind := .list [.str]
/-- nwqid[2] nwqid*(wqid[13]) -/
abbrev qids : Kind := .list qidK
/-- packed directory entries qid[13] offset[8] type[1] name[s] -/
abbrev dirents : Kind := .list direntK

structure SpecMsg where
  name : String
  typ : Nat
  /-- protocol fields in wire order, each bound to its API name -/
  fields : List (String × Kind)
  pay : PayKind := .none
deriving DecidableEq, Repr

def SpecMsg.body (m : SpecMsg) : List Kind := m.fields.map (·.2)
def SpecMsg.desc (m : SpecMsg) : MsgDesc :=
  ⟨m.name, m.typ, m.fields.map fun f => ⟨f.1, f.2⟩, m.pay⟩

/-- P9_GETATTR_* -/
def getattrBits : List (String × Nat) :=
  [("Mode", 0x1), ("NLink", 0x2), ("UID", 0x4), ("GID", 0x8), ("RDev", 0x10), ("ATime", 0x20),
   ("MTime", 0x40), ("CTime", 0x80), ("INo", 0x100), ("Size", 0x200), ("Blocks", 0x400),
   ("BTime", 0x800), ("Gen", 0x1000), ("DataVersion", 0x2000)]

/-- P9_SETATTR_* -/
def setattrBits : List (String × Nat) :=
  [("Permissions", 0x1), ("UID", 0x2), ("GID", 0x4), ("Size", 0x8), ("ATime", 0x10),
   ("MTime", 0x20), ("CTime", 0x40), ("ATimeNotSystemTime", 0x80), ("MTimeNotSystemTime", 0x100)]

/-- every message p9 registers, sorted by type number. -/
def messages : List SpecMsg := [
  -- Rlerror: ecode[4]
  ⟨"Rlerror", 7, [("Error", u4)], .none⟩,
  -- Tstatfs: fid[4]
  ⟨"Tstatfs", 8, [("fid", u4)], .none⟩,
  -- Rstatfs: type[4] bsize[4] blocks[8] bfree[8] bavail[8] files[8] ffree[8] fsid[8] namelen[4]
  ⟨"Rstatfs", 9, [("FSStat.Type", u4), ("FSStat.BlockSize", u4), ("FSStat.Blocks", u8), ("FSStat.BlocksFree", u8), ("FSStat.BlocksAvailable", u8), ("FSStat.Files", u8), ("FSStat.FilesFree", u8), ("FSStat.FSID", u8), ("FSStat.NameLength", u4)], .none⟩,
  -- Tlopen: fid[4] flags[4]
  ⟨"Tlopen", 12, [("fid", u4), ("Flags", u4)], .none⟩,
  -- Rlopen: qid[13] iounit[4]
  ⟨"Rlopen", 13, [("QID.Type", u1), ("QID.Version", u4), ("QID.Path", u8), ("IoUnit", u4)], .none⟩,
  -- Tlcreate: fid[4] name[s] flags[4] mode[4] gid[4]
  ⟨"Tlcreate", 14, [("fid", u4), ("Name", s), ("OpenFlags", u4), ("Permissions", perm), ("GID", u4)], .none⟩,
  -- Rlcreate: qid[13] iounit[4]
  ⟨"Rlcreate", 15, [("QID.Type", u1), ("QID.Version", u4), ("QID.Path", u8), ("IoUnit", u4)], .none⟩,
  -- Tsymlink: fid[4] name[s] symtgt[s] gid[4]
  ⟨"Tsymlink", 16, [("Directory", u4), ("Name", s), ("Target", s), ("GID", u4)], .none⟩,
  -- Rsymlink: qid[13]
  ⟨"Rsymlink", 17, [("QID.Type", u1), ("QID.Version", u4), ("QID.Path", u8)], .none⟩,
  -- Tmknod: dfid[4] name[s] mode[4] major[4] minor[4] gid[4]
  ⟨"Tmknod", 18, [("Directory", u4), ("Name", s), ("Mode", u4), ("Major", u4), ("Minor", u4), ("GID", u4)], .none⟩,
  -- Rmknod: qid[13]
  ⟨"Rmknod", 19, [("QID.Type", u1), ("QID.Version", u4), ("QID.Path", u8)], .none⟩,
  -- Trename: fid[4] dfid[4] name[s]
  ⟨"Trename", 20, [("fid", u4), ("Directory", u4), ("Name", s)], .none⟩,
  -- Rrename: 
  ⟨"Rrename", 21, [], .none⟩,
  -- Treadlink: fid[4]
  ⟨"Treadlink", 22, [("fid", u4)], .none⟩,
  -- Rreadlink: target[s]
  ⟨"Rreadlink", 23, [("Target", s)], .none⟩,
  -- Tgetattr: fid[4] request_mask[8]
  ⟨"Tgetattr", 24, [("fid", u4), ("AttrMask", getattrMask)], .none⟩,
  -- Rgetattr: valid[8] qid[13] mode[4] uid[4] gid[4] nlink[8] rdev[8] size[8] blksize[8] blocks[8] atime_sec[8] atime_nsec[8] mtime_sec[8] mtime_nsec[8] ctime_sec[8] ctime_nsec[8] btime_sec[8] btime_nsec[8] gen[8] data_version[8]
  ⟨"Rgetattr", 25, [("Valid", getattrMask), ("Type", u1), ("Version", u4), ("Path", u8), ("Attr.Mode", u4), ("Attr.UID", u4), ("Attr.GID", u4), ("Attr.NLink", u8), ("Attr.RDev", u8), ("Attr.Size", u8), ("Attr.BlockSize", u8), ("Attr.Blocks", u8), ("Attr.ATimeSeconds", u8), ("Attr.ATimeNanoSeconds", u8), ("Attr.MTimeSeconds", u8), ("Attr.MTimeNanoSeconds", u8), ("Attr.CTimeSeconds", u8), ("Attr.CTimeNanoSeconds", u8), ("Attr.BTimeSeconds", u8), ("Attr.BTimeNanoSeconds", u8), ("Attr.Gen", u8), ("Attr.DataVersion", u8)], .none⟩,
  -- Tsetattr: fid[4] valid[4] mode[4] uid[4] gid[4] size[8] atime_sec[8] atime_nsec[8] mtime_sec[8] mtime_nsec[8]
  ⟨"Tsetattr", 26, [("fid", u4), ("Valid", setattrMask), ("SetAttr.Permissions", perm), ("SetAttr.UID", u4), ("SetAttr.GID", u4), ("SetAttr.Size", u8), ("SetAttr.ATimeSeconds", u8), ("SetAttr.ATimeNanoSeconds", u8), ("SetAttr.MTimeSeconds", u8), ("SetAttr.MTimeNanoSeconds", u8)], .none⟩,
  -- Rsetattr: 
  ⟨"Rsetattr", 27, [], .none⟩,
  -- Txattrwalk: fid[4] newfid[4] name[s]
  ⟨"Txattrwalk", 30, [("fid", u4), ("newFID", u4), ("Name", s)], .none⟩,
  -- Rxattrwalk: size[8]
  ⟨"Rxattrwalk", 31, [("Size", u8)], .none⟩,
  -- Txattrcreate: fid[4] name[s] attr_size[8] flags[4]
  ⟨"Txattrcreate", 32, [("fid", u4), ("Name", s), ("AttrSize", u8), ("Flags", u4)], .none⟩,
  -- Rxattrcreate: 
  ⟨"Rxattrcreate", 33, [], .none⟩,
  -- Treaddir: fid[4] offset[8] count[4]
  ⟨"Treaddir", 40, [("Directory", u4), ("Offset", u8), ("Count", u4)], .none⟩,
  -- Rreaddir: count[4] data[count]; data = entries qid[13] offset[8] type[1] name[s]
  ⟨"Rreaddir", 41, [("Count", u4), ("Entries", dirents)], .dirents⟩,
  -- Tfsync: fid[4]
  ⟨"Tfsync", 50, [("fid", u4)], .none⟩,
  -- Rfsync: 
  ⟨"Rfsync", 51, [], .none⟩,
  -- Tlock: fid[4] type[1] flags[4] start[8] length[8] proc_id[4] client_id[s]
  ⟨"Tlock", 52, [("fid", u4), ("Type", u1), ("Flags", u4), ("Start", u8), ("Length", u8), ("PID", u4), ("Client", s)], .none⟩,
  -- Rlock: status[1]
  ⟨"Rlock", 53, [("Status", u1)], .none⟩,
  -- Tlink: dfid[4] fid[4] name[s]
  ⟨"Tlink", 70, [("Directory", u4), ("Target", u4), ("Name", s)], .none⟩,
  -- Rlink: 
  ⟨"Rlink", 71, [], .none⟩,
  -- Tmkdir: dfid[4] name[s] mode[4] gid[4]
  ⟨"Tmkdir", 72, [("Directory", u4), ("Name", s), ("Permissions", perm), ("GID", u4)], .none⟩,
  -- Rmkdir: qid[13]
  ⟨"Rmkdir", 73, [("QID.Type", u1), ("QID.Version", u4), ("QID.Path", u8)], .none⟩,
  -- Trenameat: olddirfid[4] oldname[s] newdirfid[4] newname[s]
  ⟨"Trenameat", 74, [("OldDirectory", u4), ("OldName", s), ("NewDirectory", u4), ("NewName", s)], .none⟩,
  -- Rrenameat: 
  ⟨"Rrenameat", 75, [], .none⟩,
  -- Tunlinkat: dirfd[4] name[s] flags[4]
  ⟨"Tunlinkat", 76, [("Directory", u4), ("Name", s), ("Flags", u4)], .none⟩,
  -- Runlinkat: 
  ⟨"Runlinkat", 77, [], .none⟩,
  -- Tversion: msize[4] version[s]
  ⟨"Tversion", 100, [("MSize", u4), ("Version", s)], .none⟩,
  -- Rversion: msize[4] version[s]
  ⟨"Rversion", 101, [("MSize", u4), ("Version", s)], .none⟩,
  -- Tauth: afid[4] uname[s] aname[s] n_uname[4]
  ⟨"Tauth", 102, [("Authenticationfid", u4), ("UserName", s), ("AttachName", s), ("UID", u4)], .none⟩,
  -- Rauth: aqid[13]
  ⟨"Rauth", 103, [("Type", u1), ("Version", u4), ("Path", u8)], .none⟩,
  -- Tattach: fid[4] afid[4] uname[s] aname[s] n_uname[4]
  ⟨"Tattach", 104, [("fid", u4), ("Auth.Authenticationfid", u4), ("Auth.UserName", s), ("Auth.AttachName", s), ("Auth.UID", u4)], .none⟩,
  -- Rattach: qid[13]
  ⟨"Rattach", 105, [("Type", u1), ("Version", u4), ("Path", u8)], .none⟩,
  -- Tflush: oldtag[2]
  ⟨"Tflush", 108, [("OldTag", u2)], .none⟩,
  -- Rflush: 
  ⟨"Rflush", 109, [], .none⟩,
  -- Twalk: fid[4] newfid[4] nwname[2] nwname*(wname[s])
  ⟨"Twalk", 110, [("fid", u4), ("newFID", u4), ("Names", names)], .none⟩,
  -- Rwalk: nwqid[2] nwqid*(wqid[13])
  ⟨"Rwalk", 111, [("QIDs", qids)], .none⟩,
  -- Tread: fid[4] offset[8] count[4]
  ⟨"Tread", 116, [("fid", u4), ("Offset", u8), ("Count", u4)], .none⟩,
  -- Rread: count[4] data[count]
  ⟨"Rread", 117, [], .data⟩,
  -- Twrite: fid[4] offset[8] count[4] data[count]
  ⟨"Twrite", 118, [("fid", u4), ("Offset", u8)], .data⟩,
  -- Rwrite: count[4]
  ⟨"Rwrite", 119, [("Count", u4)], .none⟩,
  -- Tclunk: fid[4]
  ⟨"Tclunk", 120, [("fid", u4)], .none⟩,
  -- Rclunk: 
  ⟨"Rclunk", 121, [], .none⟩,
  -- Tremove: fid[4]
  ⟨"Tremove", 122, [("fid", u4)], .none⟩,
  -- Rremove: 
  ⟨"Rremove", 123, [], .none⟩,
  -- Twalkgetattr: fid[4] newfid[4] nwname[2] nwname*(wname[s])   (gVisor .Google.2)
  ⟨"Twalkgetattr", 126, [("fid", u4), ("newFID", u4), ("Names", names)], .none⟩,
  -- Rwalkgetattr: valid[8] attr (as Rgetattr after the qid) nwqid[2] nwqid*(wqid[13])   (gVisor .Google.2)
  ⟨"Rwalkgetattr", 127, [("Valid", getattrMask), ("Attr.Mode", u4), ("Attr.UID", u4), ("Attr.GID", u4), ("Attr.NLink", u8), ("Attr.RDev", u8), ("Attr.Size", u8), ("Attr.BlockSize", u8), ("Attr.Blocks", u8), ("Attr.ATimeSeconds", u8), ("Attr.ATimeNanoSeconds", u8), ("Attr.MTimeSeconds", u8), ("Attr.MTimeNanoSeconds", u8), ("Attr.CTimeSeconds", u8), ("Attr.CTimeNanoSeconds", u8), ("Attr.BTimeSeconds", u8), ("Attr.BTimeNanoSeconds", u8), ("Attr.Gen", u8), ("Attr.DataVersion", u8), ("QIDs", qids)], .none⟩,
  -- Tucreate: Tlcreate + uid[4]   (gVisor .Google.3)
  ⟨"Tucreate", 128, [("fid", u4), ("Name", s), ("OpenFlags", u4), ("Permissions", perm), ("GID", u4), ("UID", u4)], .none⟩,
  -- Rucreate: = Rlcreate
  ⟨"Rucreate", 129, [("QID.Type", u1), ("QID.Version", u4), ("QID.Path", u8), ("IoUnit", u4)], .none⟩,
  -- Tumkdir: Tmkdir + uid[4]
  ⟨"Tumkdir", 130, [("Directory", u4), ("Name", s), ("Permissions", perm), ("GID", u4), ("UID", u4)], .none⟩,
  -- Rumkdir: = Rmkdir
  ⟨"Rumkdir", 131, [("QID.Type", u1), ("QID.Version", u4), ("QID.Path", u8)], .none⟩,
  -- Tumknod: Tmknod + uid[4]
  ⟨"Tumknod", 132, [("Directory", u4), ("Name", s), ("Mode", u4), ("Major", u4), ("Minor", u4), ("GID", u4), ("UID", u4)], .none⟩,
  -- Rumknod: = Rmknod
  ⟨"Rumknod", 133, [("QID.Type", u1), ("QID.Version", u4), ("QID.Path", u8)], .none⟩,
  -- Tusymlink: Tsymlink + uid[4]
  ⟨"Tusymlink", 134, [("Directory", u4), ("Name", s), ("Target", s), ("GID", u4), ("UID", u4)], .none⟩,
  -- Rusymlink: = Rsymlink
  ⟨"Rusymlink", 135, [("QID.Type", u1), ("QID.Version", u4), ("QID.Path", u8)], .none⟩
]

/-- the spec's one-line serialiser: size[4] type[1] tag[2] body payload. -/
def bytes (m : SpecMsg) (tag : Nat) (vals : List Val) (payload : Bytes) : Bytes :=
  let body :=
    match m.pay with
    | .none => enc m.body vals
    | .data => enc m.body vals ++ leEnc 4 payload.length ++ payload
    | .dirents =>
      match vals with
      | [.atom (.int count), .list entries] =>
        let pl := encRows direntK (fit direntK count 0 entries)
        leEnc 4 pl.length ++ pl
      | _ => []
  leEnc 4 (7 + body.length) ++ [UInt8.ofNat m.typ] ++ leEnc 2 tag ++ body

end P9.Spec
