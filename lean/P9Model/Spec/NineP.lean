import P9Model.Wire.Msg
/-!
# 9P2000.L (+ `.Google.N` extensions) wire layouts, transcribed from the protocol texts

Independent of the Go sources.  Sources transcribed: the diod `protocol.md` (the text
messages.go itself cites) for the 9P2000.L operations, intro(5)/version(5)/attach(5)/walk(5)/
read(5)/flush(5)/clunk(5)/remove(5) for the 9P2000 base messages, Linux
`include/net/9p/9p.h` for the type numbers and the `P9_GETATTR_*` / `P9_SETATTR_*` bit
values, and gVisor's p9 for Twalkgetattr / Tucreate / Tumkdir / Tumknod / Tusymlink.

Notation follows the manual pages: `name[n]` is an n-byte little-endian integer, `name[s]` a
string with a two-byte length, `qid[13]` = type[1] version[4] path[8].
Permission-carrying `mode[4]` fields of Tlcreate / Tmkdir / Tsetattr are the ones p9 documents
as keeping their low 12 bits only (`perm`); Tmknod's mode carries the file type and is a
plain `mode[4]`.
-/
namespace P9.Spec
open P9

abbrev u1 : Kind := .atom (.int 1)
abbrev u2 : Kind := .atom (.int 2)
abbrev u4 : Kind := .atom (.int 4)
abbrev u8 : Kind := .atom (.int 8)
abbrev s : Kind := .atom .str
/-- permission bits: low 12 bits kept (07777). -/
abbrev perm : Kind := .atom (.masked 4 12)
/-- request_mask[8] / valid[8]: P9_GETATTR_* has 14 defined bits (0x1 … 0x2000). -/
abbrev getattrMask : Kind := .atom (.masked 8 14)
/-- valid[4] of Tsetattr: P9_SETATTR_* has 9 defined bits (0x1 … 0x100). -/
abbrev setattrMask : Kind := .atom (.masked 4 9)

def qid : List Kind := [u1, u4, u8]
/-- the body of Rgetattr after valid[8] qid[13]. -/
def attr : List Kind :=
  [u4, u4, u4,            -- mode uid gid
   u8, u8, u8, u8, u8,    -- nlink rdev size blksize blocks
   u8, u8, u8, u8, u8, u8, u8, u8,  -- atime mtime ctime btime (sec, nsec)
   u8, u8]                -- gen data_version
def names : Kind := .list [.str]              -- nwname[2] nwname*(wname[s])
def qids : Kind := .list [.int 1, .int 4, .int 8]  -- nwqid[2] nwqid*(wqid[13])

structure SpecMsg where
  name : String
  typ : Nat
  body : List Kind
  pay : PayKind := .none
deriving DecidableEq, Repr

/-- P9_GETATTR_* -/
def getattrBits : List (String × Nat) :=
  [("Mode", 0x1), ("NLink", 0x2), ("UID", 0x4), ("GID", 0x8), ("RDev", 0x10), ("ATime", 0x20),
   ("MTime", 0x40), ("CTime", 0x80), ("INo", 0x100), ("Size", 0x200), ("Blocks", 0x400),
   ("BTime", 0x800), ("Gen", 0x1000), ("DataVersion", 0x2000)]

/-- P9_SETATTR_* -/
def setattrBits : List (String × Nat) :=
  [("Permissions", 0x1), ("UID", 0x2), ("GID", 0x4), ("Size", 0x8), ("ATime", 0x10),
   ("MTime", 0x20), ("CTime", 0x40), ("ATimeNotSystemTime", 0x80), ("MTimeNotSystemTime", 0x100)]

def tlcreate : List Kind := [u4, s, u4, perm, u4]   -- fid name flags mode gid
def tmkdir : List Kind := [u4, s, perm, u4]         -- dfid name mode gid
def tmknod : List Kind := [u4, s, u4, u4, u4, u4]   -- dfid name mode major minor gid
def tsymlink : List Kind := [u4, s, s, u4]          -- fid name symtgt gid
def rlopen : List Kind := qid ++ [u4]               -- qid iounit

/-- every message p9 registers, sorted by type number. -/
def messages : List SpecMsg := [
  ⟨"Rlerror", 7, [u4], .none⟩,                                   -- ecode[4]
  ⟨"Tstatfs", 8, [u4], .none⟩,                                   -- fid[4]
  ⟨"Rstatfs", 9, [u4, u4, u8, u8, u8, u8, u8, u8, u4], .none⟩,   -- type bsize blocks bfree bavail files ffree fsid namelen
  ⟨"Tlopen", 12, [u4, u4], .none⟩,                               -- fid flags
  ⟨"Rlopen", 13, rlopen, .none⟩,
  ⟨"Tlcreate", 14, tlcreate, .none⟩,
  ⟨"Rlcreate", 15, rlopen, .none⟩,
  ⟨"Tsymlink", 16, tsymlink, .none⟩,
  ⟨"Rsymlink", 17, qid, .none⟩,
  ⟨"Tmknod", 18, tmknod, .none⟩,
  ⟨"Rmknod", 19, qid, .none⟩,
  ⟨"Trename", 20, [u4, u4, s], .none⟩,                           -- fid dfid name
  ⟨"Rrename", 21, [], .none⟩,
  ⟨"Treadlink", 22, [u4], .none⟩,
  ⟨"Rreadlink", 23, [s], .none⟩,
  ⟨"Tgetattr", 24, [u4, getattrMask], .none⟩,
  ⟨"Rgetattr", 25, [getattrMask] ++ qid ++ attr, .none⟩,
  ⟨"Tsetattr", 26, [u4, setattrMask, perm, u4, u4, u8, u8, u8, u8, u8], .none⟩, -- fid valid mode uid gid size atime(2) mtime(2)
  ⟨"Rsetattr", 27, [], .none⟩,
  ⟨"Txattrwalk", 30, [u4, u4, s], .none⟩,                        -- fid newfid name
  ⟨"Rxattrwalk", 31, [u8], .none⟩,                               -- size[8]
  ⟨"Txattrcreate", 32, [u4, s, u8, u4], .none⟩,                  -- fid name attr_size flags
  ⟨"Rxattrcreate", 33, [], .none⟩,
  ⟨"Treaddir", 40, [u4, u8, u4], .none⟩,                         -- fid offset count
  ⟨"Rreaddir", 41, [u4, .list direntK], .dirents⟩,               -- count[4] data[count] = entries qid[13] offset[8] type[1] name[s]
  ⟨"Tfsync", 50, [u4], .none⟩,
  ⟨"Rfsync", 51, [], .none⟩,
  ⟨"Tlock", 52, [u4, u1, u4, u8, u8, u4, s], .none⟩,             -- fid type flags start length proc_id client_id
  ⟨"Rlock", 53, [u1], .none⟩,                                    -- status[1]
  ⟨"Tlink", 70, [u4, u4, s], .none⟩,                             -- dfid fid name
  ⟨"Rlink", 71, [], .none⟩,
  ⟨"Tmkdir", 72, tmkdir, .none⟩,
  ⟨"Rmkdir", 73, qid, .none⟩,
  ⟨"Trenameat", 74, [u4, s, u4, s], .none⟩,                      -- olddirfid oldname newdirfid newname
  ⟨"Rrenameat", 75, [], .none⟩,
  ⟨"Tunlinkat", 76, [u4, s, u4], .none⟩,                         -- dirfd name flags
  ⟨"Runlinkat", 77, [], .none⟩,
  ⟨"Tversion", 100, [u4, s], .none⟩,                             -- msize version
  ⟨"Rversion", 101, [u4, s], .none⟩,
  ⟨"Tauth", 102, [u4, s, s, u4], .none⟩,                         -- afid uname aname n_uname
  ⟨"Rauth", 103, qid, .none⟩,
  ⟨"Tattach", 104, [u4, u4, s, s, u4], .none⟩,                   -- fid afid uname aname n_uname
  ⟨"Rattach", 105, qid, .none⟩,
  ⟨"Tflush", 108, [u2], .none⟩,                                  -- oldtag[2]
  ⟨"Rflush", 109, [], .none⟩,
  ⟨"Twalk", 110, [u4, u4, names], .none⟩,                        -- fid newfid nwname[2] nwname*(wname[s])
  ⟨"Rwalk", 111, [qids], .none⟩,
  ⟨"Tread", 116, [u4, u8, u4], .none⟩,                           -- fid offset count
  ⟨"Rread", 117, [], .data⟩,                                     -- count[4] data[count]
  ⟨"Twrite", 118, [u4, u8], .data⟩,                              -- fid offset count[4] data[count]
  ⟨"Rwrite", 119, [u4], .none⟩,
  ⟨"Tclunk", 120, [u4], .none⟩,
  ⟨"Rclunk", 121, [], .none⟩,
  ⟨"Tremove", 122, [u4], .none⟩,
  ⟨"Rremove", 123, [], .none⟩,
  ⟨"Twalkgetattr", 126, [u4, u4, names], .none⟩,
  ⟨"Rwalkgetattr", 127, [getattrMask] ++ attr ++ [qids], .none⟩,
  ⟨"Tucreate", 128, tlcreate ++ [u4], .none⟩,                    -- Tlcreate + uid[4]
  ⟨"Rucreate", 129, rlopen, .none⟩,
  ⟨"Tumkdir", 130, tmkdir ++ [u4], .none⟩,
  ⟨"Rumkdir", 131, qid, .none⟩,
  ⟨"Tumknod", 132, tmknod ++ [u4], .none⟩,
  ⟨"Rumknod", 133, qid, .none⟩,
  ⟨"Tusymlink", 134, tsymlink ++ [u4], .none⟩,
  ⟨"Rusymlink", 135, qid, .none⟩
]

/-- the spec's one-line serialiser: size[4] type[1] tag[2] body payload. -/
def bytes (m : SpecMsg) (tag : Nat) (vals : List Val) (payload : Bytes) : Bytes :=
  let body :=
    match m.pay with
    | .none => enc m.body vals
    | .data => enc m.body vals ++ leEnc 4 payload.length ++ payload
    | .dirents =>
      match vals with
      | [.atom (.int count), .list entries] =>
        let pl := encRows direntK (fit direntK count 0 entries)
        leEnc 4 pl.length ++ pl
      | _ => []
  leEnc 4 (7 + body.length) ++ [UInt8.ofNat m.typ] ++ leEnc 2 tag ++ body

end P9.Spec
