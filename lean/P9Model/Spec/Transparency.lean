/-!
# The transparency table (C03): which request field carries which parameter of each File
method, and which backend call the server makes from those fields

Hand-written from the File interface (p9/file.go) and the protocol: `c.fid` is the receiver's
fid, other right-hand sides are the method's parameters.  The two tables compose to the
identity on parameters: `param → request field → backend argument`.
-/
namespace P9.Spec.Transparency

/-- message type ↦ (field ↦ client-side source) every literal of that type must contain -/
def stubExpect : List (String × List (String × String)) := [
  ("tclunk", [("fid", "c.fid")]),
  ("tlcreate", [("fid", "c.fid"), ("Name", "name"), ("OpenFlags", "openFlags"), ("Permissions", "permissions")]),
  ("tucreate", [("tlcreate", "msg"), ("UID", "uid")]),
  ("tfsync", [("fid", "c.fid")]),
  ("tgetattr", [("fid", "c.fid"), ("AttrMask", "req")]),
  ("tlink", [("Directory", "c.fid"), ("Name", "newname"), ("Target", "targetFile.fid")]),
  ("tlock", [("fid", "c.fid"), ("Type", "locktype"), ("Flags", "flags"), ("Start", "start"), ("Length", "length"),
             ("PID", "int32(pid)"), ("Client", "client")]),
  ("tmkdir", [("Directory", "c.fid"), ("Name", "name"), ("Permissions", "permissions")]),
  ("tumkdir", [("tmkdir", "msg"), ("UID", "uid")]),
  ("tmknod", [("Directory", "c.fid"), ("Name", "name"), ("Mode", "mode"), ("Major", "major"), ("Minor", "minor")]),
  ("tumknod", [("tmknod", "msg"), ("UID", "uid")]),
  ("tlopen", [("fid", "c.fid"), ("Flags", "flags")]),
  ("treaddir", [("Directory", "c.fid"), ("Offset", "offset"), ("Count", "count")]),
  ("treadlink", [("fid", "c.fid")]),
  ("tremove", [("fid", "c.fid")]),
  ("trename", [("fid", "c.fid"), ("Directory", "clientDir.fid"), ("Name", "name")]),
  ("trenameat", [("OldDirectory", "c.fid"), ("OldName", "oldname"), ("NewDirectory", "clientNewDir.fid"), ("NewName", "newname")]),
  ("tsetattr", [("fid", "c.fid"), ("Valid", "valid"), ("SetAttr", "attr")]),
  ("tstatfs", [("fid", "c.fid")]),
  ("tsymlink", [("Directory", "c.fid"), ("Name", "newname"), ("Target", "oldname")]),
  ("tusymlink", [("tsymlink", "msg"), ("UID", "uid")]),
  ("tunlinkat", [("Directory", "c.fid"), ("Name", "name"), ("Flags", "flags")]),
  ("twalk", [("fid", "c.fid"), ("newFID", "fid(id)"), ("Names", "names")]),
  ("twalkgetattr", [("fid", "c.fid"), ("newFID", "fid(id)"), ("Names", "components")]),
  ("tread", [("fid", "c.fid"), ("Offset", "uint64(offset)"), ("Count", "uint32(len(p))")]),
  ("twrite", [("fid", "c.fid"), ("Offset", "uint64(offset)"), ("Data", "p")]),
  ("txattrwalk", [("fid", "c.fid"), ("newFID", "fid(id)"), ("Name", "attr")]),
  ("tattach", [("fid", "fid(id)")]),
  ("tauth", [("AttachName", "name"), ("Authenticationfid", "noFID")])
]

/-- backend method ↦ (receiver, argument expressions) of the call a handler makes for a request
(the request is `t`, the directory/looked-up reference `ref`, the second one `refTarget`). -/
def handlerExpect : List (String × String × List String) := [
  ("FSync", "ref.file", []),
  ("GetAttr", "ref.file", ["t.AttrMask"]),
  ("Create", "ref.file", ["t.Name", "t.OpenFlags", "t.Permissions", "uid", "t.GID"]),
  ("Link", "ref.file", ["refTarget.file", "t.Name"]),
  ("Lock", "ref.file", ["int(t.PID)", "t.Type", "t.Flags", "t.Start", "t.Length", "t.Client"]),
  ("Open", "ref.file", ["t.Flags"]),
  ("Mkdir", "ref.file", ["t.Name", "t.Permissions", "uid", "t.GID"]),
  ("Mknod", "ref.file", ["t.Name", "t.Mode", "t.Major", "t.Minor", "uid", "t.GID"]),
  ("ReadAt", "ref.file", ["dataBuf[:count]", "int64(t.Offset)"]),
  ("Readdir", "ref.file", ["t.Offset", "t.Count"]),
  ("Readlink", "ref.file", []),
  ("UnlinkAt", "ref.parent.file", ["name", "0"]),                      -- Tremove: on the parent, current name
  ("RenameAt", "ref.parent.file", ["oldName", "refTarget.file", "t.Name"]),  -- Trename: on the parent, current name
  ("RenameAt", "ref.file", ["t.OldName", "refTarget.file", "t.NewName"]),
  ("SetAttr", "ref.file", ["t.Valid", "t.SetAttr"]),
  ("StatFS", "ref.file", []),
  ("Symlink", "ref.file", ["t.Target", "t.Name", "uid", "t.GID"]),
  ("UnlinkAt", "ref.file", ["t.Name", "t.Flags"]),
  ("WriteAt", "ref.file", ["t.Data", "int64(t.Offset)"]),
  ("GetXattr", "ref.file", ["t.Name"]),
  ("ListXattrs", "ref.file", [])
]

end P9.Spec.Transparency
