import P9Model.Basic.Bytes
/-!
# Layout-driven 9P codec (model of p9/buffer.go + the encode/decode methods of messages.go, p9.go)

A message body is a list of fields; each field is an atom (fixed-width little-endian integer,
masked integer, 2-byte-length-prefixed string) or a 16-bit-counted list of rows of atoms
(`Twalk.Names`, `Rwalk.QIDs`).  `masked w n` models both `WritePermissions/ReadPermissions`
(w = 4, n = 12: the value is reduced to its low 12 bits on both sides) and the AttrMask /
SetAttrMask bit sets (only the low n bits exist as struct fields).

`dec` returns `none` exactly where the Go buffer's sticky `overflow` flag ends up set.
-/
namespace P9

inductive AKind
  | int (w : Nat)
  | masked (w n : Nat)
  | str
deriving DecidableEq, Repr, Inhabited

inductive Atom
  | int (n : Nat)
  | str (s : Bytes)
deriving DecidableEq, Repr, Inhabited

inductive Kind
  | atom (k : AKind)
  | list (elem : List AKind)
deriving DecidableEq, Repr, Inhabited

inductive Val
  | atom (a : Atom)
  | list (rows : List (List Atom))
deriving DecidableEq, Repr, Inhabited

/-! ## atoms -/

def encA : AKind → Atom → Bytes
  | .int w, .int v => leEnc w v
  | .masked w n, .int v => leEnc w (v % 2 ^ n)
  | .str, .str s => leEnc 2 s.length ++ s
  | _, _ => []

def decA (k : AKind) (b : Bytes) : Option (Atom × Bytes) :=
  match k with
  | .int w =>
    match split? w b with
    | none => none
    | some (x, r) => some (.int (leDec x), r)
  | .masked w n =>
    match split? w b with
    | none => none
    | some (x, r) => some (.int (leDec x % 2 ^ n), r)
  | .str =>
    match split? 2 b with
    | none => none
    | some (lb, r) =>
      match split? (leDec lb) r with
      | none => none
      | some (s, r') => some (.str s, r')

/-- the value a Go struct field of this kind can hold and the codec can carry. -/
def wfA : AKind → Atom → Prop
  | .int w, .int v => v < 256 ^ w
  | .masked w n, .int v => v < 256 ^ w ∧ 2 ^ n ≤ 256 ^ w
  | .str, .str s => s.length < 65536
  | _, _ => False

instance (k : AKind) (a : Atom) : Decidable (wfA k a) := by
  cases k <;> cases a <;> simp only [wfA] <;> infer_instance

/-- the documented value change: masked fields keep their low `n` bits. -/
def normA : AKind → Atom → Atom
  | .masked _ n, .int v => .int (v % 2 ^ n)
  | _, a => a

theorem decA_encA (k : AKind) (a : Atom) (h : wfA k a) (rest : Bytes) :
    decA k (encA k a ++ rest) = some (normA k a, rest) := by
  cases k <;> cases a <;> simp only [wfA] at h
  case int.int w v =>
    simp only [decA, encA, normA]
    rw [split?_append _ _ _ (leEnc_length _ _)]
    simp only [leDec_leEnc _ _ h]
  case masked.int w n v =>
    simp only [decA, encA, normA]
    rw [split?_append _ _ _ (leEnc_length _ _)]
    have : v % 2 ^ n < 256 ^ w := Nat.lt_of_lt_of_le (Nat.mod_lt _ (Nat.pow_pos (by decide))) h.2
    simp only [leDec_leEnc _ _ this, Nat.mod_mod]
  case str.str s =>
    simp only [decA, encA, normA, List.append_assoc]
    rw [split?_append _ _ 2 (leEnc_length _ _)]
    simp only
    rw [leDec_leEnc 2 _ (by simpa using h), split?_append _ _ _ rfl]

theorem encA_normA (k : AKind) (a : Atom) : encA k (normA k a) = encA k a := by
  cases k <;> cases a <;> simp [encA, normA, Nat.mod_mod]

theorem normA_idem (k : AKind) (a : Atom) : normA k (normA k a) = normA k a := by
  cases k <;> cases a <;> simp [normA, Nat.mod_mod]

theorem wfA_normA (k : AKind) (a : Atom) (h : wfA k a) : wfA k (normA k a) := by
  cases k <;> cases a <;> simp only [wfA, normA] at * <;> try exact h
  case masked.int w n v =>
    exact ⟨Nat.lt_of_le_of_lt (Nat.mod_le _ _) h.1, h.2⟩

/-- decoding inspects only the bytes it consumes: the result splits the input. -/
theorem decA_some {k : AKind} {b r : Bytes} {a : Atom} (h : decA k b = some (a, r)) :
    ∃ pre, b = pre ++ r ∧ ∀ r', decA k (pre ++ r') = some (a, r') := by
  cases k with
  | int w =>
    simp only [decA] at h
    split at h
    · cases h
    · rename_i x r0 hs
      simp only [Option.some.injEq, Prod.mk.injEq] at h
      obtain ⟨rfl, rfl⟩ := h
      obtain ⟨rfl, hl⟩ := split?_some hs
      exact ⟨x, rfl, fun r' => by simp only [decA, split?_append _ _ _ hl]⟩
  | masked w n =>
    simp only [decA] at h
    split at h
    · cases h
    · rename_i x r0 hs
      simp only [Option.some.injEq, Prod.mk.injEq] at h
      obtain ⟨rfl, rfl⟩ := h
      obtain ⟨rfl, hl⟩ := split?_some hs
      exact ⟨x, rfl, fun r' => by simp only [decA, split?_append _ _ _ hl]⟩
  | str =>
    simp only [decA] at h
    split at h
    · cases h
    · rename_i lb r0 hs
      split at h
      · cases h
      · rename_i s r1 hs2
        simp only [Option.some.injEq, Prod.mk.injEq] at h
        obtain ⟨rfl, rfl⟩ := h
        obtain ⟨rfl, hl⟩ := split?_some hs
        obtain ⟨rfl, hl2⟩ := split?_some hs2
        refine ⟨lb ++ s, by simp, fun r' => ?_⟩
        simp only [decA, List.append_assoc, split?_append _ _ _ hl, split?_append _ _ _ hl2]

/-! ## rows (flat lists of atoms): QID, Dirent, list elements -/

def encRow : List AKind → List Atom → Bytes
  | k :: ks, a :: as => encA k a ++ encRow ks as
  | _, _ => []

def decRow : List AKind → Bytes → Option (List Atom × Bytes)
  | [], b => some ([], b)
  | k :: ks, b =>
    match decA k b with
    | none => none
    | some (a, r) =>
      match decRow ks r with
      | none => none
      | some (as, r') => some (a :: as, r')

def wfRow : List AKind → List Atom → Prop
  | [], [] => True
  | k :: ks, a :: as => wfA k a ∧ wfRow ks as
  | _, _ => False

instance instDecWfRow : (ks : List AKind) → (as : List Atom) → Decidable (wfRow ks as)
  | [], [] => isTrue trivial
  | k :: ks, a :: as => by
      simp only [wfRow]
      have := instDecWfRow ks as
      infer_instance
  | [], _ :: _ => isFalse (by simp [wfRow])
  | _ :: _, [] => isFalse (by simp [wfRow])

def normRow : List AKind → List Atom → List Atom
  | k :: ks, a :: as => normA k a :: normRow ks as
  | _, _ => []

theorem decRow_encRow (ks : List AKind) (as : List Atom) (h : wfRow ks as) (rest : Bytes) :
    decRow ks (encRow ks as ++ rest) = some (normRow ks as, rest) := by
  induction ks generalizing as with
  | nil => cases as <;> simp_all [wfRow, decRow, encRow, normRow]
  | cons k ks ih =>
    cases as with
    | nil => simp [wfRow] at h
    | cons a as =>
      simp only [wfRow] at h
      simp only [decRow, encRow, normRow, List.append_assoc]
      rw [decA_encA _ _ h.1]; simp only; rw [ih _ h.2]

theorem encRow_normRow (ks : List AKind) (as : List Atom) (h : wfRow ks as) :
    encRow ks (normRow ks as) = encRow ks as := by
  induction ks generalizing as with
  | nil => cases as <;> simp_all [wfRow, encRow, normRow]
  | cons k ks ih =>
    cases as with
    | nil => simp [wfRow] at h
    | cons a as =>
      simp only [wfRow] at h
      simp only [encRow, normRow, encA_normA, ih _ h.2]

theorem wfRow_normRow (ks : List AKind) (as : List Atom) (h : wfRow ks as) :
    wfRow ks (normRow ks as) := by
  induction ks generalizing as with
  | nil => cases as <;> simp_all [wfRow, normRow]
  | cons k ks ih =>
    cases as with
    | nil => simp [wfRow] at h
    | cons a as =>
      simp only [wfRow] at h
      simp only [normRow, wfRow]
      exact ⟨wfA_normA _ _ h.1, ih _ h.2⟩

theorem normRow_idem (ks : List AKind) (as : List Atom) :
    normRow ks (normRow ks as) = normRow ks as := by
  induction ks generalizing as with
  | nil => cases as <;> simp [normRow]
  | cons k ks ih =>
    cases as with
    | nil => simp [normRow]
    | cons a as => simp only [normRow, normA_idem, ih]

theorem decRow_some {ks : List AKind} {b r : Bytes} {as : List Atom}
    (h : decRow ks b = some (as, r)) :
    ∃ pre, b = pre ++ r ∧ ∀ r', decRow ks (pre ++ r') = some (as, r') := by
  induction ks generalizing b as with
  | nil =>
    simp only [decRow, Option.some.injEq, Prod.mk.injEq] at h
    obtain ⟨rfl, rfl⟩ := h
    exact ⟨[], rfl, fun r' => rfl⟩
  | cons k ks ih =>
    simp only [decRow] at h
    split at h
    · cases h
    · rename_i a r0 ha
      split at h
      · cases h
      · rename_i as0 r1 hr
        simp only [Option.some.injEq, Prod.mk.injEq] at h
        obtain ⟨rfl, rfl⟩ := h
        obtain ⟨p1, rfl, h1⟩ := decA_some ha
        obtain ⟨p2, rfl, h2⟩ := ih hr
        refine ⟨p1 ++ p2, by simp, fun r' => ?_⟩
        simp only [decRow, List.append_assoc, h1, h2]

/-- a decoded row has one atom per kind (shape). -/
theorem decRow_length {ks : List AKind} {b r : Bytes} {as : List Atom}
    (h : decRow ks b = some (as, r)) : as.length = ks.length := by
  induction ks generalizing b as r with
  | nil => simp only [decRow, Option.some.injEq, Prod.mk.injEq] at h; simp [← h.1]
  | cons k ks ih =>
    simp only [decRow] at h
    split at h
    · cases h
    · split at h
      · cases h
      · rename_i hr
        simp only [Option.some.injEq, Prod.mk.injEq] at h
        rw [← h.1]; simp [ih hr]

/-! ## counted lists of rows -/

def encRows (ks : List AKind) : List (List Atom) → Bytes
  | [] => []
  | r :: rs => encRow ks r ++ encRows ks rs

def decRows (ks : List AKind) : Nat → Bytes → Option (List (List Atom) × Bytes)
  | 0, b => some ([], b)
  | n+1, b =>
    match decRow ks b with
    | none => none
    | some (row, r) =>
      match decRows ks n r with
      | none => none
      | some (rows, r') => some (row :: rows, r')

theorem decRows_encRows (ks : List AKind) (rows : List (List Atom))
    (h : ∀ r ∈ rows, wfRow ks r) (rest : Bytes) :
    decRows ks rows.length (encRows ks rows ++ rest) = some (rows.map (normRow ks), rest) := by
  induction rows with
  | nil => simp [decRows, encRows]
  | cons r rs ih =>
    simp only [List.length_cons, decRows, encRows, List.append_assoc, List.map_cons]
    rw [decRow_encRow _ _ (h r (by simp))]; simp only
    rw [ih (fun r' hr' => h r' (by simp [hr']))]

theorem decRows_some {ks : List AKind} {n : Nat} {b r : Bytes} {rows : List (List Atom)}
    (h : decRows ks n b = some (rows, r)) :
    rows.length = n ∧ ∃ pre, b = pre ++ r ∧ ∀ r', decRows ks n (pre ++ r') = some (rows, r') := by
  induction n generalizing b rows with
  | zero =>
    simp only [decRows, Option.some.injEq, Prod.mk.injEq] at h
    obtain ⟨rfl, rfl⟩ := h
    exact ⟨rfl, [], rfl, fun r' => rfl⟩
  | succ n ih =>
    simp only [decRows] at h
    split at h
    · cases h
    · rename_i row r0 hrow
      split at h
      · cases h
      · rename_i rows0 r1 hrows
        simp only [Option.some.injEq, Prod.mk.injEq] at h
        obtain ⟨rfl, rfl⟩ := h
        obtain ⟨p1, rfl, h1⟩ := decRow_some hrow
        obtain ⟨hl, p2, rfl, h2⟩ := ih hrows
        refine ⟨by simp [hl], p1 ++ p2, by simp, fun r' => ?_⟩
        simp only [decRows, List.append_assoc, h1, h2]

/-! ## fields and layouts -/

def encF : Kind → Val → Bytes
  | .atom k, .atom a => encA k a
  | .list ks, .list rows => leEnc 2 rows.length ++ encRows ks rows
  | _, _ => []

def decF (k : Kind) (b : Bytes) : Option (Val × Bytes) :=
  match k with
  | .atom k =>
    match decA k b with
    | none => none
    | some (a, r) => some (.atom a, r)
  | .list ks =>
    match split? 2 b with
    | none => none
    | some (nb, r) =>
      match decRows ks (leDec nb) r with
      | none => none
      | some (rows, r') => some (.list rows, r')

def wfF : Kind → Val → Prop
  | .atom k, .atom a => wfA k a
  | .list ks, .list rows => rows.length < 65536 ∧ ∀ r ∈ rows, wfRow ks r
  | _, _ => False

instance (k : Kind) (v : Val) : Decidable (wfF k v) := by
  cases k <;> cases v <;> simp only [wfF] <;> infer_instance

def normF : Kind → Val → Val
  | .atom k, .atom a => .atom (normA k a)
  | .list ks, .list rows => .list (rows.map (normRow ks))
  | _, v => v

theorem decF_encF (k : Kind) (v : Val) (h : wfF k v) (rest : Bytes) :
    decF k (encF k v ++ rest) = some (normF k v, rest) := by
  cases k <;> cases v <;> simp only [wfF] at h
  case atom.atom k a =>
    simp only [decF, encF, normF, decA_encA _ _ h]
  case list.list ks rows =>
    simp only [decF, encF, normF, List.append_assoc]
    rw [split?_append _ _ 2 (leEnc_length _ _)]
    simp only
    rw [leDec_leEnc 2 _ (by simpa using h.1), decRows_encRows _ _ h.2]

theorem decF_some {k : Kind} {b r : Bytes} {v : Val} (h : decF k b = some (v, r)) :
    ∃ pre, b = pre ++ r ∧ ∀ r', decF k (pre ++ r') = some (v, r') := by
  cases k with
  | atom k =>
    simp only [decF] at h
    split at h
    · cases h
    · rename_i a r0 ha
      simp only [Option.some.injEq, Prod.mk.injEq] at h
      obtain ⟨rfl, rfl⟩ := h
      obtain ⟨p, rfl, hp⟩ := decA_some ha
      exact ⟨p, rfl, fun r' => by simp only [decF, hp]⟩
  | list ks =>
    simp only [decF] at h
    split at h
    · cases h
    · rename_i nb r0 hs
      split at h
      · cases h
      · rename_i rows r1 hrows
        simp only [Option.some.injEq, Prod.mk.injEq] at h
        obtain ⟨rfl, rfl⟩ := h
        obtain ⟨rfl, hl⟩ := split?_some hs
        obtain ⟨_, p, rfl, hp⟩ := decRows_some hrows
        refine ⟨nb ++ p, by simp, fun r' => ?_⟩
        simp only [decF, List.append_assoc, split?_append _ _ _ hl, hp]

abbrev Layout := List Kind

def enc : Layout → List Val → Bytes
  | k :: ks, v :: vs => encF k v ++ enc ks vs
  | _, _ => []

def dec : Layout → Bytes → Option (List Val × Bytes)
  | [], b => some ([], b)
  | k :: ks, b =>
    match decF k b with
    | none => none
    | some (v, r) =>
      match dec ks r with
      | none => none
      | some (vs, r') => some (v :: vs, r')

def WF : Layout → List Val → Prop
  | [], [] => True
  | k :: ks, v :: vs => wfF k v ∧ WF ks vs
  | _, _ => False

instance instDecWF : (ks : Layout) → (vs : List Val) → Decidable (WF ks vs)
  | [], [] => isTrue trivial
  | k :: ks, v :: vs => by
      simp only [WF]
      have := instDecWF ks vs
      infer_instance
  | [], _ :: _ => isFalse (by simp [WF])
  | _ :: _, [] => isFalse (by simp [WF])

def norm : Layout → List Val → List Val
  | k :: ks, v :: vs => normF k v :: norm ks vs
  | _, _ => []

/-- **Round trip**: what is encoded decodes to the same values (masked fields keep their low
bits), leaving exactly the bytes that followed. -/
theorem dec_enc (L : Layout) (vs : List Val) (h : WF L vs) (rest : Bytes) :
    dec L (enc L vs ++ rest) = some (norm L vs, rest) := by
  induction L generalizing vs with
  | nil => cases vs <;> simp_all [WF, dec, enc, norm]
  | cons k ks ih =>
    cases vs with
    | nil => simp [WF] at h
    | cons v vs =>
      simp only [WF] at h
      simp only [dec, enc, norm, List.append_assoc]
      rw [decF_encF _ _ h.1]; simp only; rw [ih _ h.2]

/-- **Prefix property**: a successful decode consumed a prefix of the input and never looked
past it (the same prefix decodes to the same values in front of any other bytes). -/
theorem dec_some {L : Layout} {b r : Bytes} {vs : List Val} (h : dec L b = some (vs, r)) :
    ∃ pre, b = pre ++ r ∧ ∀ r', dec L (pre ++ r') = some (vs, r') := by
  induction L generalizing b vs with
  | nil =>
    simp only [dec, Option.some.injEq, Prod.mk.injEq] at h
    obtain ⟨rfl, rfl⟩ := h
    exact ⟨[], rfl, fun r' => rfl⟩
  | cons k ks ih =>
    simp only [dec] at h
    split at h
    · cases h
    · rename_i v r0 hv
      split at h
      · cases h
      · rename_i vs0 r1 hvs
        simp only [Option.some.injEq, Prod.mk.injEq] at h
        obtain ⟨rfl, rfl⟩ := h
        obtain ⟨p1, rfl, h1⟩ := decF_some hv
        obtain ⟨p2, rfl, h2⟩ := ih hvs
        refine ⟨p1 ++ p2, by simp, fun r' => ?_⟩
        simp only [dec, List.append_assoc, h1, h2]

/-- Excluded side, stated explicitly: a string of 65 536 bytes is written with a wrapped
16-bit length (Go: `uint16(len(s))`), so it does **not** round-trip. It is outside the
property's quantifier (strings of 0..65535 bytes). -/
theorem str_len_wrap (s : Bytes) (h : s.length = 65536) (rest : Bytes) :
    decA .str (encA .str (.str s) ++ rest) = some (.str [], s ++ rest) := by
  simp only [decA, encA, List.append_assoc]
  rw [split?_append _ _ 2 (leEnc_length _ _)]
  simp only [leDec_leEnc_mod, h]
  rfl

end P9
