import P9Model.Wire.Codec
/-!
# Messages, frames, payloads (model of p9/transport.go `send` and the payloader messages)

A `MsgDesc` is what the extractor regenerates from messages.go for every registered message
(`Gen/Layouts.lean`) and what `Spec/NineP.lean` states independently from the protocol text.
-/
namespace P9

/-- how a message carries a trailing payload (`payloader` interface). -/
inductive PayKind
  | none      -- not a payloader
  | data      -- Rread / Twrite: fixed part ends with count[4] = len(payload)
  | dirents   -- Rreaddir: count[4] then the packed directory entries
deriving DecidableEq, Repr, Inhabited

structure FieldDesc where
  name : String
  kind : Kind
deriving DecidableEq, Repr, Inhabited

structure MsgDesc where
  name : String
  typ : Nat
  /-- fixed fields in wire order, *excluding* the derived `count[4]` of payloaders -/
  fields : List FieldDesc
  pay : PayKind
deriving DecidableEq, Repr, Inhabited

def MsgDesc.layout (d : MsgDesc) : Layout := d.fields.map (·.kind)

/-- a message value: field values in wire order plus payload bytes.
For `dirents` messages `vals = [count, entries]` and `payload` is unused. -/
structure Msg where
  vals : List Val
  payload : Bytes := []
deriving DecidableEq, Repr, Inhabited

/-- QID on the wire: type[1] version[4] path[8]. -/
def qidK : List AKind := [.int 1, .int 4, .int 8]
/-- Dirent on the wire: qid[13] offset[8] type[1] name[s]. -/
def direntK : List AKind := qidK ++ [.int 8, .int 1, .str]

/-- `rreaddir.encode`: the longest prefix of whole entries whose packed size stays within
`count` (the loop breaks at the first entry that makes the running size exceed Count). -/
def fit (ks : List AKind) (count : Nat) : Nat → List (List Atom) → List (List Atom)
  | _, [] => []
  | acc, r :: rs =>
    if acc + (encRow ks r).length > count then [] else r :: fit ks count (acc + (encRow ks r).length) rs

/-- `rreaddir.decode`: decode entries until one does not fit in what is left. -/
def decGreedy (ks : List AKind) : Nat → Bytes → List (List Atom)
  | 0, _ => []
  | fuel+1, b =>
    match decRow ks b with
    | none => []
    | some (row, r) => row :: decGreedy ks fuel r

/-- (fixed part, payload) produced by `m.encode` + `Payload()`. -/
def encodeBody (d : MsgDesc) (m : Msg) : Bytes × Bytes :=
  match d.pay with
  | .none => (enc d.layout m.vals, [])
  | .data => (enc d.layout m.vals ++ leEnc 4 m.payload.length, m.payload)
  | .dirents =>
    match m.vals with
    | [.atom (.int count), .list entries] =>
      let pl := encRows direntK (fit direntK count 0 entries)
      (leEnc 4 pl.length, pl)
    | _ => ([], [])

/-- `send`: size[4] type[1] tag[2] fixed payload. -/
def frame (d : MsgDesc) (tag : Nat) (m : Msg) : Bytes :=
  let (fx, pl) := encodeBody d m
  leEnc 4 (7 + fx.length + pl.length) ++ [UInt8.ofNat d.typ] ++ leEnc 2 tag ++ fx ++ pl

/-- `FixedSize()` of a payloader whose fixed fields are all fixed-width. -/
def AKind.width? : AKind → Option Nat
  | .int w => some w
  | .masked w _ => some w
  | .str => none

def fixedWidth : Layout → Option Nat
  | [] => some 0
  | .atom k :: ks =>
    match k.width?, fixedWidth ks with
    | some a, some b => some (a + b)
    | _, _ => none
  | .list _ :: _ => none

def MsgDesc.fixedSize (d : MsgDesc) : Nat :=
  match d.pay with
  | .none => 0
  | .data => (fixedWidth d.layout).getD 0 + 4
  | .dirents => 4

/-- `m.decode` on the fixed part with the payload already attached by `recv`. -/
def decodeBody (d : MsgDesc) (fixed payload : Bytes) : Option Msg :=
  match d.pay with
  | .none =>
    match dec d.layout fixed with
    | none => none
    | some (vs, _) => some { vals := vs }
  | .data =>
    match dec d.layout fixed with
    | none => none
    | some (vs, r) =>
      match decA (.int 4) r with
      | none => none
      | some (.int c, _) => if c = payload.length then some { vals := vs, payload := payload } else none
      | some (_, _) => none
  | .dirents =>
    match decA (.int 4) fixed with
    | some (.int c, _) => some { vals := [.atom (.int c), .list (decGreedy direntK payload.length payload)] }
    | _ => none

/-- values a message of this description can carry. -/
def wfMsg (d : MsgDesc) (m : Msg) : Prop :=
  match d.pay with
  | .none => WF d.layout m.vals ∧ m.payload = []
  | .data => WF d.layout m.vals ∧ (fixedWidth d.layout).isSome
  | .dirents =>
    match m.vals with
    | [.atom (.int count), .list entries] => count < 2 ^ 32 ∧ (∀ r ∈ entries, wfRow direntK r) ∧ m.payload = []
    | _ => False

instance (d : MsgDesc) (m : Msg) : Decidable (wfMsg d m) := by
  unfold wfMsg
  split
  · infer_instance
  · infer_instance
  · split <;> infer_instance

/-- what the receiver reconstructs: masked fields reduced; a directory reply carries the
whole entries that fit and its count becomes the payload size. -/
def normMsg (d : MsgDesc) (m : Msg) : Msg :=
  match d.pay with
  | .none => { vals := norm d.layout m.vals }
  | .data => { vals := norm d.layout m.vals, payload := m.payload }
  | .dirents =>
    match m.vals with
    | [.atom (.int count), .list entries] =>
      let es := fit direntK count 0 entries
      { vals := [.atom (.int (encRows direntK es).length), .list (es.map (normRow direntK))] }
    | _ => m

/-! ### lemmas on fixed-width layouts and directory packing -/

theorem encA_length_of_width {k : AKind} {w : Nat} (hk : k.width? = some w) (a : Atom)
    (h : wfA k a) : (encA k a).length = w := by
  cases k <;> cases a <;> simp_all [AKind.width?, encA, wfA]

theorem enc_length_of_fixedWidth {L : Layout} {w : Nat} (hw : fixedWidth L = some w)
    (vs : List Val) (h : WF L vs) : (enc L vs).length = w := by
  induction L generalizing vs w with
  | nil => cases vs <;> simp_all [fixedWidth, enc, WF]
  | cons k ks ih =>
    cases vs with
    | nil => simp [WF] at h
    | cons v vs =>
      cases k with
      | list e => simp [fixedWidth] at hw
      | atom k =>
        cases v with
        | list r => simp [WF, wfF] at h
        | atom a =>
          simp only [WF, wfF] at h
          simp only [fixedWidth] at hw
          split at hw
          · rename_i wa wb hwa hwb
            simp only [Option.some.injEq] at hw
            simp only [enc, encF, List.length_append, encA_length_of_width hwa a h.1, ih hwb vs h.2, hw]
          · cases hw

theorem fit_all_wf {ks : List AKind} {count acc : Nat} {rows : List (List Atom)}
    (h : ∀ r ∈ rows, wfRow ks r) : ∀ r ∈ fit ks count acc rows, wfRow ks r := by
  induction rows generalizing acc with
  | nil => simp [fit]
  | cons r rs ih =>
    simp only [fit]
    split
    · simp
    · intro x hx
      simp only [List.mem_cons] at hx
      rcases hx with rfl | hx
      · exact h _ (by simp)
      · exact ih (fun r' hr' => h r' (by simp [hr'])) x hx

/-- the packed size of what `fit` keeps never exceeds `count` (once `acc ≤ count`). -/
theorem fit_length_le (ks : List AKind) (count acc : Nat) (rows : List (List Atom))
    (h : acc ≤ count) : acc + (encRows ks (fit ks count acc rows)).length ≤ count := by
  induction rows generalizing acc with
  | nil => simpa [fit, encRows]
  | cons r rs ih =>
    simp only [fit]
    split
    · simpa [encRows]
    · rename_i hgt
      simp only [encRows, List.length_append]
      have := ih (acc + (encRow ks r).length) (by omega)
      omega

/-- `fit` keeps a prefix of the entries. -/
theorem fit_prefix (ks : List AKind) (count acc : Nat) (rows : List (List Atom)) :
    ∃ tl, rows = fit ks count acc rows ++ tl := by
  induction rows generalizing acc with
  | nil => exact ⟨[], by simp [fit]⟩
  | cons r rs ih =>
    simp only [fit]
    split
    · exact ⟨r :: rs, by simp⟩
    · obtain ⟨tl, h⟩ := ih (acc + (encRow ks r).length)
      exact ⟨tl, by simp only [List.cons_append]; rw [← h]⟩

/-- if everything fits, nothing is dropped. -/
theorem fit_all (ks : List AKind) (count acc : Nat) (rows : List (List Atom))
    (h : acc + (encRows ks rows).length ≤ count) : fit ks count acc rows = rows := by
  induction rows generalizing acc with
  | nil => simp [fit]
  | cons r rs ih =>
    simp only [encRows, List.length_append] at h
    simp only [fit]
    split
    · omega
    · rw [ih _ (by omega)]

/-- least number of bytes a kind needs. -/
def AKind.minLen : AKind → Nat
  | .int w => w
  | .masked w _ => w
  | .str => 2

def minLen : List AKind → Nat
  | [] => 0
  | k :: ks => k.minLen + minLen ks

theorem decA_consumes {k : AKind} {b r : Bytes} {a : Atom} (h : decA k b = some (a, r)) :
    r.length + k.minLen ≤ b.length := by
  cases k with
  | int w =>
    simp only [decA] at h
    split at h
    · cases h
    · rename_i x r0 hs
      simp only [Option.some.injEq, Prod.mk.injEq] at h
      obtain ⟨rfl, hl⟩ := split?_some hs
      simp [AKind.minLen, ← h.2, hl]; omega
  | masked w n =>
    simp only [decA] at h
    split at h
    · cases h
    · rename_i x r0 hs
      simp only [Option.some.injEq, Prod.mk.injEq] at h
      obtain ⟨rfl, hl⟩ := split?_some hs
      simp [AKind.minLen, ← h.2, hl]; omega
  | str =>
    simp only [decA] at h
    split at h
    · cases h
    · rename_i lb r0 hs
      split at h
      · cases h
      · rename_i s r1 hs2
        simp only [Option.some.injEq, Prod.mk.injEq] at h
        obtain ⟨rfl, hl⟩ := split?_some hs
        obtain ⟨rfl, hl2⟩ := split?_some hs2
        simp [AKind.minLen, ← h.2, hl]; omega

theorem decRow_consumes {ks : List AKind} {b r : Bytes} {as : List Atom}
    (h : decRow ks b = some (as, r)) : r.length + minLen ks ≤ b.length := by
  induction ks generalizing b as r with
  | nil =>
    simp only [decRow, Option.some.injEq, Prod.mk.injEq] at h
    simp [minLen, h.2]
  | cons k ks ih =>
    simp only [decRow] at h
    split at h
    · cases h
    · rename_i a r0 ha
      split at h
      · cases h
      · rename_i as0 r1 hr
        simp only [Option.some.injEq, Prod.mk.injEq] at h
        have h1 := decA_consumes ha
        have h2 := ih hr
        simp only [minLen, ← h.2]; omega

theorem minLen_direntK : minLen direntK = 24 := by decide

end P9
