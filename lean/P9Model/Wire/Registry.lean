import P9Model.Gen.Layouts
import P9Model.Gen.Consts
import P9Model.Spec.NineP
import P9Model.Transport.RoundTrip
/-!
# The regenerated message table as the model's registry, and the obligations on it
-/
namespace P9
open P9.Gen

/-- the model's view of a registered Go message: its *encode* layout. -/
def Gen.GenMsg.desc (g : GenMsg) : MsgDesc := ⟨g.goName, g.typ, g.enc, g.payEnc⟩

/-- `msgDotLRegistry.get`: lookup by type, tag ignored. -/
def registry : Lookup := fun _ typ => (Gen.messages.find? (·.typ == typ)).map (·.desc)

/-- wire shape of a message, names dropped. -/
abbrev Shape := Nat × List Kind × PayKind

def Gen.GenMsg.shapeEnc (g : GenMsg) : Shape := (g.typ, g.enc.map (·.kind), g.payEnc)
def Gen.GenMsg.shapeDec (g : GenMsg) : Shape := (g.typ, g.dec.map (·.kind), g.payDec)
def Spec.SpecMsg.shape (m : Spec.SpecMsg) : Shape := (m.typ, m.body, m.pay)

/-- the extractor understood every statement of every encode/decode/typ/FixedSize. -/
def genClean : Bool :=
  Gen.registryUnknown.isEmpty && Gen.messages.all (fun g => g.unknown.isEmpty)

/-- encode and decode of each message describe the same layout, field by field (names too). -/
def genEncDecAgree : Bool := Gen.messages.all (fun g => g.enc == g.dec && g.payEnc == g.payDec)

/-- `g` is laid out as the protocol entry `m` prescribes: same type number, same fields in the
same order – kinds *and* the API name each protocol field is bound to – same payload form. -/
def conformsTo (g : GenMsg) (m : Spec.SpecMsg) : Bool :=
  m.typ == g.typ && m.desc.fields == g.enc && m.pay == g.payEnc

/-- every registered message has the layout the protocol prescribes for its type number, and
every message of the protocol table is registered, each exactly once. -/
def genConforms : Bool :=
  Gen.messages.all (fun g => Spec.messages.any (conformsTo g)) &&
  Spec.messages.all (fun m => Gen.messages.any (fun g => conformsTo g m)) &&
  Gen.messages.length == Spec.messages.length &&
  (Gen.messages.map (·.typ)).eraseDups.length == Gen.messages.length

/-- the protocol table as a registry (used by the property monitors: independent of `Gen`). -/
def specRegistry : Lookup := fun _ typ => (Spec.messages.find? (·.typ == typ)).map (·.desc)

/-- `FixedSize()` and the payloader interface agree with the layout. -/
def genFixedSizes : Bool :=
  Gen.messages.all (fun g =>
    (g.isPayloader == (g.payEnc != .none)) &&
    (g.payEnc == .none || (g.fixedSize == g.desc.fixedSize && (g.payEnc != .data || (fixedWidth g.desc.layout).isSome))))

/-- AttrMask / SetAttrMask bit tables, both directions, equal P9_GETATTR_* / P9_SETATTR_*. -/
def genMaskTables : Bool :=
  Gen.bits_AttrMask_encode == Spec.getattrBits && Gen.bits_AttrMask_decode == Spec.getattrBits &&
  Gen.bits_SetAttrMask_encode == Spec.setattrBits && Gen.bits_SetAttrMask_decode == Spec.setattrBits

/-- type numbers fit the 1-byte type field and the header constants are the protocol's. -/
def genHeaderConsts : Bool :=
  Gen.messages.all (fun g => g.typ < 256) && Gen.C.headerLength == 7 &&
  Gen.C.maximumLength == 4194304 && Gen.C.noTag == 65535 && Gen.C.permissionsMask == 4095

/-- every slice field a decode fills is reset first (no carry-over through recycled objects). -/
def genResets : Bool := Gen.messages.all (fun g => g.lists.all (fun l => g.resets.contains l))

/-- every counted-list decode loop stops at the first overrun, so a frame cannot make the
decoder append more elements than its bytes can hold (bounded work / allocation per frame).
Rreaddir's entry loop stops at overrun by construction (`decGreedy`). -/
def genLoopsStop : Bool :=
  Gen.messages.all (fun g => g.lists.all (fun l => g.stops.contains l || g.payDec == .dirents))

end P9
