import P9Model.Wire.Registry
/-!
# Decoding into a recycled message object (the hazard C18 is about)

`msgDotLRegistry.get` may hand `recv` an object that carried an earlier message.  `decode` then
*assigns* scalar fields and *appends* to slice fields; whether the result depends on the old
content is determined by two facts per message, both regenerated from messages.go:
which struct fields `decode` assigns, and which slice fields it truncates (`x = x[:0]`) first.
-/
namespace P9

/-- decode one field into an object whose field currently holds `old`; a list field that is not
reset keeps its old rows in front of the new ones. -/
def decFInto (reset : Bool) (k : Kind) (old : Val) (b : Bytes) : Option (Val × Bytes) :=
  match decF k b with
  | some (.list rows, r) =>
    match old with
    | .list oldRows => some (.list ((if reset then [] else oldRows) ++ rows), r)
    | _ => some (.list rows, r)
  | x => x

/-- decode a layout into an object holding `olds`; `resets` says, per field, whether decode
truncates the slice first. -/
def decInto : List (Kind × Bool) → List Val → Bytes → Option (List Val × Bytes)
  | [], _, b => some ([], b)
  | (k, reset) :: ks, olds, b =>
    match decFInto reset k (olds.headD (.list [])) b with
    | none => none
    | some (v, r) =>
      match decInto ks olds.tail r with
      | none => none
      | some (vs, r') => some (v :: vs, r')

theorem decFInto_reset (k : Kind) (old : Val) (b : Bytes) : decFInto true k old b = decF k b := by
  unfold decFInto
  cases h : decF k b with
  | none => rfl
  | some p =>
    obtain ⟨v, r⟩ := p
    cases v with
    | atom a => rfl
    | list rows => cases old <;> simp

/-- **With every slice reset, decoding into a used object equals decoding into a fresh one** –
whatever the object held before. -/
theorem decInto_fresh (L : List (Kind × Bool)) (h : ∀ f ∈ L, f.2 = true) (olds : List Val) (b : Bytes) :
    decInto L olds b = dec (L.map (·.1)) b := by
  induction L generalizing olds b with
  | nil => rfl
  | cons f fs ih =>
    obtain ⟨k, reset⟩ := f
    have hr : reset = true := h (k, reset) (by simp)
    subst hr
    simp only [decInto, List.map_cons, dec, decFInto_reset]
    cases decF k b with
    | none => rfl
    | some p =>
      obtain ⟨v, r⟩ := p
      simp only
      rw [ih (fun f hf => h f (by simp [hf]))]
      rfl

/-- the hazard is real: without the reset the old rows stay in front (what a mutation that drops
`t.Names = t.Names[:0]` would do). -/
theorem decFInto_noreset_keeps_old (ks : List AKind) (oldRows rows : List (List Atom)) (b r : Bytes)
    (h : decF (.list ks) b = some (.list rows, r)) :
    decFInto false (.list ks) (.list oldRows) b = some (.list (oldRows ++ rows), r) := by
  unfold decFInto; rw [h]; simp

open P9.Gen in
/-- per message: every leaf field of the Go struct is assigned by `decode` (or is the payload,
which `recv` sets), and every slice `decode` fills is truncated first. -/
def genDecodeOverwritesAll : Bool :=
  Gen.messages.all fun g =>
    g.structFields.all (fun f => g.dec.any (·.name == f) || f == "Data" || f == "payload") &&
    g.lists.all (fun l => g.resets.contains l)

end P9
