import P9Model.Lemmas.Lock.Lockset
import P9Model.Lemmas.Lock.Leaf
import P9Model.Lemmas.Lock.ChildMu
import P9Model.Lemmas.Lock.Order
import P9Model.Lemmas.Lock.Contract
import P9Model.Lemmas.Lock.OpenOnce
import P9Model.Lemmas.Lock.Mapper
import P9Model.Lemmas.Lock.Wire
