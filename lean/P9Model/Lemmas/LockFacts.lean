import P9Model.Conc.Locks
/-! Kernel-evaluated facts about the regenerated lock scripts (one evaluation each, cached). -/
namespace P9.Locks
theorem lockset_fact : locksetOk = true := by decide +kernel
theorem leaf_fact : leafOk = true := by decide +kernel
theorem childMu_backend_fact : childMuBackendOk = true := by decide +kernel
theorem order_fact : orderOk = true := by decide +kernel
theorem contract_fact : guardsMeetContract = true := by decide +kernel
theorem open_once_fact : openOnceOk = true := by decide +kernel
end P9.Locks
