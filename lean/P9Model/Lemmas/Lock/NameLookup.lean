import P9Model.Conc.Locks
/-! Kernel-evaluated fact about the regenerated lock scripts (cached by lake until the scripts change). -/
namespace P9.Locks
theorem name_lookup_fact : nameLookupsUnderPathLocks = true := by decide +kernel
end P9.Locks
