import P9Model.Fsimpl.Mode
/-! The exhaustive 7 × 4096 mode table, one kernel-evaluated `decide` per file type (cached). -/
namespace P9.Mode
open P9.Gen
theorem rt_socket : roundTripsType C.ModeSocket = true := by decide +kernel
theorem rt_symlink : roundTripsType C.ModeSymlink = true := by decide +kernel
theorem rt_regular : roundTripsType C.ModeRegular = true := by decide +kernel
theorem rt_block : roundTripsType C.ModeBlockDevice = true := by decide +kernel
theorem rt_dir : roundTripsType C.ModeDirectory = true := by decide +kernel
theorem rt_char : roundTripsType C.ModeCharacterDevice = true := by decide +kernel
theorem rt_fifo : roundTripsType C.ModeNamedPipe = true := by decide +kernel
theorem fileType_table : (validTypes.all fun t => (List.range 4096).all fun p => fileType (t + p) == t) = true := by
  decide +kernel
end P9.Mode
