/-!
# Bytes and little-endian integers

`Bytes = List UInt8`.  `leEnc n v` is what `binary.LittleEndian.PutUintN` writes for the
value `v mod 256^n`; `leDec` is what `UintN` reads.  Go's `buffer.consume(n)` is `split?`.
Core library only.
-/

namespace P9

abbrev Bytes := List UInt8

/-- little-endian encoding of `v` in `n` bytes (`v` taken mod `256^n`, like a Go conversion). -/
def leEnc : (n : Nat) → (v : Nat) → Bytes
  | 0, _ => []
  | n+1, v => UInt8.ofNat (v % 256) :: leEnc n (v / 256)

/-- little-endian value of a byte string. -/
def leDec : Bytes → Nat
  | [] => 0
  | b :: bs => b.toNat + 256 * leDec bs

@[simp] theorem leEnc_length (n v : Nat) : (leEnc n v).length = n := by
  induction n generalizing v with
  | zero => rfl
  | succ n ih => simp [leEnc, ih]

theorem leDec_lt (b : Bytes) : leDec b < 256 ^ b.length := by
  induction b with
  | nil => simp [leDec]
  | cons x xs ih =>
    simp only [leDec, List.length_cons, Nat.pow_succ]
    have := x.toNat_lt
    omega

theorem leDec_leEnc_mod (n v : Nat) : leDec (leEnc n v) = v % 256 ^ n := by
  induction n generalizing v with
  | zero => simp [leEnc, leDec, Nat.mod_one]
  | succ n ih =>
    simp only [leEnc, leDec]
    rw [ih]
    have h1 : (UInt8.ofNat (v % 256)).toNat = v % 256 := by
      simp
    rw [h1, Nat.pow_succ, Nat.mul_comm (256 ^ n) 256, Nat.mod_mul]

theorem leDec_leEnc (n v : Nat) (h : v < 256 ^ n) : leDec (leEnc n v) = v := by
  rw [leDec_leEnc_mod, Nat.mod_eq_of_lt h]

theorem leEnc_leDec (b : Bytes) : leEnc b.length (leDec b) = b := by
  induction b with
  | nil => rfl
  | cons x xs ih =>
    simp only [List.length_cons, leEnc, leDec]
    have hx := x.toNat_lt
    have h1 : (x.toNat + 256 * leDec xs) % 256 = x.toNat := by omega
    have h2 : (x.toNat + 256 * leDec xs) / 256 = leDec xs := by omega
    rw [h1, h2, ih]
    simp

/-- encoding only depends on the value mod `256^n`. -/
theorem leEnc_mod (n v : Nat) : leEnc n (v % 256 ^ n) = leEnc n v := by
  induction n generalizing v with
  | zero => rfl
  | succ n ih =>
    simp only [leEnc]
    have h1 : v % 256 ^ (n+1) % 256 = v % 256 := by
      rw [Nat.pow_succ, Nat.mul_comm]
      exact Nat.mod_mul_right_mod v 256 (256 ^ n)
    have h2 : v % 256 ^ (n+1) / 256 = (v / 256) % 256 ^ n := by
      rw [Nat.pow_succ, Nat.mul_comm, Nat.mod_mul_right_div_self]
    rw [h1, h2, ih]

/-- Go `buffer.consume(n)`: `none` marks the sticky overrun. -/
def split? (n : Nat) (b : Bytes) : Option (Bytes × Bytes) :=
  if b.length < n then none else some (b.take n, b.drop n)

theorem split?_append (a r : Bytes) (n : Nat) (h : a.length = n) :
    split? n (a ++ r) = some (a, r) := by
  subst h; simp [split?]

theorem split?_some {n : Nat} {b x r : Bytes} (h : split? n b = some (x, r)) :
    b = x ++ r ∧ x.length = n := by
  unfold split? at h
  split at h
  · cases h
  · simp only [Option.some.injEq, Prod.mk.injEq] at h
    obtain ⟨rfl, rfl⟩ := h
    constructor
    · simp
    · simp; omega

theorem split?_none {n : Nat} {b : Bytes} : split? n b = none ↔ b.length < n := by
  unfold split?; split <;> simp_all

end P9
