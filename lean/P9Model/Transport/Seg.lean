import P9Model.Transport.Recv
/-!
# Segmented readers: the generic `io.Reader` path and the vectorised recvmsg path (vecnet)

A transport delivers the stream as a list of non-empty chunks (one per `Read` / `recvmsg`
completion); the final chunk may carry io.EOF with it (`eofAttached`), or EOF comes on its own
afterwards (interpretation I7; `(0, nil)` reads are excluded).
-/
namespace P9

structure Stream where
  chunks : List Bytes
  eofAttached : Bool := false
deriving Repr

def Stream.bytes (s : Stream) : Bytes := s.chunks.flatten
def Stream.WF (s : Stream) : Prop := ∀ c ∈ s.chunks, c ≠ []

/-- one `Read(buf)` with room for `cap ≥ 1` bytes: (bytes, EOF signalled with them, rest). -/
def Stream.read (cap : Nat) (s : Stream) : Bytes × Bool × Stream :=
  match s.chunks with
  | [] => ([], true, s)
  | c :: rest =>
    if c.drop cap = [] then (c.take cap, rest.isEmpty && s.eofAttached, { s with chunks := rest })
    else (c.take cap, false, { s with chunks := c.drop cap :: rest })

/-- the inner loop of `Buffers.ReadFrom` (generic path, with the `fix:` for data+EOF) and of
`io.ReadAtLeast(r, hdr, 7)`: fill one buffer of `want` bytes. `none` = error (io.EOF). -/
def fill : Nat → Nat → Stream → Bytes → Option (Bytes × Stream)
  | 0, want, s, acc => if acc.length = want then some (acc, s) else none
  | f+1, want, s, acc =>
    if acc.length = want then some (acc, s)
    else
      let (b, eof, s') := s.read (want - acc.length)
      if (acc ++ b).length = want then some (acc ++ b, s')      -- complete: EOF (if any) is for the next read
      else if b = [] ∨ eof then none                            -- (n == 0 && err == nil) || err == io.EOF
      else fill f want s' (acc ++ b)

/-- `Buffers.ReadFrom`: fill every vector in turn. -/
def readFrom : List Nat → Stream → Option (List Bytes × Stream)
  | [], s => some ([], s)
  | n :: ns, s =>
    match fill (n + 1) n s [] with
    | none => none
    | some (b, s') =>
      match readFrom ns s' with
      | none => none
      | some (bs, s'') => some (b :: bs, s'')

/-- `io.Copy(ioutil.Discard, io.LimitReader(r, n))`: errors ignored. -/
def discard : Nat → Nat → Stream → Stream
  | 0, _, s => s
  | f+1, n, s =>
    if n = 0 then s
    else
      let (b, eof, s') := s.read n
      if b = [] ∨ eof then s' else discard f (n - b.length) s'

/-! ## the vectorised path: recvmsg into the iovecs, then consume what was filled -/

/-- distribute `data` over buffers of the given remaining capacities (what the kernel does). -/
def scatter : List (Nat × Bytes) → Bytes → List (Nat × Bytes)
  | [], _ => []
  | (cap, have_) :: rest, data =>
    (cap - (data.take cap).length, have_ ++ data.take cap) :: scatter rest (data.drop cap)

/-- `readFromBuffersLinux`: loop recvmsg until `length` bytes arrived. State: per buffer
(remaining capacity, bytes so far). `none` = error. -/
def readVec : Nat → List (Nat × Bytes) → Stream → Option (List Bytes × Stream)
  | 0, bufs, s => if bufs.all (·.1 == 0) then some (bufs.map (·.2), s) else none
  | f+1, bufs, s =>
    let need := (bufs.map (·.1)).sum
    if need = 0 then some (bufs.map (·.2), s)
    else
      let (b, _eof, s') := s.read need
      if b = [] then none                       -- recvmsg returned 0: io.EOF
      else readVec f (scatter bufs b) s'

/-! ## lemmas -/

theorem Stream.read_spec (cap : Nat) (hcap : 1 ≤ cap) (s : Stream) (hwf : s.WF) :
    let r := s.read cap
    r.1 = s.bytes.take (min cap ((s.chunks.head?.map List.length).getD 0)) ∧
    r.2.2.bytes = s.bytes.drop r.1.length ∧ r.2.2.WF ∧ r.2.2.eofAttached = s.eofAttached ∧
    (s.chunks ≠ [] → 1 ≤ r.1.length) ∧ (s.chunks = [] → r.1 = []) ∧ r.1.length ≤ cap ∧
    (r.2.1 = true → r.2.2.bytes = []) := by
  unfold Stream.read
  cases hc : s.chunks with
  | nil => simp [Stream.bytes, hc, Stream.WF]
  | cons c rest =>
    have hcne : c ≠ [] := hwf c (by simp [hc])
    have hclen : 1 ≤ c.length := by
      cases c with
      | nil => exact absurd rfl hcne
      | cons _ _ => simp
    have hwfr : ∀ x ∈ rest, x ≠ [] := fun x hx => hwf x (by simp [hc, hx])
    simp only [List.head?_cons, Option.map_some, Option.getD_some]
    by_cases hd : c.drop cap = []
    · have hle : c.length ≤ cap := by
        have := congrArg List.length hd
        simp at this; omega
      simp only [hd, if_true]
      have ht : c.take cap = c := List.take_of_length_le hle
      refine ⟨?_, ?_, ?_, by first | rfl | trivial, ?_, ?_, ?_, ?_⟩
      · simp [Stream.bytes, hc, ht, Nat.min_eq_right hle]
      · simp [Stream.bytes, hc, ht]
      · exact hwfr
      · intro _; rw [ht]; exact hclen
      · intro h; cases h
      · rw [ht]; exact hle
      · intro he
        simp only [Bool.and_eq_true, List.isEmpty_iff] at he
        simp [Stream.bytes, he.1]
    · have hgt : cap < c.length :=
        Nat.lt_of_not_le (fun hn => hd (List.drop_eq_nil_of_le hn))
      simp only [hd, if_false]
      refine ⟨?_, ?_, ?_, by first | rfl | trivial, ?_, ?_, ?_, by simp⟩
      · simp only [Stream.bytes, hc, List.flatten_cons]
        rw [Nat.min_eq_left (by omega), List.take_append_of_le_length (by omega)]
      · simp only [Stream.bytes, hc, List.flatten_cons, List.length_take, Nat.min_eq_left (Nat.le_of_lt hgt)]
        rw [List.drop_append_of_le_length (by omega)]
      · intro x hx
        simp only [List.mem_cons] at hx
        rcases hx with rfl | hx
        · exact hd
        · exact hwfr x hx
      · intro _; simp; omega
      · intro h; cases h
      · simp; omega

theorem read_prefix (cap : Nat) (hcap : 1 ≤ cap) (s : Stream) (hwf : s.WF) :
    (s.read cap).1 = s.bytes.take (s.read cap).1.length := by
  have h := (Stream.read_spec cap hcap s hwf).1
  have : (s.read cap).1.length = min (min cap ((s.chunks.head?.map List.length).getD 0)) s.bytes.length := by
    rw [h]; simp
  rw [this]
  rw [h]
  simp [List.take_take]

/-- **Filling a buffer through any segmentation** = taking that many bytes of the stream; it
fails exactly when the stream ends first. -/
theorem fill_spec (fuel want : Nat) (s : Stream) (acc : Bytes) (hwf : s.WF)
    (hacc : acc.length ≤ want) (hf : want - acc.length + 1 ≤ fuel) :
    (want - acc.length ≤ s.bytes.length →
      ∃ s', fill fuel want s acc = some (acc ++ s.bytes.take (want - acc.length), s') ∧
        s'.bytes = s.bytes.drop (want - acc.length) ∧ s'.WF ∧ s'.eofAttached = s.eofAttached) ∧
    (s.bytes.length < want - acc.length → fill fuel want s acc = none) := by
  induction fuel generalizing s acc with
  | zero => omega
  | succ f ih =>
    unfold fill
    by_cases hdone : acc.length = want
    · simp only [hdone, if_true, Nat.sub_self, List.take_zero, List.append_nil, List.drop_zero]
      exact ⟨fun _ => ⟨s, rfl, rfl, hwf, rfl⟩, fun h => by omega⟩
    · simp only [hdone, if_false]
      have hneed : 1 ≤ want - acc.length := by omega
      obtain ⟨r1, r2, r3, r4, r5, r6, r7, r8⟩ := Stream.read_spec (want - acc.length) hneed s hwf
      have rp := read_prefix (want - acc.length) hneed s hwf
      generalize hb : (s.read (want - acc.length)).1 = b at *
      generalize he : (s.read (want - acc.length)).2.1 = eof at *
      generalize hs' : (s.read (want - acc.length)).2.2 = s' at *
      have hble : b.length ≤ s.bytes.length := by
        rw [rp]; simp; exact Nat.min_le_right _ _
      simp only [List.length_append]
      by_cases hfull : acc.length + b.length = want
      · simp only [hfull, if_true]
        have hbn : b.length = want - acc.length := by omega
        constructor
        · intro _
          refine ⟨s', ?_, ?_, r3, r4⟩
          · rw [← hbn, ← rp]
          · rw [← hbn]; exact r2
        · intro h; omega
      · simp only [hfull, if_false]
        have hblt : b.length < want - acc.length := by omega
        by_cases hstop : b = [] ∨ eof = true
        · simp only [hstop, if_true]
          refine ⟨fun h => ?_, fun _ => trivial⟩
          exfalso
          rcases hstop with hbe | hee
          · -- nothing delivered: the stream is empty
            have hch : s.chunks = [] := by
              cases hc : s.chunks with
              | nil => rfl
              | cons c rest =>
                have := r5 (by simp [hc])
                simp [hbe] at this
            have : s.bytes = [] := by simp [Stream.bytes, hch]
            simp [this] at h
            omega
          · have := r8 hee
            rw [r2] at this
            have hl := congrArg List.length this
            simp at hl
            omega
        · simp only [hstop, if_false]
          have hbne : b ≠ [] := fun h => hstop (Or.inl h)
          have hb1 : 1 ≤ b.length := by
            cases b with
            | nil => exact absurd rfl hbne
            | cons _ _ => simp
          obtain ⟨i1, i2⟩ := ih s' (acc ++ b) r3 (by simp; omega) (by simp; omega)
          simp only [List.length_append] at i1 i2
          constructor
          · intro h
            obtain ⟨s'', j1, j2, j3, j4⟩ := i1 (by rw [r2]; simp; omega)
            refine ⟨s'', ?_, ?_, j3, by rw [j4, r4]⟩
            · rw [j1, r2]
              have e1 : want - (acc.length + b.length) = want - acc.length - b.length := by omega
              rw [e1, List.append_assoc]
              congr 1
              -- b ++ (drop |b| bytes).take (need - |b|) = bytes.take need
              have : s.bytes.take (want - acc.length) =
                  s.bytes.take b.length ++ (s.bytes.drop b.length).take (want - acc.length - b.length) := by
                have e2 : want - acc.length = b.length + (want - acc.length - b.length) := by omega
                conv => lhs; rw [e2]
                rw [List.take_add]
              rw [this, ← rp]
            · rw [j2, r2, List.drop_drop]
              congr 1; omega
          · intro h
            exact i2 (by rw [r2]; simp; omega)

/-- cut a byte string into consecutive pieces of the given sizes. -/
def splitBy : List Nat → Bytes → List Bytes
  | [], _ => []
  | n :: ns, b => b.take n :: splitBy ns (b.drop n)

theorem splitBy_flatten (sizes : List Nat) (b : Bytes) (h : sizes.sum ≤ b.length) :
    (splitBy sizes b).flatten = b.take sizes.sum := by
  induction sizes generalizing b with
  | nil => simp [splitBy]
  | cons n ns ih =>
    simp only [List.sum_cons] at h
    simp only [splitBy, List.flatten_cons, List.sum_cons]
    rw [ih _ (by simp; omega), List.take_add]

/-- **`ReadFrom` through any segmentation** fills the vectors with consecutive pieces of the
stream, and fails exactly when the stream ends first. -/
theorem readFrom_spec (sizes : List Nat) (s : Stream) (hwf : s.WF) :
    (sizes.sum ≤ s.bytes.length →
      ∃ s', readFrom sizes s = some (splitBy sizes s.bytes, s') ∧
        s'.bytes = s.bytes.drop sizes.sum ∧ s'.WF ∧ s'.eofAttached = s.eofAttached) ∧
    (s.bytes.length < sizes.sum → readFrom sizes s = none) := by
  induction sizes generalizing s with
  | nil =>
    simp only [readFrom, splitBy, List.sum_nil, List.drop_zero]
    exact ⟨fun _ => ⟨s, rfl, rfl, hwf, rfl⟩, fun h => by omega⟩
  | cons n ns ih =>
    simp only [List.sum_cons]
    obtain ⟨f1, f2⟩ := fill_spec (n + 1) n s [] hwf (by simp) (by simp)
    simp only [List.length_nil, Nat.sub_zero, List.nil_append] at f1 f2
    constructor
    · intro h
      obtain ⟨s1, g1, g2, g3, g4⟩ := f1 (by omega)
      obtain ⟨i1, _⟩ := ih s1 g3
      obtain ⟨s2, j1, j2, j3, j4⟩ := i1 (by rw [g2]; simp; omega)
      refine ⟨s2, ?_, ?_, j3, by rw [j4, g4]⟩
      · simp only [readFrom, g1, j1, splitBy, g2]
      · rw [j2, g2, List.drop_drop]
    · intro h
      simp only [readFrom]
      by_cases hn : n ≤ s.bytes.length
      · obtain ⟨s1, g1, g2, g3, g4⟩ := f1 hn
        obtain ⟨_, i2⟩ := ih s1 g3
        rw [g1]
        simp only
        rw [i2 (by rw [g2]; simp; omega)]
      · rw [f2 (by omega)]

theorem discard_spec (fuel n : Nat) (s : Stream) (hwf : s.WF) (hf : n + 1 ≤ fuel) :
    (discard fuel n s).bytes = s.bytes.drop n ∧ (discard fuel n s).WF := by
  induction fuel generalizing n s with
  | zero => omega
  | succ f ih =>
    unfold discard
    by_cases hn : n = 0
    · simp [hn, hwf]
    · simp only [hn, if_false]
      obtain ⟨r1, r2, r3, r4, r5, r6, r7, r8⟩ := Stream.read_spec n (by omega) s hwf
      generalize hb : (s.read n).1 = b at *
      generalize he : (s.read n).2.1 = eof at *
      generalize hs' : (s.read n).2.2 = s' at *
      by_cases hstop : b = [] ∨ eof = true
      · simp only [hstop, if_true]
        refine ⟨?_, r3⟩
        rcases hstop with hbe | hee
        · have hch : s.chunks = [] := by
            cases hc : s.chunks with
            | nil => rfl
            | cons c rest =>
              have := r5 (by simp [hc])
              simp [hbe] at this
          have : s.bytes = [] := by simp [Stream.bytes, hch]
          rw [r2, this]; simp
        · have h0 := r8 hee
          rw [h0]
          rw [r2] at h0
          have hl := congrArg List.length h0
          simp at hl
          symm
          apply List.drop_eq_nil_of_le
          omega
      · simp only [hstop, if_false]
        have hb1 : 1 ≤ b.length := by
          cases b with
          | nil => exact absurd (Or.inl rfl) hstop
          | cons _ _ => simp
        obtain ⟨i1, i2⟩ := ih (n - b.length) s' r3 (by omega)
        refine ⟨?_, i2⟩
        rw [i1, r2, List.drop_drop]
        congr 1; omega

/-! ## `recv` over a segmented reader (generic path) -/

/-- `recv` reading through `fill` / `readFrom` / `discard` instead of from a byte string. -/
def recvSeg (msize maxLen : Nat) (lookup : Lookup) (s : Stream) : Outcome × Stream :=
  match fill 8 7 s [] with
  | none => (.connErr, s)
  | some (hdr, s1) =>
    let size := leDec (hdr.take 4)
    let typ := leDec ((hdr.drop 4).take 1)
    let tag := leDec (hdr.drop 5)
    if size < 7 then (.connErr, s1)
    else if size > maxLen ∨ size > msize then (.connErr, s1)
    else
      let remaining := size - 7
      match lookup tag typ with
      | none => (.protoErr tag, discard (remaining + 1) remaining s1)
      | some d =>
        let fs := if d.pay = .none then remaining else d.fixedSize
        if fs > remaining then (.protoErr noTag, discard (remaining + 1) remaining s1)
        else
          -- vectors: the fixed part (if any) and, for payloaders, the payload (if any)
          let sizes := (if fs = 0 then [] else [fs]) ++ (if remaining - fs = 0 then [] else [remaining - fs])
          match readFrom sizes s1 with
          | none => (.connErr, s1)
          | some (bufs, s2) => (decodeOutcome d tag fs bufs.flatten, s2)

/-- **Segmentation independence (generic `io.Reader` path)**: whatever way the transport cuts
the stream into reads – single bytes, cuts inside the header, between fixed part and payload,
several frames per read, EOF attached to the last bytes or separate – `recv` returns the same
outcome as on the plain byte string, and leaves the same unread bytes. -/
theorem recvSeg_eq_recv1 (msize maxLen : Nat) (lookup : Lookup) (s : Stream) (hwf : s.WF) :
    (recvSeg msize maxLen lookup s).1 = (recv1 msize maxLen lookup s.bytes).out ∧
    ((recv1 msize maxLen lookup s.bytes).out ≠ .connErr →
      (recvSeg msize maxLen lookup s).2.bytes = (recv1 msize maxLen lookup s.bytes).rest ∧
      (recvSeg msize maxLen lookup s).2.WF) := by
  unfold recvSeg recv1
  obtain ⟨f1, f2⟩ := fill_spec 8 7 s [] hwf (by simp) (by simp)
  simp only [List.length_nil, Nat.sub_zero, List.nil_append] at f1 f2
  by_cases hlen : 7 ≤ s.bytes.length
  · obtain ⟨s1, g1, g2, g3, g4⟩ := f1 hlen
    have hsp : split? 7 s.bytes = some (s.bytes.take 7, s.bytes.drop 7) := by
      unfold split?; simp; omega
    rw [g1, hsp]
    simp only
    generalize leDec ((s.bytes.take 7).drop 5) = tag
    generalize leDec (((s.bytes.take 7).drop 4).take 1) = typ
    generalize leDec ((s.bytes.take 7).take 4) = size
    by_cases h7 : size < 7
    · simp [h7]
    · by_cases htoo : size > maxLen ∨ size > msize
      · simp [h7, htoo]
      · simp only [h7, htoo, if_false]
        unfold recvBody
        generalize hrem : size - 7 = remaining
        cases hlk : lookup tag typ with
        | none =>
          simp only
          obtain ⟨d1, d2⟩ := discard_spec (remaining + 1) remaining s1 g3 (by omega)
          exact ⟨trivial, fun _ => ⟨by rw [d1, g2], d2⟩⟩
        | some d =>
          simp only
          generalize hfs : (if d.pay = PayKind.none then remaining else d.fixedSize) = fs
          by_cases hbig : fs > remaining
          · simp only [hbig, if_true]
            obtain ⟨d1, d2⟩ := discard_spec (remaining + 1) remaining s1 g3 (by omega)
            exact ⟨trivial, fun _ => ⟨by rw [d1, g2], d2⟩⟩
          · simp only [hbig, if_false]
            have hsum : ((if fs = 0 then [] else [fs]) ++ (if remaining - fs = 0 then [] else [remaining - fs])).sum = remaining := by
              by_cases h1 : fs = 0
              · subst h1
                by_cases h2 : remaining = 0 <;> simp [h2]
              · by_cases h2 : remaining - fs = 0
                · simp [h1, h2]; omega
                · simp [h1, h2]; omega
            obtain ⟨q1, q2⟩ := readFrom_spec ((if fs = 0 then [] else [fs]) ++ (if remaining - fs = 0 then [] else [remaining - fs])) s1 g3
            rw [hsum, g2] at q1 q2
            by_cases henough : remaining ≤ (s.bytes.drop 7).length
            · obtain ⟨s2, k1, k2, k3, k4⟩ := q1 henough
              rw [k1]
              have hsp2 : split? remaining (s.bytes.drop 7) = some ((s.bytes.drop 7).take remaining, (s.bytes.drop 7).drop remaining) := by
                unfold split?
                have : ¬ (s.bytes.drop 7).length < remaining := by omega
                simp only [this, if_false]
              rw [hsp2]
              simp only
              rw [splitBy_flatten _ _ (by rw [hsum]; exact henough), hsum]
              exact ⟨rfl, fun _ => ⟨k2, k3⟩⟩
            · rw [q2 (by omega)]
              have hsp2 : split? remaining (s.bytes.drop 7) = none := by
                rw [split?_none]; omega
              rw [hsp2]
              simp
  · rw [f2 (by omega)]
    have hsp : split? 7 s.bytes = none := by rw [split?_none]; omega
    rw [hsp]
    simp

end P9
