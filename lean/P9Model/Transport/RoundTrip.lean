import P9Model.Transport.Recv
/-!
# `recv ∘ send` on one frame, and resynchronisation over a sequence of frames
-/
namespace P9

theorem encRow_minLen {ks : List AKind} {r : List Atom} (h : wfRow ks r) :
    minLen ks ≤ (encRow ks r).length := by
  have h1 := decRow_encRow ks r h []
  have h2 := decRow_consumes h1
  simp at h2
  simpa using h2

/-- decoding a packed run of entries greedily returns exactly those entries. -/
theorem decGreedy_encRows (ks : List AKind) (hk : 0 < minLen ks) (rows : List (List Atom))
    (h : ∀ r ∈ rows, wfRow ks r) (fuel : Nat) (hf : (encRows ks rows).length ≤ fuel) :
    decGreedy ks fuel (encRows ks rows) = rows.map (normRow ks) := by
  induction rows generalizing fuel with
  | nil =>
    cases fuel with
    | zero => simp [decGreedy, encRows]
    | succ n =>
      simp only [decGreedy, encRows, List.map_nil]
      have : decRow ks [] = none := by
        cases hd : decRow ks [] with
        | none => rfl
        | some p =>
          obtain ⟨as, r⟩ := p
          have := decRow_consumes hd
          simp at this; omega
      rw [this]
  | cons r rs ih =>
    have hr := h r (by simp)
    have hlen := encRow_minLen hr
    simp only [encRows, List.length_append] at hf
    cases fuel with
    | zero => omega
    | succ n =>
      simp only [decGreedy, encRows, List.map_cons]
      rw [decRow_encRow _ _ hr]
      simp only
      rw [ih (fun r' hr' => h r' (by simp [hr'])) n (by omega)]

theorem decodeBody_encodeBody (d : MsgDesc) (m : Msg) (h : wfMsg d m)
    (hsz : (encodeBody d m).2.length < 2 ^ 32) :
    let fx := (encodeBody d m).1
    let pl := (encodeBody d m).2
    (if d.pay = .none then fx.length + pl.length else d.fixedSize) = fx.length ∧
    decodeBody d fx pl = some (normMsg d m) := by
  unfold wfMsg at h
  cases hp : d.pay with
  | none =>
    simp only [hp] at h
    simp only [encodeBody, decodeBody, normMsg, hp, if_true, List.length_nil, Nat.add_zero, true_and]
    have := dec_enc d.layout m.vals h.1 []
    simp only [List.append_nil] at this
    rw [this]
  | data =>
    simp only [hp] at h
    obtain ⟨hwf, hfw⟩ := h
    obtain ⟨w, hw⟩ := Option.isSome_iff_exists.mp hfw
    simp only [encodeBody, hp] at hsz
    simp only [encodeBody, decodeBody, normMsg, hp, MsgDesc.fixedSize, hw, Option.getD_some,
      List.length_append, leEnc_length, enc_length_of_fixedWidth hw _ hwf]
    refine ⟨by simp, ?_⟩
    rw [dec_enc _ _ hwf]
    simp only
    have := decA_encA (.int 4) (.int m.payload.length) (by simpa [wfA] using hsz) []
    simp only [encA, normA, List.append_nil] at this
    rw [this]
    simp
  | dirents =>
    simp only [hp] at h
    match hv : m.vals, h with
    | [.atom (.int count), .list entries], h =>
      obtain ⟨hc, hrows, hpl⟩ := h
      simp only [encodeBody, hp, hv] at hsz
      simp only [encodeBody, decodeBody, normMsg, hp, hv, MsgDesc.fixedSize, leEnc_length]
      refine ⟨by simp, ?_⟩
      have := decA_encA (.int 4) (.int (encRows direntK (fit direntK count 0 entries)).length)
        (by simpa [wfA] using hsz) []
      simp only [encA, normA, List.append_nil] at this
      rw [this]
      simp only
      rw [decGreedy_encRows direntK (by rw [minLen_direntK]; decide) _ (fit_all_wf hrows) _ (Nat.le_refl _)]

/-- **Wire round trip**: the frame `send` writes for a well-formed message, followed by any
bytes, is received as that message (masked fields reduced, directory replies cut to the whole
entries that fit), under the same tag, leaving exactly the bytes that followed. -/
theorem recv1_frame (msize maxLen : Nat) (lookup : Lookup) (d : MsgDesc) (tag : Nat) (m : Msg)
    (rest : Bytes)
    (hlk : lookup tag d.typ = some d) (htyp : d.typ < 256) (htag : tag < 65536)
    (hwf : wfMsg d m)
    (hms : (frame d tag m).length ≤ msize) (hmax : (frame d tag m).length ≤ maxLen)
    (h32 : maxLen < 2 ^ 32) :
    (recv1 msize maxLen lookup (frame d tag m ++ rest)).out = .msg tag d (normMsg d m) ∧
    (recv1 msize maxLen lookup (frame d tag m ++ rest)).rest = rest := by
  have hfr : frame d tag m = header (7 + (encodeBody d m).1.length + (encodeBody d m).2.length) d.typ tag
      ++ ((encodeBody d m).1 ++ (encodeBody d m).2) := by
    simp [frame, header]
  have hlen : (frame d tag m).length = 7 + (encodeBody d m).1.length + (encodeBody d m).2.length := by
    rw [hfr]; simp; omega
  generalize hfx : (encodeBody d m).1 = fx at *
  generalize hpl : (encodeBody d m).2 = pl at *
  have hsz : 7 + fx.length + pl.length < 2 ^ 32 := by omega
  have hbody := decodeBody_encodeBody d m hwf (by rw [hpl]; omega)
  simp only [hfx, hpl] at hbody
  obtain ⟨hfs, hdec⟩ := hbody
  rw [hfr]
  have hA := recv1_frame_any msize maxLen lookup (header (7 + fx.length + pl.length) d.typ tag)
    (fx ++ pl) rest (header_length _ _ _)
    (by rw [header_size _ _ _ hsz]; omega) (by rw [header_size _ _ _ hsz]; omega)
    (by rw [header_size _ _ _ hsz]; omega) (by rw [header_size _ _ _ hsz]; simp; omega)
  rw [hA.1]
  simp only [and_true]
  -- the exact-frame case
  unfold recv1
  rw [split?_append _ _ 7 (header_length _ _ _)]
  simp only [header_size _ _ _ hsz, header_typ _ _ _ htyp, header_tag _ _ _ htag]
  have n7 : ¬ 7 + fx.length + pl.length < 7 := by omega
  have nbig : ¬ (7 + fx.length + pl.length > maxLen ∨ 7 + fx.length + pl.length > msize) := by omega
  simp only [n7, nbig, if_false]
  unfold recvBody
  rw [hlk]
  simp only
  have hrem : 7 + fx.length + pl.length - 7 = (fx ++ pl).length := by simp; omega
  rw [hrem]
  have hfs' : (if d.pay = PayKind.none then (fx ++ pl).length else d.fixedSize) = fx.length := by
    simpa using hfs
  rw [hfs']
  have : ¬ fx.length > (fx ++ pl).length := by simp
  simp only [this, if_false]
  have hs : split? (fx ++ pl).length (fx ++ pl) = some (fx ++ pl, []) := by
    simpa using split?_append (fx ++ pl) [] _ rfl
  rw [hs]
  simp only [decodeOutcome, List.take_left', List.drop_left', hdec]

/-! ## sequences of frames -/

/-- a well-delimited frame for the limits `msize`, `maxLen`: a 7-byte header whose size field
is within [7, limit], followed by exactly `size − 7` bytes – of *any* content. -/
def Delimited (msize maxLen : Nat) (f : Bytes) : Prop :=
  7 ≤ f.length ∧ leDec (f.take 4) = f.length ∧ f.length ≤ msize ∧ f.length ≤ maxLen

/-- the outcome `recv` gives for one delimited frame on its own. -/
def frameOutcome (msize maxLen : Nat) (lookup : Lookup) (f : Bytes) : Outcome :=
  (recv1 msize maxLen lookup f).out

theorem recv1_delimited (msize maxLen : Nat) (lookup : Lookup) (f rest : Bytes)
    (h : Delimited msize maxLen f) :
    (recv1 msize maxLen lookup (f ++ rest)).out = frameOutcome msize maxLen lookup f ∧
    (recv1 msize maxLen lookup (f ++ rest)).rest = rest ∧
    frameOutcome msize maxLen lookup f ≠ .connErr := by
  obtain ⟨h7, hsz, hms, hmax⟩ := h
  have hf : f = f.take 7 ++ f.drop 7 := (List.take_append_drop 7 f).symm
  have hl : (f.take 7).length = 7 := by simp; omega
  have ht : (f.take 7).take 4 = f.take 4 := by simp [List.take_take]
  have hA := recv1_frame_any msize maxLen lookup (f.take 7) (f.drop 7) rest hl
    (by rw [ht, hsz]; exact h7) (by rw [ht, hsz]; exact hmax) (by rw [ht, hsz]; exact hms)
    (by rw [ht, hsz]; simp)
  rw [← hf] at hA
  unfold frameOutcome
  rw [hA.1]
  exact ⟨rfl, rfl, hA.2⟩

/-- **Resynchronisation**: on a stream that starts with any sequence of well-delimited frames
– good or bad in any mix – the receive loop yields exactly the per-frame outcomes, none of
them a connection error, and then continues on what follows as if it had started there. -/
theorem recvAll_frames (msize maxLen : Nat) (lookup : Lookup) (fs : List Bytes) (tail : Bytes)
    (h : ∀ f ∈ fs, Delimited msize maxLen f) (fuel : Nat) :
    recvAll msize maxLen lookup (fs.length + fuel) (fs.flatten ++ tail) =
      fs.map (frameOutcome msize maxLen lookup) ++ recvAll msize maxLen lookup fuel tail := by
  induction fs with
  | nil => simp
  | cons f fs ih =>
    have hd := recv1_delimited msize maxLen lookup f (fs.flatten ++ tail) (h f (by simp))
    have e : (f :: fs).length + fuel = (fs.length + fuel) + 1 := by simp; omega
    rw [e]
    simp only [List.flatten_cons, List.append_assoc, List.map_cons, List.cons_append]
    rw [recvAll, hd.2.1, hd.1]
    have := hd.2.2
    cases hfo : frameOutcome msize maxLen lookup f with
    | connErr => exact absurd hfo this
    | protoErr t => rw [ih (fun f' hf' => h f' (by simp [hf']))]
    | msg t d m => rw [ih (fun f' hf' => h f' (by simp [hf']))]

end P9
