import P9Model.Transport.Seg
/-!
# The vectorised read path (`readFromBuffersLinux`) through any segmentation

`readVec` loops `recvmsg` into the remaining iovecs and advances them by what arrived
(`scatter`).  For every well-formed segmentation of a stream that holds enough bytes it fills the
vectors with exactly the consecutive pieces of the stream – the same result as the generic
`ReadFrom` (`readFrom_spec`) – and leaves the rest of the stream.
-/
namespace P9

def caps (bufs : List (Nat × Bytes)) : Nat := (bufs.map (·.1)).sum

theorem scatter_nil (bufs : List (Nat × Bytes)) : scatter bufs [] = bufs := by
  induction bufs with
  | nil => rfl
  | cons b rest ih => obtain ⟨c, h⟩ := b; simp [scatter, ih]

theorem scatter_append (bufs : List (Nat × Bytes)) (a b : Bytes) :
    scatter (scatter bufs a) b = scatter bufs (a ++ b) := by
  induction bufs generalizing a b with
  | nil => rfl
  | cons x rest ih =>
    obtain ⟨c, h⟩ := x
    simp only [scatter]
    by_cases hle : a.length ≤ c
    · -- `a` fits into the first buffer: the rest saw nothing yet
      have ht : a.take c = a := List.take_of_length_le hle
      have hd : a.drop c = [] := List.drop_eq_nil_of_le hle
      rw [ht, hd, scatter_nil]
      have h1 : (a ++ b).take c = a ++ b.take (c - a.length) := by
        rw [List.take_append]; simp [ht]
      have h2 : (a ++ b).drop c = b.drop (c - a.length) := by
        rw [List.drop_append]; simp [hd]
      rw [h1, h2]
      simp only [List.append_assoc, List.length_append, List.length_take]
      congr 2
      omega
    · have hgt : c < a.length := Nat.lt_of_not_le hle
      have h1 : (a ++ b).take c = a.take c := by
        rw [List.take_append_of_le_length (Nat.le_of_lt hgt)]
      have h2 : (a ++ b).drop c = a.drop c ++ b := by
        rw [List.drop_append_of_le_length (Nat.le_of_lt hgt)]
      have hl : (a.take c).length = c := by simp; omega
      rw [h1, h2, hl, Nat.sub_self]
      simp only [List.take_zero, List.append_nil, List.length_nil, Nat.sub_zero, List.drop_zero]
      rw [ih]

theorem caps_scatter (bufs : List (Nat × Bytes)) (d : Bytes) (h : d.length ≤ caps bufs) :
    caps (scatter bufs d) = caps bufs - d.length := by
  induction bufs generalizing d with
  | nil => simp [caps] at h; simp [scatter, caps, h]
  | cons x rest ih =>
    obtain ⟨c, hv⟩ := x
    simp only [caps, List.map_cons, List.sum_cons] at h
    simp only [scatter, caps, List.map_cons, List.sum_cons]
    have ih' := ih (d.drop c) (by simp [caps]; omega)
    simp only [caps] at ih'
    rw [ih']
    simp only [List.length_take, List.length_drop]
    omega

/-- scattering over fresh buffers of the given sizes cuts the data into those pieces -/
theorem scatter_fresh (sizes : List Nat) (d : Bytes) :
    (scatter (sizes.map fun n => (n, [])) d).map (·.2) = splitBy sizes d := by
  induction sizes generalizing d with
  | nil => rfl
  | cons n ns ih => simp [scatter, splitBy, ih]

theorem caps_fresh (sizes : List Nat) : caps (sizes.map fun n => ((n, []) : Nat × Bytes)) = sizes.sum := by
  induction sizes with
  | nil => rfl
  | cons n ns ih =>
    simp only [caps, List.map_cons, List.sum_cons] at ih ⊢
    rw [ih]

theorem splitBy_take (sizes : List Nat) (b : Bytes) (k : Nat) (h : sizes.sum ≤ k) :
    splitBy sizes (b.take k) = splitBy sizes b := by
  induction sizes generalizing b k with
  | nil => rfl
  | cons n ns ih =>
    simp only [List.sum_cons] at h
    simp only [splitBy]
    rw [List.take_take, Nat.min_eq_left (by omega), List.drop_take, ih _ _ (by omega)]

/-- **The recvmsg loop through any segmentation**: with enough bytes in the stream the buffers end
up holding exactly the next `caps bufs` bytes, distributed in order. -/
theorem readVec_spec (f : Nat) : ∀ (bufs : List (Nat × Bytes)) (s : Stream), s.WF →
    caps bufs ≤ s.bytes.length → caps bufs + 1 ≤ f →
    ∃ s', readVec f bufs s = some ((scatter bufs (s.bytes.take (caps bufs))).map (·.2), s') ∧
      s'.bytes = s.bytes.drop (caps bufs) ∧ s'.WF := by
  induction f with
  | zero => intro bufs s _ _ hf; omega
  | succ f ih =>
    intro bufs s hwf hlen hf
    by_cases hz : caps bufs = 0
    · refine ⟨s, ?_, by simp [hz], hwf⟩
      simp only [readVec]
      have : (bufs.map (·.1)).sum = 0 := hz
      simp [this, hz, scatter_nil]
    · have hne : s.chunks ≠ [] := by
        intro hc
        have : s.bytes = [] := by simp [Stream.bytes, hc]
        rw [this] at hlen; simp at hlen; exact hz hlen
      have hcap : 1 ≤ caps bufs := Nat.one_le_iff_ne_zero.mpr hz
      obtain ⟨_, hrest, hwf', _, hpos, _, hle, _⟩ := Stream.read_spec (caps bufs) hcap s hwf
      have hpre := read_prefix (caps bufs) hcap s hwf
      have hb1 := hpos hne
      have hbne : (s.read (caps bufs)).1 ≠ [] := by
        intro h; rw [h] at hb1; simp at hb1
      have hcaps' : caps (scatter bufs (s.read (caps bufs)).1) = caps bufs - (s.read (caps bufs)).1.length :=
        caps_scatter bufs _ hle
      obtain ⟨s'', h2, hb2, hw2⟩ := ih (scatter bufs (s.read (caps bufs)).1) (s.read (caps bufs)).2.2 hwf'
        (by rw [hcaps', hrest]; simp; omega) (by rw [hcaps']; omega)
      refine ⟨s'', ?_, ?_, hw2⟩
      · simp only [readVec]
        have : (bufs.map (·.1)).sum = caps bufs := rfl
        simp only [this, hz, ↓reduceIte, hbne]
        rw [h2, scatter_append, hcaps', hrest]
        congr 3
        -- take |b| ++ (drop |b|).take (need - |b|) = take need
        conv => rhs; rw [show caps bufs = (s.read (caps bufs)).1.length + (caps bufs - (s.read (caps bufs)).1.length) by omega]
        rw [List.take_add, ← hpre]
      · rw [hb2, hcaps', hrest, List.drop_drop]
        congr 1; omega

/-- **`VecPathSpec`**: the vectorised path fills fresh vectors of the given sizes with the
consecutive pieces of the stream, for every segmentation. -/
theorem readVec_fresh (sizes : List Nat) (s : Stream) (hwf : s.WF) (h : sizes.sum ≤ s.bytes.length) :
    ∃ s', readVec (sizes.sum + 1) (sizes.map fun n => (n, [])) s = some (splitBy sizes s.bytes, s') ∧
      s'.bytes = s.bytes.drop sizes.sum := by
  have hc := caps_fresh sizes
  obtain ⟨s', h1, h2, _⟩ := readVec_spec (sizes.sum + 1) (sizes.map fun n => (n, [])) s hwf (by rw [hc]; exact h) (by rw [hc]; exact Nat.le_refl _)
  refine ⟨s', ?_, by rw [h2, hc]⟩
  rw [h1, hc, scatter_fresh]
  rw [splitBy_take sizes s.bytes sizes.sum (Nat.le_refl _)]

end P9
