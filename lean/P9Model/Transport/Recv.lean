import P9Model.Wire.Msg
/-!
# `recv` (p9/transport.go): the decision tree of the receiver on a byte stream

`recv1 msize maxLen lookup s` is one call of `recv` on a reader that will deliver exactly the
bytes `s` and then EOF.  It returns the outcome, the unread rest of the stream and the sizes of
the buffers it asked for.  Outcomes enumerate the Go function's returns:

* `connErr`        – `ConnError{…}`: short header, size < 7, size > msize / 4 MiB, short body;
* `protoErr tag`   – any other error: unknown type (`tag` = the frame's tag), payloader whose
                     fixed part does not fit, decode overrun (`tag` = NOTAG);
* `msg tag d m`    – a decoded message.
-/
namespace P9

def noTag : Nat := 65535

inductive Outcome
  | connErr
  | protoErr (tag : Nat)
  | msg (tag : Nat) (d : MsgDesc) (m : Msg)
deriving DecidableEq, Repr, Inhabited

structure RecvResult where
  out : Outcome
  rest : Bytes
  allocs : List Nat
deriving DecidableEq, Repr, Inhabited

abbrev Lookup := Nat → Nat → Option MsgDesc

/-- buffers `recv` asks for: the fixed part (if non-empty) and, for payloaders, the payload. -/
def recvAllocs (d : MsgDesc) (fs remaining : Nat) : List Nat :=
  (if fs = 0 then [] else [fs]) ++ (if d.pay = .none then [] else [remaining - fs])

/-- `m.decode` + the overrun test. -/
def decodeOutcome (d : MsgDesc) (tag fs : Nat) (body : Bytes) : Outcome :=
  match decodeBody d (body.take fs) (body.drop fs) with
  | none => .protoErr noTag                                    -- overrun: ErrNoValidMessage
  | some m => .msg tag d m

/-- the part of `recv` after the header checks. -/
def recvBody (lookup : Lookup) (tag typ remaining : Nat) (r : Bytes) : RecvResult :=
  match lookup tag typ with
  | none => ⟨.protoErr tag, r.drop remaining, []⟩              -- drained, frame's tag kept
  | some d =>
    let fs := if d.pay = .none then remaining else d.fixedSize
    if fs > remaining then ⟨.protoErr noTag, r.drop remaining, []⟩
    else
      match split? remaining r with
      | none => ⟨.connErr, [], recvAllocs d fs remaining⟩      -- vecs.ReadFrom hits EOF
      | some (body, r') => ⟨decodeOutcome d tag fs body, r', recvAllocs d fs remaining⟩

def recv1 (msize maxLen : Nat) (lookup : Lookup) (s : Bytes) : RecvResult :=
  match split? 7 s with
  | none => ⟨.connErr, [], []⟩                     -- io.ReadAtLeast(hdr) fails
  | some (hdr, r) =>
    let size := leDec (hdr.take 4)
    let typ := leDec ((hdr.drop 4).take 1)
    let tag := leDec (hdr.drop 5)
    if size < 7 then ⟨.connErr, r, []⟩             -- ErrNoValidMessage, body never read
    else if size > maxLen ∨ size > msize then ⟨.connErr, r, []⟩  -- ErrMessageTooLarge
    else recvBody lookup tag typ (size - 7) r

/-- repeated `recv` until a connection error (the server/client receive loop). -/
def recvAll (msize maxLen : Nat) (lookup : Lookup) : Nat → Bytes → List Outcome
  | 0, _ => []
  | fuel+1, s =>
    let r := recv1 msize maxLen lookup s
    match r.out with
    | .connErr => [.connErr]
    | o => o :: recvAll msize maxLen lookup fuel r.rest

/-! ## header lemmas -/

/-- the 7-byte header `send` builds. -/
def header (size typ tag : Nat) : Bytes := leEnc 4 size ++ [UInt8.ofNat typ] ++ leEnc 2 tag

@[simp] theorem header_length (size typ tag : Nat) : (header size typ tag).length = 7 := by
  simp [header]

theorem header_size (size typ tag : Nat) (h : size < 2 ^ 32) :
    leDec ((header size typ tag).take 4) = size := by
  have : (header size typ tag).take 4 = leEnc 4 size := by
    simp [header, List.take_append_of_le_length]
  rw [this, leDec_leEnc]; simpa using h

theorem header_typ (size typ tag : Nat) (h : typ < 256) :
    leDec (((header size typ tag).drop 4).take 1) = typ := by
  have : ((header size typ tag).drop 4).take 1 = [UInt8.ofNat typ] := by
    simp [header, List.drop_append_of_le_length]
  rw [this]; simp [leDec]; omega

theorem header_tag (size typ tag : Nat) (h : tag < 65536) :
    leDec ((header size typ tag).drop 5) = tag := by
  have : (header size typ tag).drop 5 = leEnc 2 tag := by
    have h5 : (leEnc 4 size ++ [UInt8.ofNat typ]).length = 5 := by simp
    simp only [header]
    rw [List.drop_left' h5]
  rw [this, leDec_leEnc]; simpa using h

/-- every 7-byte string is a header (used for "any byte stream" statements). -/
theorem header_of_bytes (hdr : Bytes) (h : hdr.length = 7) :
    hdr = header (leDec (hdr.take 4)) (leDec ((hdr.drop 4).take 1)) (leDec (hdr.drop 5)) := by
  match hdr, h with
  | [a, b, c, d, e, f, g], _ =>
    simp only [header, List.take, List.drop]
    have h4 := leEnc_leDec [a, b, c, d]
    have h2 := leEnc_leDec [f, g]
    simp only [List.length_cons, List.length_nil] at h4 h2
    rw [h4, h2]
    simp [leDec]

/-! ## what `recv1` consumes -/

/-- **Bad size**: a size field below 7 or above the limit ends the connection having consumed
exactly the 7 header bytes – the body is never read. -/
theorem recv1_bad_size (msize maxLen : Nat) (lookup : Lookup) (hdr rest : Bytes)
    (hl : hdr.length = 7)
    (hs : leDec (hdr.take 4) < 7 ∨ leDec (hdr.take 4) > maxLen ∨ leDec (hdr.take 4) > msize) :
    recv1 msize maxLen lookup (hdr ++ rest) = ⟨.connErr, rest, []⟩ := by
  unfold recv1
  rw [split?_append _ _ 7 hl]
  simp only
  rcases hs with h | h | h
  · simp [h]
  · have : ¬ leDec (hdr.take 4) < 7 ∨ leDec (hdr.take 4) < 7 := by omega
    by_cases h7 : leDec (hdr.take 4) < 7 <;> simp [h7, h]
  · by_cases h7 : leDec (hdr.take 4) < 7 <;> simp [h7, h]

theorem decodeOutcome_ne_connErr (d : MsgDesc) (tag fs : Nat) (body : Bytes) :
    decodeOutcome d tag fs body ≠ .connErr := by
  unfold decodeOutcome; split <;> simp

theorem recvBody_exact (lookup : Lookup) (tag typ : Nat) (body rest : Bytes) :
    recvBody lookup tag typ body.length (body ++ rest) =
      { recvBody lookup tag typ body.length body with rest := rest } ∧
    (recvBody lookup tag typ body.length body).out ≠ .connErr := by
  unfold recvBody
  cases lookup tag typ with
  | none => simp
  | some d =>
    simp only
    generalize (if d.pay = PayKind.none then body.length else d.fixedSize) = fs
    have hs : split? body.length body = some (body, []) := by
      simpa using split?_append body [] body.length rfl
    by_cases hfs : fs > body.length
    · simp [hfs]
    · simp only [hfs, if_false, split?_append _ _ _ rfl, hs]
      exact ⟨trivial, decodeOutcome_ne_connErr _ _ _ _⟩

/-- **Frame consumption / resynchronisation**: whatever bytes a well-delimited frame holds
(size field within [7, limit], `size` bytes present), `recv1` consumes exactly those `size`
bytes, leaves everything after them untouched, never reports a connection error, and its
outcome and buffer requests do not depend on what follows. -/
theorem recv1_frame_any (msize maxLen : Nat) (lookup : Lookup) (hdr body rest : Bytes)
    (hl : hdr.length = 7) (h7 : 7 ≤ leDec (hdr.take 4))
    (hmax : leDec (hdr.take 4) ≤ maxLen) (hms : leDec (hdr.take 4) ≤ msize)
    (hb : body.length = leDec (hdr.take 4) - 7) :
    recv1 msize maxLen lookup (hdr ++ body ++ rest) =
      { recv1 msize maxLen lookup (hdr ++ body) with rest := rest } ∧
    (recv1 msize maxLen lookup (hdr ++ body)).out ≠ .connErr := by
  rw [List.append_assoc]
  unfold recv1
  rw [split?_append _ _ 7 hl, split?_append _ _ 7 hl]
  simp only
  have n7 : ¬ leDec (hdr.take 4) < 7 := by omega
  have nbig : ¬ (leDec (hdr.take 4) > maxLen ∨ leDec (hdr.take 4) > msize) := by omega
  simp only [n7, nbig, if_false, ← hb]
  exact recvBody_exact _ _ _ _ _

theorem recvBody_alloc_le (lookup : Lookup) (tag typ remaining : Nat) (r : Bytes) :
    ∀ a ∈ (recvBody lookup tag typ remaining r).allocs, a ≤ remaining := by
  unfold recvBody
  cases lookup tag typ with
  | none => simp
  | some d =>
    simp only
    generalize (if d.pay = PayKind.none then remaining else d.fixedSize) = fs
    by_cases hfs : fs > remaining
    · simp [hfs]
    · have key : ∀ a ∈ recvAllocs d fs remaining, a ≤ remaining := by
        intro a ha
        unfold recvAllocs at ha
        simp only [List.mem_append] at ha
        rcases ha with ha | ha
        · split at ha
          · simp at ha
          · simp only [List.mem_singleton] at ha; omega
        · split at ha
          · simp at ha
          · simp only [List.mem_singleton] at ha; omega
      simp only [hfs, if_false]
      split <;> exact key

/-- **Bounded buffering**: every buffer `recv` asks for is at most the frame's declared size
minus the header, hence at most `min msize maxLen − 7`. -/
theorem recv1_alloc_le (msize maxLen : Nat) (lookup : Lookup) (s : Bytes) :
    ∀ a ∈ (recv1 msize maxLen lookup s).allocs, a + 7 ≤ msize ∧ a + 7 ≤ maxLen := by
  unfold recv1
  split
  · simp
  · rename_i hdr r _
    simp only
    split
    · simp
    · split
      · simp
      · intro a ha
        have := recvBody_alloc_le _ _ _ _ _ a ha
        omega

/-- a stream shorter than a header is a connection error (never a message). -/
theorem recv1_short_header (msize maxLen : Nat) (lookup : Lookup) (s : Bytes) (h : s.length < 7) :
    (recv1 msize maxLen lookup s).out = .connErr := by
  unfold recv1
  rw [split?_none.mpr h]

/-- **EOF mid-frame**: a stream that ends inside a frame yields no message. -/
theorem recv1_truncated (msize maxLen : Nat) (lookup : Lookup) (hdr part : Bytes)
    (hl : hdr.length = 7) (hp : part.length < leDec (hdr.take 4) - 7) :
    ∀ tag d m, (recv1 msize maxLen lookup (hdr ++ part)).out ≠ .msg tag d m := by
  intro tag d m
  unfold recv1
  rw [split?_append _ _ 7 hl]
  simp only
  split
  · simp
  · split
    · simp
    · unfold recvBody
      split
      · simp
      · simp only
        rw [split?_none.mpr hp]
        repeat' split
        all_goals simp_all

end P9
