import P9Model.Basic.Bytes
/-!
# `chunk` (p9/client_file.go) and ReadAt / WriteAt over a remote file modelled as bytes
-/
namespace P9.Chunk
open P9

/-- what one invocation of `fn(p[total:…], offset)` reports. -/
structure FnRes where
  n : Nat
  err : Option Nat := none     -- an error code; `eofCode` stands for io.EOF
deriving DecidableEq, Repr

def eofCode : Nat := 0xE0F

structure Result where
  calls : List (Nat × Nat)     -- (length requested, offset) of every invocation, in order
  total : Nat
  err : Option Nat
deriving DecidableEq, Repr

/-- the loop of `chunk` for `len(p) > 0`; `fuel` bounds the iterations. -/
def loop (cs : Nat) (fn : Nat → Nat → FnRes) (len : Nat) : Nat → Nat → Nat → List (Nat × Nat) → Result
  | 0, total, _, calls => ⟨calls.reverse, total, some 0xDEAD⟩        -- out of fuel (never, see `loop_fuel`)
  | fuel+1, total, off, calls =>
    if total = len then ⟨calls.reverse, total, none⟩
    else
      let req := if len < total + cs then len - total else cs
      let r := fn req off
      let calls := (req, off) :: calls
      let total' := total + r.n
      match r.err with
      | some e => ⟨calls.reverse, total', some e⟩
      | none =>
        if r.n < cs then ⟨calls.reverse, total', none⟩
        else loop cs fn len fuel total' (off + r.n) calls

/-- `chunk(chunkSize, fn, p, offset)` with `len = len(p)`. -/
def chunk (cs : Nat) (fn : Nat → Nat → FnRes) (len off : Nat) : Result :=
  if len = 0 then
    let r := fn 0 off
    ⟨[(0, off)], r.n, r.err⟩
  else loop cs fn len (len + 1) 0 off []

/-! ## remote file as a byte string -/

/-- server side of one Tread on content `F`, then `readAt`'s EOF rule:
zero bytes for a non-empty request is reported as io.EOF. -/
def readFn (F : Bytes) (req off : Nat) : FnRes :=
  let n := min req (F.length - off)
  if n = 0 ∧ req > 0 then ⟨0, some eofCode⟩ else ⟨n, none⟩

/-- `ReadAt(p, off)` on content `F`: (bytes delivered, error). -/
def readAt (cs : Nat) (F : Bytes) (len off : Nat) : Result := chunk cs (readFn F) len off

/-- a backend that accepts every byte offered. -/
def acceptAll (req _off : Nat) : FnRes := ⟨req, none⟩

/-- replace `F[off : off+|p|]` by `p`, zero-extending `F` if needed (what WriteAt does to a file). -/
def splice (F : Bytes) (off : Nat) (p : Bytes) : Bytes :=
  (F ++ List.replicate (off - F.length) 0).take off ++ p ++ F.drop (off + p.length)

/-- apply the chunk writes `(len, off)` of a run to the file, taking the bytes from `p` in order. -/
def applyWrites (F : Bytes) (p : Bytes) : List (Nat × Nat) → Bytes
  | [] => F
  | (n, off) :: rest => applyWrites (splice F off (p.take n)) (p.drop n) rest

end P9.Chunk
