import P9Model.Basic.Bytes
/-!
# Version strings and Tversion negotiation (model of p9/version.go, tversion.handle, NewClient)
Strings are byte strings.  `parseUint32` is `strconv.ParseUint(s, 10, 32)`: ASCII digits only,
non-empty, no sign, value < 2^32.
-/
namespace P9.Version
open P9

def ofStr (s : String) : Bytes := s.toUTF8.toList

def s9P2000 : Bytes := [0x39, 0x50, 0x32, 0x30, 0x30, 0x30]            -- "9P2000"
def s9P2000L : Bytes := s9P2000 ++ [0x2e, 0x4c]                         -- "9P2000.L"
def s9P2000u : Bytes := s9P2000 ++ [0x2e, 0x75]                         -- "9P2000.u"
def sGooglePrefix : Bytes := s9P2000L ++ [0x2e, 0x47, 0x6f, 0x6f, 0x67, 0x6c, 0x65, 0x2e]  -- "9P2000.L.Google."
def sUnknown : Bytes := [0x75, 0x6e, 0x6b, 0x6e, 0x6f, 0x77, 0x6e]      -- "unknown"

inductive Base | b9P2000 | u | L
deriving DecidableEq, Repr

def isDigit (c : UInt8) : Bool := 0x30 ≤ c && c ≤ 0x39

/-- `strconv.ParseUint(s, 10, 32)` -/
def parseUint32 (ds : Bytes) : Option Nat :=
  if ds.isEmpty then none else
  let r := ds.foldl (fun acc c => match acc with
    | none => none
    | some n => if isDigit c then
        (let n' := n * 10 + (c.toNat - 0x30); if n' < 2 ^ 32 then some n' else none)
      else none) (some 0)
  r

/-- `strings.Split(s, ".")` -/
def splitDots (s : Bytes) : List Bytes :=
  let rec go : Bytes → Bytes → List Bytes → List Bytes
    | [], cur, acc => (cur.reverse :: acc).reverse
    | c :: rest, cur, acc => if c == 0x2e then go rest [] (cur.reverse :: acc) else go rest (c :: cur) acc
  go s [] []

def sL : Bytes := [0x4c]
def sGoogle : Bytes := [0x47, 0x6f, 0x6f, 0x67, 0x6c, 0x65]

/-- `parseVersion` -/
def parseVersion (s : Bytes) : Option (Base × Nat) :=
  if s = s9P2000L then some (.L, 0)
  else if s = s9P2000u then some (.u, 0)
  else if s = s9P2000 then some (.b9P2000, 0)
  else
    match splitDots s with
    | [a, b, c, d] =>
      if a = s9P2000 ∧ b = sL ∧ c = sGoogle ∧ d ≠ [] then
        match parseUint32 d with
        | some v => some (.L, v)
        | none => none
      else none
    | _ => none

/-- decimal digits of `n`, most significant first (`fmt.Sprintf("%d", n)`). -/
def decimalAux : Nat → Nat → Bytes → Bytes
  | 0, _, acc => acc
  | fuel+1, n, acc =>
    let acc := UInt8.ofNat (0x30 + n % 10) :: acc
    if n / 10 = 0 then acc else decimalAux fuel (n / 10) acc

def decimal (n : Nat) : Bytes := decimalAux (n + 1) n []

/-- `versionString(version9P2000L, v)` -/
def versionString (v : Nat) : Bytes :=
  if v = 0 then s9P2000L else sGooglePrefix ++ decimal v

def highest : Nat := 7
def maxLen : Nat := 4 * 1024 * 1024

/-- `tversion.handle`: the (msize, version) of the Rversion – it is always an Rversion. -/
def tversion (msize : Nat) (v : Bytes) : Nat × Bytes :=
  if msize = 0 then (0, sUnknown)
  else
    match parseVersion v with
    | some (.L, n) => (min msize maxLen, versionString (min n highest))
    | _ => (0, sUnknown)

/-- the property's notion: "9P2000.L" or "9P2000.L.Google.N", N a decimal numeral < 2^32 (I1). -/
def isDotL (v : Bytes) : Prop :=
  v = s9P2000L ∨ ∃ d, v = sGooglePrefix ++ d ∧ (parseUint32 d).isSome ∧ (∀ c ∈ d, c ≠ 0x2e)

/-- the number a 9P2000.L version string denotes. -/
def dotLNumber (v : Bytes) : Option Nat :=
  match parseVersion v with
  | some (.L, n) => some n
  | _ => none

/-! ## client side (NewClient after the `fix:` that adopts the reply's msize) -/

def roundDown (p align : Nat) : Nat := if p > align ∧ p % align ≠ 0 then p - p % align else p

structure ClientCfg where
  msize : Nat
  payload : Nat
  version : Nat
deriving DecidableEq, Repr

/-- outcome of `NewClient` given what it asked for and what the server's Rversion says. -/
def negotiate (largestFixed reqMsize : Nat) (replyMsize : Nat) (replyVersion : Bytes) : Option ClientCfg :=
  match parseVersion replyVersion with
  | some (.L, n) =>
    let ms := min reqMsize replyMsize
    if ms ≤ largestFixed then none
    else some { msize := ms, payload := roundDown (ms - largestFixed) 512, version := n }
  | _ => none

end P9.Version
