import P9Model.Gen.Stubs
import P9Model.Spec.Transparency
/-! Obligations on the regenerated stub / handler facts (C03, C10). -/
namespace P9.Client
open P9.Gen P9.Spec.Transparency

/-- every T-message literal built by the client contains the expected `field: source` pairs
(in particular the receiver's fid), and every message type of the table is built somewhere. -/
def stubsOk : Bool :=
  Gen.stubLits.all (fun l =>
    match stubExpect.find? (·.1 == l.msg) with
    | some (_, want) => want.all (fun w => l.fields.contains w)
    | none => false) &&
  stubExpect.all (fun e => Gen.stubLits.any (·.msg == e.1))

/-- the receiver-addressing fields are always `c.fid` -/
def stubsSetReceiverFid : Bool :=
  Gen.stubLits.all fun l =>
    let recvField := if ["tmkdir", "tsymlink", "tlink", "tmknod", "tunlinkat", "treaddir"].contains l.msg then "Directory"
      else if l.msg == "trenameat" then "OldDirectory" else "fid"
    if ["tattach", "tauth", "tucreate", "tumkdir", "tumknod", "tusymlink"].contains l.msg then true
    else l.fields.contains (recvField, "c.fid")

/-- every request-driven backend call in the handlers has the receiver and argument list the
table prescribes, and every row of the table occurs. -/
def handlersOk : Bool :=
  handlerExpect.all (fun e => Gen.backendCalls.any (fun c => c.method == e.1 && c.recv == e.2.1 && c.args == e.2.2)) &&
  Gen.backendCalls.all (fun c =>
    -- calls outside the table: lifecycle and walk plumbing, which carry no client parameter
    ["Close", "Renamed", "Walk", "WalkGetAttr", "SetXattr", "RemoveXattr"].contains c.method ||
    (c.method == "GetAttr" && c.args == ["AttrMaskAll"]) ||
    handlerExpect.any (fun e => c.method == e.1 && c.recv == e.2.1 && c.args == e.2.2))

def fieldMapsOk : Bool := stubsOk && handlersOk

end P9.Client

namespace P9.Client
/-- **Where fids go back to the pool** (regenerated, by guard rather than by place): a fid obtained
from `Get` in the same function is given back only in the error branch of the `sendRecv` that would
have bound it (Tattach, Twalk, Twalkgetattr, Txattrwalk); a File's own fid only after a `sendRecv`
that returned nil and that can carry nothing but Tclunk / Tremove (also through a helper: the
literals at its call sites); there is no other `Put`; every `Get` has its failure path. -/
def fidPoolSitesOk : Bool :=
  Gen.fidPutSites.all (fun s =>
    let what := s.2.1; let guard := s.2.2.1; let reqs := s.2.2.2
    (what == "fresh" && guard == "send-failed" && !reqs.isEmpty &&
      reqs.all (["tattach", "twalk", "twalkgetattr", "txattrwalk"].contains ·)) ||
    (what == "own" && guard == "send-succeeded" && !reqs.isEmpty && reqs.all (["tclunk", "tremove"].contains ·))) &&
  (Gen.fidPoolOps.filter (·.2.1 == "Get")).length == (Gen.fidPutSites.filter (·.2.1 == "fresh")).length &&
  (Gen.fidPoolOps.filter (·.2.1 == "Put")).length == Gen.fidPutSites.length &&
  Gen.fidPutSites.any (·.2.1 == "own")
end P9.Client
