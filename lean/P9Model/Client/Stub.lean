import P9Model.Session.Dispatch
/-!
# M6 — the client's stubs (p9/client_file.go) and error translation (linux/errors.go)

`wire v m a` is the list of T-messages `(type, named field values)` a client File method puts
on the wire at negotiated version `v`; fids the client allocates during the call are written
`N`.  `extract` is `ExtractErrno` (after the D12 `fix:`): an errno anywhere in the chain wins,
then the portable sentinels, else EIO.
-/
namespace P9.Client
open P9

/-- error values a backend may return, by what `ExtractErrno` can see in them -/
inductive ErrKind
  | linuxErrno      -- linux.Errno (possibly wrapped)
  | sysErrno        -- syscall.Errno (possibly wrapped, e.g. in *os.PathError)
  | notExist | exist | permission | invalid     -- os.Err* without an errno
  | opaque
deriving DecidableEq, Repr

/-- `ExtractErrno` -/
def extract (k : ErrKind) (code : Nat) : Nat :=
  match k with
  | .linuxErrno => code
  | .sysErrno => code
  | .notExist => 2      -- ENOENT
  | .exist => 17        -- EEXIST
  | .permission => 13   -- EACCES
  | .invalid => 22      -- EINVAL
  | .opaque => 5        -- EIO

def versionSupportsTwalkgetattr (v : Nat) : Bool := v ≥ 2
def versionSupportsTucreation (v : Nat) : Bool := v ≥ 3

def NoUID : Nat := 4294967295
def NoGID : Nat := 4294967295

/-- the File methods the client implements remotely -/
inductive Method
  | statFS | getAttr | setAttr | lock | open_ | fsync | readAt | writeAt | create | mkdir | symlink
  | mknod | link | unlinkAt | renameAt | rename | readdir | readlink | walk | walkGetAttr
  | remove | getXattr | listXattrs | close
deriving DecidableEq, Repr

/-- the request type(s) a method starts with at version `v` -/
def firstType (v : Nat) : Method → Nat
  | .statFS => 8 | .getAttr => 24 | .setAttr => 26 | .lock => 52 | .open_ => 12 | .fsync => 50
  | .readAt => 116 | .writeAt => 118
  | .create => if versionSupportsTucreation v then 128 else 14
  | .mkdir => if versionSupportsTucreation v then 130 else 72
  | .symlink => if versionSupportsTucreation v then 134 else 16
  | .mknod => if versionSupportsTucreation v then 132 else 18
  | .link => 70 | .unlinkAt => 76 | .renameAt => 74 | .rename => 20 | .readdir => 40 | .readlink => 22
  | .walk => 110
  | .walkGetAttr => if versionSupportsTwalkgetattr v then 126 else 110
  | .remove => 122 | .getXattr => 30 | .listXattrs => 30 | .close => 120

/-- the version that introduced a request type (0 = plain 9P2000.L) -/
def definedAt (typ : Nat) : Nat :=
  if typ = 126 then 2                                            -- Twalkgetattr
  else if typ = 128 ∨ typ = 130 ∨ typ = 132 ∨ typ = 134 then 3   -- Tucreate, Tumkdir, Tumknod, Tusymlink
  else 0

/-- what the creation stubs send for (uid, gid) at version `v` -/
def ids (v uid gid : Nat) : Nat × Nat := if versionSupportsTucreation v then (uid, gid) else (NoUID, NoGID)

end P9.Client
