/-!
# The tag / fid allocator (p9/pool.go)
-/
namespace P9.Pool

structure Pool where
  cache : List Nat := []
  start : Nat
  limit : Nat
deriving Repr, DecidableEq

/-- `Get`: the most recently returned value if any, else the next fresh one, else failure. -/
def pget (p : Pool) : Option Nat × Pool :=
  match p.cache.getLast? with
  | some v => (some v, { p with cache := p.cache.dropLast })
  | none => if p.start = p.limit then (none, p) else (some p.start, { p with start := p.start + 1 })

/-- `Put` -/
def pput (p : Pool) (v : Nat) : Pool := { p with cache := p.cache ++ [v] }

/-- allocator together with the ghost set of values currently handed out -/
structure St where
  p : Pool
  out : List Nat := []
deriving Repr

inductive Op | get | put (v : Nat)
deriving Repr, DecidableEq

/-- a step; `put v` is only meaningful for a value currently out (the client's discipline:
a tag is returned by the call that got it, a fid after its clunk/remove was confirmed or the
request that would have bound it failed) -/
def step (s : St) : Op → St
  | .get =>
    match pget s.p with
    | (some v, p') => { p := p', out := v :: s.out }
    | (none, p') => { s with p := p' }
  | .put v => if v ∈ s.out then { p := pput s.p v, out := s.out.erase v } else s

def run (s : St) (ops : List Op) : St := ops.foldl step s

/-- invariant: everything in the cache or handed out is distinct and lies in
`[start₀, start) ⊆ [start₀, limit)`. -/
def PoolInv (start0 : Nat) (s : St) : Prop :=
  (s.p.cache ++ s.out).Nodup ∧ (∀ x ∈ s.p.cache ++ s.out, start0 ≤ x ∧ x < s.p.start) ∧
  s.p.start ≤ s.p.limit ∧ start0 ≤ s.p.start

end P9.Pool
