import P9Model.Basic.Bytes
import P9Model.Wire.Codec
import P9Model.Wire.Msg
import P9Model.Wire.Registry
import P9Model.Spec.NineP
import P9Model.Transport.Recv
import P9Model.Transport.RoundTrip
import P9Model.Props.C01
